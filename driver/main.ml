(* Driver for the extracted model: reads cases (integers, see
   harness/modelrun.py:case_tokens), runs the model's [simulate] for every
   operation, prints the observer snapshots and the final dump as lines of
   integers.  Hand-written glue: conversion int <-> nat/Z/positive/Q, parser,
   printer.  A bug here can produce a false disagreement or mask one in the
   correspondence; it cannot make a theorem true. *)
module B = Z   (* zarith *)
open Sim

let rec nat_of_int n = if n <= 0 then O else S (nat_of_int (n - 1))
let rec int_of_nat = function O -> 0 | S n -> 1 + int_of_nat n
let rec pos_of_int n = if n <= 1 then XH else if n land 1 = 0 then XO (pos_of_int (n lsr 1)) else XI (pos_of_int (n lsr 1))
let rec int_of_pos = function XH -> 1 | XO p -> 2 * int_of_pos p | XI p -> 2 * int_of_pos p + 1
let z_of_int n = if n = 0 then Z0 else if n > 0 then Zpos (pos_of_int n) else Zneg (pos_of_int (-n))
let int_of_z = function Z0 -> 0 | Zpos p -> int_of_pos p | Zneg p -> - (int_of_pos p)
let q_of n d = { qnum = z_of_int n; qden = pos_of_int d }
(* unreduced rationals of the model can have very large numerators and
   denominators: reduce with arbitrary-precision integers (zarith) for printing *)
let rec big_of_pos = function XH -> B.one | XO p -> B.shift_left (big_of_pos p) 1 | XI p -> B.succ (B.shift_left (big_of_pos p) 1)
let big_of_z = function Z0 -> B.zero | Zpos p -> big_of_pos p | Zneg p -> B.neg (big_of_pos p)
let q_pair x = let n = big_of_z x.qnum and d = big_of_pos x.qden in let g = B.gcd n d in
  let g = if B.equal g B.zero then B.one else g in (B.div n g, B.div d g)

(* ------------------------------------------------------------ input *)
let toks : int array ref = ref [||]
let pos = ref 0
let next () = let v = !toks.(!pos) in incr pos; v
let next_q () = let n = next () in let d = next () in q_of n d
let next_list f = let n = next () in List.init n (fun _ -> f ())
let next_nat () = nat_of_int (next ())
let next_bool () = next () <> 0
let next_opt_nat () = let v = next () in if v < 0 then None else Some (nat_of_int v)

let table (a : 'a array) (dflt : 'a) : nat -> 'a = fun n -> let i = int_of_nat n in if i < Array.length a then a.(i) else dflt

let dep_of = function 0 -> FS | 1 -> SS | 2 -> FF | _ -> SF

type taskrec = { name : nat; work : q; prog : q; rate : q; auto : bool; nf : bool; comp : nat option;
                 ins : (nat * dep) list; outs : (nat * dep) list; teams : nat list; wps : nat list;
                 fixw : nat list option; fixf : nat list option; wr : z; fr : z; pr : z; due : z }

let read_cfg () : cfg =
  let nt = next () in let nw = next () in let nf = next () in let nc = next () in let nteam = next () in let nwp = next () in
  let edge () = let p = next_nat () in let k = dep_of (next ()) in (p, k) in
  let optlist () = let n = next () in if n < 0 then None else Some (List.init n (fun _ -> next_nat ())) in
  let skills () = next_list (fun () -> let k = next_nat () in let v = next_q () in (k, v)) in
  let tasks = Array.init nt (fun _ ->
    let name = next_nat () in let work = next_q () in let prog = next_q () in let rate = next_q () in
    let auto = next_bool () in let nfac = next_bool () in let comp = next_opt_nat () in
    let ins = next_list edge in let outs = next_list edge in
    let teams = next_list next_nat in let wps = next_list next_nat in
    let fixw = optlist () in let fixf = optlist () in
    let wr = z_of_int (next ()) in let fr = z_of_int (next ()) in let pr = z_of_int (next ()) in let due = z_of_int (next ()) in
    { name; work; prog; rate; auto; nf = nfac; comp; ins; outs; teams; wps; fixw; fixf; wr; fr; pr; due }) in
  let workers = Array.init nw (fun _ ->
    let team = next_nat () in let sk = skills () in let fsk = skills () in let cost = next_q () in
    let solo = next_bool () in let abs = next_list next_nat in let mw = next_opt_nat () in
    (team, sk, fsk, cost, solo, abs, mw)) in
  let teams = Array.init nteam (fun _ -> next_list next_nat) in
  let facs = Array.init nf (fun _ ->
    let wp = next_nat () in let name = next_nat () in let sk = skills () in let cost = next_q () in
    let solo = next_bool () in let abs = next_list next_nat in (wp, name, sk, cost, solo, abs)) in
  let wps = Array.init nwp (fun _ ->
    let fs = next_list next_nat in let cap = next_q () in let ins = next_list next_nat in (fs, cap, ins)) in
  let comps = Array.init nc (fun _ ->
    let size = next_q () in let ch = next_list next_nat in let pa = next_list next_nat in let ts = next_list next_nat in
    (size, ch, pa, ts)) in
  let q0 = q_of 0 1 in
  let dt = { name = O; work = q0; prog = q0; rate = q0; auto = false; nf = false; comp = None; ins = []; outs = [];
             teams = []; wps = []; fixw = None; fixf = None; wr = Z0; fr = Z0; pr = Z0; due = Z0 } in
  let t f = fun n -> f (table tasks dt n) in
  let dw = (O, [], [], q0, false, [], None) in
  let w f = fun n -> f (table workers dw n) in
  let df = (O, O, [], q0, false, []) in
  let fa f = fun n -> f (table facs df n) in
  let dwp = ([], q0, []) in
  let p f = fun n -> f (table wps dwp n) in
  let dc = (q0, [], [], []) in
  let cm f = fun n -> f (table comps dc n) in
  { nT = nat_of_int nt; nW = nat_of_int nw; nF = nat_of_int nf; nC = nat_of_int nc; nTeam = nat_of_int nteam; nWP = nat_of_int nwp;
    t_name = t (fun x -> x.name); t_work = t (fun x -> x.work); t_progress = t (fun x -> x.prog); t_rate = t (fun x -> x.rate);
    t_auto = t (fun x -> x.auto); t_needfac = t (fun x -> x.nf); t_comp = t (fun x -> x.comp);
    t_inputs = t (fun x -> x.ins); t_outputs = t (fun x -> x.outs); t_teams = t (fun x -> x.teams); t_wps = t (fun x -> x.wps);
    t_fixw = t (fun x -> x.fixw); t_fixf = t (fun x -> x.fixf);
    t_wrule = t (fun x -> x.wr); t_frule = t (fun x -> x.fr); t_prule = t (fun x -> x.pr); t_due = t (fun x -> x.due);
    w_team = w (fun (a,_,_,_,_,_,_) -> a); w_skills = w (fun (_,a,_,_,_,_,_) -> a); w_fskills = w (fun (_,_,a,_,_,_,_) -> a);
    w_cost = w (fun (_,_,_,a,_,_,_) -> a); w_solo = w (fun (_,_,_,_,a,_,_) -> a); w_abs = w (fun (_,_,_,_,_,a,_) -> a);
    w_mainwp = w (fun (_,_,_,_,_,_,a) -> a);
    team_workers = table teams [];
    f_wp = fa (fun (a,_,_,_,_,_) -> a); f_name = fa (fun (_,a,_,_,_,_) -> a); f_skills = fa (fun (_,_,a,_,_,_) -> a);
    f_cost = fa (fun (_,_,_,a,_,_) -> a); f_solo = fa (fun (_,_,_,_,a,_) -> a); f_abs = fa (fun (_,_,_,_,_,a) -> a);
    wp_facs = p (fun (a,_,_) -> a); wp_cap = p (fun (_,a,_) -> a); wp_inputs = p (fun (_,_,a) -> a);
    c_size = cm (fun (a,_,_,_) -> a); c_children = cm (fun (_,a,_,_) -> a); c_parents = cm (fun (_,_,a,_) -> a);
    c_tasks = cm (fun (_,_,_,a) -> a) }

(* ----------------------------------------------------------- output *)
let buf = Buffer.create 65536
let pi n = Buffer.add_string buf (string_of_int n); Buffer.add_char buf ' '
let pq x = let (n, d) = q_pair x in Buffer.add_string buf (B.to_string n); Buffer.add_char buf ' ';
  Buffer.add_string buf (B.to_string d); Buffer.add_char buf ' ' 
let pl f l = pi (List.length l); List.iter f l
let pn n = pi (int_of_nat n)
let nl () = Buffer.add_char buf '\n'
let ps s = Buffer.add_string buf s; Buffer.add_char buf ' '

let ts_int = function TNone -> 0 | TReady -> 1 | TWorking -> 2 | TWorkingAdd -> 3 | TFinished -> -1
let rs_int = function RFree -> 0 | RWorking -> 1 | RAbsence -> -1
let cs_int = function CNone -> 0 | CReady -> 1 | CWorking -> 2 | CFinished -> -1 | CRemoved -> -2
let st_int = function StNone -> 0 | StSuccess -> 1 | StFailure -> -1
let ph_int = function PUpdated -> 0 | PAllocated -> 1 | PPerformed -> 2 | PRecorded -> 3
let popt = function None -> pi (-1) | Some n -> pn n

let range n = List.init n (fun i -> i)

let print_live (c : cfg) (s : pstate) =
  ps "G"; pn s.time; pi (st_int s.status); pq s.cpl; nl ();
  List.iter (fun i -> let x = s.td (nat_of_int i) in
    ps "T"; pi i; pi (ts_int x.st); pq x.rem; pl pn x.aw; pl pn x.af; pq x.est; pq x.eft; pq x.lst; pq x.lft; nl ()) (range (int_of_nat c.nT));
  List.iter (fun i -> let x = s.wd (nat_of_int i) in ps "W"; pi i; pi (rs_int x.rst); pl pn x.asg; nl ()) (range (int_of_nat c.nW));
  List.iter (fun i -> let x = s.fd (nat_of_int i) in ps "F"; pi i; pi (rs_int x.rst); pl pn x.asg; nl ()) (range (int_of_nat c.nF));
  List.iter (fun i -> let x = s.cd (nat_of_int i) in ps "C"; pi i; pi (cs_int x.cst); popt x.pw; nl ()) (range (int_of_nat c.nC));
  List.iter (fun i -> ps "P"; pi i; pl pn (s.wpc (nat_of_int i)); nl ()) (range (int_of_nat c.nWP))

let print_logs (c : cfg) (s : pstate) =
  ps "LC"; pl pq s.costl; nl ();
  ps "LO"; pl pq s.orgl; nl ();
  List.iter (fun i -> let g = s.tl (nat_of_int i) in
    ps "LT"; pi i; pl (fun x -> pi (ts_int x)) g.l_st; pl pq g.l_rem; pl (pl pn) g.l_aw; pl (pl pn) g.l_af; nl ()) (range (int_of_nat c.nT));
  List.iter (fun i -> let g = s.wl (nat_of_int i) in
    ps "LW"; pi i; pl (fun x -> pi (rs_int x)) g.rl_st; pl pq g.rl_cost; pl (pl pn) g.rl_asg; nl ()) (range (int_of_nat c.nW));
  List.iter (fun i -> let g = s.fl (nat_of_int i) in
    ps "LF"; pi i; pl (fun x -> pi (rs_int x)) g.rl_st; pl pq g.rl_cost; pl (pl pn) g.rl_asg; nl ()) (range (int_of_nat c.nF));
  List.iter (fun i -> let g = s.cl (nat_of_int i) in
    ps "LK"; pi i; pl (fun x -> pi (cs_int x)) g.cl_st; pl popt g.cl_pw; nl ()) (range (int_of_nat c.nC));
  List.iter (fun i -> let g = s.wpl (nat_of_int i) in
    ps "LP"; pi i; pl pq g.wl_cost; pl (pl pn) g.wl_pc; nl ()) (range (int_of_nat c.nWP));
  List.iter (fun i -> ps "LG"; pi i; pl pq (s.teaml (nat_of_int i)); nl ()) (range (int_of_nat c.nTeam))

let () =
  let data = let b = Buffer.create 65536 in
    (try while true do Buffer.add_channel b stdin 1 done with End_of_file -> ()); Buffer.contents b in
  let parts = String.split_on_char ' ' (String.map (fun ch -> if ch = '\n' then ' ' else ch) data) in
  toks := Array.of_list (List.filter_map (fun s -> if s = "" then None else Some (int_of_string s)) parts);
  let ncases = next () in
  for ci = 0 to ncases - 1 do
    let want_snaps = next_bool () in
    let c = read_cfg () in
    let nops = next () in
    let s = ref (blank c) in
    let ab = ref [] in        (* project.absence_time_list *)
    ps "CASE"; pi ci; nl ();
    for oi = 0 to nops - 1 do
      let opcode = next () in
      (match opcode with
       | 0 ->
         let rule = z_of_int (next ()) in
         let abs = next_list next_nat in
         let auto_abs = next_bool () in
         let ist = next_bool () in let ilg = next_bool () in
         let mt = next_nat () in
         let crank = next_list next_nat in
         let o = { o_rule = rule; o_abs = abs; o_auto_abs = auto_abs; o_init_state = ist; o_init_log = ilg; o_max_time = mt; o_crank = crank } in
         let (s', tr) = simulate c o !s in
         s := s'; ab := abs;
         if want_snaps then
           List.iter (fun ((k, ph), sn) -> ps "SNAP"; pi oi; pn k; pi (ph_int ph); nl (); print_live c sn) tr
       | 1 ->
         let (ab', s') = remove_absence c (!ab, !s) in ab := ab'; s := s'
       | 2 ->
         let l = next_list next_nat in
         let (ab', s') = insert_absence c l (!ab, !s) in ab := ab'; s := s'
       | 3 ->
         let (ab', s') = reverse_log c (!ab, !s) in ab := ab'; s := s'
       | 4 ->
         let due = next_bool () in let rv = next_bool () in
         let rule = z_of_int (next ()) in
         let abs = next_list next_nat in
         let auto_abs = next_bool () in
         let ist = next_bool () in let ilg = next_bool () in
         let mt = next_nat () in
         let crank = next_list next_nat in
         let o = { o_rule = rule; o_abs = abs; o_auto_abs = auto_abs; o_init_state = ist; o_init_log = ilg; o_max_time = mt; o_crank = crank } in
         let (ab', s') = backward_simulate c due rv o (!ab, !s) in ab := ab'; s := s'
       | 5 ->
         let ist = next_bool () in let ilg = next_bool () in
         let o = { o_rule = z_of_int 0; o_abs = []; o_auto_abs = false; o_init_state = ist; o_init_log = ilg; o_max_time = nat_of_int 0; o_crank = [] } in
         s := initialize c o !s
       | _ -> failwith "unknown opcode");
      ps "DUMP"; pi oi; nl ();
      print_live c !s;
      print_logs c !s;
      ps "LA"; pl pn !ab; nl ()
    done;
    ps "END"; nl ();
    print_string (Buffer.contents buf); Buffer.clear buf
  done

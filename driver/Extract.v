(* Extraction of the executable model for the correspondence check.
   ExtrOcamlBasic only: bool, option, list, prod, unit, sumbool are mapped to
   OCaml's; nat, positive, Z, Q stay the extracted inductive types.
   No Extract Constant / Extract Inductive of our own. *)
Require Extraction.
Require Import ExtrOcamlBasic.
From PV Require Import Model.Types Model.Sim Model.LogEdit Model.RevLog Model.BackwardRun.
Extraction "sim.ml" simulate blank mkCfg mkOpts initialize update remove_absence insert_absence reverse_log backward_simulate.

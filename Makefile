# /verif build: full .vo build of the Coq development (and, later, the extracted driver)
.PHONY: setup coq clean
setup: coq
coq:
	PYTHONPATH=/verif /venv/bin/python -c 'from harness import extract; print(extract.regenerate())'
	cd coq && coq_makefile -f _CoqProject -o Makefile && timeout 3000 $(MAKE) -j8
clean:
	cd coq && [ -f Makefile ] && $(MAKE) clean || true
	rm -rf .work

driver: coq
	cd driver && coqc -Q ../coq PV Extract.v && ocamlfind ocamlopt -O3 -package zarith -linkpkg -w -a sim.mli sim.ml main.ml -o simdriver
setup: driver

# /verif build: full .vo build of the Coq development (and, later, the extracted driver)
.PHONY: setup coq clean coqchk
setup: coq
coq:
	PYTHONPATH=/verif /venv/bin/python -c 'from harness import extract; print(extract.regenerate())'
	cd coq && coq_makefile -f _CoqProject -o Makefile && timeout 3000 $(MAKE) -j8
clean:
	cd coq && [ -f Makefile ] && $(MAKE) clean || true
	rm -rf .work

driver: coq
	cd driver && coqc -Q ../coq PV Extract.v && ocamlfind ocamlopt -O3 -package zarith -linkpkg -w -a sim.mli sim.ml main.ml -o simdriver
setup: driver

# independent re-check of every compiled property file and everything it depends on (about 90 s);
# prints the axioms of the whole context (expected: functional_extensionality_dep only)
coqchk: coq
	cd coq && coqchk -silent -o -Q . PV $(foreach n,01 02 03 04 05 06 07 08 09 10 11 12 13 14 15 16 17 18 19 20,PV.Props.C$(n))

"""Build a pDESy project from a case, run its operation list against the real
classes, and record snapshots (through the guarded observer hook) and log
dumps as plain Python values (ints, Fractions, lists) with objects replaced
by their position in the owning list."""
import copy
import datetime
import json
import os
import tempfile
import warnings
from fractions import Fraction

from . import common as C

from pDESy.model.base_project import BaseProject, BaseProjectStatus, SimulationMode
from pDESy.model.base_workflow import BaseWorkflow
from pDESy.model.base_task import BaseTask, BaseTaskState, BaseTaskDependency
from pDESy.model.base_subproject_task import BaseSubProjectTask
from pDESy.model.base_product import BaseProduct
from pDESy.model.base_component import BaseComponent, BaseComponentState
from pDESy.model.base_organization import BaseOrganization
from pDESy.model.base_team import BaseTeam
from pDESy.model.base_worker import BaseWorker, BaseWorkerState
from pDESy.model.base_workplace import BaseWorkplace
from pDESy.model.base_facility import BaseFacility, BaseFacilityState
from pDESy.model.base_priority_rule import (
    TaskPriorityRuleMode, ResourcePriorityRuleMode, WorkplacePriorityRuleMode)

INIT_DT = datetime.datetime(2020, 1, 1)


def Q(s):
    return Fraction(s)


def fl(s):
    if s == "inf":
        return float("inf")        # an unlimited capacity (C16 only: the model's numbers are rationals)
    return float(Fraction(s))


# ---------------------------------------------------------------- hash pin
_RANK = {"task": {}, "comp": {}}
EVENTS = []
_orig_hash = {}


def pin_hashes():
    """class-level __hash__ from a rank table keyed by ID (harness process
    only).  With ranks < 8 distinct, CPython iterates a set of such objects in
    ascending rank order whatever the insertion order."""
    if _orig_hash:
        return

    def th(self):
        return _RANK["task"].get(self.ID, 1000 + (id(self) >> 4) % 100000)

    def ch(self):
        return _RANK["comp"].get(self.ID, 1000 + (id(self) >> 4) % 100000)
    _orig_hash["t"] = BaseTask.__hash__
    _orig_hash["c"] = BaseComponent.__hash__
    BaseTask.__hash__ = th
    BaseComponent.__hash__ = ch
    # placement events (C13 d): every non-None placement of a component object
    orig_set = BaseComponent.set_placed_workplace
    _orig_hash["set"] = orig_set

    def set_pw(self, placed_workplace, set_to_all_children=True):
        if placed_workplace is not None:
            EVENTS.append((self.ID, placed_workplace.ID))
        return orig_set(self, placed_workplace, set_to_all_children=set_to_all_children)
    BaseComponent.set_placed_workplace = set_pw


def unpin_hashes():
    if _orig_hash:
        BaseTask.__hash__ = _orig_hash.pop("t")
        BaseComponent.__hash__ = _orig_hash.pop("c")
        BaseComponent.set_placed_workplace = _orig_hash.pop("set")
    _RANK["task"].clear()
    _RANK["comp"].clear()


def set_ranks(case):
    _RANK["task"].clear()
    _RANK["comp"].clear()
    rk = case.get("rank")
    if rk is not None:
        for i, r in enumerate(rk):
            _RANK["task"]["t%d" % i] = r
    ck = case.get("crank")
    if ck is not None:
        for i, r in enumerate(ck):
            _RANK["comp"]["c%d" % i] = r


def apply_ranks(b):
    """the rank tables for the IDs the built project actually has (ID schemes "num" / "uuid")"""
    case = b.case
    if case.get("ids") is None:
        return
    for key, kind, tab in (("rank", "t", "task"), ("crank", "c", "comp")):
        rk = case.get(key)
        if rk is not None:
            for i, r in enumerate(rk):
                _RANK[tab][b.ids[kind][i]] = r


# ------------------------------------------------------------------ build
class Built:
    pass


OMIT = object()
REG = {}        # (kind, ID) -> position in the owning list, for the ID schemes that are not "<kind><position>"


def make_ids(case):
    """the ID of every entity of a case.  pDESy never inspects an ID, it only compares them:
       default   "t3", "c0", "team1", "w2", "f2", "wp0"   (same_ids: team i = "wp<i>", facility i = "w<i>")
       "num"     plain ints 0, 1, 2, ... per class (what a numbered model uses; 0 is falsy; JSON keeps ints)
       "uuid"    tasks and components built WITHOUT an ID (the library's default, a fresh uuid4 string per
                 construction); the organisation's entities get uuid4 strings from the harness because
                 workers / tasks refer to them by ID at construction time"""
    nT, nC = len(case["tasks"]), len(case.get("comps", []))
    nTeam, nWP = len(case.get("teams", [])), len(case.get("wps", []))
    nW = sum(len(tm["workers"]) for tm in case.get("teams", []))
    nF = sum(len(wp.get("facs", [])) for wp in case.get("wps", []))
    sch = case.get("ids")
    if sch == "num":
        return {"t": list(range(nT)), "c": list(range(nC)), "team": list(range(nTeam)), "wp": list(range(nWP)),
                "w": list(range(nW)), "f": list(range(nF))}
    if sch == "uuid":
        import uuid

        def u(n):
            return [str(uuid.uuid4()) for _ in range(n)]
        return {"t": [OMIT] * nT, "c": [OMIT] * nC, "team": u(nTeam), "wp": u(nWP), "w": u(nW), "f": u(nF)}
    same = case.get("same_ids")
    return {"t": ["t%d" % i for i in range(nT)], "c": ["c%d" % i for i in range(nC)],
            "team": [("wp%d" if same else "team%d") % i for i in range(nTeam)], "wp": ["wp%d" % i for i in range(nWP)],
            "w": ["w%d" % i for i in range(nW)], "f": [("w%d" if same else "f%d") % i for i in range(nF)]}


def _idkw(x):
    return {} if x is OMIT else {"ID": x}


def build(case):
    b = Built()
    b.case = case
    I = make_ids(case)
    special = case.get("ids") is not None
    tasks = []
    for i, t in enumerate(case["tasks"]):
        kw = dict(
            name="n%d" % t["name"], **_idkw(I["t"][i]),
            default_work_amount=fl(t["work"]),
            work_amount_progress_of_unit_step_time=fl(t.get("rate", "1")),
            need_facility=bool(t.get("need_fac", False)),
            default_progress=fl(t.get("progress", "0")),
            due_time=t.get("due", -1),
            auto_task=bool(t.get("auto", False)),
            fixing_allocating_worker_id_list=(None if t.get("fixw") is None else [I["w"][j] for j in t["fixw"]]),
            fixing_allocating_facility_id_list=(None if t.get("fixf") is None else [I["f"][j] for j in t["fixf"]]),
            workplace_priority_rule=(int(t.get("prule", 0)) if case.get("int_rules") else WorkplacePriorityRuleMode(t.get("prule", 0))),
            worker_priority_rule=(int(t.get("wrule", -1)) if case.get("int_rules") else ResourcePriorityRuleMode(t.get("wrule", -1))),
            facility_priority_rule=(int(t.get("frule", 0)) if case.get("int_rules") else ResourcePriorityRuleMode(t.get("frule", 0))),
        )
        if t.get("sub"):
            obj = BaseSubProjectTask(**kw)
        else:
            obj = BaseTask(**kw)
        if special:
            I["t"][i] = obj.ID
            if case.get("rank") is not None:
                _RANK["task"][obj.ID] = case["rank"][i]
        tasks.append(obj)
    ext = case.get("builder") == "extend"       # the model wired with the extend_* / add_* / set_* builder methods
    if ext:
        runs = []                                # consecutive links into one task with one kind: one extend call
        for (p, s, k) in case.get("edges", []):
            if runs and runs[-1][0] == s and runs[-1][1] == k:
                runs[-1][2].append(tasks[p])
            else:
                runs.append((s, k, [tasks[p]]))
        for (s, k, preds) in runs:
            tasks[s].extend_input_task_list(preds, task_dependency_mode=(int(k) if case.get("int_deps") else BaseTaskDependency(k)))
    for (p, s, k) in ([] if ext else case.get("edges", [])):
        # the dependency kind as an enum member or as the plain int the JSON format stores
        tasks[s].append_input_task(tasks[p], task_dependency_mode=(int(k) if case.get("int_deps") else BaseTaskDependency(k)))
    for (p, s_, k) in case.get("edges_in", []):
        # a dependency declared on the successor's side only: BaseTask(input_task_list=[[pred, kind]])
        tasks[s_].input_task_list.append([tasks[p], BaseTaskDependency(k)])
    comps = []
    for i, c in enumerate(case.get("comps", [])):
        comps.append(BaseComponent("cn%d" % i, space_size=fl(c.get("size", "1")), **_idkw(I["c"][i])))
        if special:
            I["c"][i] = comps[-1].ID
            if case.get("crank") is not None:
                _RANK["comp"][comps[-1].ID] = case["crank"][i]
    for i, c in enumerate(case.get("comps", [])):
        if ext:
            comps[i].extend_child_component_list([comps[ch] for ch in c.get("children", [])])
            continue
        for ch in c.get("children", []):
            comps[i].append_child_component(comps[ch])
    b.ghosts = []
    for i, c in enumerate(case.get("comps", [])):
        if c.get("ghost_parent"):
            # a parent assembly that is not registered in this product (it belongs to another product, say)
            g = BaseComponent("ghost%d" % i, ID="ghost%d" % i)
            g.append_child_component(comps[i])
            b.ghosts.append(g)
    for i, t in enumerate(case["tasks"]):
        if t.get("comp") is not None:
            if ext:
                comps[t["comp"]].extend_targeted_task_list([tasks[i]])
            else:
                comps[t["comp"]].append_targeted_task(tasks[i])
    for ci, c in enumerate(case.get("comps", [])):
        for i in c.get("extra_tasks", []):
            # listed by the component only: BaseComponent(targeted_task_list=[...]) sets no back reference
            comps[ci].targeted_task_list.append(tasks[i])
    workers, teams = [], []
    # nothing forbids a team and a workplace with the same ID string: with same_ids team i is called "wp<i>"
    for ti, tm in enumerate(case.get("teams", [])):
        ws = []
        for w in tm["workers"]:
            gi = len(workers)
            wk = BaseWorker(
                "wn%d" % w.get("name", gi), ID=I["w"][gi], team_id=(None if case.get("adopt_ids") else I["team"][ti]),
                cost_per_time=fl(w.get("cost", "0")), solo_working=bool(w.get("solo", False)),
                workamount_skill_mean_map={"n%s" % k: fl(v) for k, v in w.get("skills", {}).items()},
                facility_skill_map={"fn%s" % k: fl(v) for k, v in w.get("fskills", {}).items()},
                absence_time_list=list(w.get("abs", [])),
                main_workplace_id=(None if w.get("mainwp") is None else I["wp"][w["mainwp"]]),
            )
            ws.append(wk)
            workers.append(wk)
        if ext:
            team = BaseTeam("teamn%d" % ti, ID=I["team"][ti])
            for wk in ws:
                team.add_worker(wk)
        else:
            team = BaseTeam("teamn%d" % ti, ID=I["team"][ti], worker_list=ws)
        teams.append(team)
    facs, wps = [], []
    for pi, wp in enumerate(case.get("wps", [])):
        fs = []
        for f in wp.get("facs", []):
            gi = len(facs)
            fc = BaseFacility(
                "fn%d" % f.get("name", gi), ID=I["f"][gi], workplace_id=(None if case.get("adopt_ids") else I["wp"][pi]),
                cost_per_time=fl(f.get("cost", "0")), solo_working=bool(f.get("solo", False)),
                workamount_skill_mean_map={"n%s" % k: fl(v) for k, v in f.get("skills", {}).items()},
                absence_time_list=list(f.get("abs", [])),
            )
            fs.append(fc)
            facs.append(fc)
        if ext:
            wps.append(BaseWorkplace("wpn%d" % pi, ID=I["wp"][pi], max_space_size=fl(wp.get("cap", "1"))))
            for fc in fs:
                wps[-1].add_facility(fc)
        else:
            wps.append(BaseWorkplace("wpn%d" % pi, ID=I["wp"][pi], facility_list=fs, max_space_size=fl(wp.get("cap", "1"))))
    for pi, wp in enumerate(case.get("wps", [])):
        if ext and not case.get("wp_oneside"):
            wps[pi].extend_input_workplace_list([wps[inp] for inp in wp.get("inputs", [])])
        for inp in ([] if ext and not case.get("wp_oneside") else wp.get("inputs", [])):
            if case.get("wp_oneside"):
                wps[pi].input_workplace_list.append(wps[inp])      # BaseWorkplace(input_workplace_list=[...])
            else:
                wps[pi].append_input_workplace(wps[inp])
        for q in wp.get("out_only", []):
            wps[pi].output_workplace_list.append(wps[q])           # declared on the source's side only
        if wp.get("parent") is not None:
            if ext:
                wps[pi].set_parent_workplace(wps[wp["parent"]])
            else:
                wps[pi].parent_workplace = wps[wp["parent"]]
    for ti, tm in enumerate(case.get("teams", [])):
        if tm.get("parent") is not None:
            if ext:
                teams[ti].set_parent_team(teams[tm["parent"]])
            else:
                teams[ti].parent_team = teams[tm["parent"]]
    for i, t in enumerate(case["tasks"]):
        for tm in t.get("teams", []):
            if case["teams"][tm].get("oneside"):
                teams[tm].targeted_task_list.append(tasks[i])      # what BaseTeam(targeted_task_list=[...]) gives
            elif ext:
                teams[tm].extend_targeted_task_list([tasks[i]])
            else:
                teams[tm].append_targeted_task(tasks[i])
        for wp in t.get("wps", []):
            if ext:
                wps[wp].extend_targeted_task_list([tasks[i]])
            else:
                wps[wp].append_targeted_task(tasks[i])
    b.tasks, b.comps, b.workers, b.teams, b.facs, b.wps = tasks, comps, workers, teams, facs, wps
    b.ids = I
    if special:
        for kind, lst in I.items():
            for i, x in enumerate(lst):
                REG[(kind, x)] = i
    if ext:
        product, workflow = BaseProduct(), BaseWorkflow()
        product.extend_child_component_list(comps)
        workflow.extend_child_task_list(tasks)
    else:
        product, workflow = BaseProduct(comps), BaseWorkflow(tasks)
    b.project = BaseProject(
        init_datetime=INIT_DT, unit_timedelta=datetime.timedelta(seconds=case.get("unit", 60)),
        product=product, workflow=workflow,
        organization=BaseOrganization(teams, wps))
    return b


def idx_of(prefix, s):
    if s is None:
        return None
    if (prefix, s) in REG:
        return REG[(prefix, s)]            # "num" / "uuid" schemes (ints, 36-character strings: no clash with "t3")
    if prefix == "team" and s.startswith("wp"):        # cases with same_ids: team i and workplace i share the ID "wp<i>"
        return int(s[2:])
    if prefix == "f" and s.startswith("w") and not s.startswith("wp"):     # ... and facility i and worker i the ID "w<i>"
        return int(s[1:])
    assert s.startswith(prefix), (prefix, s)
    return int(s[len(prefix):])


def ids(prefix, lst):
    if lst is None:
        return None
    return [idx_of(prefix, x) for x in lst]


# -------------------------------------------------------------- snapshots
def snap(project):
    wf, org, pr = project.workflow, project.organization, project.product
    s = {"time": project.time, "status": int(project.status), "mode": int(project.simulation_mode),
         "cpl": C.frac(wf.critical_path_length)}
    s["T"] = [{"st": int(t.state), "rem": C.frac(t.remaining_work_amount),
               "aw": [idx_of("w", w.ID) for w in t.allocated_worker_list],
               "af": [idx_of("f", f.ID) for f in t.allocated_facility_list],
               "est": C.frac(t.est), "eft": C.frac(t.eft), "lst": C.frac(t.lst), "lft": C.frac(t.lft)}
              for t in wf.task_list]
    s["W"] = [{"st": int(w.state), "as": [idx_of("t", t.ID) for t in w.assigned_task_list]}
              for tm in org.team_list for w in tm.worker_list]
    s["F"] = [{"st": int(f.state), "as": [idx_of("t", t.ID) for t in f.assigned_task_list]}
              for wp in org.workplace_list for f in wp.facility_list]
    s["C"] = [{"st": int(c.state), "pw": (None if c.placed_workplace is None else idx_of("wp", c.placed_workplace.ID))}
              for c in pr.component_list]
    s["WP"] = [{"pc": [idx_of("c", c.ID) for c in wp.placed_component_list]} for wp in org.workplace_list]
    return s


def dump(project):
    wf, org, pr = project.workflow, project.organization, project.product
    d = snap(project)
    d["abs"] = list(project.absence_time_list)
    d["auto_abs"] = bool(project.perform_auto_task_while_absence_time)
    d["cost"] = [C.frac(x) for x in project.cost_list]
    for t, e in zip(wf.task_list, d["T"]):
        e["l_st"] = [int(x) for x in t.state_record_list]
        e["l_rem"] = [C.frac(x) for x in t.remaining_work_amount_record_list]
        e["l_aw"] = [ids("w", x) for x in t.allocated_worker_id_record]
        e["l_af"] = [ids("f", x) for x in t.allocated_facility_id_record]
    ws = [w for tm in org.team_list for w in tm.worker_list]
    for w, e in zip(ws, d["W"]):
        e["l_st"] = [int(x) for x in w.state_record_list]
        e["l_cost"] = [C.frac(x) for x in w.cost_list]
        e["l_as"] = [ids("t", x) for x in w.assigned_task_id_record]
    fs = [f for wp in org.workplace_list for f in wp.facility_list]
    for f, e in zip(fs, d["F"]):
        e["l_st"] = [int(x) for x in f.state_record_list]
        e["l_cost"] = [C.frac(x) for x in f.cost_list]
        e["l_as"] = [ids("t", x) for x in f.assigned_task_id_record]
    for c, e in zip(pr.component_list, d["C"]):
        e["l_st"] = [int(x) for x in c.state_record_list]
        e["l_pw"] = [idx_of("wp", x) for x in c.placed_workplace_id_record]
    d["TEAM"] = [{"l_cost": [C.frac(x) for x in tm.cost_list]} for tm in org.team_list]
    for wp, e in zip(org.workplace_list, d["WP"]):
        e["l_cost"] = [C.frac(x) for x in wp.cost_list]
        e["l_pc"] = [ids("c", x) for x in wp.placed_component_id_record]
    d["ORG"] = {"l_cost": [C.frac(x) for x in org.cost_list]}
    return d


def structure(project):
    """identity-level snapshot of the dependency structure (C17)"""
    wf, org = project.workflow, project.organization
    return {
        "task_list": (id(wf.task_list), [id(t) for t in wf.task_list]),
        "in": [(id(t.input_task_list), [(id(e), id(e[0]), int(e[1])) for e in t.input_task_list]) for t in wf.task_list],
        "out": [(id(t.output_task_list), [(id(e), id(e[0]), int(e[1])) for e in t.output_task_list]) for t in wf.task_list],
        "wp_in": [(id(w.input_workplace_list), [id(x) for x in w.input_workplace_list]) for w in org.workplace_list],
        "wp_out": [(id(w.output_workplace_list), [id(x) for x in w.output_workplace_list]) for w in org.workplace_list],
    }


def structure_idx(project, fresh):
    """index-level snapshot of the dependency structure for the model
    correspondence (C17): tasks t<i> -> i; helper tasks (any other ID) ->
    fresh, fresh+1, ... in task_list order"""
    wf, org = project.workflow, project.organization
    num = {}
    k = fresh
    for t in wf.task_list:
        if ("t", t.ID) in REG:
            num[id(t)] = REG[("t", t.ID)]
        elif isinstance(t.ID, str) and t.ID.startswith("t") and t.ID[1:].isdigit():
            num[id(t)] = int(t.ID[1:])
        else:
            num[id(t)] = k
            k += 1
    n = k
    by = {num[id(t)]: t for t in wf.task_list}
    wps = {idx_of("wp", w.ID): w for w in org.workplace_list}
    return {
        "n": n,
        "task_list": [num[id(t)] for t in wf.task_list],
        "in": [[(num.get(id(e[0]), 9999), int(e[1])) for e in by[i].input_task_list] if i in by else [] for i in range(n)],
        "out": [[(num.get(id(e[0]), 9999), int(e[1])) for e in by[i].output_task_list] if i in by else [] for i in range(n)],
        "wp_in": [[idx_of("wp", x.ID) for x in wps[j].input_workplace_list] if j in wps else [] for j in range(len(wps))],
        "wp_out": [[idx_of("wp", x.ID) for x in wps[j].output_workplace_list] if j in wps else [] for j in range(len(wps))],
    }


def edited_case(case, e):
    """the case after the model edit e (what a fresh build of the edited model is built from)"""
    c = copy.deepcopy(case)
    k = e["kind"]
    if k == "skill":
        c["teams"][e["team"]]["workers"][e["j"]]["skills"][str(e["name"])] = e["val"]
    elif k == "work":
        c["tasks"][e["t"]]["work"] = e["val"]
    elif k == "cost":
        c["teams"][e["team"]]["workers"][e["j"]]["cost"] = e["val"]
    elif k == "wabs":
        c["teams"][e["team"]]["workers"][e["j"]]["abs"] = list(e["list"])
    elif k == "edge":
        c["edges"] = list(c["edges"]) + [[e["p"], e["s"], e["k"]]]
    elif k == "add_worker":
        c["teams"][-1]["workers"].append(copy.deepcopy(e["worker"]))
    elif k == "rate":
        c["tasks"][e["t"]]["rate"] = e["val"]
    elif k == "target":
        c["tasks"][e["t"]]["teams"] = list(c["tasks"][e["t"]]["teams"]) + [e["team"]]
    else:
        raise ValueError(k)
    return c


def apply_edit(b, e):
    """the same edit applied to the live objects of a built (and possibly simulated) project"""
    case = b.case
    k = e["kind"]

    def worker(ti, j):
        return b.teams[ti].worker_list[j]
    if k == "skill":
        worker(e["team"], e["j"]).workamount_skill_mean_map["n%s" % e["name"]] = fl(e["val"])
    elif k == "work":
        b.tasks[e["t"]].default_work_amount = fl(e["val"])
    elif k == "cost":
        worker(e["team"], e["j"]).cost_per_time = fl(e["val"])
    elif k == "wabs":
        if e.get("inplace"):
            lst = worker(e["team"], e["j"]).absence_time_list       # the same list object, edited in place
            del lst[:]
            lst.extend(e["list"])
        else:
            worker(e["team"], e["j"]).absence_time_list = list(e["list"])
    elif k == "edge":
        if e.get("extend"):
            b.tasks[e["s"]].extend_input_task_list([b.tasks[e["p"]]], task_dependency_mode=BaseTaskDependency(e["k"]))
        else:
            b.tasks[e["s"]].append_input_task(b.tasks[e["p"]], task_dependency_mode=BaseTaskDependency(e["k"]))
    elif k == "target":
        b.teams[e["team"]].append_targeted_task(b.tasks[e["t"]])
    elif k == "rate":
        b.tasks[e["t"]].work_amount_progress_of_unit_step_time = fl(e["val"])
    elif k == "add_worker":
        w = e["worker"]
        gi = len(b.workers)
        wid = (gi if case.get("ids") == "num" else "w%d" % gi)
        if case.get("ids") == "uuid":
            import uuid
            wid = str(uuid.uuid4())
        wk = BaseWorker("wn%d" % w.get("name", gi), ID=wid, cost_per_time=fl(w.get("cost", "0")), solo_working=bool(w.get("solo", False)),
                        workamount_skill_mean_map={"n%s" % kk: fl(v) for kk, v in w.get("skills", {}).items()},
                        facility_skill_map={"fn%s" % kk: fl(v) for kk, v in w.get("fskills", {}).items()},
                        absence_time_list=list(w.get("abs", [])))
        b.teams[-1].add_worker(wk)
        b.workers.append(wk)
        REG[("w", wid)] = gi
    else:
        raise ValueError(k)


class Crash(Exception):
    pass


class HardCrash(BaseException):
    """an interruption that is not an Exception (like KeyboardInterrupt / SystemExit)"""
    pass


# ------------------------------------------------------------- operations
def sim_kwargs(op):
    return dict(
        task_priority_rule=(int(op.get("rule", 0)) if op.get("int_rule") else TaskPriorityRuleMode(op.get("rule", 0))),
        absence_time_list=list(op.get("abs", [])),
        perform_auto_task_while_absence_time=bool(op.get("auto_abs", False)),
        initialize_state_info=bool(op.get("init_state", True)),
        initialize_log_info=bool(op.get("init_log", True)),
        max_time=(int(op.get("max_time", 200)) - 0.5 if op.get("max_time_half") and int(op.get("max_time", 200)) >= 1 else int(op.get("max_time", 200))),
        **({"error_tol": float(op["error_tol"])} if "error_tol" in op else {}),
        **({"unit_time": int(op["unit_time"])} if op.get("unit_time", 1) != 1 else {}),
    )


def sim_kwargs_for(op):
    """sim_kwargs without the keyword arguments listed in op["omit"] (left at their defaults)"""
    kw = sim_kwargs(op)
    for k in op.get("omit", []):
        kw.pop(k, None)
    return kw


def run_ops(case, want_snaps=True, ops=None, built=None):
    """returns (built, trace): trace = list of per-op records
       {"op":…, "snaps":[(step, phase, working, snap)], "dump":…, "exc":…, "warn":[…]}"""
    set_ranks(case)
    b = built or build(case)
    apply_ranks(b)
    trace = []
    for oi, op in enumerate(ops if ops is not None else case["ops"]):
        rec = {"op": op, "snaps": [], "exc": None, "warn": []}
        p = b.project

        rec["events"] = []

        def observer(project, phase, working, rec=rec, op=op):
            if phase == "updated":
                del EVENTS[:]
            if phase == "allocated":
                rec["events"] += [(project.time, idx_of("c", c), idx_of("wp", w)) for (c, w) in EVENTS]
                del EVENTS[:]
            if want_snaps:
                rec["snaps"].append((project.time, phase, working, snap(project)))
            if op["op"] == "backward" and "struct_inner_idx" not in rec:
                rec["struct_inner_idx"] = structure_idx(project, len(case["tasks"]))
            cr = op.get("crash")
            if cr is not None and project.time == cr[0] and phase == cr[1]:
                if len(cr) > 2 and cr[2] == "base":
                    raise HardCrash("injected at step %d phase %s" % (cr[0], cr[1]))
                raise Crash("injected at step %d phase %s" % (cr[0], cr[1]))
        p._verif_observer = observer
        name = op["op"]
        try:
            with warnings.catch_warnings(record=True) as wl:
                warnings.simplefilter("always")
                if name == "simulate":
                    kw_ = sim_kwargs_for(op)
                    if op.get("alias_abs"):
                        kw_["absence_time_list"] = p.absence_time_list      # the project's own list object as the argument
                    p.simulate(**kw_)
                elif name == "simulate_default":
                    # every optional argument left at its default value
                    p.simulate(max_time=int(op.get("max_time", 200)))
                elif name == "backward":
                    rec["struct_before"] = structure(p)
                    rec["struct_before_idx"] = structure_idx(p, len(case["tasks"]))
                    rec["keep"] = (list(p.workflow.task_list),)  # keep ids alive
                    try:
                        extra_ = {"task_performed_mode": "single-worker"} if op.get("bad_mode") else {}
                        try:
                            p.backward_simulate(considering_due_time_of_tail_tasks=bool(op.get("due", False)),
                                                reverse_log_information=bool(op.get("revlog", True)), **extra_, **sim_kwargs(op))
                        except Exception as e_:
                            if op.get("bad_mode") and "task_performed_mode" in str(e_):
                                raise Crash("refused task_performed_mode")       # the expected refusal; clean-up is judged below
                            raise
                    finally:
                        rec["struct_after"] = structure(p)
                        rec["struct_after_idx"] = structure_idx(p, len(case["tasks"]))
                elif name == "report":
                    # read-only reporting calls: Gantt data of every level and state queries
                    p.workflow.create_data_for_gantt_plotly(p.init_datetime, p.unit_timedelta)
                    p.product.create_data_for_gantt_plotly(p.init_datetime, p.unit_timedelta)
                    p.organization.create_data_for_gantt_plotly(p.init_datetime, p.unit_timedelta)
                    for t_ in p.workflow.task_list:
                        t_.get_time_list_for_gannt_chart()
                    for c_ in p.product.component_list:
                        c_.get_time_list_for_gannt_chart()
                    for tm_ in p.organization.team_list:
                        for w_ in tm_.worker_list:
                            w_.get_time_list_for_gannt_chart()
                    for wp_ in p.organization.workplace_list:
                        for f_ in wp_.facility_list:
                            f_.get_time_list_for_gannt_chart()
                    if p.time > 0:
                        p.workflow.extract_working_task_list([0, p.time - 1])
                        p.product.extract_working_component_list([0])
                elif name == "edit":
                    apply_edit(b, op["edit"])
                elif name == "initialize":
                    p.initialize(state_info=bool(op.get("state", True)), log_info=bool(op.get("log", True)))
                elif name == "reverse_log":
                    p.reverse_log_information()
                elif name == "remove_absence":
                    p.remove_absence_time_list()
                elif name == "insert_absence":
                    p.insert_absence_time_list(tuple(op["list"]) if op.get("as_tuple") else list(op["list"]))
                elif name == "json":
                    fd, path = tempfile.mkstemp(suffix=".json", dir=C.WORK)
                    os.close(fd)
                    try:
                        p.write_simple_json(path)
                        with open(path) as f:
                            rec["doc1"] = json.load(f)
                        p2 = BaseProject()
                        p2.read_simple_json(path)
                        p2.write_simple_json(path)
                        with open(path) as f:
                            rec["doc2"] = json.load(f)
                        rec["refs"] = check_refs(p2)
                        b.project = p2
                        b.tasks = p2.workflow.task_list
                    finally:
                        os.unlink(path)
                else:
                    raise ValueError(name)
            rec["warn"] = [str(w.message) for w in wl]
        except (Crash, HardCrash) as e:
            rec["exc"] = "Crash"
        except Exception as e:
            rec["exc"] = "%s: %s" % (type(e).__name__, e)
            import traceback as _tb
            rec["exc_frames"] = ["%s:%s" % (os.path.basename(fr.filename), fr.name) for fr in _tb.extract_tb(e.__traceback__)]
        try:
            rec["dump"] = dump(b.project)
        except Exception as e:
            rec["dump"] = None
            rec["dump_exc"] = "%s: %s" % (type(e).__name__, e)
        trace.append(rec)
    return b, trace


def check_refs(p):
    """every reference attribute of a restored project is an object of that
    project (C16 b); returns the list of offending attribute paths"""
    bad = []
    wf, org, pr = p.workflow, p.organization, p.product
    tasks = set(map(id, wf.task_list))
    comps = set(map(id, pr.component_list))
    teams = set(map(id, org.team_list))
    wps = set(map(id, org.workplace_list))
    workers = set(id(w) for t in org.team_list for w in t.worker_list)
    facs = set(id(f) for w in org.workplace_list for f in w.facility_list)

    def chk(path, objs, pool):
        for o in objs:
            if id(o) not in pool:
                bad.append(path)
                return
    for i, t in enumerate(wf.task_list):
        chk("T%d.input" % i, [e[0] for e in t.input_task_list], tasks)
        chk("T%d.output" % i, [e[0] for e in t.output_task_list], tasks)
        chk("T%d.teams" % i, t.allocated_team_list, teams)
        chk("T%d.wps" % i, t.allocated_workplace_list, wps)
        chk("T%d.comp" % i, [] if t.target_component is None else [t.target_component], comps)
        chk("T%d.aw" % i, t.allocated_worker_list, workers)
        chk("T%d.af" % i, t.allocated_facility_list, facs)
    for i, c in enumerate(pr.component_list):
        chk("C%d.parents" % i, c.parent_component_list, comps)
        chk("C%d.children" % i, c.child_component_list, comps)
        chk("C%d.tasks" % i, c.targeted_task_list, tasks)
        chk("C%d.placed" % i, [] if c.placed_workplace is None else [c.placed_workplace], wps)
    for i, x in enumerate(org.team_list):
        chk("TEAM%d.tasks" % i, x.targeted_task_list, tasks)
        chk("TEAM%d.parent" % i, [] if x.parent_team is None else [x.parent_team], teams)
        for j, w in enumerate(x.worker_list):
            chk("TEAM%d.W%d.assigned" % (i, j), w.assigned_task_list, tasks)
    for i, x in enumerate(org.workplace_list):
        chk("WP%d.tasks" % i, x.targeted_task_list, tasks)
        chk("WP%d.parent" % i, [] if x.parent_workplace is None else [x.parent_workplace], wps)
        chk("WP%d.placed" % i, x.placed_component_list, comps)
        for j, f in enumerate(x.facility_list):
            chk("WP%d.F%d.assigned" % (i, j), f.assigned_task_list, tasks)
    return bad

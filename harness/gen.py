"""Case generators.  All randomness comes from the random.Random passed in;
all numbers are dyadic (k/8) so that binary64 arithmetic is exact."""
from fractions import Fraction


def q8(rng, lo, hi):
    """dyadic number k/8 in [lo, hi]"""
    return Fraction(rng.randrange(int(lo * 8), int(hi * 8) + 1), 8)


def qs(x):
    x = Fraction(x)
    return "%d/%d" % (x.numerator, x.denominator)


def gen_project(rng, stream="structured", n_tasks=None, facilities=None, fs_only=False):
    """returns a case dict without 'ops'"""
    if stream == "pairs":
        return gen_pairs_project(rng)
    if stream == "crossing":
        return gen_crossing_project(rng)
    nt = n_tasks if n_tasks is not None else rng.choice([1, 2, 2, 3, 3, 4, 4, 5, 6, 7, 8])
    if stream == "edge" and rng.random() < 0.3:
        nt = 1
    use_fac = facilities if facilities is not None else (rng.random() < 0.45)
    n_names = max(1, nt - rng.choice([0, 0, 0, 1, 2]))       # duplicate names sometimes
    # --- tasks in a random topological "level" order, then shuffled positions
    order = list(range(nt))
    rng.shuffle(order)           # order[k] = list position of the k-th task in topological order
    tasks = [None] * nt
    kinds_w = [0] * 11 + [1] * 3 + [2] * 3 + [3] * 3
    edges = []
    for k in range(nt):
        pos = order[k]
        work = rng.choice([Fraction(0), Fraction(1, 8), Fraction(1, 2), Fraction(1), Fraction(1), Fraction(2),
                           Fraction(3), Fraction(5, 2), Fraction(4), Fraction(6)])
        prog = rng.choice([Fraction(0)] * 8 + [Fraction(1, 4), Fraction(1, 2), Fraction(1)])
        auto = rng.random() < (0.12 if stream != "contention" else 0.0)
        t = {"name": rng.randrange(n_names), "work": qs(work), "progress": qs(prog), "auto": auto,
             "rate": qs(rng.choice([Fraction(1), Fraction(1), Fraction(1, 2), Fraction(2), Fraction(3, 8)])),
             "need_fac": False, "comp": None, "teams": [], "wps": [], "fixw": None, "fixf": None,
             "due": rng.choice([-1, -1, 0, 2, 5, 9]),
             "wrule": rng.choice([-1, -1, 0, 1, 2]), "frule": rng.choice([0, 0, 1, 2]), "prule": rng.choice([0, 0, 1])}
        tasks[pos] = t
        if k > 0:
            npred = rng.choice([0, 1, 1, 1, 2]) if stream != "contention" else rng.choice([0, 0, 1])
            preds = rng.sample(range(k), min(k, npred))
            for pk in preds:
                kind = 0 if fs_only else rng.choice(kinds_w)
                edges.append([order[pk], pos, kind])
    rng.shuffle(edges)
    # --- components
    comps = []
    nc = rng.choice([0, 0, 1, 2, 3, 4, 5]) if (use_fac or rng.random() < 0.3) else 0
    if use_fac and nc == 0:
        nc = rng.choice([1, 2, 3])
    for i in range(nc):
        comps.append({"size": qs(rng.choice([Fraction(1), Fraction(1), Fraction(1, 2), Fraction(2), Fraction(3, 2)])),
                      "children": []})
    # forest: component i may get parent j (any index order -> child before parent possible)
    if nc >= 2:
        perm = list(range(nc))
        rng.shuffle(perm)
        for k in range(1, nc):
            if rng.random() < 0.4:
                par = perm[rng.randrange(k)]
                comps[par]["children"].append(perm[k])
    for i, t in enumerate(tasks):
        if nc and rng.random() < (0.8 if use_fac else 0.4):
            t["comp"] = rng.randrange(nc)
    # --- teams / workers
    n_teams = rng.choice([1, 1, 2, 3])
    teams = []
    few = stream == "contention"
    for ti in range(n_teams):
        nw = rng.choice([1, 1, 2]) if few else rng.choice([1, 2, 2, 3])
        ws = []
        for j in range(nw):
            skills = {}
            for nm in range(n_names):
                r = rng.random()
                if r < 0.6:
                    skills[str(nm)] = qs(rng.choice([Fraction(1), Fraction(1), Fraction(1, 2), Fraction(2), Fraction(1, 4), Fraction(3, 2)]))
                elif r < 0.7:
                    skills[str(nm)] = "0/1"
            ws.append({"skills": skills, "fskills": {}, "cost": qs(rng.choice([Fraction(0), Fraction(1), Fraction(5, 2), Fraction(10)])),
                       "solo": rng.random() < 0.12, "abs": [], "mainwp": None})
        teams.append({"workers": ws})
    # --- workplaces / facilities
    wps = []
    if use_fac:
        nwp = rng.choice([1, 2, 2, 3])
        for pi in range(nwp):
            nf = rng.choice([0, 1, 1, 2])
            fs = []
            for j in range(nf):
                skills = {}
                for nm in range(n_names):
                    r = rng.random()
                    if r < 0.65:
                        skills[str(nm)] = qs(rng.choice([Fraction(1), Fraction(1), Fraction(1, 2), Fraction(2)]))
                    elif r < 0.72:
                        skills[str(nm)] = "0/1"
                fs.append({"skills": skills, "cost": qs(rng.choice([Fraction(0), Fraction(1), Fraction(3)])),
                           "solo": rng.random() < 0.1, "abs": []})
            total = sum(Fraction(c["size"]) for c in comps) or Fraction(1)
            cap = rng.choice([total, total, Fraction(1), Fraction(2), Fraction(3, 2), total / 2 if (total / 2 * 8).denominator == 1 else Fraction(1)])
            wps.append({"cap": qs(cap), "inputs": [], "facs": fs})
        for pi in range(nwp):
            if rng.random() < 0.25:
                others = [x for x in range(nwp) if x != pi]
                if others:
                    wps[pi]["inputs"] = rng.sample(others, rng.choice([1, 1, min(2, len(others))]))
    nfac = sum(len(w["facs"]) for w in wps)
    nwork = sum(len(t["workers"]) for t in teams)
    fac_names = {}
    gi = 0
    for wp in wps:
        for f in wp["facs"]:
            f["name"] = gi if rng.random() < 0.8 else rng.randrange(max(1, nfac))
            gi += 1
    fnames = sorted({f["name"] for wp in wps for f in wp["facs"]})
    gi = 0
    for tm in teams:
        for w in tm["workers"]:
            w["name"] = gi
            gi += 1
            for fn in fnames:
                r = rng.random()
                if r < 0.75:
                    w["fskills"][str(fn)] = qs(rng.choice([Fraction(1), Fraction(1), Fraction(1, 2)]))
                elif r < 0.8:
                    w["fskills"][str(fn)] = "0/1"
            if wps and rng.random() < 0.3:
                w["mainwp"] = rng.randrange(len(wps))
            if rng.random() < 0.2:
                w["abs"] = sorted(set(rng.randrange(0, 12) for _ in range(rng.choice([1, 2, 3]))))
    for wp in wps:
        for f in wp["facs"]:
            if rng.random() < 0.15:
                f["abs"] = sorted(set(rng.randrange(0, 12) for _ in range(rng.choice([1, 2]))))
    # --- task targeting
    for i, t in enumerate(tasks):
        r = rng.random()
        if r < 0.75:
            t["teams"] = sorted(rng.sample(range(n_teams), rng.choice([1, 1, min(2, n_teams)])))
        elif r < 0.9:
            t["teams"] = list(range(n_teams))
        if t["comp"] is not None and wps:
            if rng.random() < 0.85:
                t["wps"] = rng.sample(range(len(wps)), rng.choice([1, 1, min(2, len(wps))]))
            if not t["auto"] and rng.random() < 0.7:
                t["need_fac"] = True
        if not t["auto"] and rng.random() < 0.1 and nwork:
            t["fixw"] = sorted(rng.sample(range(nwork), rng.choice([1, min(2, nwork)])))
        if t["need_fac"] and rng.random() < 0.1 and nfac:
            t["fixf"] = sorted(rng.sample(range(nfac), 1))
    case = {"tasks": tasks, "edges": edges, "comps": comps, "teams": teams, "wps": wps, "unit": 60,
            "rank": rng.sample(range(8), 8)[:nt] if nt <= 8 else None,
            "crank": rng.sample(range(8), 8)[:nc] if nc <= 8 else None}
    return case


def gen_pairs_project(rng):
    """directed family: facility tasks that work with SEVERAL worker/facility
    pairs at once, facilities of different skill, and workers / facilities that
    are individually absent in the middle of the work (pairing by position,
    absence bookkeeping, cost of partially absent pairs)"""
    nt = rng.choice([1, 1, 2, 3])
    nf = rng.choice([2, 2, 3])
    nw = rng.choice([2, 2, 3])
    tasks, edges = [], []
    for i in range(nt):
        tasks.append({"name": i if rng.random() < 0.7 else 0, "work": qs(rng.choice([Fraction(3), Fraction(4), Fraction(6), Fraction(5, 2)])),
                      "progress": "0/1", "auto": False, "rate": "1/1", "need_fac": True, "comp": rng.randrange(nt if rng.random() < 0.5 else 1),
                      "teams": [0], "wps": [0], "fixw": None, "fixf": None, "due": -1,
                      "wrule": rng.choice([-1, 0, 1, 2]), "frule": rng.choice([0, 1, 2]), "prule": 0})
        if i > 0 and rng.random() < 0.4:
            edges.append([i - 1, i, rng.choice([0, 0, 1])])
    ncomp = max(t["comp"] for t in tasks) + 1
    comps = [{"size": "1/1", "children": []} for _ in range(ncomp)]
    names = sorted({t["name"] for t in tasks})
    fskill_vals = [Fraction(1), Fraction(1, 2), Fraction(2), Fraction(1, 4), Fraction(3, 2)]
    rng.shuffle(fskill_vals)
    facs = []
    for j in range(nf):
        facs.append({"skills": {str(n): qs(fskill_vals[j % len(fskill_vals)]) for n in names}, "cost": qs(rng.choice([Fraction(1), Fraction(3)])),
                     "solo": False, "abs": sorted(set(rng.randrange(0, 6) for _ in range(rng.choice([0, 0, 1, 2])))), "name": j})
    ws = []
    for j in range(nw):
        ws.append({"skills": {str(n): qs(rng.choice([Fraction(1), Fraction(1, 2), Fraction(2)])) for n in names},
                   "fskills": {str(f): "1/1" for f in range(nf)}, "cost": qs(rng.choice([Fraction(1), Fraction(5, 2)])),
                   "solo": False, "abs": sorted(set(rng.randrange(0, 6) for _ in range(rng.choice([0, 1, 1, 2])))), "mainwp": None, "name": j})
    wps = [{"cap": qs(Fraction(ncomp)), "inputs": [], "facs": facs}]
    return {"tasks": tasks, "edges": edges, "comps": comps, "teams": [{"workers": ws}], "wps": wps, "unit": 60,
            "rank": rng.sample(range(8), 8)[:nt], "crank": rng.sample(range(8), 8)[:ncomp]}


def gen_crossing_project(rng):
    """directed family: several independent tasks compete for one or two
    workers over many steps under rules whose keys drift (remaining work,
    slack, FIFO); workers join late (individual absences at the first steps),
    so the priority order of an unchanged candidate set changes between
    allocation steps"""
    nt = rng.choice([2, 3, 3, 4, 5])
    tasks, edges = [], []
    for i in range(nt):
        tasks.append({"name": 0 if rng.random() < 0.6 else i, "work": qs(rng.choice([Fraction(2), Fraction(3), Fraction(4), Fraction(5), Fraction(7, 2), Fraction(6)])),
                      "progress": "0/1", "auto": False, "rate": "1/1", "need_fac": False, "comp": None,
                      "teams": [0], "wps": [], "fixw": None, "fixf": None, "due": -1,
                      "wrule": rng.choice([-1, 0, 1, 2]), "frule": 0, "prule": 0})
        if i > 1 and rng.random() < 0.2:
            edges.append([rng.randrange(i), i, 0])
    names = sorted({t["name"] for t in tasks})
    nw = rng.choice([2, 2, 3])
    ws = []
    for j in range(nw):
        late = sorted(range(rng.choice([0, 1, 2, 3]))) if j > 0 else []
        ws.append({"skills": {str(n): qs(rng.choice([Fraction(1), Fraction(1), Fraction(1, 2), Fraction(2)])) for n in names},
                   "fskills": {}, "cost": "1/1", "solo": rng.random() < 0.5, "abs": late, "mainwp": None, "name": j})
    return {"tasks": tasks, "edges": edges, "comps": [], "teams": [{"workers": ws}], "wps": [], "unit": 60,
            "rank": rng.sample(range(8), 8)[:nt], "crank": []}


def gen_sim_op(rng, case, absences=True):
    ab = []
    if absences and rng.random() < 0.45:
        ab = [rng.randrange(0, 14) for _ in range(rng.choice([1, 2, 3, 4]))]
        if rng.random() < 0.3:
            ab.append(0)
        if rng.random() < 0.2:
            ab.append(rng.randrange(30, 60))
    return {"op": "simulate", "rule": rng.randrange(0, 9), "abs": ab, "auto_abs": rng.random() < 0.4,
            "init_state": True, "init_log": True, "max_time": rng.choice([40, 40, 40, 60, 6, 12])}


def simplify_feasible(rng, case):
    """repair a project so that every non-auto unfinished task has an
    eligible worker of its own team set (used by the feasible stream)"""
    for i, t in enumerate(case["tasks"]):
        if t["auto"]:
            continue
        t["fixw"] = None
        t["fixf"] = None
        if not t["teams"]:
            t["teams"] = [0]
        tm = case["teams"][t["teams"][0]]
        w = tm["workers"][0]
        if Fraction(w["skills"].get(str(t["name"]), "0")) <= 0:
            w["skills"][str(t["name"])] = "1/1"
        w["solo"] = False
    return case

"""Case generators.  All randomness comes from the random.Random passed in;
all numbers are dyadic (k/8) so that binary64 arithmetic is exact."""
from fractions import Fraction


def q8(rng, lo, hi):
    """dyadic number k/8 in [lo, hi]"""
    return Fraction(rng.randrange(int(lo * 8), int(hi * 8) + 1), 8)


def qs(x):
    x = Fraction(x)
    return "%d/%d" % (x.numerator, x.denominator)


def gen_project(rng, stream="structured", n_tasks=None, facilities=None, fs_only=False):
    """returns a case dict without 'ops'"""
    if stream == "pairs":
        return gen_pairs_project(rng)
    if stream == "crossing":
        return gen_crossing_project(rng)
    if stream == "conveyor":
        return gen_conveyor_project(rng)
    if stream == "autoabs":
        return gen_autoabs_project(rng)
    if stream == "gates":
        return gen_gates_project(rng)
    nt = n_tasks if n_tasks is not None else rng.choice([1, 2, 2, 3, 3, 4, 4, 5, 6, 7, 8])
    if stream == "edge" and rng.random() < 0.3:
        nt = 1
    if n_tasks is None and stream == "structured" and rng.random() < 0.03:
        nt = rng.choice([10, 12, 16, 20])       # now and then a project beyond the usual size
    use_fac = facilities if facilities is not None else (rng.random() < 0.45)
    n_names = max(1, nt - rng.choice([0, 0, 0, 1, 2]))       # duplicate names sometimes
    # --- tasks in a random topological "level" order, then shuffled positions
    order = list(range(nt))
    rng.shuffle(order)           # order[k] = list position of the k-th task in topological order
    tasks = [None] * nt
    kinds_w = [0] * 11 + [1] * 3 + [2] * 3 + [3] * 3
    edges = []
    for k in range(nt):
        pos = order[k]
        work = rng.choice([Fraction(0), Fraction(1, 8), Fraction(1, 2), Fraction(1), Fraction(1), Fraction(2),
                           Fraction(3), Fraction(5, 2), Fraction(4), Fraction(6)])
        if rng.random() < 0.03:
            work = Fraction(rng.choice([12, 16, 20, 24]))      # a large amount (a tolerance must not grow with the quantity)
        if rng.random() < 0.05:
            # a hair more than the grid: finishing is a tolerance test (2^-30 is above the tolerance 1e-10:
            # one more step; 2^-40 is below it: finished with that residue)
            work = work + rng.choice([Fraction(1, 2 ** 30), Fraction(1, 2 ** 30), Fraction(1, 2 ** 40)])
        prog = rng.choice([Fraction(0)] * 16 + [Fraction(1, 4), Fraction(1, 2), Fraction(1, 4), Fraction(1, 2), Fraction(1), Fraction(1),
                           Fraction(7, 8), Fraction(15, 16), 1 - Fraction(1, 2 ** 30), 1 - Fraction(1, 2 ** 40)])   # "already complete" is a tolerance test too (the last one is complete)
        auto = rng.random() < (0.12 if stream != "contention" else 0.0)
        if prog.denominator > 16 and work.denominator > 8:
            work = Fraction(round(work))          # not both off the grid: their product must stay exact in binary64
        t = {"name": rng.randrange(n_names), "work": qs(work), "progress": qs(prog), "auto": auto,
             "rate": qs(rng.choice([Fraction(1), Fraction(1), Fraction(1, 2), Fraction(2), Fraction(3, 8)])),
             "need_fac": False, "comp": None, "teams": [], "wps": [], "fixw": None, "fixf": None,
             "due": rng.choice([-1, -1, 0, 2, 5, 9]),
             "wrule": rng.choice([-1, -1, 0, 1, 2]), "frule": rng.choice([0, 0, 1, 2]), "prule": rng.choice([0, 0, 1])}
        tasks[pos] = t
        if k > 0:
            npred = rng.choice([0, 1, 1, 1, 2]) if stream != "contention" else rng.choice([0, 0, 1])
            preds = rng.sample(range(k), min(k, npred))
            for pk in preds:
                kind = 0 if fs_only else rng.choice(kinds_w)
                edges.append([order[pk], pos, kind])
                if not fs_only and rng.random() < 0.06:
                    # two links between one pair of tasks (e.g. SS + FF, "runs alongside")
                    edges.append([order[pk], pos, rng.choice([k2 for k2 in (0, 1, 2, 3) if k2 != kind])])
    rng.shuffle(edges)
    # --- components
    comps = []
    nc = rng.choice([0, 0, 1, 2, 3, 4, 5]) if (use_fac or rng.random() < 0.3) else 0
    if use_fac and nc == 0:
        nc = rng.choice([1, 2, 3])
    big = 64 if rng.random() < 0.04 else 1          # now and then sizes in the hundreds (the space tolerance 1e-8 is absolute)
    for i in range(nc):
        comps.append({"size": qs(big * rng.choice([Fraction(1), Fraction(1), Fraction(1, 2), Fraction(2), Fraction(3, 2)])),
                      "children": []})
    # forest: component i may get parent j (any index order -> child before parent possible)
    if nc >= 2:
        perm = list(range(nc))
        rng.shuffle(perm)
        for k in range(1, nc):
            if rng.random() < 0.4:
                par = perm[rng.randrange(k)]
                comps[par]["children"].append(perm[k])
    for i, t in enumerate(tasks):
        if nc and rng.random() < (0.8 if use_fac else 0.4):
            t["comp"] = rng.randrange(nc)
    # --- teams / workers
    n_teams = rng.choice([1, 1, 2, 3])
    teams = []
    few = stream == "contention"
    for ti in range(n_teams):
        nw = rng.choice([1, 1, 2]) if few else rng.choice([1, 2, 2, 3])
        if ti > 0 and rng.random() < 0.12:
            nw = 0                   # a team without members (it still keeps a cost list)
        ws = []
        for j in range(nw):
            skills = {}
            for nm in range(n_names):
                r = rng.random()
                if r < 0.6:
                    skills[str(nm)] = qs(rng.choice([Fraction(1), Fraction(1), Fraction(1, 2), Fraction(2), Fraction(1, 4), Fraction(3, 2)]))
                elif r < 0.7:
                    skills[str(nm)] = "0/1"
                elif r < 0.72:
                    skills[str(nm)] = rng.choice(["-1/2", "-1/1", "-2/1"])        # a negative entry is no skill (and cancels nothing)
                elif r < 0.735:
                    skills[str(nm)] = qs(Fraction(1, 2 ** 40))      # positive but below the tolerance: no skill either
            ws.append({"skills": skills, "fskills": {}, "cost": qs(rng.choice([Fraction(0), Fraction(1), Fraction(5, 2), Fraction(10), Fraction(1), Fraction(5, 2), Fraction(1, 2 ** 40)])),
                       "solo": rng.random() < 0.12, "abs": [], "mainwp": None})
        teams.append({"workers": ws})
    # --- workplaces / facilities
    wps = []
    if use_fac:
        nwp = rng.choice([1, 2, 2, 3])
        for pi in range(nwp):
            nf = rng.choice([0, 1, 1, 2])
            fs = []
            for j in range(nf):
                skills = {}
                for nm in range(n_names):
                    r = rng.random()
                    if r < 0.65:
                        skills[str(nm)] = qs(rng.choice([Fraction(1), Fraction(1), Fraction(1, 2), Fraction(2)]))
                    elif r < 0.72:
                        skills[str(nm)] = "0/1"
                    elif r < 0.74:
                        skills[str(nm)] = rng.choice(["-1/2", "-1/1", "-2/1"])
                    elif r < 0.755:
                        skills[str(nm)] = qs(Fraction(1, 2 ** 40))
                fs.append({"skills": skills, "cost": qs(rng.choice([Fraction(0), Fraction(1), Fraction(3), Fraction(1), Fraction(3), Fraction(1, 2 ** 40)])),
                           "solo": rng.random() < 0.1, "abs": []})
            total = sum(Fraction(c["size"]) for c in comps) or Fraction(1)
            cap = rng.choice([total, total, Fraction(1), Fraction(2), Fraction(3, 2), total / 2 if (total / 2 * 8).denominator == 1 else Fraction(1),
                              total, Fraction(2), Fraction(0) if pi > 0 else total,
                              total - Fraction(1, 2 ** 30),      # short by less than the space tolerance 1e-8: everything fits
                              total - Fraction(1, 2 ** 20)])     # short by more: it does not
            wps.append({"cap": qs(cap), "inputs": [], "facs": fs})
        for pi in range(nwp):
            if rng.random() < 0.25:
                others = [x for x in range(nwp) if x != pi]
                if others:
                    wps[pi]["inputs"] = rng.sample(others, rng.choice([1, 1, min(2, len(others))]))
    nfac = sum(len(w["facs"]) for w in wps)
    nwork = sum(len(t["workers"]) for t in teams)
    fac_names = {}
    gi = 0
    for wp in wps:
        for f in wp["facs"]:
            f["name"] = gi if rng.random() < 0.8 else rng.randrange(max(1, nfac))
            gi += 1
    fnames = sorted({f["name"] for wp in wps for f in wp["facs"]})
    gi = 0
    for tm in teams:
        for w in tm["workers"]:
            w["name"] = gi
            gi += 1
            for fn in fnames:
                r = rng.random()
                if r < 0.75:
                    w["fskills"][str(fn)] = qs(rng.choice([Fraction(1), Fraction(1), Fraction(1, 2)]))
                elif r < 0.8:
                    w["fskills"][str(fn)] = "0/1"
            if wps and rng.random() < 0.3:
                w["mainwp"] = rng.randrange(len(wps))
            if rng.random() < 0.2:
                w["abs"] = sorted(set(rng.randrange(0, 12) for _ in range(rng.choice([1, 2, 3]))))
                if rng.random() < 0.35:          # any order, repeated steps
                    w["abs"] = w["abs"] + [rng.choice(w["abs"])]
                    rng.shuffle(w["abs"])
    for wp in wps:
        for f in wp["facs"]:
            if rng.random() < 0.15:
                f["abs"] = sorted(set(rng.randrange(0, 12) for _ in range(rng.choice([1, 2]))))
                if rng.random() < 0.35:
                    f["abs"] = f["abs"] + [rng.choice(f["abs"])]
                    rng.shuffle(f["abs"])
    # --- task targeting
    for i, t in enumerate(tasks):
        r = rng.random()
        if r < 0.75:
            t["teams"] = sorted(rng.sample(range(n_teams), rng.choice([1, 1, min(2, n_teams)])))
        elif r < 0.9:
            t["teams"] = list(range(n_teams))
        if t["comp"] is not None and wps:
            if rng.random() < 0.85:
                t["wps"] = rng.sample(range(len(wps)), rng.choice([1, 1, min(2, len(wps))]))
            if not t["auto"] and rng.random() < 0.7:
                t["need_fac"] = True
        elif t["comp"] is None and wps and rng.random() < 0.15:
            # registered at a workplace although not bound to a component
            t["wps"] = rng.sample(range(len(wps)), 1)
        if not t["auto"] and rng.random() < 0.1 and nwork:
            t["fixw"] = sorted(rng.sample(range(nwork), rng.choice([1, min(2, nwork)])))
        elif not t["auto"] and rng.random() < 0.03:
            t["fixw"] = []          # an empty fixed-ID list admits nobody
        if t["need_fac"] and rng.random() < 0.1 and nfac:
            t["fixf"] = sorted(rng.sample(range(nfac), 1))
        elif t["need_fac"] and rng.random() < 0.03:
            t["fixf"] = []
    # a team may be wired to its tasks through BaseTeam(targeted_task_list=...) only: the
    # task's own allocated_team_list (not read by the simulation) then stays empty
    for tm_ in teams:
        if rng.random() < 0.1:
            tm_["oneside"] = True
    # parent links of teams and workplaces (organisation chart only: no effect on a simulation)
    for i in range(1, len(teams)):
        if rng.random() < 0.4:
            teams[i]["parent"] = rng.randrange(i)
    for i in range(1, len(wps)):
        if rng.random() < 0.4:
            wps[i]["parent"] = rng.randrange(i)
    case = {"tasks": tasks, "edges": edges, "comps": comps, "teams": teams, "wps": wps, "unit": 60,
            "int_deps": rng.random() < 0.12, "same_ids": rng.random() < 0.1,
            "adopt_ids": rng.random() < 0.12, "int_rules": rng.random() < 0.12,    # priority rules given by their numbers        # workers / facilities created without team_id / workplace_id (the container adopts them)
            "rank": rng.sample(range(8), 8)[:nt] if nt <= 8 else None,
            "crank": rng.sample(range(8), 8)[:nc] if nc <= 8 else None}
    if stream == "structured" and rng.random() < 0.02:
        # a long run: every work amount times 8 (still on the dyadic grid), more steps allowed
        case["long"] = True
        for t in tasks:
            t["work"] = qs(Fraction(t["work"]) * 8)
    # ID scheme (harness/sim.py make_ids): plain ints per class, or tasks / components built without an ID
    r = rng.random()
    if not case["same_ids"] and r < 0.14:
        case["ids"] = "num" if r < 0.07 else "uuid"
    if rng.random() < 0.1:
        case["builder"] = "extend"      # wired with extend_* / add_worker / add_facility / set_parent_* instead of append_* and constructor lists
    return case


def gen_pairs_project(rng):
    """directed family: facility tasks that work with SEVERAL worker/facility
    pairs at once, facilities of different skill, and workers / facilities that
    are individually absent in the middle of the work (pairing by position,
    absence bookkeeping, cost of partially absent pairs)"""
    nt = rng.choice([1, 1, 2, 3])
    nf = rng.choice([2, 2, 3])
    nw = rng.choice([2, 2, 3])
    tasks, edges = [], []
    for i in range(nt):
        tasks.append({"name": i if rng.random() < 0.7 else 0, "work": qs(rng.choice([Fraction(3), Fraction(4), Fraction(6), Fraction(5, 2)])),
                      "progress": "0/1", "auto": False, "rate": "1/1", "need_fac": True, "comp": rng.randrange(nt if rng.random() < 0.5 else 1),
                      "teams": [0], "wps": [0], "fixw": None, "fixf": None, "due": -1,
                      "wrule": rng.choice([-1, 0, 1, 2]), "frule": rng.choice([0, 1, 2]), "prule": 0})
        if i > 0 and rng.random() < 0.4:
            edges.append([i - 1, i, rng.choice([0, 0, 1])])
    ncomp = max(t["comp"] for t in tasks) + 1
    comps = [{"size": "1/1", "children": []} for _ in range(ncomp)]
    names = sorted({t["name"] for t in tasks})
    fskill_vals = [Fraction(1), Fraction(1, 2), Fraction(2), Fraction(1, 4), Fraction(3, 2)]
    rng.shuffle(fskill_vals)
    facs = []
    for j in range(nf):
        facs.append({"skills": {str(n): qs(fskill_vals[j % len(fskill_vals)]) for n in names}, "cost": qs(rng.choice([Fraction(1), Fraction(3)])),
                     "solo": False, "abs": sorted(set(rng.randrange(0, 6) for _ in range(rng.choice([0, 0, 1, 2])))), "name": j})
    ws = []
    for j in range(nw):
        ws.append({"skills": {str(n): qs(rng.choice([Fraction(1), Fraction(1, 2), Fraction(2)])) for n in names},
                   "fskills": {str(f): "1/1" for f in range(nf)}, "cost": qs(rng.choice([Fraction(1), Fraction(5, 2)])),
                   "solo": False, "abs": sorted(set(rng.randrange(0, 6) for _ in range(rng.choice([0, 1, 1, 2])))), "mainwp": None, "name": j})
    wps = [{"cap": qs(Fraction(ncomp)), "inputs": [], "facs": facs}]
    # fixed-ID lists: several tasks insisting on the same facility / the same workers
    r = rng.random()
    if r < 0.25:
        shared = sorted(rng.sample(range(nf), rng.choice([1, 1, 2])))
        for t in tasks:
            if rng.random() < 0.8:
                t["fixf"] = list(shared)
    elif r < 0.35:
        shared = sorted(rng.sample(range(nw), rng.choice([1, 2])))
        for t in tasks:
            if rng.random() < 0.8:
                t["fixw"] = list(shared)
    return {"tasks": tasks, "edges": edges, "comps": comps, "teams": [{"workers": ws}], "wps": wps, "unit": 60,
            "rank": rng.sample(range(8), 8)[:nt], "crank": rng.sample(range(8), 8)[:ncomp]}


def gen_crossing_project(rng):
    """directed family: several independent tasks compete for one or two
    workers over many steps under rules whose keys drift (remaining work,
    slack, FIFO); workers join late (individual absences at the first steps),
    so the priority order of an unchanged candidate set changes between
    allocation steps"""
    nt = rng.choice([2, 3, 3, 4, 5])
    tasks, edges = [], []
    for i in range(nt):
        tasks.append({"name": 0 if rng.random() < 0.6 else i, "work": qs(rng.choice([Fraction(2), Fraction(3), Fraction(4), Fraction(5), Fraction(7, 2), Fraction(6)])),
                      "progress": "0/1", "auto": False, "rate": "1/1", "need_fac": False, "comp": None,
                      "teams": [0], "wps": [], "fixw": None, "fixf": None, "due": -1,
                      "wrule": rng.choice([-1, 0, 1, 2]), "frule": 0, "prule": 0})
        if i > 1 and rng.random() < 0.2:
            edges.append([rng.randrange(i), i, 0])
    names = sorted({t["name"] for t in tasks})
    nw = rng.choice([2, 2, 3])
    ws = []
    for j in range(nw):
        late = sorted(range(rng.choice([0, 1, 2, 3]))) if j > 0 else []
        ws.append({"skills": {str(n): qs(rng.choice([Fraction(1), Fraction(1), Fraction(1, 2), Fraction(2)])) for n in names},
                   "fskills": {}, "cost": "1/1", "solo": rng.random() < 0.5, "abs": late, "mainwp": None, "name": j})
    return {"tasks": tasks, "edges": edges, "comps": [], "teams": [{"workers": ws}], "wps": [], "unit": 60,
            "rank": rng.sample(range(8), 8)[:nt], "crank": []}


def gen_sim_op(rng, case, absences=True, vary_init=False):
    ab = []
    if absences and rng.random() < 0.45:
        ab = [rng.randrange(0, 14) for _ in range(rng.choice([1, 2, 3, 4]))]
        if rng.random() < 0.3:
            ab.append(0)
        if rng.random() < 0.2:
            ab.append(rng.randrange(30, 60))
    # initialize_log_info=False on a never simulated project: no log to keep, but the
    # state initialisation runs without its log-dependent parts
    return {"op": "simulate", "rule": rng.randrange(0, 9), "abs": ab, "auto_abs": rng.random() < 0.4,
            "init_state": True, "init_log": (rng.random() >= 0.08) if vary_init else True,
            "max_time": rng.choice([150, 300]) if case.get("long") else rng.choice([40, 40, 40, 60, 6, 12]),
            # simulate(error_tol=...) is documented but not used by simulate; a float max_time m - 0.5 stops where m does
            **({"error_tol": rng.choice([0.25, 1e-3, 0.5])} if vary_init and rng.random() < 0.06 else {}),
            **({"max_time_half": True} if vary_init and rng.random() < 0.06 else {})}


def simplify_feasible(rng, case):
    """repair a project so that every non-auto unfinished task has an
    eligible worker of its own team set (used by the feasible stream)"""
    for i, t in enumerate(case["tasks"]):
        if t["auto"]:
            continue
        t["fixw"] = None
        t["fixf"] = None
        if not t["teams"]:
            t["teams"] = [0]
        tm = case["teams"][t["teams"][0]]
        if not tm["workers"]:
            t["teams"] = [0] + [x for x in t["teams"] if x != 0]
            tm = case["teams"][0]
        w = tm["workers"][0]
        if Fraction(w["skills"].get(str(t["name"]), "0")) <= 0:
            w["skills"][str(t["name"])] = "1/1"
        w["solo"] = False
    return case


def gen_conveyor_project(rng):
    """directed family: a nested product whose sub-component is first placed on
    its own (its own task runs earlier) and whose assembly then has to choose
    between workplaces with input-workplace (conveyor) lists: the condition
    must look at every component of the assembly, and the whole assembly moves"""
    nwp = rng.choice([3, 4, 4])
    nsub = rng.choice([1, 1, 2])
    comps = [{"size": qs(rng.choice([Fraction(1, 2), Fraction(1)])), "children": []} for _ in range(nsub)]
    comps.append({"size": "1/1", "children": list(range(nsub))})
    top = nsub
    if rng.random() < 0.3:                      # one more level
        comps.append({"size": "1/2", "children": [top]})
        top = nsub + 1
    tasks, edges = [], []
    for k in range(nsub):
        tasks.append({"name": 0, "work": qs(rng.choice([Fraction(1), Fraction(2)])), "progress": "0/1", "auto": False, "rate": "1/1",
                      "need_fac": rng.random() < 0.5, "comp": k, "teams": [0], "wps": [rng.randrange(nwp)],
                      "fixw": None, "fixf": None, "due": -1, "wrule": -1, "frule": 0, "prule": rng.choice([0, 1])})
    tasks.append({"name": 0, "work": qs(rng.choice([Fraction(1), Fraction(2), Fraction(3)])), "progress": "0/1", "auto": False, "rate": "1/1",
                  "need_fac": rng.random() < 0.5, "comp": top, "teams": [0],
                  "wps": rng.sample(range(nwp), rng.choice([2, 2, min(3, nwp)])),
                  "fixw": None, "fixf": None, "due": -1, "wrule": -1, "frule": 0, "prule": rng.choice([0, 0, 1])})
    for k in range(nsub):
        if rng.random() < 0.8:
            edges.append([k, nsub, rng.choice([0, 0, 0, 1])])
    if rng.random() < 0.4:
        # a second, automatic task on sub-component 0 that becomes READY in the same step as the
        # assembly's task (both follow the sub-component's first task) and wants another workplace:
        # the sub-component may move on its own OR be carried by its assembly in that step, not both
        tasks.append({"name": rng.choice([0, 1]), "work": qs(rng.choice([Fraction(1), Fraction(2), Fraction(3)])), "progress": "0/1", "auto": True,
                      "rate": "1/1", "need_fac": False, "comp": 0, "teams": [], "wps": [rng.randrange(nwp)],
                      "fixw": None, "fixf": None, "due": -1, "wrule": -1, "frule": 0, "prule": rng.choice([0, 1])})
        edges.append([0, len(tasks) - 1, 0])
        if not any(e[0] == 0 and e[1] == nsub for e in edges):
            edges.append([0, nsub, 0])
    wps = []
    for pi in range(nwp):
        wps.append({"cap": qs(rng.choice([Fraction(4), Fraction(3), Fraction(5, 2)])), "inputs": [],
                    "facs": [{"skills": {"0": "1/1"}, "cost": "1/1", "solo": False, "abs": [], "name": pi}]})
    for pi in range(nwp):
        if rng.random() < 0.6:
            others = [x for x in range(nwp) if x != pi]
            wps[pi]["inputs"] = rng.sample(others, rng.choice([1, 1, min(2, len(others))]))
    nw = rng.choice([2, 3])
    ws = [{"skills": {"0": "1/1"}, "fskills": {str(f): "1/1" for f in range(nwp)}, "cost": "1/1", "solo": False,
           "abs": [], "mainwp": None, "name": j} for j in range(nw)]
    nt = len(tasks)
    return {"tasks": tasks, "edges": edges, "comps": comps, "teams": [{"workers": ws}], "wps": wps, "unit": 60,
            "rank": rng.sample(range(8), 8)[:nt], "crank": rng.sample(range(8), 8)[:len(comps)]}


def gen_autoabs_project(rng):
    """directed family: an automatic task bound to a component becomes READY
    while its component is already placed (an earlier task of the same
    component worked there); the ops generator puts a project-wide absence on
    that very step with perform_auto_task_while_absence_time on or off"""
    w0 = rng.choice([1, 2, 2, 3])
    tasks = [{"name": 0, "work": qs(Fraction(w0)), "progress": "0/1", "auto": False, "rate": "1/1",
              "need_fac": rng.random() < 0.5, "comp": 0, "teams": [0], "wps": [0],
              "fixw": None, "fixf": None, "due": -1, "wrule": -1, "frule": 0, "prule": 0},
             {"name": 1, "work": qs(rng.choice([Fraction(1), Fraction(2), Fraction(3, 2)])), "progress": "0/1", "auto": True,
              "rate": qs(rng.choice([Fraction(1), Fraction(1, 2)])),
              "need_fac": False, "comp": rng.choice([0, 0, 0, None]), "teams": [], "wps": [0] if rng.random() < 0.85 else [],
              "fixw": None, "fixf": None, "due": -1, "wrule": -1, "frule": 0, "prule": 0}]
    edges = [[0, 1, rng.choice([0, 0, 0, 1])]]
    if rng.random() < 0.4:
        tasks.append({"name": 0, "work": "2/1", "progress": "0/1", "auto": False, "rate": "1/1", "need_fac": False, "comp": 0,
                      "teams": [0], "wps": [0], "fixw": None, "fixf": None, "due": -1, "wrule": -1, "frule": 0, "prule": 0})
        edges.append([1, 2, rng.choice([0, 2, 3])])
    comps = [{"size": "1/1", "children": []}]
    wps = [{"cap": "2/1", "inputs": [], "facs": [{"skills": {"0": "1/1"}, "cost": "1/1", "solo": False, "abs": [], "name": 0}]}]
    ws = [{"skills": {"0": "1/1"}, "fskills": {"0": "1/1"}, "cost": "1/1", "solo": False, "abs": [], "mainwp": None, "name": 0}]
    nt = len(tasks)
    return {"tasks": tasks, "edges": edges, "comps": comps, "teams": [{"workers": ws}], "wps": wps, "unit": 60,
            "rank": rng.sample(range(8), 8)[:nt], "crank": [0], "_ready_step": w0}


def usage_variants(rng, c, p=0.05):
    """ways of wiring a model that the public API allows and that the simulation reads from one side
    only; the extracted model takes the two sides of every relation separately, so nothing has to be
    assumed about them: (i) a dependency declared on the successor's side only, (ii) a component
    listing a task that does not point back, (iii) workplace input lists without the mirrored output
    lists.  Only for single forward runs (backward_simulate swaps the two sides)."""
    nt = len(c["tasks"])
    if nt >= 2 and rng.random() < p and "edges_in" not in c:
        order, indeg = [], [0] * nt
        for (a, b, k) in c["edges"]:
            indeg[b] += 1
        todo = [i for i in range(nt) if indeg[i] == 0]
        while todo:
            x = todo.pop(0)
            order.append(x)
            for (a, b, k) in c["edges"]:
                if a == x:
                    indeg[b] -= 1
                    if indeg[b] == 0:
                        todo.append(b)
        if len(order) == nt:
            pos = {t: n for n, t in enumerate(order)}
            a, b = rng.sample(range(nt), 2)
            if pos[a] > pos[b]:
                a, b = b, a
            if not any(x == a and y == b for (x, y, k) in c["edges"]):
                c["edges_in"] = [[a, b, rng.choice([0, 1, 2, 3])]]
    if c.get("comps") and rng.random() < p and not any(x.get("extra_tasks") for x in c["comps"]):
        ci = rng.randrange(len(c["comps"]))
        cand = [i for i, t in enumerate(c["tasks"]) if t.get("comp") != ci]
        if cand:
            c["comps"][ci]["extra_tasks"] = [rng.choice(cand)]
    if len(c.get("wps", [])) >= 2 and rng.random() < p:
        c["wp_oneside"] = True


EPS = Fraction(1, 2 ** 30)      # below every step of the number grid, above the finishing tolerance 1e-10


def gen_gates_project(rng):
    """directed family: a task with SEVERAL predecessors of the same or of mixed dependency kinds that
    finish at different times and are listed in any order (every gate is a conjunction over the whole
    input list), one worker per task so that only the gates decide the timing; some work amounts end
    a hair above a whole number of steps (EPS): the finishing test is a comparison with a tolerance"""
    npred = rng.choice([2, 2, 3])
    kinds = [rng.choice([0, 1, 2, 3])] * npred if rng.random() < 0.5 else [rng.choice([0, 1, 2, 3]) for _ in range(npred)]
    works = [Fraction(rng.choice([1, 2, 3, 4, 6])) for _ in range(npred)]
    tasks, edges = [], []
    for i in range(npred):
        w = works[i] + (EPS if rng.random() < 0.25 else 0)
        tasks.append({"name": i, "work": qs(w), "progress": "0/1", "auto": rng.random() < 0.15, "rate": "1/1", "need_fac": False,
                      "comp": None, "teams": [0], "wps": [], "fixw": None, "fixf": None, "due": -1, "wrule": -1, "frule": 0, "prule": 0})
    join = npred
    wj = Fraction(rng.choice([1, 1, 2, 3])) + (EPS if rng.random() < 0.25 else 0)
    tasks.append({"name": join, "work": qs(wj), "progress": "0/1", "auto": False, "rate": "1/1", "need_fac": False,
                  "comp": None, "teams": [0], "wps": [], "fixw": None, "fixf": None, "due": -1, "wrule": -1, "frule": 0, "prule": 0})
    order = list(range(npred))
    rng.shuffle(order)
    for i in order:
        edges.append([i, join, kinds[i]])
    if rng.random() < 0.5:                      # a successor behind the join
        tasks.append({"name": join + 1, "work": "1/1", "progress": "0/1", "auto": False, "rate": "1/1", "need_fac": False,
                      "comp": None, "teams": [0], "wps": [], "fixw": None, "fixf": None, "due": -1, "wrule": -1, "frule": 0, "prule": 0})
        edges.append([join, join + 1, rng.choice([0, 1, 2, 3])])
    if rng.random() < 0.3 and npred >= 2:       # a chain among the predecessors
        edges.append([0, 1, rng.choice([0, 1])])
    nt = len(tasks)
    # list positions in any order
    perm = list(range(nt))
    rng.shuffle(perm)
    tasks2 = [None] * nt
    for i, t in enumerate(tasks):
        tasks2[perm[i]] = t
    edges2 = [[perm[a], perm[b], k] for (a, b, k) in edges]
    ws = [{"skills": {str(tasks[i]["name"]): "1/1"}, "fskills": {}, "cost": "1/1", "solo": False, "abs": [], "mainwp": None, "name": i}
          for i in range(nt)]
    return {"tasks": tasks2, "edges": edges2, "comps": [], "teams": [{"workers": ws}], "wps": [], "unit": 60,
            "rank": rng.sample(range(8), 8)[:nt], "crank": []}

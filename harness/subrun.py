"""fresh-process runner for C09: no hash pinning, heap shifted by VERIF_PAD
allocations; prints the JSON list of final dumps"""
import json
import os
import sys


def main():
    pad = [object() for _ in range(int(os.environ.get("VERIF_PAD", "0")))]
    from . import sim, simcheck
    with open(sys.argv[1]) as f:
        cases = json.load(f)
    out = []
    for c in cases:
        c = dict(c)
        c["rank"] = None
        c["crank"] = None
        b, tr = sim.run_ops(c, want_snaps=False)
        out.append(simcheck.jsonable(tr[-1]["dump"]))
    sys.stdout.write(json.dumps(out))


if __name__ == "__main__":
    main()

"""C16 saving to JSON and loading restores everything that was saved, at any stage"""
import random

from .. import oracles as O
from .. import gen, simcheck
from ..propkit import Kit


def json_diff(a, b, path=""):
    out = []
    if isinstance(a, dict) and isinstance(b, dict):
        for k in sorted(set(a) | set(b)):
            if k not in a or k not in b:
                out.append((path + "/" + k, "missing on one side"))
            else:
                out += json_diff(a[k], b[k], path + "/" + k)
    elif isinstance(a, list) and isinstance(b, list):
        if len(a) != len(b):
            out.append((path, "len %d vs %d" % (len(a), len(b))))
        else:
            for i, (x, y) in enumerate(zip(a, b)):
                out += json_diff(x, y, path + "[%d]" % i)
    else:
        num = (int, float)
        if isinstance(a, bool) or isinstance(b, bool):
            if a is not b:
                out.append((path, "%r vs %r" % (a, b)))
        elif isinstance(a, num) and isinstance(b, num):
            if a != b:                       # numbers by value: 0 == 0.0
                out.append((path, "%r vs %r" % (a, b)))
        elif a != b:
            out.append((path, "%r vs %r" % (a, b)))
    return out[:6]


def saved_settings_only(case):
    """since the F12 repair the per-task priority rules, the workers' main
    workplace and the workplaces' conveyor links are part of the saved format:
    every setting the generators use is saved"""
    return True


_SCHEMA = {}


def schema_keys():
    if not _SCHEMA:
        from .. import schema
        for c in schema.extract():
            _SCHEMA[c["name"]] = [k for (k, _, _) in c["exports"]]
    return _SCHEMA


def doc_nodes(doc):
    """every dictionary with a "type" entry in a saved document"""
    if isinstance(doc, dict):
        if "type" in doc:
            yield doc
        for v in doc.values():
            yield from doc_nodes(v)
    elif isinstance(doc, list):
        for v in doc:
            yield from doc_nodes(v)


def schema_disagreements(doc):
    """the keys the translator extracted (coq/Gen/Schema.v) are the keys the running code writes, in order"""
    sk = schema_keys()
    bad = []
    for node in doc_nodes(doc):
        t = node["type"]
        keys = [k for k in node if k != "type"]
        if t not in sk:
            bad.append("saved node of a class unknown to the translator: %s" % t)
        elif keys != sk[t]:
            bad.append("keys written for %s differ from Gen/Schema.v: code %s / schema %s" % (
                t, [k for k in keys if k not in sk[t]], [k for k in sk[t] if k not in keys]))
    return bad[:3]


def eval_case(case):
    from .. import sim
    S = O.Static(case)
    out = []
    b, trace = sim.run_ops(case, want_snaps=False)
    jrec = trace[-1]
    assert jrec["op"]["op"] == "json"
    stage = case["stage"]
    if any(r["exc"] for r in trace[:-1]):
        return {"violations": [], "sig": ("stage-raised",), "hist": {"cases": 1}, "nontrivial": False, "summary": None}
    if jrec["exc"] is not None:
        out.append(O.V("(e) writing / reading the project raised", "C16/raises/" + jrec["exc"].split(":")[0].strip() + ("/sub" if any(t.get("sub") for t in case["tasks"]) else ""),
                       {"exc": jrec["exc"], "stage": stage}))
    else:
        df = json_diff(jrec["doc1"], jrec["doc2"])
        if df:
            key = df[0][0].split("/")[-1]
            out.append(O.V("(a) the restored project's export differs from the original file", "C16/roundtrip/" + key.split("[")[0], {"diff": df, "stage": stage}))
        if jrec["refs"]:
            out.append(O.V("(b) a cross reference of the restored project is not an object of that project", "C16/refs", jrec["refs"][:5]))
        # restored abstract state equals the original one
        d0, d1 = trace[-2]["dump"] if len(trace) >= 2 else None, jrec["dump"]
        if d0 is not None:
            dd = O.dump_diff(d0, d1)
            if dd:
                out.append(O.V("(a) the restored project's state differs from the saved one", "C16/state/" + dd[0][0].split(".")[-1].split("[")[0], dd[:3]))
        # (c) re-simulation
        if case.get("resim") and saved_settings_only(case):
            fwd = case["fwd"]
            pre = case["ops"][:-1]
            b1, t1 = sim.run_ops(case, want_snaps=False, ops=pre + [fwd])
            b2, t2 = sim.run_ops(case, want_snaps=False, ops=pre + [{"op": "json"}, fwd])
            if t1[-1]["exc"] != t2[-1]["exc"]:
                out.append(O.V("(c) re-simulating the restored project raises / does not raise like the original", "C16/resim-exc", (t1[-1]["exc"], t2[-1]["exc"])))
            elif t1[-1]["exc"] is None:
                dd = O.dump_diff(t1[-1]["dump"], t2[-1]["dump"])
                if dd:
                    out.append(O.V("(c) the restored project re-simulates to a different result", "C16/resim", {"diff": dd[:3], "stage": stage}))
    dis = schema_disagreements(jrec["doc1"]) if jrec["exc"] is None else []
    return {"violations": out, "disagreements": dis, "sig": simcheck.behaviour_sig(S, trace) + (stage, any(t.get("sub") for t in case["tasks"])),
            "hist": dict(simcheck.base_hist(S, trace), **{"stage_" + stage: 1}), "nontrivial": True,
            "summary": {"stage": stage, "exc": jrec["exc"]}}


def gen_cases(rng, n):
    cases = []
    for i in range(n):
        c = gen.gen_project(rng)
        if rng.random() < 0.8:
            gen.simplify_feasible(rng, c)
        if rng.random() < 0.5:
            for t in c["tasks"]:
                t["wrule"], t["frule"], t["prule"] = -1, 0, 0
            for tm in c["teams"]:
                for w in tm["workers"]:
                    w["mainwp"] = None
            for wp in c["wps"]:
                wp["inputs"] = []
        if rng.random() < 0.15:
            for t in c["tasks"]:
                if t["auto"] and not t["need_fac"]:
                    t["sub"] = True
        stage = rng.choice(["fresh", "paused", "paused", "forward", "forward", "backward"])
        o = gen.gen_sim_op(rng, c)
        o["max_time"] = 40
        ops = []
        if stage == "paused":
            ops = [dict(o, max_time=rng.choice([0, 1, 2, 3, 5]))]
        elif stage == "forward":
            ops = [o]
        elif stage == "backward":
            ops = [dict(o, op="backward", due=rng.random() < 0.5, revlog=rng.random() < 0.6)]
        c["ops"] = ops + [{"op": "json"}]
        c["stage"] = stage
        c["resim"] = True
        c["fwd"] = dict(o, init_state=(stage != "paused"), init_log=(stage != "paused")) if stage == "paused" else dict(o)
        cases.append(c)
    return cases


def run(ctx):
    rng = random.Random(ctx["seed"])
    n = 10000 if ctx["tier"] == "thorough" else 300
    cases = simcheck.load_corpus("C16") + gen_cases(rng, n)
    results = simcheck.run_cases(ctx, "harness.props.c16", cases)
    return simcheck.summarise(ctx, cases, results,
                              "random projects (incl. sub-project tasks, values 0 / 0.0 / -1, empty lists) saved at four stages "
                              "(never simulated, paused at k, finished forward, finished backward): write -> read -> write compared "
                              "value for value, every reference attribute checked for membership in the restored project, "
                              "abstract state compared, and the restored project re-simulated against the original")


K = Kit("C16", None)
K.eval_case = eval_case
replay = K.replay

"""C16 saving to JSON and loading restores everything that was saved, at any stage"""
import random

from .. import oracles as O
from .. import gen, simcheck
from ..propkit import Kit


def json_diff(a, b, path=""):
    out = []
    if isinstance(a, dict) and isinstance(b, dict):
        for k in sorted(set(a) | set(b)):
            if k not in a or k not in b:
                out.append((path + "/" + k, "missing on one side"))
            else:
                out += json_diff(a[k], b[k], path + "/" + k)
    elif isinstance(a, list) and isinstance(b, list):
        if len(a) != len(b):
            out.append((path, "len %d vs %d" % (len(a), len(b))))
        else:
            for i, (x, y) in enumerate(zip(a, b)):
                out += json_diff(x, y, path + "[%d]" % i)
    else:
        num = (int, float)
        if isinstance(a, bool) or isinstance(b, bool):
            if a is not b:
                out.append((path, "%r vs %r" % (a, b)))
        elif isinstance(a, num) and isinstance(b, num):
            if a != b:                       # numbers by value: 0 == 0.0
                out.append((path, "%r vs %r" % (a, b)))
        elif a != b:
            out.append((path, "%r vs %r" % (a, b)))
    return out[:6]


def saved_settings_only(case):
    """since the F12 repair the per-task priority rules, the workers' main
    workplace and the workplaces' conveyor links are part of the saved format:
    every setting the generators use is saved"""
    return True


_SCHEMA = {}


def schema_keys():
    if not _SCHEMA:
        from .. import schema
        for c in schema.extract():
            _SCHEMA[c["name"]] = [k for (k, _, _) in c["exports"]]
    return _SCHEMA


def doc_nodes(doc):
    """every dictionary with a "type" entry in a saved document"""
    if isinstance(doc, dict):
        if "type" in doc:
            yield doc
        for v in doc.values():
            yield from doc_nodes(v)
    elif isinstance(doc, list):
        for v in doc:
            yield from doc_nodes(v)


def schema_disagreements(doc):
    """the keys the translator extracted (coq/Gen/Schema.v) are the keys the running code writes, in order"""
    sk = schema_keys()
    bad = []
    for node in doc_nodes(doc):
        t = node["type"]
        keys = [k for k in node if k != "type"]
        if t not in sk:
            bad.append("saved node of a class unknown to the translator: %s" % t)
        elif keys != sk[t]:
            bad.append("keys written for %s differ from Gen/Schema.v: code %s / schema %s" % (
                t, [k for k in keys if k not in sk[t]], [k for k in sk[t] if k not in keys]))
    return bad[:3]


def eval_case(case):
    from .. import sim
    S = O.Static(case)
    out = []
    b, trace = sim.run_ops(case, want_snaps=False)
    jrec = trace[-1]
    assert jrec["op"]["op"] == "json"
    stage = case["stage"]
    if any(r["exc"] for r in trace[:-1]):
        return {"violations": [], "sig": ("stage-raised",), "hist": {"cases": 1}, "nontrivial": False, "summary": None}
    if jrec["exc"] is not None:
        out.append(O.V("(e) writing / reading the project raised", "C16/raises/" + jrec["exc"].split(":")[0].strip() + ("/sub" if any(t.get("sub") for t in case["tasks"]) else ""),
                       {"exc": jrec["exc"], "stage": stage}))
    else:
        df = json_diff(jrec["doc1"], jrec["doc2"])
        if df:
            key = df[0][0].split("/")[-1]
            out.append(O.V("(a) the restored project's export differs from the original file", "C16/roundtrip/" + key.split("[")[0], {"diff": df, "stage": stage}))
        if jrec["refs"]:
            out.append(O.V("(b) a cross reference of the restored project is not an object of that project", "C16/refs", jrec["refs"][:5]))
        # restored abstract state equals the original one
        d0, d1 = trace[-2]["dump"] if len(trace) >= 2 else None, jrec["dump"]
        if d0 is not None:
            dd = O.dump_diff(d0, d1)
            if dd:
                out.append(O.V("(a) the restored project's state differs from the saved one", "C16/state/" + dd[0][0].split(".")[-1].split("[")[0], dd[:3]))
        # (c) re-simulation
        if case.get("resim") and saved_settings_only(case):
            fwd = case["fwd"]
            pre = case["ops"][:-1]
            b1, t1 = sim.run_ops(case, want_snaps=False, ops=pre + [fwd])
            b2, t2 = sim.run_ops(case, want_snaps=False, ops=pre + [{"op": "json"}, fwd])
            if t1[-1]["exc"] != t2[-1]["exc"]:
                out.append(O.V("(c) re-simulating the restored project raises / does not raise like the original", "C16/resim-exc", (t1[-1]["exc"], t2[-1]["exc"])))
            elif t1[-1]["exc"] is None:
                dd = O.dump_diff(t1[-1]["dump"], t2[-1]["dump"])
                if dd:
                    out.append(O.V("(c) the restored project re-simulates to a different result", "C16/resim", {"diff": dd[:3], "stage": stage}))
    dis = schema_disagreements(jrec["doc1"]) if jrec["exc"] is None else []
    return {"violations": out, "disagreements": dis, "sig": simcheck.behaviour_sig(S, trace) + (stage, any(t.get("sub") for t in case["tasks"])),
            "hist": dict(simcheck.base_hist(S, trace), **{"stage_" + stage: 1}), "nontrivial": True,
            "summary": {"stage": stage, "exc": jrec["exc"]}}


def gen_cases(rng, n):
    cases = []
    for i in range(n):
        c = gen.gen_project(rng)
        if rng.random() < 0.8:
            gen.simplify_feasible(rng, c)
        if rng.random() < 0.5:
            for t in c["tasks"]:
                t["wrule"], t["frule"], t["prule"] = -1, 0, 0
            for tm in c["teams"]:
                for w in tm["workers"]:
                    w["mainwp"] = None
            for wp in c["wps"]:
                wp["inputs"] = []
        if rng.random() < 0.15:
            for t in c["tasks"]:
                if t["auto"] and not t["need_fac"]:
                    t["sub"] = True
        if c["wps"] and rng.random() < 0.08:
            # an unlimited workplace: Python's json writes Infinity and reads it back as float("inf")
            c["wps"][rng.randrange(len(c["wps"]))]["cap"] = "inf"
        stage = rng.choice(["fresh", "paused", "paused", "forward", "forward", "backward"])
        o = gen.gen_sim_op(rng, c)
        o["max_time"] = 40
        ops = []
        if stage == "paused":
            ops = [dict(o, max_time=rng.choice([0, 1, 2, 3, 5]))]
        elif stage == "forward":
            ops = [o]
        elif stage == "backward":
            ops = [dict(o, op="backward", due=rng.random() < 0.5, revlog=rng.random() < 0.6)]
        c["ops"] = ops + [{"op": "json"}]
        c["stage"] = stage
        c["resim"] = True
        c["fwd"] = dict(o, init_state=(stage != "paused"), init_log=(stage != "paused")) if stage == "paused" else dict(o)
        cases.append(c)
    return cases


# ---------------------------------------------------------------- shape semantics
# Model/JsonConcrete.v gives each writer shape a meaning; here the Python expression the
# shape names (harness/schema.py recognises exactly these) is evaluated on sample attribute
# values and compared with the model's [out] by vm_compute.
def _coq_str(s):
    return '"%s"' % s.replace('"', '""')


def _jv(x):
    """a JSON-able Python value as a jv term"""
    if x is None:
        return "JNull"
    if isinstance(x, bool):
        return "(JBool %s)" % ("true" if x else "false")
    if isinstance(x, int):
        return "(JInt (%d)%%Z)" % int(x)
    if isinstance(x, float):
        return "(JFloatOfInt (%d)%%Z)" % int(x) if x.is_integer() else "(JFloat %s)" % _coq_str(repr(x))
    if isinstance(x, str):
        return "(JStr %s)" % _coq_str(x)
    if isinstance(x, (list, tuple)):
        return "(JList [%s])" % "; ".join(_jv(y) for y in x)
    if isinstance(x, dict):
        return "(JDict [%s])" % "; ".join("(%s, %s)" % (_coq_str(k), _jv(v)) for k, v in x.items())
    raise TypeError(x)


class _Obj:
    def __init__(self, ID):
        self.ID = ID


def shape_samples(rng):
    import datetime
    import enum
    from pDESy.model.base_task import BaseTaskState, BaseTaskDependency
    from pDESy.model.base_priority_rule import TaskPriorityRuleMode
    out = []          # (okind, av term, expected python value -> jv term)

    def av_of(v):
        if isinstance(v, enum.IntEnum):
            return "(AEnum (%d)%%Z)" % int(v)
        if isinstance(v, _Obj):
            return "(ARef %s %d)" % (_coq_str(v.ID), rng.randrange(5))
        return "(AJ %s)" % _jv(v)
    plain = [None, True, False, 0, 3, -1, 2.5, 1.0, 0.0, "x", "", [1, 2], [], [0.5, 2], {"n0": 1.0, "n1": 0.25}, [["t1", 0]], "2020-01-01"]
    for v in plain:
        out.append(("OPlain", av_of(v), _jv(v)))
        out.append(("OOptPlain", av_of(v), _jv(v if v is not None else None)))
    enums = [BaseTaskState.NONE, BaseTaskState.READY, BaseTaskState.WORKING, BaseTaskState.FINISHED, BaseTaskState.WORKING_ADDITIONALLY,
             TaskPriorityRuleMode.FIFO, BaseTaskDependency.SF]
    for e in enums:
        out.append(("OInt", av_of(e), _jv(int(e))))
    for v in (0, 4, True):
        out.append(("OInt", av_of(v), _jv(int(v))))
    for _ in range(6):
        l = [rng.choice(enums) for _ in range(rng.randrange(0, 5))]
        out.append(("OListInt", "(AList [%s])" % "; ".join(av_of(e) for e in l), _jv([int(x) for x in l])))
    for l in ([], [1, 2.5, 0], [0.0, 3.0], [7], [0.125, 2]):
        out.append(("OListFloat", av_of(l), _jv([float(x) for x in l])))
    for _ in range(6):
        objs = [_Obj("id%d" % rng.randrange(9)) for _ in range(rng.randrange(0, 4))]
        avs = [av_of(o) for o in objs]
        out.append(("OListId", "(AList [%s])" % "; ".join(avs), _jv([x.ID for x in objs])))
        deps = [rng.choice(list(BaseTaskDependency)) for _ in objs]
        out.append(("OListIdDep", "(AList [%s])" % "; ".join("(APair %s %s)" % (a, av_of(d)) for a, d in zip(avs, deps)),
                    _jv([(t.ID, int(d)) for t, d in zip(objs, deps)])))
    o = _Obj("w7")
    out.append(("OOptId", av_of(o), _jv(o.ID if o is not None else None)))
    out.append(("OOptId", "(AJ JNull)", _jv(None)))
    for secs in (60, 1, 0.5, 86400, 90.25):
        td = datetime.timedelta(seconds=secs)
        tok = str(td.total_seconds())
        out.append(("OSecondsStr", "(ATimedelta %s)" % _coq_str(tok), _jv(tok)))
    origin = datetime.datetime(2000, 1, 1)
    for (sec, mic) in ((0, 0), (86399, 5), (12345678, 999999), (60, 0)):
        dt = origin + datetime.timedelta(seconds=sec, microseconds=mic)
        text = dt.strftime("%Y-%m-%d %H:%M:%S")
        back = int((datetime.datetime.strptime(text, "%Y-%m-%d %H:%M:%S") - origin).total_seconds())
        out.append(("ODateStr", "(ADate (%d)%%Z (%d)%%Z)" % (sec, mic), "(JInt (%d)%%Z)" % back))
    return out


def reader_samples(rng):
    """(okind, ikind, lkind, written JSON value, python's write(read(value))) for the reader
    expressions recognised by harness/schema.py, on values as the writers produce them"""
    import datetime
    from pDESy.model.base_task import BaseTaskState, BaseTaskDependency
    from pDESy.model.base_priority_rule import TaskPriorityRuleMode, ResourcePriorityRuleMode
    out = []
    fmt = "%Y-%m-%d %H:%M:%S"
    origin = datetime.datetime(2000, 1, 1)
    for E in (BaseTaskState, TaskPriorityRuleMode, ResourcePriorityRuleMode):
        for m in list(E):
            j = int(m)
            out.append(("OInt", "IEnum", "LNone", _jv(j), _jv(int(E(j)))))
            out.append(("OInt", "IEnumDefault", "LNone", _jv(j), _jv(int(E(j)))))
    for _ in range(5):
        l = [int(rng.choice(list(BaseTaskState))) for _ in range(rng.randrange(0, 5))]
        out.append(("OListInt", "IListEnum", "LNone", _jv(l), _jv([int(x) for x in [BaseTaskState(n) for n in l]])))
    for secs in (60.0, 1.0, 0.5, 86400.0, 90.25):
        tok = str(datetime.timedelta(seconds=secs).total_seconds())
        back = str(datetime.timedelta(seconds=float(tok)).total_seconds())
        out.append(("OSecondsStr", "ISeconds", "LNone", _jv(tok), _jv(back)))
    for sec in (0, 86399, 12345678):
        text = (origin + datetime.timedelta(seconds=sec)).strftime(fmt)
        back = datetime.datetime.strptime(text, fmt).strftime(fmt)
        enc = lambda t: "(JInt (%d)%%Z)" % int((datetime.datetime.strptime(t, fmt) - origin).total_seconds())
        out.append(("ODateStr", "IDate", "LNone", enc(text), enc(back)))
    for v in (None, 3, 2.5, "x", [1, 2], {"n0": 1.0}, []):
        for ki in ("IPlain", "IPlainDefault"):
            out.append(("OPlain", ki, "LNone", _jv(v), _jv(v)))
            out.append(("OOptPlain", ki, "LNone", _jv(v), _jv(v)))
    objs = {"id%d" % i: _Obj("id%d" % i) for i in range(9)}
    for _ in range(5):
        ids = [rng.choice(sorted(objs)) for _ in range(rng.randrange(0, 4))]
        relinked = [objs[i] for i in ids]                       # [get_x_list(ID=ID)[0] for ID in o.a]
        out.append(("OListId", "IPlain", "LListId", _jv(ids), _jv([x.ID for x in relinked])))
        deps = [int(rng.choice(list(BaseTaskDependency))) for _ in ids]
        pairs = [[i, d] for i, d in zip(ids, deps)]
        rel2 = [[objs[i], BaseTaskDependency(d)] for i, d in pairs]
        out.append(("OListIdDep", "IPlain", "LListIdDep", _jv(pairs), _jv([(t.ID, int(d)) for t, d in rel2])))
    out.append(("OOptId", "IPlain", "LOptId", _jv("id3"), _jv(objs["id3"].ID)))
    out.append(("OOptId", "IPlain", "LOptId", _jv(None), _jv(None)))
    return out


def shape_mismatches(ctx):
    import os
    from .. import common as C
    rng = random.Random(ctx["seed"] + 16)
    ents = shape_samples(rng)
    path = os.path.join(ctx["work"], "shapes.v")
    with open(path, "w") as f:
        f.write("From Coq Require Import List String ZArith.\nFrom PV Require Import Model.Corr Model.JsonSchema Model.JsonConcrete.\n"
                "Import ListNotations.\nOpen Scope string_scope.\n"
                "Eval vm_compute in (mismatches chk_out [%s]).\n" % ";\n ".join("(%s, %s, %s)" % e for e in ents))
        rents = reader_samples(rng)
        f.write("Eval vm_compute in (mismatches chk_rt [%s]).\n" % ";\n ".join("(%s, %s, %s, %s, %s)" % e for e in rents))
    lists, _ = C.coq_eval_nat_lists(path, cwd=ctx["work"])
    bad = ["writer shape %s: Model/JsonConcrete.out disagrees with the Python expression on %s (python gives %s)" % ents[j] for j in lists[0]]
    bad += ["reader %s/%s/%s after writer: Model/JsonConcrete disagrees with python on %s (python writes %s back)" % (rents[j][1], rents[j][2], rents[j][0], rents[j][3], rents[j][4]) for j in lists[1]]
    return bad, len(ents) + len(rents)


def run(ctx):
    rng = random.Random(ctx["seed"])
    n = 10000 if ctx["tier"] == "thorough" else 600
    cases = simcheck.load_corpus("C16") + gen_cases(rng, n)
    results = simcheck.run_cases(ctx, "harness.props.c16", cases)
    bad, nshape = shape_mismatches(ctx)
    if bad and results:
        results[0].setdefault("disagreements", []).extend(bad)
    res = _summarise(ctx, cases, results)
    res["extra"]["writer_shape_samples_checked_against_model"] = nshape
    return res


def _summarise(ctx, cases, results):
    return simcheck.summarise(ctx, cases, results,
                              "random projects (incl. sub-project tasks, values 0 / 0.0 / -1, empty lists) saved at four stages "
                              "(never simulated, paused at k, finished forward, finished backward): write -> read -> write compared "
                              "value for value, every reference attribute checked for membership in the restored project, "
                              "abstract state compared, and the restored project re-simulated against the original")


K = Kit("C16", None)
K.eval_case = eval_case
replay = K.replay

"""C04 only eligible resources are allocated"""
from .. import oracles as O
from ..propkit import Kit


def _oracle(S, b, trace):
    out = []
    t0 = 0
    for rec in trace:
        if rec["op"]["op"] != "simulate":
            continue
        out += O.c04(S, rec)
    return out


def _tweak(rng, c):
    """a second assignment of teams to tasks: after the run the model is edited (both sides of the
    relation) and the same project object is simulated again"""
    if len(c.get("teams", [])) >= 2 and c["ops"][0].get("init_log", True) and c["ops"][0].get("init_state", True) and rng.random() < 0.15:
        nteam = len(c["teams"])
        c["rewire"] = [sorted(rng.sample(range(nteam), rng.choice([1, 1, min(2, nteam)]))) for _ in c["tasks"]]
    # skill entries whose PRODUCT looks like a skill although neither factor is one: a worker without the skill
    # (negative entry, or positive below the tolerance) paired with a facility whose entry makes the product
    # exceed the tolerance (negative x negative, tiny x large).  "Has the skill" is a test on each entry.
    fac_tasks = [i for i, t in enumerate(c["tasks"]) if t.get("need_fac") and t.get("teams") and t.get("wps")]
    if fac_tasks and rng.random() < 0.1:
        i = rng.choice(fac_tasks)
        t = c["tasks"][i]
        nm = str(t["name"])
        ws = [w for g in t["teams"] for w in c["teams"][g]["workers"]]
        fs = [f for p_ in t["wps"] for f in c["wps"][p_]["facs"]]
        if ws and fs:
            w, f = rng.choice(ws), rng.choice(fs)
            if rng.random() < 0.5:
                w["skills"][nm], f["skills"][nm] = "-1/2", "-2/1"
            else:
                w["skills"][nm], f["skills"][nm] = "1/1099511627776", "256/1"
            if "fskills" in w and f.get("name") is not None:
                w["fskills"][str(f["name"])] = "1/1"


K = Kit("C04", _oracle, streams=(("structured", 0.5), ("contention", 0.32), ("pairs", 0.18)), tweak=_tweak)
run, replay = K.run, K.replay
_base_eval = K.eval_case


def eval_case(case):
    res = _base_eval(case)
    if case.get("rewire") and len(case["ops"]) == 1 and case["ops"][0]["op"] == "simulate":
        from .. import sim
        b, tr1 = sim.run_ops(case, want_snaps=False)
        # edit the model: every team forgets its tasks, every task its teams, then the new assignment
        for tm in b.teams:
            tm.targeted_task_list = []
        for t in b.tasks:
            t.allocated_team_list = []
        for i, tms in enumerate(case["rewire"]):
            for g in tms:
                b.teams[g].append_targeted_task(b.tasks[i])
        case2 = dict(case, tasks=[dict(t, teams=list(tms)) for t, tms in zip(case["tasks"], case["rewire"])])
        case2.pop("rewire", None)
        for tm in case2["teams"]:
            tm.pop("oneside", None)
        S2 = O.Static(case2)
        b, tr2 = sim.run_ops(case2, want_snaps=True, built=b)
        res["violations"] += [dict(v, signature=v["signature"] + "/rewired") for v in _oracle(S2, b, tr2)]
        bF, trF = sim.run_ops(case2, want_snaps=False)
        if tr2[0]["exc"] is None and trF[0]["exc"] is None:
            df = O.dump_diff(tr2[0]["dump"], trF[0]["dump"])
            if df:
                res["violations"].append(O.V("a project simulated again after its teams were re-assigned differs from a freshly built one",
                                             "C04/rewired-differs", df[:3]))
    return res


K.eval_case = eval_case

"""C02 remaining work changes only by the allocated resources' contribution"""
from .. import oracles as O
from ..propkit import Kit


def _oracle(S, b, trace):
    out = []
    t0 = 0
    for rec in trace:
        if rec["op"]["op"] != "simulate":
            continue
        out += O.c02(S, rec)
    return out


K = Kit("C02", _oracle)
eval_case, run, replay = K.eval_case, K.run, K.replay

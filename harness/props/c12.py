"""C12 PERT/CPM values equal an independent critical-path computation"""
import random
from fractions import Fraction

from .. import oracles as O
from .. import gen, simcheck
from ..propkit import Kit


def eval_case(case):
    from .. import sim
    S = O.Static(case)
    out = []
    if "pert_seq" in case and case.get("edges_in"):
        # a link declared on the successor's side only: the same network is also built with the link mirrored
        # (append_input_task).  Violations of the mirrored build are reported as usual; violations that only
        # the one-sided build shows are the recorded finding C12/onesided.
        mirrored = dict(case, edges=list(case["edges"]) + [list(e) for e in case["edges_in"]], edges_in=[])
        out = _direct(mirrored, O.Static(mirrored))
        onesided = _direct(case, O.Static(case))
        if onesided and not out:
            out.append(O.V("the PERT values ignore a dependency that is declared in the successor's input list only",
                           "C12/onesided", {"edges_in": case["edges_in"], "first": onesided[0].get("detail")}))
        return {"violations": out, "sig": (S.nt, len(case["edges"]), "onesided"), "hist": {"cases": 1, "direct": 1, "onesided": 1},
                "nontrivial": True, "summary": None}
    if "pert_seq" in case:
        # direct: progress updates followed by update_PERT_data(t)
        sim.set_ranks(case)
        b = sim.build(case)
        wf = b.project.workflow
        wf.initialize()
        sn = sim.snap(b.project)
        out += O.c12_snapshot(S, sn, 0, "fresh")
        late = case.get("late_edge")
        for step, (t, rems) in enumerate(case["pert_seq"]):
            if late and late[0] == step:
                # the model is edited between two updates: one more finish-to-start link
                wf.task_list[late[2]].append_input_task(wf.task_list[late[1]])
                S = O.Static(dict(case, edges=case["edges"] + [[late[1], late[2], 0]]))
            for task, r in zip(wf.task_list, rems):
                task.remaining_work_amount = float(Fraction(r))
            wf.update_PERT_data(t)
            sn = sim.snap(b.project)
            out += O.c12_snapshot(S, sn, t, "call %d (t=%d)" % (step, t))
        tr = [{"op": {"op": "pert"}, "exc": None, "dump": {"time": len(case["pert_seq"]) + 1, "status": 0}, "snaps": []}]
        return {"violations": out, "sig": (S.nt, len(case["edges"]), len(case["pert_seq"]), tuple(case["pert_seq"][-1][1]) if case["pert_seq"] else ()),
                "hist": {"cases": 1, "direct": 1}, "nontrivial": len(case["edges"]) >= 1, "summary": None}
    b, trace = sim.run_ops(case)
    for rec in trace:
        for (k, ph, w, sn) in rec["snaps"]:
            if ph == "updated":
                out += O.c12_snapshot(S, sn, k, "step %d" % k)
    from .. import modelrun
    return {"violations": out, "disagreements": modelrun.compare(case, trace, modelrun.CONES["C12"]),
            "sig": simcheck.behaviour_sig(S, trace), "hist": simcheck.base_hist(S, trace),
            "nontrivial": (trace[0].get("dump") or {}).get("time", 0) >= 2 and len(case["edges"]) >= 1,
            "summary": {"time": (trace[0].get("dump") or {}).get("time")}}


def _direct(case, S):
    """progress updates followed by update_PERT_data(t) on a freshly built workflow, judged against S"""
    from .. import sim
    out = []
    sim.set_ranks(case)
    b = sim.build(case)
    wf = b.project.workflow
    wf.initialize()
    out += O.c12_snapshot(S, sim.snap(b.project), 0, "fresh")
    for step, (t, rems) in enumerate(case["pert_seq"]):
        for task, r in zip(wf.task_list, rems):
            task.remaining_work_amount = float(Fraction(r))
        wf.update_PERT_data(t)
        out += O.c12_snapshot(S, sim.snap(b.project), t, "call %d (t=%d)" % (step, t))
    return out


def gen_cases(rng, n):
    cases = []
    for i in range(n):
        c = gen.gen_project(rng, fs_only=True, facilities=False if rng.random() < 0.7 else None)
        if rng.random() < 0.5:
            gen.simplify_feasible(rng, c)
            c["ops"] = [gen.gen_sim_op(rng, c)]
        else:
            nt = len(c["tasks"])
            seq = []
            rem = [Fraction(t["work"]) * (1 - Fraction(t["progress"])) for t in c["tasks"]]
            t = 0
            for _ in range(rng.choice([1, 2, 3, 4])):
                t += rng.choice([0, 1, 1, 2, 5])
                rem = [max(Fraction(0), r - rng.choice([Fraction(0), Fraction(0), Fraction(1, 2), Fraction(1), Fraction(3)])) for r in rem]
                seq.append([t, [gen.qs(r) for r in rem]])
            c["pert_seq"] = seq
            c["ops"] = []
            if nt >= 2 and len(seq) >= 2 and rng.random() < 0.24:
                order, indeg = [], [0] * nt
                for (a, b_, k) in c["edges"]:
                    indeg[b_] += 1
                todo = [i for i in range(nt) if indeg[i] == 0]
                while todo:
                    x = todo.pop(0)
                    order.append(x)
                    for (a, b_, k) in c["edges"]:
                        if a == x:
                            indeg[b_] -= 1
                            if indeg[b_] == 0:
                                todo.append(b_)
                if len(order) == nt:
                    pos = {tt: n_ for n_, tt in enumerate(order)}
                    a, b_ = rng.sample(range(nt), 2)
                    if pos[a] > pos[b_]:
                        a, b_ = b_, a
                    if not any(x == a and y == b_ for (x, y, k) in c["edges"]):
                        if rng.random() < 0.83:
                            c["late_edge"] = [rng.randrange(1, len(seq)), a, b_]
                        else:
                            c["edges_in"] = [[a, b_, 0]]      # declared in the successor's input list only (finding C12/onesided)
        cases.append(c)
    return cases


def run(ctx):
    rng = random.Random(ctx["seed"])
    n = 20000 if ctx["tier"] == "thorough" else 1500
    cases = simcheck.load_corpus("C12") + gen_cases(rng, n)
    results = simcheck.run_cases(ctx, "harness.props.c12", cases)
    return simcheck.summarise(ctx, cases, results,
                              "random acyclic FS networks (1-8 tasks, multiple heads/tails, zero work): half simulated "
                              "(PERT checked at the updated phase of every step), half driven directly by sequences of "
                              "progress updates + update_PERT_data(t); compared with an independent topological CPM")


K = Kit("C12", None)
K.eval_case = eval_case
replay = K.replay

"""C09 reproducible, independent of object identity and of set iteration order"""
import json
import os
import random
import subprocess
import sys
import tempfile

from .. import common as C
from .. import oracles as O
from .. import gen, simcheck
from ..propkit import Kit


def _dumps_for(case, ranks):
    from .. import sim
    c = dict(case)
    c["rank"], c["crank"] = ranks
    b, tr = sim.run_ops(c, want_snaps=False)
    return b, tr


def eval_case(case):
    from .. import sim
    S = O.Static(case)
    out = []
    rk = (case.get("rank"), case.get("crank"))
    from .. import modelrun
    c1 = dict(case)
    c1["rank"], c1["crank"] = rk
    b1, tr1 = sim.run_ops(c1, want_snaps=True)
    dis = modelrun.compare(c1, tr1, modelrun.FULL)
    d1 = tr1[-1]["dump"]
    if tr1[-1]["exc"] is None:
        # (i) a second build under other visit orders
        for alt in case.get("alt_ranks", []):
            b2, tr2 = _dumps_for(case, alt)
            df = O.dump_diff(d1, tr2[-1]["dump"])
            if df or tr2[-1]["exc"] != tr1[-1]["exc"]:
                out.append(O.V("result depends on the iteration order of an internal unordered collection",
                               "C09/order", {"ranks": [rk, alt], "diff": df[:3]}))
                break
        # (ii) simulate() again on the simulated object
        b1b, tr3 = sim.run_ops(case, want_snaps=False, built=b1)
        df = O.dump_diff(d1, tr3[-1]["dump"])
        if df:
            out.append(O.V("calling simulate() again on a simulated project gives a different result", "C09/rerun", df[:3]))
        # (iii) a default-argument simulate() on the object that has just been simulated with explicit
        # options (absence list, auto-task flag, rule) must equal a default-argument simulate() on a fresh object
        if case["ops"][0].get("abs") or case["ops"][0].get("auto_abs") or case.get("defaults_probe"):
            dflt = [{"op": "simulate_default", "max_time": 40}]
            bD, trD = sim.run_ops(case, want_snaps=False, ops=dflt, built=b1)
            bF, trF = sim.run_ops(case, want_snaps=False, ops=dflt)
            if trD[0]["exc"] is None and trF[0]["exc"] is None:
                df = O.dump_diff(trD[0]["dump"], trF[0]["dump"])
                if df:
                    out.append(O.V("a default-argument simulate() after a run with explicit options differs from the same call on a fresh project",
                                   "C09/options-survive", df[:3]))
        # (iii') simulate(), backward_simulate(), simulate() on one object: the third run equals the first
        if case.get("backward_probe"):
            op = case["ops"][0]
            bk = dict(op, op="backward", due=bool(case["backward_probe"] & 1), revlog=bool(case["backward_probe"] & 2), max_time=80)
            bX, trX = sim.run_ops(case, want_snaps=False, ops=[op, bk, op])
            if all(r["exc"] is None for r in trX):
                df = O.dump_diff(trX[0]["dump"], trX[2]["dump"])
                if df:
                    out.append(O.V("a forward run after a backward run on the same project differs from the forward run before it",
                                   "C09/after-backward", df[:3]))
                # ... and the backward run itself equals the backward run of a freshly built project
                if op.get("init_state", True) and op.get("init_log", True):
                    bY, trY = sim.run_ops(case, want_snaps=False, ops=[bk])
                    if trY[0]["exc"] is None:
                        df = O.dump_diff(trX[1]["dump"], trY[0]["dump"])
                        if df:
                            out.append(O.V("a backward run on an already simulated project differs from the backward run of a fresh one",
                                           "C09/backward-after-forward", df[:3]))
    # (iii'') the model edited between two calls (a skill, a work amount, a cost, an absence list, a new
    # dependency, a new worker): the second run equals the run of a freshly built edited model
    if case.get("edit_probe") and tr1[-1]["exc"] is None:
        e = case["edit_probe"]
        op = case["ops"][0]
        if op.get("init_state", True) and op.get("init_log", True):
            bE, trE = sim.run_ops(case, want_snaps=False, ops=[op, {"op": "edit", "edit": e}, op])
            c2 = sim.edited_case(case, e)
            bF, trF = sim.run_ops(c2, want_snaps=False, ops=[op])
            if all(r["exc"] is None for r in trE) and trF[0]["exc"] is None:
                df = O.dump_diff(trE[2]["dump"], trF[0]["dump"])
                if df:
                    out.append(O.V("after the model was edited between two calls the second run differs from the run of a freshly built edited model",
                                   "C09/edit/" + e["kind"], {"edit": e, "diff": df[:3]}))
    # (iv) hidden state outside the object: default-argument call, log edit, default-argument call on a new object
    if case.get("defaults_probe"):
        ops = [{"op": "simulate_default", "max_time": 40}]
        bA, trA = sim.run_ops(case, want_snaps=False, ops=ops + [{"op": "insert_absence", "list": [1]}])
        bB, trB = sim.run_ops(case, want_snaps=False, ops=ops)
        if trA[0]["exc"] is None and trB[0]["exc"] is None:
            df = O.dump_diff(trA[0]["dump"], trB[0]["dump"])
            if df:
                out.append(O.V("an earlier run on another project object changes a later default-argument run (hidden shared state)",
                               "C09/hidden-default", df[:3]))
    return {"violations": out, "disagreements": dis, "sig": simcheck.behaviour_sig(S, tr1), "hist": simcheck.base_hist(S, tr1),
            "nontrivial": (d1 or {}).get("time", 0) >= 2, "dump": simcheck.jsonable(d1),
            "summary": {"status": (d1 or {}).get("status"), "time": (d1 or {}).get("time")}}


def gen_edit(rng, c):
    """one edit of the model that keeps it well formed"""
    from fractions import Fraction
    nt = len(c["tasks"])
    teams = [(ti, j) for ti, tm in enumerate(c["teams"]) for j in range(len(tm["workers"]))]
    kinds = ["work", "rate"]
    if teams:
        kinds += ["skill", "skill", "cost", "wabs"]
    if c["teams"]:
        kinds.append("add_worker")
    if nt >= 2:
        kinds += ["edge", "edge"]
    cand = [(i, ti) for i, t in enumerate(c["tasks"]) for ti in range(len(c["teams"])) if ti not in t["teams"] and not c["teams"][ti].get("oneside")]
    if cand:
        kinds += ["target", "target", "target", "target"]
    k = rng.choice(kinds)
    if k == "target":
        i, ti = rng.choice(cand)
        return {"kind": k, "t": i, "team": ti}
    if k == "skill":
        ti, j = rng.choice(teams)
        return {"kind": k, "team": ti, "j": j, "name": c["tasks"][rng.randrange(nt)]["name"], "val": rng.choice(["2/1", "1/2", "0/1", "1/1", "3/2"])}
    if k == "work":
        return {"kind": k, "t": rng.randrange(nt), "val": rng.choice(["1/1", "3/1", "5/2", "1/2", "4/1"])}
    if k == "rate":
        return {"kind": k, "t": rng.randrange(nt), "val": rng.choice(["1/1", "2/1", "1/2"])}
    if k == "cost":
        ti, j = rng.choice(teams)
        return {"kind": k, "team": ti, "j": j, "val": rng.choice(["0/1", "7/1", "1/2"])}
    if k == "wabs":
        ti, j = rng.choice(teams)
        return {"kind": k, "team": ti, "j": j, "list": sorted(set(rng.randrange(0, 8) for _ in range(rng.choice([1, 2, 3])))), "inplace": rng.random() < 0.6}
    if k == "add_worker":
        nm = c["tasks"][rng.randrange(nt)]["name"]
        return {"kind": k, "worker": {"skills": {str(nm): rng.choice(["1/1", "2/1", "1/2"])}, "fskills": {}, "cost": rng.choice(["1/1", "3/1"]),
                                      "solo": False, "abs": [], "mainwp": None}}
    # a new dependency that keeps the network acyclic: from a task to one it cannot reach backwards
    reach = {i: set() for i in range(nt)}
    for (p_, s_, _k) in c["edges"] + c.get("edges_in", []):
        reach[p_].add(s_)
    changed = True
    while changed:
        changed = False
        for i in range(nt):
            new = set()
            for x in reach[i]:
                new |= reach[x]
            if not new <= reach[i]:
                reach[i] |= new
                changed = True
    pairs = [(p_, s_) for p_ in range(nt) for s_ in range(nt) if p_ != s_ and p_ not in reach[s_] and s_ not in reach[p_]]
    if not pairs:
        return {"kind": "work", "t": rng.randrange(nt), "val": "2/1"}
    p_, s_ = rng.choice(pairs)
    return {"kind": "edge", "p": p_, "s": s_, "k": rng.choice([0, 0, 1, 2, 3]), "extend": rng.random() < 0.5}


def gen_cases(rng, n):
    cases = []
    for i in range(n):
        c = gen.gen_project(rng, n_tasks=rng.choice([2, 3, 4, 5, 6, 7, 8]))
        if rng.random() < 0.7:
            gen.simplify_feasible(rng, c)
        c["ops"] = [gen.gen_sim_op(rng, c)]
        nt, nc = len(c["tasks"]), len(c["comps"])
        c["alt_ranks"] = [[rng.sample(range(8), 8)[:nt], rng.sample(range(8), 8)[:nc]] for _ in range(3)]
        c["alt_ranks"].append([list(range(nt)), list(range(nc))])
        c["alt_ranks"].append([list(range(nt - 1, -1, -1)), list(range(nc - 1, -1, -1))])
        c["defaults_probe"] = (i % 10 == 0)
        c["backward_probe"] = rng.choice([1, 2, 3, 4]) if i % 4 == 1 else 0
        c["edit_probe"] = gen_edit(rng, c) if i % 4 == 2 else None
        cases.append(c)
    return cases


def run(ctx):
    rng = random.Random(ctx["seed"])
    n = 5000 if ctx["tier"] == "thorough" else 600
    cases = simcheck.load_corpus("C09") + gen_cases(rng, n)
    results = simcheck.run_cases(ctx, "harness.props.c09", cases)
    # (iii) fresh processes, unpinned hashes, other PYTHONHASHSEED, shifted heap
    sub = cases[: (400 if ctx["tier"] == "thorough" else 60)]
    path = os.path.join(ctx["work"], "sub_cases.json")
    with open(path, "w") as f:
        json.dump(sub, f)
    extra_v = []
    by_idx = {r["idx"]: r for r in results}
    for hs, pad in (("1", 0), ("12345", 7777)):
        env = dict(os.environ, PYTHONHASHSEED=hs, VERIF_PAD=str(pad))
        p = subprocess.run([sys.executable, "-W", "ignore", "-m", "harness.subrun", path], env=env, cwd=C.VERIF,
                           stdout=subprocess.PIPE, stderr=subprocess.PIPE, text=True, timeout=1200)
        if p.returncode != 0:
            raise RuntimeError("subrun failed: " + p.stderr[-1500:])
        dumps = json.loads(p.stdout)
        for i, d in enumerate(dumps):
            ref = by_idx[i].get("dump")
            if ref is not None and d is not None and ref != d:
                df = O.dump_diff(ref, d)
                extra_v.append({"idx": i, "violations": [O.V("a fresh process (other hash seed / addresses) gives a different result",
                                                             "C09/process", df[:3])], "sig": None})
    for r in results:
        r.pop("dump", None)
    res = simcheck.summarise(ctx, cases, results + extra_v,
                             "random projects (2-8 tasks); each simulated under its own and 5 other forced set-visit orders, "
                             "re-simulated on the same object, and (first %d cases) in 2 fresh processes with other "
                             "PYTHONHASHSEED and unpinned hashes; distinct = behaviour signature" % len(sub))
    res["evaluations"] = len(cases) * 7 + 2 * len(sub)
    return res


def replay(rp):
    from .. import sim
    sim.pin_hashes()
    if rp.get("case") is None:
        print(rp)
        return 1
    r = eval_case(rp["case"])
    for v in r["violations"]:
        print("FAILS:", v["clause"], v.get("detail"))
    return 1 if r["violations"] else 0

"""C10 absence is dead time: no work, no cost, and it only stretches the schedule"""
import random

from .. import oracles as O
from .. import gen, simcheck
from ..propkit import Kit

IGNORE = (".est", ".eft", ".lst", ".lft", ".cpl", ".abs", ".auto_abs")


def deletion_applicable(case, op):
    S = O.Static(case)
    if any(w["abs"] for w in S.W) or any(f["abs"] for f in S.F):
        return False
    if any(S.auto[i] and S.comp[i] is not None for i in range(S.nt)):
        return False
    if op.get("auto_abs") and any(S.auto):
        return False
    return True


def eval_case(case):
    from .. import sim
    S = O.Static(case)
    out = []
    b, trace = sim.run_ops(case)
    rec = trace[0]
    op = rec["op"]
    if rec["exc"] is None:
        out += O.c10_steps(S, rec)
    else:
        out.append(O.V("simulate raised", "C10/raises", rec["exc"]))
    deleted = False
    if rec["exc"] is None and op.get("abs") and deletion_applicable(case, op) and rec["dump"]["status"] == 1:
        op0 = dict(op, abs=[])
        b0, tr0 = sim.run_ops(case, want_snaps=False, ops=[op0])
        if tr0[0]["exc"] is None and tr0[0]["dump"]["status"] == 1:
            b1, tr1 = sim.run_ops(case, want_snaps=False, ops=[op, {"op": "remove_absence"}])
            deleted = True
            if tr1[1]["exc"] is not None:
                out.append(O.V("(f) remove_absence_time_list raised", "C10/f-raises", tr1[1]["exc"]))
            else:
                df = O.dump_diff(tr0[0]["dump"], tr1[1]["dump"], ignore=IGNORE)
                if df:
                    out.append(O.V("(f) deleting the project-wide absence steps does not give the result of simulating without absence",
                                   "C10/f-fifo" if op.get("rule") == 4 else "C10/f", {"diff": df[:4], "abs": op["abs"], "rule": op.get("rule")}))
    # a later run on the same object that leaves the auto-task flag (or the absence list) at its
    # default must behave as the default says, whatever the previous run used
    if rec["exc"] is None and (op.get("auto_abs") or op.get("abs")):
        for omit in (["perform_auto_task_while_absence_time"], ["absence_time_list"]):
            if (omit[0] == "absence_time_list" and not op.get("abs")) or (omit[0] != "absence_time_list" and not op.get("auto_abs")):
                continue
            op2 = dict(op, omit=omit)
            bA, trA = sim.run_ops(case, want_snaps=False, ops=[op2], built=b)
            bB, trB = sim.run_ops(case, want_snaps=False, ops=[op2])
            if trA[0]["exc"] is None and trB[0]["exc"] is None:
                df = O.dump_diff(trA[0]["dump"], trB[0]["dump"])
                if df:
                    out.append(O.V("a run that leaves %s at its default inherits the previous run's setting" % omit[0],
                                   "C10/default-inherits", {"diff": df[:3], "omit": omit}))
            b = bA
        if op.get("abs"):
            # the project's own absence_time_list object handed back as the argument of the next call
            bA, trA = sim.run_ops(case, want_snaps=False, ops=[op, dict(op, alias_abs=True)])
            bB, trB = sim.run_ops(case, want_snaps=False, ops=[op, op])
            if all(r["exc"] is None for r in trA + trB):
                df = O.dump_diff(trA[1]["dump"], trB[1]["dump"])
                if df:
                    out.append(O.V("simulate(absence_time_list=project.absence_time_list) differs from the same call with a copy of that list",
                                   "C10/alias", df[:3]))
    from .. import modelrun
    return {"violations": out, "disagreements": modelrun.compare(case, trace, modelrun.FULL), "sig": simcheck.behaviour_sig(S, trace) + (deleted, tuple(sorted(set(op.get("abs", []))))[:4]),
            "hist": dict(simcheck.base_hist(S, trace), deletion_checked=int(deleted)),
            "nontrivial": (rec.get("dump") or {}).get("time", 0) >= 2 and bool(op.get("abs")),
            "summary": {"time": (rec.get("dump") or {}).get("time"), "deletion_checked": deleted}}


def gen_cases(rng, n):
    cases = []
    for i in range(n):
        c = gen.gen_project(rng)
        if rng.random() < 0.85:
            gen.simplify_feasible(rng, c)
        if rng.random() < 0.6:          # deletion stream: no individual absences
            for tm in c["teams"]:
                for w in tm["workers"]:
                    w["abs"] = []
            for wp in c["wps"]:
                for f in wp["facs"]:
                    f["abs"] = []
        o = gen.gen_sim_op(rng, c)
        if not o["abs"]:
            o["abs"] = [rng.randrange(0, 10) for _ in range(rng.choice([1, 2, 3]))] + ([0] if rng.random() < 0.3 else []) \
                + ([rng.randrange(30, 50)] if rng.random() < 0.3 else [])
        o["max_time"] = 60
        seen = []
        for x in o["abs"]:          # a step is listed once (repeated entries are C18's subject, not C10's)
            if x not in seen:
                seen.append(x)
        o["abs"] = seen
        c["ops"] = [o]
        cases.append(c)
    return cases


def run(ctx):
    rng = random.Random(ctx["seed"])
    n = 20000 if ctx["tier"] == "thorough" else 1200
    cases = simcheck.load_corpus("C10") + gen_cases(rng, n)
    results = simcheck.run_cases(ctx, "harness.props.c10", cases)
    return simcheck.summarise(ctx, cases, results,
                              "random projects with project-wide absence lists (step 0, consecutive, duplicates, beyond the end), "
                              "both auto-task flags, individual absences; per-step clauses on every step; the deletion clause on "
                              "every applicable successful case (compared with the absence-free run, PERT live values excluded)")


K = Kit("C10", None)
K.eval_case = eval_case
replay = K.replay

"""C20 a sub-project task lasts exactly as long as the sub-project it stands for"""
import datetime
import math
import os
import random
import tempfile
import warnings
from fractions import Fraction

from .. import common as C
from .. import oracles as O
from .. import gen, simcheck
from ..propkit import Kit


def eval_case(case):
    from .. import sim
    from pDESy.model.base_subproject_task import BaseSubProjectTask
    from pDESy.model.base_task import BaseTask, BaseTaskDependency
    from pDESy.model.base_project import BaseProject
    from pDESy.model.base_workflow import BaseWorkflow
    from pDESy.model.base_organization import BaseOrganization
    from pDESy.model.base_team import BaseTeam
    from pDESy.model.base_worker import BaseWorker
    out = []
    sub = case["subproject"]
    su, pu = Fraction(case["su"]), Fraction(case["pu"])        # unit lengths in seconds (whole, or dyadic fractions such as 7.5)
    if su.denominator == 1 and pu.denominator == 1:
        su, pu = int(su), int(pu)
    sub = dict(sub, unit=float(su) if isinstance(su, Fraction) else su)
    sim.set_ranks(sub)
    sb = sim.build(sub)
    op = sub["ops"][0]
    with warnings.catch_warnings():
        warnings.simplefilter("ignore")
        sb.project.simulate(**sim.sim_kwargs(op))
    status = int(sb.project.status)
    d_full = sb.project.time
    n_abs = len(set(a for a in op.get("abs", []) if a < d_full))
    os.makedirs(C.WORK, exist_ok=True)
    fd, path = tempfile.mkstemp(suffix=".json", dir=C.WORK)
    os.close(fd)
    summary = {}
    cfg_out = {}
    try:
        sb.project.write_simple_json(path)
        explicit = bool(case.get("explicit_path"))
        # the file is named at construction, or only in the call (the task then keeps pointing elsewhere)
        st = BaseSubProjectTask(file_path=(path + ".elsewhere" if explicit else path), name="sub")
        if case.get("reconf_su") and status == 1:
            # the task was configured from ANOTHER result before (the same sub-project with another unit time)
            # and related to the same parent unit: nothing of that may survive the configuration judged below
            sub2 = dict(sub, unit=case["reconf_su"])
            sim.set_ranks(sub2)
            sb2 = sim.build(sub2)
            fd2, path2 = tempfile.mkstemp(suffix=".json", dir=C.WORK)
            os.close(fd2)
            try:
                with warnings.catch_warnings():
                    warnings.simplefilter("ignore")
                    sb2.project.simulate(**sim.sim_kwargs(op))
                    sb2.project.write_simple_json(path2)
                    st.set_all_attributes_from_json(file_path=path2, remove_absence_time_list=not case["remove_abs"])
                    st.set_work_amount_progress_of_unit_step_time(datetime.timedelta(seconds=float(pu)))
            finally:
                os.unlink(path2)
            sim.set_ranks(sub)
        before = dict(vars(st))
        with warnings.catch_warnings(record=True) as wl:
            warnings.simplefilter("always")
            if explicit:
                st.set_all_attributes_from_json(file_path=path, remove_absence_time_list=bool(case["remove_abs"]))
            else:
                st.set_all_attributes_from_json(remove_absence_time_list=bool(case["remove_abs"]))
        wl = [w for w in wl if "not simulated" in str(w.message)]      # the refusal warning (not e.g. ResourceWarning)
        cfg_out = {"status": status, "time": d_full, "abs": list(op.get("abs", [])), "remove": bool(case["remove_abs"]),
                   "su": float(su) if isinstance(su, Fraction) else su, "pu": float(pu) if isinstance(pu, Fraction) else pu, "warned": bool(wl)}
        if status != 1:
            cfg_out.update(work=C.q_str(C.frac(st.default_work_amount)), rate=C.q_str(C.frac(st.work_amount_progress_of_unit_step_time)))
            if not wl:
                out.append(O.V("configuring from an unsuccessful project issues no warning", "C20/refuse-warning", status))
            after = dict(vars(st))
            changed = [k for k in before if before[k] is not after.get(k) and before[k] != after.get(k)]
            if changed or set(after) != set(before):
                out.append(O.V("configuring from an unsuccessful project changes the task", "C20/refuse-changed", changed))
            return {"violations": out, "sig": ("refused", d_full), "hist": {"cases": 1, "refused": 1}, "nontrivial": True,
                    "summary": {"refused": True, "cfg": cfg_out}}
        d = d_full - (n_abs if case["remove_abs"] else 0)
        if st.default_work_amount != d:
            out.append(O.V("work amount is not the sub-project's duration", "C20/duration", (st.default_work_amount, d, d_full, n_abs)))
        # a refused configuration (a never simulated project) after the successful one leaves the task unchanged
        if case.get("refuse_after"):
            sb0 = sim.build(sub)
            fd0, path0 = tempfile.mkstemp(suffix=".json", dir=C.WORK)
            os.close(fd0)
            try:
                sb0.project.write_simple_json(path0)
                before2 = dict(vars(st))
                with warnings.catch_warnings(record=True) as wl2:
                    warnings.simplefilter("always")
                    st.set_all_attributes_from_json(file_path=path0, remove_absence_time_list=bool(case["remove_abs"]))
                wl2 = [w for w in wl2 if "not simulated" in str(w.message)]
                after2 = dict(vars(st))
                changed2 = [k for k in before2 if before2[k] is not after2.get(k) and before2[k] != after2.get(k)]
                if not wl2:
                    out.append(O.V("configuring an already configured task from an unsimulated project issues no warning", "C20/refuse-warning-again", None))
                if changed2 or set(after2) != set(before2):
                    out.append(O.V("a refused configuration changes an already configured task", "C20/refuse-changed-again", changed2))
            finally:
                os.unlink(path0)
        # the same file configured again in the same process, with the other setting of the flag and
        # then with the first one: the result must not depend on what was read before
        for flag in (not case["remove_abs"], bool(case["remove_abs"])):
            st2 = BaseSubProjectTask(file_path=path, name="sub2")
            with warnings.catch_warnings():
                warnings.simplefilter("ignore")
                st2.set_all_attributes_from_json(remove_absence_time_list=flag)
            d2 = d_full - (n_abs if flag else 0)
            if st2.default_work_amount != d2:
                out.append(O.V("work amount of a second task configured from the same file is not the sub-project's duration",
                               "C20/duration-again", (st2.default_work_amount, d2, d_full, n_abs, flag)))
        punit = datetime.timedelta(seconds=float(pu))
        st.set_work_amount_progress_of_unit_step_time(punit)
        r = Fraction(pu) / Fraction(su)
        if C.on_grid(r, 20):
            cfg_out.update(work=C.q_str(C.frac(st.default_work_amount)), rate=C.q_str(C.frac(st.work_amount_progress_of_unit_step_time)))
            summary["cfg"] = cfg_out
        if C.on_grid(r, 20) and C.frac(st.work_amount_progress_of_unit_step_time) != r:
            out.append(O.V("unit rate is not parent unit / sub-project unit", "C20/rate", (st.work_amount_progress_of_unit_step_time, str(r))))
        # parent project: pre-tasks -> sub -> post
        pre = [BaseTask("p%d" % i, default_work_amount=float(Fraction(w))) for i, w in enumerate(case["pre"])]
        post = BaseTask("post", default_work_amount=1.0)
        for t, kind in zip(pre, case["pre_kinds"]):
            st.append_input_task(t, task_dependency_mode=BaseTaskDependency(kind))
        post.append_input_task(st)
        w = BaseWorker("w", workamount_skill_mean_map=dict([("post", 1.0)] + [("p%d" % i, 1.0) for i in range(len(pre))]))
        team = BaseTeam("team", worker_list=[w])
        tl = pre + [post]
        tl.insert(case["pos"] % (len(tl) + 1), st)
        team.extend_targeted_task_list(tl)
        parent = BaseProject(init_datetime=sim.INIT_DT, unit_timedelta=punit, workflow=BaseWorkflow(tl),
                             organization=BaseOrganization([team]))
        gate_step = []

        def obs(project, phase, working):
            if phase == "updated" and not gate_step:
                ok = True
                for (p, dep) in st.input_task_list:
                    s = int(p.state)
                    if int(dep) == 0 and s != -1:
                        ok = False
                    if int(dep) == 1 and s not in (2, -1):
                        ok = False
                if ok:
                    gate_step.append(project.time)
        parent._verif_observer = obs
        pabs = case["parent_abs"]
        with warnings.catch_warnings():
            warnings.simplefilter("ignore")
            parent.simulate(absence_time_list=list(pabs), max_time=math.ceil(Fraction(d) * Fraction(su) / Fraction(pu)) + 60)
        log = [int(s) for s in st.state_record_list]
        work_steps = [k for k, s in enumerate(log) if s == 2]
        N = math.ceil(Fraction(d) * Fraction(su) / Fraction(pu))
        summary.update({"d": d, "su": float(su), "pu": float(pu), "N": N, "log": log[:40]})
        if int(parent.status) != 1:
            out.append(O.V("parent project did not finish", "C20/parent-failed", summary))
        else:
            if len(work_steps) != N and d > 0:
                out.append(O.V("the task is WORKING at a number of steps different from ceil(duration x sub unit / parent unit)",
                               "C20/steps", dict(summary, got=len(work_steps))))
            if d == 0 and len(work_steps) > 1:
                out.append(O.V("zero-duration sub-project occupies more than one step", "C20/steps-zero", dict(summary, got=len(work_steps))))
            working_idx = [k for k in range(len(log)) if k not in pabs]
            if work_steps:
                a, bb = working_idx.index(work_steps[0]), working_idx.index(work_steps[-1])
                if bb - a + 1 != len(work_steps):
                    out.append(O.V("the WORKING steps are not consecutive working steps", "C20/consecutive", summary))
                exp_first = next((k for k in working_idx if gate_step and k >= gate_step[0]), None)
                if exp_first is not None and work_steps[0] != exp_first:
                    out.append(O.V("the task does not start as soon as its dependencies allow", "C20/start", dict(summary, gate=gate_step, first=work_steps[0])))
            if any(x for x in st.allocated_worker_id_record):
                out.append(O.V("a sub-project task holds a worker", "C20/worker", summary))
    finally:
        os.unlink(path)
    return {"violations": out, "sig": (d_full, n_abs, float(su), float(pu), bool(case["remove_abs"]), len(case["pre"]), tuple(case["pre_kinds"]), bool(case["parent_abs"])),
            "hist": {"cases": 1, "dyadic_ratio": int(C.on_grid(Fraction(pu) / Fraction(su), 20))}, "nontrivial": d_full >= 1, "summary": summary}


def gen_cases(rng, n):
    cases = []
    for i in range(n):
        c = gen.gen_project(rng, facilities=False, n_tasks=rng.choice([1, 2, 3, 4]))
        if rng.random() < 0.9:
            gen.simplify_feasible(rng, c)
        o = gen.gen_sim_op(rng, c)
        o["max_time"] = 60
        c["ops"] = [o]
        units = [15, 30, 60, 120, 240, 480] if rng.random() < 0.8 else [20, 60, 180, 45, 100]
        if rng.random() < 0.1:
            units = [7.5, 15, 30, 60, 3.75, 0.5, 120]        # fractions of a second: a unit length is a timedelta, not a count of seconds
        npre = rng.choice([0, 1, 1, 2])
        cases.append({"subproject": c, "su": rng.choice(units), "pu": rng.choice(units), "remove_abs": rng.random() < 0.5,
                      "reconf_su": rng.choice(units) if rng.random() < 0.2 else None,
                      "explicit_path": rng.random() < 0.4, "refuse_after": rng.random() < 0.3,
                      "pre": [gen.qs(rng.choice([Fraction(1), Fraction(2), Fraction(1, 2), Fraction(0)])) for _ in range(npre)],
                      "pre_kinds": [rng.choice([0, 0, 1]) for _ in range(npre)], "pos": rng.randrange(0, 5),
                      "parent_abs": sorted(set(rng.randrange(0, 12) for _ in range(rng.choice([0, 0, 1, 2, 3])))),
                      "ops": []})
    return cases


def model_config_mismatches(ctx, results):
    ents = []
    for r in results:
        cf = (r.get("summary") or {}).get("cfg")
        if cf and "work" in cf:
            ents.append((r["idx"], "(%s, %d%%nat, %s, %s, %s, %s, %s, %s, %s)" % (
                C.coq_z(cf["status"]), cf["time"], C.coq_list(["%d%%nat" % a for a in cf["abs"]]), "true" if cf["remove"] else "false",
                C.coq_q(Fraction(cf["su"])), C.coq_q(Fraction(cf["pu"])), C.coq_q(Fraction(cf["work"])), C.coq_q(Fraction(cf["rate"])),
                "true" if cf["warned"] else "false")))
    if not ents:
        return [], 0
    path = os.path.join(ctx["work"], "subcfg.v")
    with open(path, "w") as f:
        f.write("From Coq Require Import List ZArith QArith.\nFrom PV Require Import Model.Types Model.Corr Model.Subproject.\n"
                "Import ListNotations.\nOpen Scope Q_scope.\n"
                "Eval vm_compute in (mismatches chk_config %s).\n" % C.coq_list([e[1] for e in ents]))
    lists, _ = C.coq_eval_nat_lists(path, cwd=ctx["work"])
    return [ents[j][0] for j in lists[0]], len(ents)


def run(ctx):
    rng = random.Random(ctx["seed"])
    n = 10000 if ctx["tier"] == "thorough" else 900
    cases = simcheck.load_corpus("C20") + gen_cases(rng, n)
    results = simcheck.run_cases(ctx, "harness.props.c20", cases)
    bad, nchk = model_config_mismatches(ctx, results[:3000])
    for i in bad:
        r = next(x for x in results if x["idx"] == i)
        r.setdefault("disagreements", []).append("Model/Subproject.v configure/set_rate disagrees with the implementation: %s" % r["summary"].get("cfg"))
    res = simcheck.summarise(ctx, cases, results,
                              "random sub-projects (1-4 tasks, with and without project-wide absence incl. steps beyond the end, "
                              "successful and failed), saved to JSON; sub-project task configured from it with both settings of "
                              "remove_absence_time_list, unit pairs from {15..480}s (dyadic ratios) and non-dyadic ones, placed "
                              "after 0-2 predecessors (FS/SS) at any list position of a parent with its own absence steps")
    res["extra"]["configurations_checked_against_model"] = nchk
    return res


K = Kit("C20", None)
K.eval_case = eval_case
replay = K.replay

"""C11 priority rules order candidates as documented; allocation never inverts them"""
import random
from fractions import Fraction

from .. import common as C
from .. import oracles as O
from .. import gen, simcheck
from ..propkit import Kit

INF = Fraction(10 ** 9)


def fresh_str(s):
    """an equal string that is a distinct object"""
    return "".join(list(s))


# ----------------------------------------------------------- pure sort cases
def build_sort_objects(case):
    from pDESy.model.base_task import BaseTask, BaseTaskState
    from pDESy.model.base_worker import BaseWorker
    from pDESy.model.base_facility import BaseFacility
    from pDESy.model.base_workplace import BaseWorkplace
    from pDESy.model.base_component import BaseComponent
    from pDESy.model.base_workflow import BaseWorkflow
    kind = case["sort"]
    if kind == "task":
        wfs = [BaseWorkflow([]) for _ in range(2)]
        for wf, cpl in zip(wfs, case["cpl"]):
            wf.critical_path_length = float(Fraction(cpl))
        objs = []
        for i, t in enumerate(case["items"]):
            o = BaseTask("t%d" % i, default_work_amount=float(Fraction(t["work"])))
            o.est, o.lst = float(Fraction(t["est"])), float(Fraction(t["lst"]))
            o.remaining_work_amount = float(Fraction(t["rem"]))
            o.state_record_list = [BaseTaskState(s) for s in t["log"]]
            o.parent_workflow = wfs[t["wf"]]
            objs.append(o)
        return objs
    if kind == "worker":
        return [BaseWorker("w%d" % i, cost_per_time=float(Fraction(w["cost"])),
                           workamount_skill_mean_map={k: float(Fraction(v)) for k, v in w["skills"].items()},
                           main_workplace_id=(None if w["mainwp"] is None else fresh_str(w["mainwp"])))
                for i, w in enumerate(case["items"])]
    if kind == "facility":
        return [BaseFacility("f%d" % i, cost_per_time=float(Fraction(w["cost"])),
                             workamount_skill_mean_map={k: float(Fraction(v)) for k, v in w["skills"].items()})
                for i, w in enumerate(case["items"])]
    if kind == "workplace":
        out = []
        for i, w in enumerate(case["items"]):
            fs = [BaseFacility("f", workamount_skill_mean_map={k: float(Fraction(v)) for k, v in f.items()}) for f in w["facs"]]
            wp = BaseWorkplace("wp%d" % i, facility_list=fs, max_space_size=float(Fraction(w["cap"])))
            wp.placed_component_list = [BaseComponent("c", space_size=float(Fraction(s))) for s in w["placed"]]
            out.append(wp)
        return out


def spec_key(case, i):
    """documented key (ascending) of item i"""
    kind, rule, it = case["sort"], case["rule"], case["items"][i]
    F = Fraction
    if kind == "task":
        return {0: F(it["lst"]) - F(it["est"]), 1: F(it["est"]), 2: F(it["work"]), 3: -F(it["work"]),
                4: -sum(1 for s in it["log"] if s == 1), 5: -F(it["rem"]), 6: F(it["rem"]),
                7: -F(case["cpl"][it["wf"]]), 8: F(case["cpl"][it["wf"]])}[rule]
    if kind == "worker":
        ssum = sum((F(v) for v in it["skills"].values()), F(0))
        mw1 = it["mainwp"] != case.get("target")          # equality of ID *values*
        mw2 = it["mainwp"] is not None
        if rule == -1:
            return (mw1, mw2, ssum)
        if rule == 0:
            return (ssum, mw1, mw2)
        if rule == 1:
            return (F(it["cost"]), mw1, mw2)
        sk = F(it["skills"][case["name"]]) if case["name"] in it["skills"] else None
        return (INF if sk is None else -sk, mw1, mw2)
    if kind == "facility":
        ssum = sum((F(v) for v in it["skills"].values()), F(0))
        if rule == 0:
            return ssum
        if rule == 1:
            return F(it["cost"])
        if rule == 2:
            return INF if case["name"] not in it["skills"] else -F(it["skills"][case["name"]])
        return 0                                          # MW: no key for facilities, order kept
    if kind == "workplace":
        if rule == 0:
            return -(F(it["cap"]) - sum((F(s) for s in it["placed"]), F(0)))
        return -sum((F(f[case["name"]]) for f in it["facs"] if case["name"] in f and F(f[case["name"]]) > O.TOL), F(0))


def call_sort(case, objs):
    from pDESy.model import base_priority_rule as R
    kind, rule = case["sort"], case["rule"]
    if kind == "task":
        return R.sort_task_list(objs, R.TaskPriorityRuleMode(rule))
    if kind == "worker":
        kw = {"name": case["name"]}
        if case.get("target") is not None:
            kw["workplace_id"] = case["target"]
        return R.sort_worker_list(objs, R.ResourcePriorityRuleMode(rule), **kw)
    if kind == "facility":
        return R.sort_facility_list(objs, R.ResourcePriorityRuleMode(rule), name=case["name"])
    return R.sort_workplace_list(objs, R.WorkplacePriorityRuleMode(rule), name=case["name"])


def eval_sort(case):
    out = []
    objs = build_sort_objects(case)
    tag = "%s/%d" % (case["sort"], case["rule"])
    try:
        res = call_sort(case, objs)
    except Exception as e:
        return [O.V("sort function raised for a rule it is used with", "C11/sort-raises/" + tag, repr(e))], None
    idx = [next(i for i, o in enumerate(objs) if o is r) for r in res]
    if sorted(idx) != list(range(len(objs))):
        out.append(O.V("result is not a permutation of the input", "C11/perm/" + tag, idx))
        return out, idx
    keys = [spec_key(case, i) for i in range(len(objs))]
    exp = sorted(range(len(objs)), key=lambda i: keys[i])          # stable
    if idx != exp:
        out.append(O.V("result is not ordered by the documented key (stable on ties)", "C11/order/" + tag,
                       {"got": idx, "expected": exp}))
    return out, idx


# ------------------------------------------------------ allocation inversions
def task_order(S, rule, up, dump, k):
    cand = [i for i in range(S.nt) if up["T"][i]["st"] in (O.READY, O.WORKING)]

    def key(i):
        t = up["T"][i]
        return {0: t["lst"] - t["est"], 1: t["est"], 2: S.work[i], 3: -S.work[i],
                4: -sum(1 for s in dump["T"][i]["l_st"][:k] if s == 1), 5: -t["rem"], 6: t["rem"],
                7: 0, 8: 0}[rule]
    return sorted(cand, key=key)


def inversions(S, rec):
    out = []
    op = rec["op"]
    snaps = rec["snaps"]
    if rec.get("dump") is None:
        return out
    for j, (k, ph, working, sn) in enumerate(snaps):
        if ph != "allocated" or not working or j == 0 or snaps[j - 1][1] != "updated":
            continue
        up = snaps[j - 1][3]
        order = task_order(S, op.get("rule", 0), up, rec["dump"], k)
        pos = {t: n for n, t in enumerate(order)}
        for l in order:
            if S.need_fac[l] or S.auto[l]:
                continue
            for w in sn["T"][l]["aw"]:
                if w in up["T"][l]["aw"]:
                    continue
                for h in order[:pos[l]]:
                    if S.need_fac[h] or S.auto[h] or sn["T"][h]["st"] not in (O.READY, O.WORKING):
                        continue
                    if O.eligible_worker(S, w, h) and O.can_add_worker(S, sn, h, w):
                        out.append(O.V("a free worker eligible for a higher-priority task was given to a lower-priority task",
                                       "C11/inversion", (k, w, h, l)))
    return out


def eval_case(case):
    if "sort" in case:
        v, idx = eval_sort(case)
        n = len(case["items"])
        keys = None
        return {"violations": v, "sig": ("sort", case["sort"], case["rule"], n, tuple(idx or ())),
                "hist": {"cases": 1, "sort_" + case["sort"]: 1}, "nontrivial": n >= 2, "summary": {"order": idx}}
    from .. import sim
    S = O.Static(case)
    b, trace = sim.run_ops(case)
    out = []
    for rec in trace:
        if rec["exc"] is not None and any("base_priority_rule" in f for f in rec.get("exc_frames", [])):
            out.append(O.V("simulate() raised under a priority rule the API accepts", "C11/rule-raises/" + rec["exc"].split(":")[0],
                           {"exc": rec["exc"], "frules": sorted(set(t.get("frule", 0) for t in case["tasks"]))}))
        out += inversions(S, rec)
    from .. import modelrun
    return {"violations": out, "disagreements": modelrun.compare(case, trace, modelrun.CONES["C11"]),
            "sig": simcheck.behaviour_sig(S, trace) + (case["ops"][0].get("rule"),),
            "hist": simcheck.base_hist(S, trace), "nontrivial": (trace[0].get("dump") or {}).get("time", 0) >= 2,
            "summary": {"time": (trace[0].get("dump") or {}).get("time"), "exc": trace[0]["exc"]}}


def qv(rng, vals):
    return gen.qs(rng.choice(vals))


def gen_sort_case(rng):
    kind = rng.choice(["task", "worker", "worker", "facility", "workplace"])
    n = rng.choice([0, 1, 2, 3, 4, 5, 6, 7])
    V = [Fraction(0), Fraction(1), Fraction(1), Fraction(2), Fraction(1, 2), Fraction(3), Fraction(5, 2)]
    names = ["n0", "n1", "n2"]
    c = {"sort": kind, "name": rng.choice(names), "ops": []}
    if kind == "task":
        c["rule"] = rng.randrange(0, 9)
        c["cpl"] = [qv(rng, V), qv(rng, V)]
        c["items"] = [{"work": qv(rng, V), "est": qv(rng, V), "lst": qv(rng, V), "rem": qv(rng, V),
                       "log": [rng.choice([0, 1, 1, 2, -1]) for _ in range(rng.randrange(0, 5))], "wf": rng.randrange(2)}
                      for _ in range(n)]
    elif kind == "worker":
        c["rule"] = rng.choice([-1, 0, 1, 2])
        c["target"] = rng.choice([None, "wp0", "wp1"])
        c["items"] = [{"cost": qv(rng, V), "skills": {nm: qv(rng, V) for nm in names if rng.random() < 0.6},
                       "mainwp": rng.choice([None, "wp0", "wp1", "wp2"])} for _ in range(n)]
    elif kind == "facility":
        c["rule"] = rng.choice([-1, 0, 1, 2])
        c["items"] = [{"cost": qv(rng, V), "skills": {nm: qv(rng, V) for nm in names if rng.random() < 0.6}} for _ in range(n)]
    else:
        c["rule"] = rng.choice([0, 1])
        c["items"] = [{"cap": qv(rng, [Fraction(1), Fraction(2), Fraction(3), Fraction(4)]),
                       "placed": [qv(rng, [Fraction(1), Fraction(1, 2)]) for _ in range(rng.randrange(0, 3))],
                       "facs": [{nm: qv(rng, V) for nm in names if rng.random() < 0.6} for _ in range(rng.randrange(0, 3))]}
                      for _ in range(n)]
    return c


def gen_cases(rng, n_sort, n_sim):
    cases = [gen_sort_case(rng) for _ in range(n_sort)]
    for i in range(n_sim):
        if i % 3 == 2:
            c = gen.gen_project(rng, stream="crossing")
            c["ops"] = [gen.gen_sim_op(rng, c, absences=False)]
            c["ops"][0]["rule"] = rng.choice([0, 4, 5, 6, 6, 5, 1])
            cases.append(c)
            continue
        c = gen.gen_project(rng, stream="contention")
        if rng.random() < 0.8:
            gen.simplify_feasible(rng, c)
        c["ops"] = [gen.gen_sim_op(rng, c)]
        c["ops"][0]["rule"] = i % 9
        if i % 5 == 0:
            # paused after a few steps and resumed under ANOTHER rule: the rule of the call in progress counts
            o1 = dict(c["ops"][0], max_time=rng.choice([1, 2, 3]))
            o2 = dict(c["ops"][0], init_state=False, init_log=False, rule=rng.choice([r for r in range(9) if r != o1["rule"]]))
            c["ops"] = [o1, o2]
        if c.get("int_rules"):
            for o in c["ops"]:
                o["int_rule"] = True
        cases.append(c)
    return cases


def _q(x):
    return C.coq_q(Fraction(x))


def _name(n):
    return "%d%%nat" % int(n[1:])


def _skills(d):
    return C.coq_list(["(%s, %s)" % (_name(k), _q(v)) for k, v in d.items()])


def _nats(l):
    return C.coq_list(["%d%%nat" % x for x in l])


def coq_sort_case(case, order):
    """Coq literal for Model/SortCorr.v; None when the case is outside the model's encoding"""
    kind, rule = case["sort"], case["rule"]
    if kind == "task":
        if rule in (7, 8) and len(set(it["wf"] for it in case["items"])) > 1:
            return None          # the model has one workflow
        cpl = case["cpl"][case["items"][0]["wf"]] if case["items"] else "0"
        it = case["items"]
        return ("task", "(%s, %s, %s, %s, %s, %s, %s, %s)" % (
            C.coq_z(rule), C.coq_list([_q(x["work"]) for x in it]), C.coq_list([_q(x["est"]) for x in it]),
            C.coq_list([_q(x["lst"]) for x in it]), C.coq_list([_q(x["rem"]) for x in it]),
            C.coq_list([C.coq_list([C.coq_z(v) for v in x["log"]]) for x in it]), _q(cpl), _nats(order)))
    wpn = lambda x: "None" if x is None else "(Some %d%%nat)" % int(x[2:])
    if kind == "worker":
        return ("worker", "(%s, %s, %s, %s, %s)" % (
            C.coq_z(rule), _name(case["name"]), wpn(case.get("target")),
            C.coq_list(["(%s, %s, %s)" % (_q(x["cost"]), _skills(x["skills"]), wpn(x["mainwp"])) for x in case["items"]]),
            _nats(order)))
    if kind == "facility":
        return ("fac", "(%s, %s, %s, %s)" % (
            C.coq_z(rule), _name(case["name"]),
            C.coq_list(["(%s, %s)" % (_q(x["cost"]), _skills(x["skills"])) for x in case["items"]]), _nats(order)))
    return ("wp", "(%s, %s, %s, %s)" % (
        C.coq_z(rule), _name(case["name"]),
        C.coq_list(["(%s, %s, %s)" % (_q(x["cap"]), C.coq_list([_q(z) for z in x["placed"]]),
                                      C.coq_list([_skills(f) for f in x["facs"]])) for x in case["items"]]), _nats(order)))


SORT_CHK = {"task": "chk_sort_task", "worker": "chk_sort_worker", "fac": "chk_sort_fac", "wp": "chk_sort_wp"}


def model_sort_mismatches(ctx, entries):
    """entries: list of (family, coq text, case index); returns indices where the model disagrees"""
    import os
    from concurrent.futures import ThreadPoolExecutor
    fams = ["task", "worker", "fac", "wp"]
    jobs = []
    for k in range(0, len(entries), 800):
        chunk = entries[k:k + 800]
        path = os.path.join(ctx["work"], "sort_%d.v" % (k // 800))
        lines = ["From Coq Require Import List ZArith QArith.", "From PV Require Import Model.Types Model.Corr Model.SortCorr.",
                 "Import ListNotations.", "Open Scope Q_scope."]
        layout = []
        for fam in fams:
            es = [e for e in chunk if e[0] == fam]
            layout.append([e[2] for e in es])
            lines.append("Eval vm_compute in (mismatches %s %s)." % (SORT_CHK[fam], C.coq_list([e[1] for e in es]) if es else "[]"))
        with open(path, "w") as f:
            f.write("\n".join(lines) + "\n")
        jobs.append((path, layout))

    def one(job):
        path, layout = job
        lists, _ = C.coq_eval_nat_lists(path, cwd=ctx["work"])
        return [idxs[j] for idxs, res in zip(layout, lists) for j in res]
    bad = []
    with ThreadPoolExecutor(max_workers=8) as ex:
        for b in ex.map(one, jobs):
            bad += b
    return bad


def run(ctx):
    rng = random.Random(ctx["seed"])
    th = ctx["tier"] == "thorough"
    cases = simcheck.load_corpus("C11") + gen_cases(rng, 20000 if th else 1500, 20000 if th else 500)
    results = simcheck.run_cases(ctx, "harness.props.c11", cases)
    # model side of the pure sort cases: the implementation's order is checked by Model/SortCorr.v under vm_compute
    entries, n_model = [], 0
    for r in results:
        cs = cases[r["idx"]]
        if "sort" in cs and (r.get("summary") or {}).get("order") is not None:
            enc = coq_sort_case(cs, r["summary"]["order"])
            if enc is not None:
                entries.append(enc + (r["idx"],))
    for i in model_sort_mismatches(ctx, entries):
        r = next(x for x in results if x["idx"] == i)
        r.setdefault("disagreements", []).append("Model/Sim.v sort function orders this list differently from the implementation: %s" % r["summary"])
    res = simcheck.summarise(ctx, cases, results,
                              "pure stream: lists of 0-7 tasks/workers/facilities/workplaces with tied and missing keys and "
                              "equal-but-distinct ID strings under every rule of every sort function; contention stream: "
                              "simulations under all 9 task rules and all resource rules, every new allocation checked "
                              "against the priority order of the waiting tasks")
    res["extra"]["pure_sort_cases_checked_against_model"] = len(entries)
    return res


K = Kit("C11", None)
K.eval_case = eval_case
replay = K.replay

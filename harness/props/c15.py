"""C15 a run paused at any step and resumed gives the uninterrupted result"""
import copy
import random

from .. import oracles as O
from .. import gen, simcheck


def eval_case(case):
    from .. import sim
    S = O.Static(case)
    out = []
    b0, tr0 = sim.run_ops(case, want_snaps=False)
    ref = tr0[-1]["dump"]
    op = case["ops"][0]
    if tr0[-1]["exc"] is None:
        mk = ref["time"]
        for k in range(0, mk + 1):
            ops = [dict(op, max_time=k), dict(op, init_state=False, init_log=False)]
            for via_json in ((False, True) if case.get("json_ok") else (False,)):
                seq = [ops[0]] + ([{"op": "json"}] if via_json else []) + [ops[1]]
                b, tr = sim.run_ops(case, want_snaps=False, ops=seq)
                if any(r["exc"] for r in tr):
                    out.append(O.V("pause/resume raised", "C15/raises" + ("-json" if via_json else ""), (k, [r["exc"] for r in tr])))
                    continue
                df = O.dump_diff(ref, tr[-1]["dump"])
                if df:
                    out.append(O.V("paused at step k and resumed differs from the uninterrupted run" + (" (through JSON)" if via_json else ""),
                                   "C15/resume" + ("-json" if via_json else ""), {"k": k, "diff": df[:3]}))
                    break
    from .. import modelrun
    dis = []
    # side condition of theorem C15_pause_resume: __update is idempotent at every `updated` snapshot
    if tr0[-1]["exc"] is None:
        bs = sim.build(case)
        unstable = []

        def obs(project, phase, working):
            if phase == "updated" and not unstable:
                a = sim.snap(project)
                project._BaseProject__update()
                b2 = sim.snap(project)
                if a != b2:
                    unstable.append(project.time)
        bs.project._verif_observer = obs
        import warnings
        with warnings.catch_warnings():
            warnings.simplefilter("ignore")
            bs.project.simulate(**sim.sim_kwargs(op))
        if unstable:
            dis.append("side condition of C15_pause_resume fails: a second __update changes the state at step %d" % unstable[0])
    if tr0[-1]["exc"] is None:
        kk = ref["time"] // 2
        seq = [dict(op, max_time=kk), dict(op, init_state=False, init_log=False)]
        cc = dict(case, ops=seq)
        bb, trr = sim.run_ops(cc, want_snaps=True)
        dis += modelrun.compare(cc, trr, modelrun.FULL)
    return {"violations": out, "disagreements": dis, "sig": simcheck.behaviour_sig(S, tr0), "hist": simcheck.base_hist(S, tr0),
            "nontrivial": (ref or {}).get("time", 0) >= 2,
            "summary": {"status": (ref or {}).get("status"), "time": (ref or {}).get("time")}}


def saved_settings_only(c):
    """models whose behaviour-relevant settings are part of the saved format"""
    return True


def gen_cases(rng, n):
    cases = []
    for i in range(n):
        c = gen.gen_project(rng)
        if rng.random() < 0.8:
            gen.simplify_feasible(rng, c)
        o = gen.gen_sim_op(rng, c)
        o["max_time"] = 40
        c["ops"] = [o]
        c["json_ok"] = True
        if len(c["tasks"]) >= 2 and rng.random() < 0.2:
            # dependencies declared on the successor's side only (BaseTask(input_task_list=[[pred, kind]])),
            # in the direction of a topological order of the existing edges
            nt = len(c["tasks"])
            order, indeg = [], [0] * nt
            for (p, s_, k) in c["edges"]:
                indeg[s_] += 1
            todo = [i for i in range(nt) if indeg[i] == 0]
            while todo:
                x = todo.pop(0)
                order.append(x)
                for (p, s_, k) in c["edges"]:
                    if p == x:
                        indeg[s_] -= 1
                        if indeg[s_] == 0:
                            todo.append(s_)
            if len(order) == nt:
                pos = {t: n for n, t in enumerate(order)}
                extra = []
                for _ in range(rng.choice([1, 1, 2])):
                    a, b_ = rng.sample(range(nt), 2)
                    if pos[a] > pos[b_]:
                        a, b_ = b_, a
                    if not any(p == a and s_ == b_ for (p, s_, k) in c["edges"] + extra):
                        extra.append([a, b_, rng.choice([0, 1, 2, 2, 3])])
                c["edges_in"] = extra
        cases.append(c)
    return cases


def run(ctx):
    rng = random.Random(ctx["seed"])
    n = 4000 if ctx["tier"] == "thorough" else 300
    cases = simcheck.load_corpus("C15") + gen_cases(rng, n)
    results = simcheck.run_cases(ctx, "harness.props.c15", cases)
    res = simcheck.summarise(ctx, cases, results,
                             "random projects; uninterrupted run vs pause at EVERY k in 0..makespan followed by resume "
                             "(state and log initialisation off), in memory and through write/read JSON")
    return res


def replay(rp):
    from .. import sim
    sim.pin_hashes()
    if rp.get("case") is None:
        print(rp)
        return 1
    r = eval_case(rp["case"])
    for v in r["violations"]:
        print("FAILS:", v["clause"], v.get("detail"))
    return 1 if r["violations"] else 0

"""C01 task dependencies never violated; lifecycle only advances"""
from .. import oracles as O
from ..propkit import Kit


def _oracle(S, b, trace):
    out = []
    t0 = 0
    for rec in trace:
        if rec["op"]["op"] != "simulate":
            continue
        out += O.c01(S, rec)
    return out


K = Kit("C01", _oracle)
eval_case, run, replay = K.eval_case, K.run, K.replay

"""C14 component state determined by its tasks"""
from .. import oracles as O
from ..propkit import Kit, cutoff_ops


def _oracle(S, b, trace):
    out = []
    t0 = 0
    for rec in trace:
        if rec["op"]["op"] != "simulate":
            continue
        out += O.c14(S, rec)
    return out


def _tweak(rng, c):
    """a component that lists a task without the task pointing back (BaseComponent(targeted_task_list=[...])),
    possibly a task that belongs to another component: its state follows the tasks IT lists"""
    if c.get("comps") and c["tasks"] and rng.random() < 0.2:
        ci = rng.randrange(len(c["comps"]))
        cand = [i for i, t in enumerate(c["tasks"]) if t.get("comp") != ci]
        if cand:
            c["comps"][ci]["extra_tasks"] = rng.sample(cand, rng.choice([1, 1, min(2, len(cand))]))
    # a component whose parent assembly is not registered in this product (it is never a "top" component, and
    # nothing walks down to it from one): its state follows its tasks like any other's.  Not with a JSON
    # operation in the sequence: the saved file would name a component the product does not contain.
    if c.get("comps") and rng.random() < 0.1 and all(o.get("op") == "simulate" for o in c["ops"]):
        c["comps"][rng.randrange(len(c["comps"]))]["ghost_parent"] = True


K = Kit("C14", _oracle, tweak=_tweak, make_ops=cutoff_ops)
eval_case, run, replay = K.eval_case, K.run, K.replay

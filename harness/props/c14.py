"""C14 component state determined by its tasks"""
from .. import oracles as O
from ..propkit import Kit


def _oracle(S, b, trace):
    out = []
    t0 = 0
    for rec in trace:
        if rec["op"]["op"] != "simulate":
            continue
        out += O.c14(S, rec)
    return out


K = Kit("C14", _oracle)
eval_case, run, replay = K.eval_case, K.run, K.replay

"""C07 cost accounting adds up"""
from .. import oracles as O
from ..propkit import Kit, cutoff_ops


def _oracle(S, b, trace):
    out = []
    t0 = 0
    for rec in trace:
        if rec["op"]["op"] != "simulate":
            continue
        if rec.get("dump") and rec["exc"] is None:
            # the per-step sums are judged on whatever the logs hold (a second call may keep the logs of a
            # cut-off run); absence steps index the logs only in a run that starts from cleared logs at time 0
            out += O.c07(S, rec["dump"])
            if rec["op"].get("init_state", True) and rec["op"].get("init_log", True):
                out += O.c07_absence(S, rec)
    return out


K = Kit("C07", _oracle, make_ops=cutoff_ops)
eval_case, run, replay = K.eval_case, K.run, K.replay

"""C07 cost accounting adds up"""
from .. import oracles as O
from ..propkit import Kit


def _oracle(S, b, trace):
    out = []
    t0 = 0
    for rec in trace:
        if rec["op"]["op"] != "simulate":
            continue
        if rec.get("dump") and rec["exc"] is None:
            out += O.c07(S, rec["dump"]) + O.c07_absence(S, rec)
    return out


K = Kit("C07", _oracle)
eval_case, run, replay = K.eval_case, K.run, K.replay

"""C08 every log has one entry per simulated step, equal to that step's live state"""
import random

from .. import oracles as O
from .. import gen, simcheck
from ..propkit import Kit


def eval_case(case):
    from .. import sim
    out = []
    pre = case.get("pre")
    if pre:
        # an earlier run, then the model edited in place (see propkit.Kit.eval_case): judged as the edited model
        b, tr_all = sim.run_ops(case, ops=[pre["op"], {"op": "edit", "edit": pre["edit"]}] + case["ops"])
        trace = tr_all[2:]
        case = sim.edited_case(case, pre["edit"])
        case.pop("pre")
        if any(r["exc"] for r in tr_all[:2]):
            b, trace = sim.run_ops(case)
    else:
        b, trace = sim.run_ops(case)
    S = O.Static(case)
    if any(op.get("unit_time", 1) != 1 for op in case["ops"]):
        return eval_unit_time(case, S, trace)
    for n, rec in enumerate(trace):
        name = rec["op"]["op"]
        if rec["exc"] is not None:
            out.append(O.V("operation raised", "C08/raises/" + name + "/" + rec["exc"].split(":")[0], rec["exc"]))
            break
        d = rec["dump"]
        out += [dict(v, signature=v["signature"] + "/" + name) for v in O.c08_lengths(d)]
        if name == "report":
            continue
        if name == "simulate":
            out += O.c08_entries(S, rec)
        elif name == "backward":
            # helper tasks of considering_due_time are not in the dump; entries are compared for the real tasks
            out += O.c08_entries(S, _strip(rec, S.nt), reversed_log=bool(rec["op"].get("revlog", True)))
    from .. import modelrun
    return {"violations": out, "disagreements": modelrun.compare(case, trace, modelrun.FULL),
            "sig": simcheck.behaviour_sig(S, trace) + (tuple(r["op"]["op"] for r in trace),),
            "hist": simcheck.base_hist(S, trace), "nontrivial": any((r.get("dump") or {}).get("time", 0) >= 2 for r in trace),
            "summary": {"times": [r["dump"]["time"] if r.get("dump") else None for r in trace]}}


def eval_unit_time(case, S, trace):
    """simulate(unit_time=u), u > 1: the clock advances by u per recorded step.  Only the
    alignment clause is judged here (the model and the per-entry oracle assume unit_time = 1);
    the violation carries its own signature, listed in known_findings.json"""
    out = []
    for rec in trace:
        if rec["exc"] is not None:
            out.append(O.V("operation raised", "C08/raises/" + rec["op"]["op"] + "/" + rec["exc"].split(":")[0], rec["exc"]))
            break
        v = O.c08_lengths(rec["dump"])
        if v:
            d = rec["dump"]
            u = rec["op"].get("unit_time", 1)
            n = O.log_lengths(d)
            steps = sorted(set(n.values()))
            if len(steps) == 1 and d["time"] == u * steps[0]:
                out.append(O.V("(a) simulate(unit_time=%d): project.time = %d but every log has %d entries" % (u, d["time"], steps[0]),
                               "C08/unit-time", {"unit_time": u, "time": d["time"], "entries": steps[0]}))
            else:
                out += v
            break
    return {"violations": out, "disagreements": [], "sig": ("unit_time",) + tuple(r["op"].get("unit_time", 1) for r in trace),
            "hist": {"cases": 1, "unit_time_cases": 1}, "nontrivial": True, "summary": {"unit_time": True}}


def _strip(rec, nt):
    r = dict(rec)
    r["snaps"] = [(k, ph, w, dict(sn, T=sn["T"][:nt])) for (k, ph, w, sn) in rec["snaps"]]
    return r


def gen_ops(rng, c):
    ops = [gen.gen_sim_op(rng, c)]
    for _ in range(rng.choice([1, 2, 3, 4])):
        r = rng.random()
        if r < 0.3:
            o = gen.gen_sim_op(rng, c)
            o["init_state"], o["init_log"] = rng.choice([(True, True), (False, False), (False, False), (True, False), (False, True)])
            if (o["init_state"], o["init_log"]) == (False, False):
                o["abs"] = ops[0]["abs"]
            o["max_time"] = rng.choice([40, 60, 12])
            ops.append(o)
        elif r < 0.55:
            o = gen.gen_sim_op(rng, c)
            o["op"] = "backward"
            o["due"] = rng.random() < 0.5
            o["revlog"] = rng.random() < 0.6
            ops.append(o)
        elif r < 0.72:
            ops.append({"op": "initialize", "state": rng.random() < 0.6, "log": rng.random() < 0.6})
        elif r < 0.8:
            ops.append({"op": "report"})          # Gantt data / state queries between two operations: read-only
        else:
            ops.append({"op": "reverse_log"})
    return ops


def gen_cases(rng, n):
    cases = []
    for i in range(n):
        c = gen.gen_project(rng)
        if rng.random() < 0.8:
            gen.simplify_feasible(rng, c)
        c["ops"] = gen_ops(rng, c)
        if len(c["comps"]) >= 3 and rng.random() < 0.15:
            # a component shared by two assemblies (the product is a DAG, not a forest)
            nc = len(c["comps"])
            desc = lambda x, seen=None: set().union({x}, *[desc(y) for y in c["comps"][x]["children"]])
            for _ in range(4):
                par, ch = rng.sample(range(nc), 2)
                if ch not in c["comps"][par]["children"] and par not in desc(ch):
                    c["comps"][par]["children"].append(ch)
                    c["shared_child"] = True
                    break
        if rng.random() < 0.04:          # the unit_time option (known finding C08/unit-time)
            o = gen.gen_sim_op(rng, c)
            o["unit_time"] = rng.choice([2, 2, 3])
            c["ops"] = [o]
        elif rng.random() < 0.08 and "edges_in" not in c:
            from .c09 import gen_edit
            c["ops"][0]["init_state"], c["ops"][0]["init_log"] = True, True
            c["pre"] = {"op": dict(gen.gen_sim_op(rng, c), init_state=True, init_log=True), "edit": gen_edit(rng, c)}
        cases.append(c)
    return cases


def run(ctx):
    rng = random.Random(ctx["seed"])
    n = 15000 if ctx["tier"] == "thorough" else 900
    cases = simcheck.load_corpus("C08") + gen_cases(rng, n)
    results = simcheck.run_cases(ctx, "harness.props.c08", cases)
    return simcheck.summarise(ctx, cases, results,
                              "random projects, 2-5 operations from simulate (all four flag combinations, incl. resume), "
                              "backward_simulate (both flags), initialize(flags), reverse_log_information; after every "
                              "operation all log lengths = project.time, and entries = live values at the recorded phase")


K = Kit("C08", None)
K.eval_case = eval_case
replay = K.replay

"""C06 no avoidable waiting"""
from .. import oracles as O
from ..propkit import Kit


def _oracle(S, b, trace):
    out = []
    t0 = 0
    for rec in trace:
        if rec["op"]["op"] != "simulate":
            continue
        out += O.c06(S, rec)
    return out


K = Kit("C06", _oracle, streams=(("structured", 0.38), ("contention", 0.38), ("pairs", 0.14), ("gates", 0.10)))
eval_case, run, replay = K.eval_case, K.run, K.replay

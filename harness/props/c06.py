"""C06 no avoidable waiting"""
from .. import oracles as O
from ..propkit import Kit


def _oracle(S, b, trace):
    out = []
    t0 = 0
    for rec in trace:
        if rec["op"]["op"] != "simulate":
            continue
        out += O.c06(S, rec)
    return out


K = Kit("C06", _oracle, streams=(("structured", 0.42), ("contention", 0.42), ("pairs", 0.16)))
eval_case, run, replay = K.eval_case, K.run, K.replay

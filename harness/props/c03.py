"""C03 allocation exclusive and two-way consistent"""
from .. import oracles as O
from ..propkit import Kit, cutoff_ops


def _oracle(S, b, trace):
    out = []
    t0 = 0
    for rec in trace:
        if rec["op"]["op"] != "simulate":
            continue
        out += O.c03(S, rec)
    return out


K = Kit("C03", _oracle, streams=(("structured", 0.5), ("contention", 0.32), ("pairs", 0.18)), make_ops=cutoff_ops)
eval_case, run, replay = K.eval_case, K.run, K.replay

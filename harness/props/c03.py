"""C03 allocation exclusive and two-way consistent"""
from .. import oracles as O
from ..propkit import Kit


def _oracle(S, b, trace):
    out = []
    t0 = 0
    for rec in trace:
        if rec["op"]["op"] != "simulate":
            continue
        out += O.c03(S, rec)
    return out


def _make_ops(rng, c):
    """mostly one fresh run; sometimes a run cut off after a few steps followed by a second call with
    any combination of the two initialize flags (state kept / reset, logs kept / cleared)"""
    from .. import gen
    o = gen.gen_sim_op(rng, c, vary_init=True)
    if rng.random() < 0.85:
        return [o]
    o1 = dict(o, init_state=True, init_log=True, max_time=rng.choice([1, 2, 3, 4]))
    si, li = rng.choice([(False, False), (False, True), (True, False), (True, True)])
    o2 = dict(o, init_state=si, init_log=li, rule=rng.randrange(0, 9))
    return [o1, o2]


K = Kit("C03", _oracle, streams=(("structured", 0.5), ("contention", 0.32), ("pairs", 0.18)), make_ops=_make_ops)
eval_case, run, replay = K.eval_case, K.run, K.replay

"""C05 feasible projects complete; status truthful"""
from .. import oracles as O
from ..propkit import Kit, cutoff_ops


def _oracle(S, b, trace):
    out = []
    t0 = 0
    for rec in trace:
        if rec["op"]["op"] != "simulate":
            continue
        out += O.c05_basic(S, rec, 0) + O.c05_liveness(S, rec)
    return out


def _ops(rng, c):
    """mostly one run; sometimes a run cut off by max_time and continued, the continuation cut off again
    a few steps later (max_time is a bound on project.time, not a budget of steps per call) and
    continued once more to the end"""
    ops = cutoff_ops(rng, c)
    if len(ops) >= 2 and ops[-1].get("op") == "simulate" and rng.random() < 0.7:
        last = ops[-1]
        mid = dict(last, max_time=ops[0]["max_time"] + rng.choice([1, 2, 3, 5]))
        ops = ops[:-1] + [mid, dict(last, init_state=False, init_log=False)]
    return ops


K = Kit("C05", _oracle, feasible_frac=0.8, make_ops=_ops)
eval_case, run, replay = K.eval_case, K.run, K.replay

"""C05 feasible projects complete; status truthful"""
from .. import oracles as O
from ..propkit import Kit


def _oracle(S, b, trace):
    out = []
    t0 = 0
    for rec in trace:
        if rec["op"]["op"] != "simulate":
            continue
        out += O.c05_basic(S, rec, 0) + O.c05_liveness(S, rec)
    return out


K = Kit("C05", _oracle, feasible_frac=0.8)
eval_case, run, replay = K.eval_case, K.run, K.replay

"""C18 editing absence steps out of / into finished logs keeps all logs aligned"""
import random
from fractions import Fraction

from .. import oracles as O
from .. import gen, simcheck
from ..propkit import Kit


def final_positions(L, n):
    """indices (in the final logs) of the entries inserted for list L into logs of length n"""
    marks = [False] * n
    for s in sorted(L):
        if s < len(marks):
            marks.insert(s, True)
    return [i for i, m in enumerate(marks) if m], len(marks)


def all_logs(d):
    """name -> list for every per-step log"""
    out = {"project.cost": d["cost"], "org.cost": d["ORG"]["l_cost"]}
    for i, t in enumerate(d["T"]):
        for f in ("l_st", "l_rem", "l_aw", "l_af"):
            out["T%d.%s" % (i, f)] = t[f]
    for kind in ("W", "F"):
        for i, t in enumerate(d[kind]):
            for f in ("l_st", "l_cost", "l_as"):
                out["%s%d.%s" % (kind, i, f)] = t[f]
    for i, t in enumerate(d["C"]):
        for f in ("l_st", "l_pw"):
            out["C%d.%s" % (i, f)] = t[f]
    for i, t in enumerate(d["TEAM"]):
        out["TEAM%d.l_cost" % i] = t["l_cost"]
    for i, t in enumerate(d["WP"]):
        for f in ("l_cost", "l_pc"):
            out["WP%d.%s" % (i, f)] = t[f]
    return out


def eval_case(case):
    from .. import sim
    S = O.Static(case)
    out = []
    b, trace = sim.run_ops(case, want_snaps=False)
    prev = None
    for n, rec in enumerate(trace):
        name = rec["op"]["op"]
        d = rec["dump"]
        if name in ("remove_absence", "insert_absence"):
            if rec["exc"] is not None:
                out.append(O.V("(a) %s raised" % name, "C18/raises/%s/%s" % (name, rec["exc"].split(":")[0]),
                               {"exc": rec["exc"], "op": rec["op"]}))
                break
            out += O.c08_lengths(d, "C18/lengths/" + name)
            if prev is not None:
                la, lb = O.log_lengths(prev), O.log_lengths(d)
                deltas = set(lb[k] - la[k] for k in la)
                if len(deltas) > 1:
                    out.append(O.V("(b) logs changed by different numbers of entries", "C18/delta/" + name, sorted(deltas)))
            if name == "insert_absence" and prev is not None and not O.c08_lengths(prev):
                L = []
                for t in rec["op"]["list"]:        # a list denotes a set of steps
                    if t not in prev["abs"] and t not in L:
                        L.append(t)
                pos, newlen = final_positions(L, prev["time"])
                if d["time"] == newlen and not O.c08_lengths(d):
                    for p in pos:
                        for i, t in enumerate(d["T"]):
                            exp = t["l_rem"][p - 1] if p > 0 else S.work[i] * (1 - S.progress[i])
                            if t["l_rem"][p] != exp:
                                out.append(O.V("(c) inserted step changes a task's remaining work", "C18/c-rem", (p, i)))
                            if p > 0 and (t["l_aw"][p] != t["l_aw"][p - 1] or t["l_af"][p] != t["l_af"][p - 1]):
                                out.append(O.V("(c) inserted step changes a task's allocation", "C18/c-alloc", (p, i)))
                        for kind in ("W", "F"):
                            for r, e in enumerate(d[kind]):
                                if e["l_st"][p] == O.R_WORK or e["l_cost"][p] != 0:
                                    out.append(O.V("(c) resource works or is charged at an inserted step", "C18/c-res", (p, kind, r)))
                        lv = [d["cost"][p], d["ORG"]["l_cost"][p]] + [x["l_cost"][p] for x in d["TEAM"]] + [x["l_cost"][p] for x in d["WP"]]
                        if any(x != 0 for x in lv):
                            out.append(O.V("(c) cost at an inserted step", "C18/c-cost", (p,)))
                elif d["time"] != newlen and not O.c08_lengths(d):
                    out.append(O.V("(b) number of inserted steps differs from the number of listed steps inside the run",
                                   "C18/count", (prev["time"], d["time"], newlen, rec["op"]["list"])))
            if name == "remove_absence" and n >= 2 and trace[n - 1]["op"]["op"] == "insert_absence" \
                    and trace[n - 2].get("dump") and not trace[n - 2]["dump"]["abs"] and trace[n - 1]["exc"] is None:
                ref = trace[n - 2]["dump"]
                a, bb = all_logs(ref), all_logs(d)
                bad = [k for k in a if a[k] != bb[k]]
                if bad or ref["time"] != d["time"]:
                    out.append(O.V("(d) inserting steps into an absence-free result and removing them does not restore the logs",
                                   "C18/d", {"logs": bad[:5], "time": (ref["time"], d["time"])}))
        prev = d
    from .. import modelrun
    dis = modelrun.compare(case, trace, modelrun.FULL) if not any(t.get("sub") for t in case["tasks"]) else []
    return {"violations": out, "disagreements": dis, "sig": simcheck.behaviour_sig(S, trace) + (tuple(r["op"]["op"] for r in trace),
                                                                          tuple(tuple(r["op"].get("list", ())) for r in trace)),
            "hist": simcheck.base_hist(S, trace), "nontrivial": (trace[0].get("dump") or {}).get("time", 0) >= 2,
            "summary": {"times": [r["dump"]["time"] if r.get("dump") else None for r in trace]}}


def gen_cases(rng, n):
    cases = []
    for i in range(n):
        c = gen.gen_project(rng)
        if rng.random() < 0.8:
            gen.simplify_feasible(rng, c)
        if rng.random() < 0.2:
            for t in c["tasks"]:
                if t["auto"] and not t["need_fac"]:
                    t["sub"] = True
        op = gen.gen_sim_op(rng, c, absences=rng.random() < 0.5)
        op["max_time"] = rng.choice([40, 40, 8])
        ops = [op]
        if rng.random() < 0.15:
            # an earlier run of the same object under another absence list: the list the edits work with
            # is the one of the LAST run
            op0 = gen.gen_sim_op(rng, c, absences=True)
            if not op0["abs"]:
                op0["abs"] = sorted(set(rng.randrange(0, 6) for _ in range(rng.choice([1, 2, 3]))))
            op0["max_time"] = rng.choice([40, 40, 8])
            ops = [op0, dict(op, init_state=True, init_log=True)]
        for _ in range(rng.choice([1, 2, 2, 3, 4])):
            if rng.random() < 0.4:
                ops.append({"op": "remove_absence"})
            else:
                L = [rng.choice([0, 0, 1, 2, 3, 4, 5, 6, 8, 10, 30, 60]) for _ in range(rng.choice([1, 1, 2, 3]))]
                ops.append({"op": "insert_absence", "list": L, **({"as_tuple": True} if rng.random() < 0.15 else {})})
                if rng.random() < 0.6:
                    ops.append({"op": "remove_absence"})
        c["ops"] = ops
        cases.append(c)
    return cases


def run(ctx):
    rng = random.Random(ctx["seed"])
    n = 20000 if ctx["tier"] == "thorough" else 1200
    cases = simcheck.load_corpus("C18") + gen_cases(rng, n)
    results = simcheck.run_cases(ctx, "harness.props.c18", cases)
    return simcheck.summarise(ctx, cases, results,
                              "random simulated projects (with and without project-wide absence, sub-project tasks), followed by "
                              "1-7 remove/insert calls with index lists containing 0, duplicates, repeated and out-of-range steps")


K = Kit("C18", None)
K.eval_case = eval_case
replay = K.replay

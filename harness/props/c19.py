"""C19  Gantt data, state queries and dates report exactly what the logs contain.

Implementation side: the real get_time_list_for_gannt_chart /
create_data_for_gantt_plotly / extract_*_list / set_last_datetime of pDESy.
Oracle: an independent run-length computation in Python (the property's
statement).  Model side: Model/Gantt.v evaluated by vm_compute on the same
inputs (generated cases files)."""
import datetime
import itertools
import os
import random
import subprocess
from concurrent.futures import ThreadPoolExecutor
from fractions import Fraction

from .. import common as C

ASSUMPTIONS = [
    "state sequences are arbitrary words over the full enums (lengths 0-12 random, exhaustive to length 7 in the thorough tier)",
    "margins are non-negative dyadic rationals so binary64 arithmetic is exact; unit_timedelta a whole number of seconds",
    "CPython list/enumerate/datetime semantics trusted",
]

T_STATES = [0, 1, 2, 3, -1]
C_STATES = [0, 1, 2, -1, -2]
R_STATES = [0, 1, -1]
MARGINS = [Fraction(0), Fraction(1, 2), Fraction(1), Fraction(2), Fraction(1, 8), Fraction(3)]
EPOCH = datetime.datetime(2000, 1, 1)


def _imports():
    from pDESy.model.base_task import BaseTask, BaseTaskState
    from pDESy.model.base_component import BaseComponent, BaseComponentState
    from pDESy.model.base_worker import BaseWorker, BaseWorkerState
    from pDESy.model.base_facility import BaseFacility, BaseFacilityState
    from pDESy.model.base_workflow import BaseWorkflow
    from pDESy.model.base_product import BaseProduct
    from pDESy.model.base_team import BaseTeam
    from pDESy.model.base_workplace import BaseWorkplace
    from pDESy.model.base_project import BaseProject
    return locals()


# ------------------------------------------------------------------ oracle
def rle(seq):
    out = []
    for i, s in enumerate(seq):
        if out and out[-1][0] == s:
            out[-1][2] += 1
        else:
            out.append([s, i, 1])
    return out


def runs(seq, state, m):
    return [(st, Fraction(ln - 1) + m) for (s, st, ln) in rle(seq) if s == state]


def oracle_gantt(kind, seq, m):
    if kind in ("task", "component"):
        return [runs(seq, 1, m), runs(seq, 2, m)]
    return [runs(seq, 0, m), runs(seq, 1, m), runs(seq, -1, m)]


def oracle_extract(logs, target, times):
    return [i for i, lg in enumerate(logs) if all(t < len(lg) and lg[t] == target for t in times)]


# --------------------------------------------------------- implementation
def norm_runs(lst):
    return [(int(a), C.frac(b)) for (a, b) in lst]


def impl_gantt(P, kind, seq, m):
    fm = float(m)
    if kind == "task":
        o = P["BaseTask"]("t", state_record_list=[P["BaseTaskState"](s) for s in seq])
    elif kind == "component":
        o = P["BaseComponent"]("c", state_record_list=[P["BaseComponentState"](s) for s in seq])
    elif kind == "worker":
        o = P["BaseWorker"]("w", state_record_list=[P["BaseWorkerState"](s) for s in seq])
    else:
        o = P["BaseFacility"]("f", state_record_list=[P["BaseFacilityState"](s) for s in seq])
    if len(seq) >= 2 and (sum(seq) + len(seq)) % 3 == 0:
        # the same question asked before, when the log was shorter (a cut-off run that was continued, steps
        # inserted later): the log list is edited in place, the answer must be the one for the log as it is now
        full = list(o.state_record_list)
        k = len(full) // 2
        lst = o.state_record_list
        del lst[k:]
        o.get_time_list_for_gannt_chart(finish_margin=fm)
        lst.extend(full[k:])
    res = o.get_time_list_for_gannt_chart(finish_margin=fm)
    return [norm_runs(x) for x in res]


def secs(s):
    return int((datetime.datetime.strptime(s, "%Y-%m-%d %H:%M:%S") - EPOCH).total_seconds())


def impl_rows2(P, kind, seq, m, init_s, unit_s):
    init = EPOCH + datetime.timedelta(seconds=init_s)
    unit = datetime.timedelta(seconds=unit_s)
    if kind == "task":
        o = P["BaseTask"]("t", state_record_list=[P["BaseTaskState"](s) for s in seq])
    else:
        o = P["BaseComponent"]("c", state_record_list=[P["BaseComponentState"](s) for s in seq])
    df = o.create_data_for_gantt_plotly(init, unit, finish_margin=float(m), view_ready=True)
    return [(secs(d["Start"]), secs(d["Finish"])) for d in df], [d["State"] for d in df]


def impl_rows3(P, kind, seqs, m, init_s, unit_s):
    init = EPOCH + datetime.timedelta(seconds=init_s)
    unit = datetime.timedelta(seconds=unit_s)
    if kind == "team":
        ws = [P["BaseWorker"]("w%d" % i, state_record_list=[P["BaseWorkerState"](s) for s in q])
              for i, q in enumerate(seqs)]
        o = P["BaseTeam"]("team", worker_list=ws)
    else:
        fs = [P["BaseFacility"]("f%d" % i, state_record_list=[P["BaseFacilityState"](s) for s in q])
              for i, q in enumerate(seqs)]
        o = P["BaseWorkplace"]("wp", facility_list=fs)
    df = o.create_data_for_gantt_plotly(init, unit, finish_margin=float(m), view_ready=True, view_absence=True)
    return [(secs(d["Start"]), secs(d["Finish"])) for d in df], [d["State"] for d in df]


def oracle_rows(runs_lists, init_s, unit_s):
    out = []
    for lst in runs_lists:
        for (st, ln) in lst:
            fin = Fraction(init_s) + (Fraction(st) + ln) * unit_s
            out.append((init_s + st * unit_s, fin.numerator // fin.denominator))
    return out


def impl_extract(P, kind, logs, target, times):
    if kind == "task":
        ts = [P["BaseTask"]("t%d" % i, state_record_list=[P["BaseTaskState"](s) for s in lg]) for i, lg in enumerate(logs)]
        wf = P["BaseWorkflow"](ts)
        fn = {0: wf.extract_none_task_list, 1: wf.extract_ready_task_list,
              2: wf.extract_working_task_list, -1: wf.extract_finished_task_list}[target]
        objs = ts
    elif kind == "component":
        cs = [P["BaseComponent"]("c%d" % i, state_record_list=[P["BaseComponentState"](s) for s in lg]) for i, lg in enumerate(logs)]
        pr = P["BaseProduct"](cs)
        fn = {0: pr.extract_none_component_list, 1: pr.extract_ready_component_list,
              2: pr.extract_working_component_list, -1: pr.extract_finished_component_list}[target]
        objs = cs
    elif kind == "worker":
        ws = [P["BaseWorker"]("w%d" % i, state_record_list=[P["BaseWorkerState"](s) for s in lg]) for i, lg in enumerate(logs)]
        tm = P["BaseTeam"]("team", worker_list=ws)
        fn = {0: tm.extract_free_worker_list, 1: tm.extract_working_worker_list}[target]
        objs = ws
    else:
        fs = [P["BaseFacility"]("f%d" % i, state_record_list=[P["BaseFacilityState"](s) for s in lg]) for i, lg in enumerate(logs)]
        wp = P["BaseWorkplace"]("wp", facility_list=fs)
        fn = {0: wp.extract_free_facility_list, 1: wp.extract_working_facility_list}[target]
        objs = fs
    res = fn(list(times))
    idx = sorted(next(i for i, o in enumerate(objs) if o is r) for r in res)
    if len(idx) != len(res) or len(set(idx)) != len(idx):
        raise AssertionError("duplicates in extract result")
    return idx


def impl_last(P, last_s, unit_s, time):
    p = P["BaseProject"](init_datetime=EPOCH, unit_timedelta=datetime.timedelta(seconds=1))
    p.time = time
    r = p.set_last_datetime(EPOCH + datetime.timedelta(seconds=last_s),
                            unit_timedelta=datetime.timedelta(seconds=unit_s))
    assert p.init_datetime == r
    return int((r - EPOCH).total_seconds())


# --------------------------------------------------------------- generator
def gen_seq(rng, states, maxlen=12):
    n = rng.choice([0, 1, 1, 2, 3, 4, 5, 6, 7, 8, 9, 10, 12])
    seq = []
    while len(seq) < n:
        s = rng.choice(states)
        seq.extend([s] * rng.choice([1, 1, 2, 3, 4]))
    return seq[:n] if n else []


def states_for(kind):
    return {"task": T_STATES, "component": C_STATES}.get(kind, R_STATES)


def gen_cases(rng, n):
    cases = []
    kinds = ["task", "component", "worker", "facility"]
    for i in range(n):
        r = rng.random()
        if r < 0.55:
            k = kinds[i % 4]
            cases.append({"fam": "gantt", "kind": k, "seq": gen_seq(rng, states_for(k)), "m": rng.choice(MARGINS), "int_logs": rng.random() < 0.15})
        elif r < 0.70:
            k = rng.choice(["task", "component"])
            cases.append({"fam": "rows2", "kind": k, "seq": gen_seq(rng, states_for(k)), "m": rng.choice(MARGINS),
                          "init": rng.randrange(0, 10 ** 8), "unit": rng.choice([1, 45, 60, 3600, 86400])})
        elif r < 0.80:
            k = rng.choice(["team", "workplace"])
            cases.append({"fam": "rows3", "kind": k, "seqs": [gen_seq(rng, R_STATES) for _ in range(rng.randrange(0, 4))],
                          "m": rng.choice(MARGINS), "init": rng.randrange(0, 10 ** 8),
                          "unit": rng.choice([1, 45, 60, 3600, 86400])})
        elif r < 0.95:
            k = rng.choice(kinds)
            sts = states_for(k)
            logs = [gen_seq(rng, sts, 8) for _ in range(rng.randrange(0, 6))]
            if k in ("task", "component"):
                target = rng.choice([0, 1, 2, -1])
            else:
                target = rng.choice([0, 1])
            times = [rng.randrange(0, 9) for _ in range(rng.choice([0, 1, 1, 2, 3]))]
            if rng.random() < 0.5 and logs and logs[0]:
                # make hits likely: pick times where the first log shows the target
                hit = [t for t, s in enumerate(logs[0]) if s == logs[0][0]]
                target = logs[0][0] if (logs[0][0] in ([0, 1, 2, -1] if k in ("task", "component") else [0, 1])) else target
                times = rng.sample(hit, min(len(hit), rng.choice([1, 2, 3, 4])))
                if len(hit) >= 2 and rng.random() < 0.5:
                    # first and last time hit the target, the ones in between are arbitrary
                    lo, hi = min(hit), max(hit)
                    mid = [rng.randrange(lo, hi + 1) for _ in range(rng.choice([1, 2, 3]))]
                    times = [lo] + mid + [hi]
                    rng.shuffle(times)
            cases.append({"fam": "extract", "kind": k, "logs": logs, "target": target, "times": times, "int_logs": rng.random() < 0.15})
        else:
            cases.append({"fam": "last", "last": rng.randrange(0, 10 ** 9), "unit": rng.choice([1, 60, 3600, 86400, 7]),
                          "time": rng.randrange(0, 500)})
    return cases


def exhaustive_cases(maxlen):
    cases = []
    for kind in ("task", "component"):
        sts = states_for(kind)
        for n in range(maxlen + 1):
            for seq in itertools.product(sts, repeat=n):
                cases.append({"fam": "gantt", "kind": kind, "seq": list(seq), "m": MARGINS[(n + len(cases)) % 4]})
    for kind in ("worker", "facility"):
        for n in range(maxlen + 2):
            for seq in itertools.product(R_STATES, repeat=n):
                cases.append({"fam": "gantt", "kind": kind, "seq": list(seq), "m": MARGINS[(n + len(cases)) % 4]})
    return cases


# --------------------------------------------------------------- execution
class _IntLogs(dict):
    """the library under test with the five state enumerations replaced by `int`: a log restored from
    plain numbers (IntEnum members compare equal to their values)"""
    def __getitem__(self, k):
        if k in ("BaseTaskState", "BaseComponentState", "BaseWorkerState", "BaseFacilityState"):
            return int
        return dict.__getitem__(self, k)


def run_case(P, c):
    """returns (impl_result, oracle_result)"""
    f = c["fam"]
    if c.get("int_logs"):
        P = _IntLogs(P)
    if f == "gantt":
        return impl_gantt(P, c["kind"], c["seq"], c["m"]), oracle_gantt(c["kind"], c["seq"], c["m"])
    if f == "rows2":
        rows, states = impl_rows2(P, c["kind"], c["seq"], c["m"], c["init"], c["unit"])
        o = oracle_gantt(c["kind"], c["seq"], c["m"])
        return rows, oracle_rows(o, c["init"], c["unit"])
    if f == "rows3":
        rows, states = impl_rows3(P, c["kind"], c["seqs"], c["m"], c["init"], c["unit"])
        exp = []
        for q in c["seqs"]:
            r, w, a = oracle_gantt("worker", q, c["m"])
            exp += oracle_rows([r, a, w], c["init"], c["unit"])
        return rows, exp
    if f == "extract":
        return impl_extract(P, c["kind"], c["logs"], c["target"], c["times"]), oracle_extract(c["logs"], c["target"], c["times"])
    if f == "last":
        r = impl_last(P, c["last"], c["unit"], c["time"])
        return r, c["last"] - c["unit"] * (c["time"] - 1)
    raise ValueError(f)


def zq(lst):
    return C.coq_list(["(%s, %s)" % (C.coq_z(a), C.coq_q(b)) for (a, b) in lst])


def zz(lst):
    return C.coq_list(["(%s, %s)" % (C.coq_z(a), C.coq_z(b)) for (a, b) in lst])


def zl(lst):
    return C.coq_list([C.coq_z(a) for a in lst])


def nl(lst):
    return C.coq_list(["%d%%nat" % a for a in lst])


def coq_case(c, impl):
    f = c["fam"]
    if f == "gantt":
        if c["kind"] in ("task", "component"):
            return ("task" if c["kind"] == "task" else "component",
                    "(%s, %s, %s, %s)" % (zl(c["seq"]), C.coq_q(c["m"]), zq(impl[0]), zq(impl[1])))
        return "resource", "(%s, %s, %s, %s, %s)" % (zl(c["seq"]), C.coq_q(c["m"]), zq(impl[0]), zq(impl[1]), zq(impl[2]))
    if f == "rows2":
        return "rows2", "(%s, %s, %s, %s, %s, %s)" % (C.coq_z(0 if c["kind"] == "task" else 1), zl(c["seq"]),
                                                     C.coq_q(c["m"]), C.coq_z(c["init"]), C.coq_z(c["unit"]), zz(impl))
    if f == "rows3":
        return "rows3", "(%s, %s, %s, %s, %s)" % (C.coq_list([zl(q) for q in c["seqs"]]), C.coq_q(c["m"]),
                                                 C.coq_z(c["init"]), C.coq_z(c["unit"]), zz(impl))
    if f == "extract":
        k = {"task": 0, "component": 1}.get(c["kind"], 2)
        return "extract", "(%s, %s, %s, %s, %s)" % (C.coq_z(k), C.coq_list([zl(q) for q in c["logs"]]),
                                                   C.coq_z(c["target"]), nl(c["times"]), nl(impl))
    if f == "last":
        return "last", "(%s, %s, %s, %s)" % (C.coq_z(c["last"]), C.coq_z(c["unit"]), C.coq_z(c["time"]), C.coq_z(impl))


CHK = {"task": "chk_task", "component": "chk_component", "resource": "chk_resource", "rows2": "chk_rows2",
       "rows3": "chk_rows3", "extract": "chk_extract", "last": "chk_last"}
ORDER = ["task", "component", "resource", "rows2", "rows3", "extract", "last"]


def write_cases_file(path, entries):
    """entries: list of (checker family, coq text, case index)"""
    lines = ["From Coq Require Import List ZArith QArith.",
             "From PV Require Import Model.Gantt Model.Corr Model.GanttCorr.",
             "Import ListNotations.", "Open Scope Q_scope."]
    layout = []
    for fam in ORDER:
        es = [e for e in entries if e[0] == fam]
        layout.append((fam, [e[2] for e in es]))
        lines.append("Eval vm_compute in (mismatches %s %s)." % (CHK[fam], C.coq_list([e[1] for e in es]) if es else "[]"))
    with open(path, "w") as f:
        f.write("\n".join(lines) + "\n")
    return layout


def eval_shard(args):
    path, layout, work = args
    lists, wall = C.coq_eval_nat_lists(path, cwd=work)
    bad = []
    if len(lists) != len(layout):
        raise RuntimeError("unexpected number of results from %s" % path)
    for (fam, idxs), res in zip(layout, lists):
        for j in res:
            bad.append(idxs[j])
    return bad


def json_case(c):
    d = dict(c)
    for k, v in list(d.items()):
        if isinstance(v, Fraction):
            d[k] = C.q_str(v)
    return d


def signature(c, impl, exp):
    if c["fam"] == "gantt":
        return "gantt/%s" % c["kind"]
    return c["fam"] + "/" + str(c.get("kind", ""))


def run(ctx):
    P = _imports()
    rng = random.Random(ctx["seed"])
    thorough = ctx["tier"] == "thorough"
    cases = corpus_cases() + gen_cases(rng, 20000 if thorough else 3000)
    exhaustive = False
    if thorough:
        cases += exhaustive_cases(7)
        exhaustive = True
    violations, entries, results = [], [], []
    fam_count, nontriv = {}, set()
    for i, c in enumerate(cases):
        key = c["fam"] + "/" + str(c.get("kind", ""))
        fam_count[key] = fam_count.get(key, 0) + 1
        try:
            impl, exp = run_case(P, c)
        except Exception as e:  # the property says these calls report, they do not fail
            violations.append({"clause": "raises %s" % type(e).__name__, "signature": "raises/" + key,
                               "case": json_case(c), "detail": repr(e)})
            results.append(None)
            continue
        results.append(impl)
        if impl != exp:
            violations.append({"clause": "result differs from the maximal-run / query specification",
                               "signature": signature(c, impl, exp), "case": json_case(c),
                               "detail": {"impl": repr(impl), "spec": repr(exp)}})
        entries.append(coq_case(c, impl) + (i,))
        seqs = [c.get("seq")] if "seq" in c else c.get("seqs", c.get("logs", []))
        if any(len(rle(q)) >= 2 for q in seqs if q) or c["fam"] == "last":
            nontriv.add(repr(sorted(json_case(c).items())))
    # model side: shards of <= 1500 cases, coqc in parallel
    shard = 1500
    jobs = []
    for k in range(0, len(entries), shard):
        path = os.path.join(ctx["work"], "cases_%d.v" % (k // shard))
        layout = write_cases_file(path, entries[k:k + shard])
        jobs.append((path, layout, ctx["work"]))
    disagreements = []
    with ThreadPoolExecutor(max_workers=12) as ex:
        for bad in ex.map(eval_shard, jobs):
            for i in bad:
                disagreements.append({"case": json_case(cases[i]), "impl": repr(results[i]),
                                      "note": "Model/Gantt.v (vm_compute) disagrees with the implementation"})
    samples = [{"case": json_case(cases[i]), "impl": repr(results[i])} for i in (0, len(cases) // 3, len(cases) // 2)]
    return {
        "evaluations": len(cases),
        "distinct_nontrivial": len(nontriv),
        "rule": "corpus + random words over the full state enums (lengths 0-12, run-structured), margins in "
                "{0,1/8,1/2,1,2,3}; chart rows with 5 unit lengths; extract queries over up to 5 objects; "
                "non-trivial = distinct input with at least two runs in some log (or a date case)"
                + ("; plus ALL words of length <= 7 (task, component) / <= 8 (worker, facility)" if exhaustive else ""),
        "samples": samples,
        "violations": violations,
        "disagreements": disagreements,
        "extra": {"family_histogram": fam_count, "model_shards": len(jobs),
                  "exhaustive_part": exhaustive},
    }


def corpus_cases():
    out = []
    d = os.path.join(C.VERIF, "corpus", "C19")
    if os.path.isdir(d):
        import json
        for fn in sorted(os.listdir(d)):
            with open(os.path.join(d, fn)) as f:
                c = json.load(f)
            if "m" in c:
                c["m"] = Fraction(c["m"])
            out.append(c)
    return out


def replay(rp):
    P = _imports()
    c = rp.get("case")
    if c is None:
        print("replay file names a broken obligation / correspondence, no concrete input:")
        print(rp)
        return 1
    if "m" in c:
        c["m"] = Fraction(c["m"])
    try:
        impl, exp = run_case(P, c)
    except Exception as e:
        print("implementation raised", repr(e))
        return 1
    print("case:", c)
    print("implementation:", impl)
    print("specification :", exp)
    print("AGREE" if impl == exp else "DIFFER")
    return 0 if impl == exp else 1

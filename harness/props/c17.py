"""C17 backward simulation leaves the model intact and respects dependencies"""
import random

from .. import oracles as O
from .. import gen, simcheck
from ..propkit import Kit


def eval_case(case):
    from .. import sim
    S = O.Static(case)
    out = []
    b, trace = sim.run_ops(case)
    rec = trace[0]
    op = rec["op"]
    crash = op.get("crash")
    if rec["exc"] is not None and rec["exc"] != "Crash":
        out.append(O.V("backward_simulate raised", "C17/raises/" + rec["exc"].split(":")[0], rec["exc"]))
    sa, sb = rec.get("struct_before"), rec.get("struct_after")
    if sa != sb:
        diff = [k for k in sa if sa[k] != sb[k]]
        out.append(O.V("(a/b) dependency lists / task list are not the same objects in the same order after backward_simulate",
                       "C17/structure/" + ("crash" if rec["exc"] else "ok"), diff))
    wf = b.project.workflow
    tids = set(map(id, wf.task_list))
    for t in wf.task_list:
        for lst in (t.input_task_list, t.output_task_list):
            if any(id(e[0]) not in tids for e in lst):
                out.append(O.V("(b) a task still refers to a helper task", "C17/helper", None))
    if len(wf.task_list) != S.nt:
        out.append(O.V("(b) helper task left in the workflow", "C17/helper-list", len(wf.task_list)))
    if rec["exc"] is None and rec.get("dump"):
        d = rec["dump"]
        out += O.c08_lengths(d, "C17/lengths")
        # (d) in the (time-reversed) logs no task is WORKING before its FS predecessors stopped WORKING
        rev = bool(op.get("revlog", True))
        for i in range(S.nt):
            li = d["T"][i]["l_st"]
            for (p, kd) in S.inputs[i]:
                if kd != O.FS:
                    continue
                lp = d["T"][p]["l_st"]
                wi = [k for k, s in enumerate(li) if s == O.WORKING]
                wp = [k for k, s in enumerate(lp) if s == O.WORKING]
                if wi and wp:
                    if rev and min(wi) <= max(wp):
                        out.append(O.V("(d) task logged WORKING before an FS predecessor stopped WORKING", "C17/order", (p, i)))
                    if (not rev) and max(wi) >= min(wp):
                        out.append(O.V("(d) (unreversed log) successor must work before its predecessor", "C17/order-unrev", (p, i)))
    # (c) a later forward simulate equals the forward simulate of a never-backward-simulated copy
    fwd = case["fwd"]
    b2, tr2 = sim.run_ops(case, want_snaps=False, ops=[fwd], built=b)
    b3, tr3 = sim.run_ops(case, want_snaps=False, ops=[fwd])
    if tr2[0]["exc"] != tr3[0]["exc"]:
        out.append(O.V("(c) forward simulate after backward behaves differently (exception)", "C17/forward-exc", (tr2[0]["exc"], tr3[0]["exc"])))
    else:
        df = O.dump_diff(tr2[0]["dump"], tr3[0]["dump"])
        if df:
            out.append(O.V("(c) forward simulate after backward_simulate differs from a fresh forward simulate",
                           "C17/forward/" + ("crash" if rec["exc"] else "ok"), df[:3]))
    return {"violations": out, "sig": simcheck.behaviour_sig(S, trace) + (bool(op.get("due")), bool(op.get("revlog", True)), tuple(crash or ())),
            "hist": dict(simcheck.base_hist(S, trace), crashed=int(rec["exc"] == "Crash")),
            "nontrivial": (rec.get("dump") or {}).get("time", 0) >= 2 or rec["exc"] == "Crash",
            "summary": {"exc": rec["exc"], "time": (rec.get("dump") or {}).get("time")}}


PHASES = ["updated", "allocated", "performed", "recorded"]


def gen_cases(rng, n, every_crash=False):
    cases = []
    while len(cases) < n:
        c = gen.gen_project(rng)
        if rng.random() < 0.8:
            gen.simplify_feasible(rng, c)
        o = gen.gen_sim_op(rng, c)
        o["op"] = "backward"
        o["due"] = rng.random() < 0.5
        o["revlog"] = rng.random() < 0.6
        o["max_time"] = 40
        c["fwd"] = gen.gen_sim_op(rng, c)
        base = dict(c, ops=[dict(o)])
        cases.append(base)
        if every_crash:
            for k in range(0, 8):
                for ph in PHASES:
                    cases.append(dict(c, ops=[dict(o, crash=[k, ph])]))
        else:
            for _ in range(2):
                cases.append(dict(c, ops=[dict(o, crash=[rng.choice([0, 0, 1, 2, 3, 5, 8]), rng.choice(PHASES)])]))
    return cases


def run(ctx):
    rng = random.Random(ctx["seed"])
    th = ctx["tier"] == "thorough"
    cases = simcheck.load_corpus("C17") + gen_cases(rng, 12000 if th else 450, every_crash=th)
    results = simcheck.run_cases(ctx, "harness.props.c17", cases)
    return simcheck.summarise(ctx, cases, results,
                              "random projects x both settings of considering_due_time_of_tail_tasks and reverse_log_information, "
                              "random due times; each without fault and with an exception injected at (step, phase) "
                              + ("for EVERY step 0-7 x 4 phases" if th else "for 2 random (step, phase) points")
                              + "; structure compared by object identity; later forward run compared with a fresh copy")


K = Kit("C17", None)
K.eval_case = eval_case
replay = K.replay

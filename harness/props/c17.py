"""C17 backward simulation leaves the model intact and respects dependencies"""
import os
import random

from .. import common as C
from .. import oracles as O
from .. import gen, simcheck
from ..propkit import Kit


def eval_case(case):
    from .. import sim
    S = O.Static(case)
    out = []
    b, trace = sim.run_ops(case)
    rec = trace[0]
    op = rec["op"]
    crash = op.get("crash")
    if rec["exc"] is not None and rec["exc"] != "Crash":
        out.append(O.V("backward_simulate raised", "C17/raises/" + rec["exc"].split(":")[0], rec["exc"]))
    sa, sb = rec.get("struct_before"), rec.get("struct_after")
    if sa != sb:
        diff = [k for k in sa if sa[k] != sb[k]]
        out.append(O.V("(a/b) dependency lists / task list are not the same objects in the same order after backward_simulate",
                       "C17/structure/" + ("crash" if rec["exc"] else "ok"), diff))
    wf = b.project.workflow
    tids = set(map(id, wf.task_list))
    for t in wf.task_list:
        for lst in (t.input_task_list, t.output_task_list):
            if any(id(e[0]) not in tids for e in lst):
                out.append(O.V("(b) a task still refers to a helper task", "C17/helper", None))
    if len(wf.task_list) != S.nt:
        out.append(O.V("(b) helper task left in the workflow", "C17/helper-list", len(wf.task_list)))
    if rec["exc"] is None and rec.get("dump"):
        d = rec["dump"]
        out += O.c08_lengths(d, "C17/lengths")
        # (d) in the (time-reversed) logs no task is WORKING before its FS predecessors stopped WORKING
        rev = bool(op.get("revlog", True))
        for i in range(S.nt):
            li = d["T"][i]["l_st"]
            for (p, kd) in S.inputs[i]:
                if kd != O.FS:
                    continue
                lp = d["T"][p]["l_st"]
                wi = [k for k, s in enumerate(li) if s == O.WORKING]
                wp = [k for k, s in enumerate(lp) if s == O.WORKING]
                # a link declared on the successor's side only (BaseTask(input_task_list=...)) is not seen by the
                # backward run: recorded finding C17/order-onesided (known_findings.json)
                one = "-onesided" if any(a == p and b_ == i for (a, b_, _k) in case.get("edges_in", [])) else ""
                if wi and wp:
                    if rev and min(wi) <= max(wp):
                        out.append(O.V("(d) task logged WORKING before an FS predecessor stopped WORKING", "C17/order" + one, (p, i)))
                    if (not rev) and max(wi) >= min(wp):
                        out.append(O.V("(d) (unreversed log) successor must work before its predecessor", ("C17/order" + one) if one else "C17/order-unrev", (p, i)))
    # (c) a later forward simulate equals the forward simulate of a never-backward-simulated copy
    fwd = case["fwd"]
    b2, tr2 = sim.run_ops(case, want_snaps=False, ops=[fwd], built=b)
    b3, tr3 = sim.run_ops(case, want_snaps=False, ops=[fwd])
    if tr2[0]["exc"] != tr3[0]["exc"]:
        out.append(O.V("(c) forward simulate after backward behaves differently (exception)", "C17/forward-exc", (tr2[0]["exc"], tr3[0]["exc"])))
    else:
        df = O.dump_diff(tr2[0]["dump"], tr3[0]["dump"])
        if df:
            out.append(O.V("(c) forward simulate after backward_simulate differs from a fresh forward simulate",
                           "C17/forward/" + ("crash" if rec["exc"] else "ok"), df[:3]))
    shots = {k: rec.get("struct_%s_idx" % k) for k in ("before", "inner", "after")}
    model = {"fresh": S.nt, "nwp": len(case.get("wps", [])), "due": bool(op.get("due")),
             "dues": [int(t.get("due", -1)) for t in case["tasks"]], "shots": shots}
    from .. import modelrun
    dis = []
    if rec["exc"] is None:
        # the whole call against Model/BackwardRun.v (inner run on the reversed configuration + helpers, log reversal)
        dis = modelrun.compare(dict(case, ops=[op]), trace[:1], modelrun.FULL)
    return {"violations": out, "model": model, "disagreements": dis, "sig": simcheck.behaviour_sig(S, trace) + (bool(op.get("due")), bool(op.get("revlog", True)), tuple(crash or ())),
            "hist": dict(simcheck.base_hist(S, trace), crashed=int(rec["exc"] == "Crash")),
            "nontrivial": (rec.get("dump") or {}).get("time", 0) >= 2 or rec["exc"] == "Crash",
            "summary": {"exc": rec["exc"], "time": (rec.get("dump") or {}).get("time")}}


PHASES = ["updated", "allocated", "performed", "recorded"]


def gen_cases(rng, n, every_crash=False):
    cases = []
    while len(cases) < n:
        c = gen.gen_project(rng)
        if rng.random() < 0.8:
            gen.simplify_feasible(rng, c)
        if rng.random() < 0.12:
            # links declared on one side only (BaseTask(input_task_list=...), BaseWorkplace(input_workplace_list=...)):
            # reversing twice still has to give back exactly the lists there were
            gen.usage_variants(rng, c, p=0.7)
        o = gen.gen_sim_op(rng, c)
        o["op"] = "backward"
        o["due"] = rng.random() < 0.5
        o["revlog"] = rng.random() < 0.6
        o["max_time"] = 40
        c["fwd"] = gen.gen_sim_op(rng, c)
        base = dict(c, ops=[dict(o)])
        cases.append(base)
        if rng.random() < 0.15:
            cases.append(dict(c, ops=[dict(o, bad_mode=True)]))       # refused by the library's own argument check
        if every_crash:
            for k in range(0, 8):
                for ph in PHASES:
                    cases.append(dict(c, ops=[dict(o, crash=[k, ph] + (["base"] if (k + len(ph)) % 3 == 0 else []))]))
        else:
            for _ in range(2):
                cr = [rng.choice([0, 0, 1, 2, 3, 5, 8]), rng.choice(PHASES)]
                if rng.random() < 0.4:
                    cr.append("base")        # an interruption that is not an Exception (KeyboardInterrupt-like)
                cases.append(dict(c, ops=[dict(o, crash=cr)]))
    return cases


def coq_shot(sh):
    pl = lambda l: C.coq_list(["(%d, %d)%%nat" % (a, b) for (a, b) in l])
    nl = lambda l: C.coq_list(["%d%%nat" % a for a in l])
    return "(%s, %s, %s, %s, %s)" % (nl(sh["task_list"]), C.coq_list([pl(l) for l in sh["in"]]), C.coq_list([pl(l) for l in sh["out"]]),
                                     C.coq_list([nl(l) for l in sh["wp_in"]]), C.coq_list([nl(l) for l in sh["wp_out"]]))


def model_mismatches(ctx, results, limit):
    """Model/Backward.v backward_prepare / backward_finally against the structure
    observed before, inside and after backward_simulate"""
    ents = []
    for r in results:
        m = r.get("model")
        if not m or not m["shots"].get("before") or not m["shots"].get("after"):
            continue
        sh = m["shots"]
        inner = "None" if not sh.get("inner") else "(Some %s)" % coq_shot(sh["inner"])
        ents.append((r["idx"], "(%d%%nat, %d%%nat, %s, %s, %s, %s, %s)" % (
            m["fresh"], m["nwp"], "true" if m["due"] else "false", C.coq_list([C.coq_z(d) for d in m["dues"]]),
            coq_shot(sh["before"]), inner, coq_shot(sh["after"]))))
        if len(ents) >= limit:
            break
    bad = []
    for k in range(0, len(ents), 400):
        chunk = ents[k:k + 400]
        path = os.path.join(ctx["work"], "backward_%d.v" % k)
        with open(path, "w") as f:
            f.write("From Coq Require Import List ZArith QArith.\nFrom PV Require Import Model.Types Model.Corr Model.Backward.\n"
                    "Import ListNotations.\nOpen Scope nat_scope.\n"
                    "Eval vm_compute in (mismatches chk_backward %s).\n" % C.coq_list([e[1] for e in chunk]))
        lists, _ = C.coq_eval_nat_lists(path, cwd=ctx["work"])
        bad += [chunk[j][0] for j in lists[0]]
    return bad, len(ents)


def run(ctx):
    rng = random.Random(ctx["seed"])
    th = ctx["tier"] == "thorough"
    cases = simcheck.load_corpus("C17") + gen_cases(rng, 12000 if th else 450, every_crash=th)
    results = simcheck.run_cases(ctx, "harness.props.c17", cases)
    bad, nchk = model_mismatches(ctx, results, 6000 if th else 1500)
    for i in bad:
        r = next(x for x in results if x["idx"] == i)
        r.setdefault("disagreements", []).append("Model/Backward.v backward_prepare/backward_finally disagree with the structure observed "
                                                 "before / inside / after backward_simulate: %s" % r["model"])
    res = summarise(ctx, cases, results, nchk)
    return res


def summarise(ctx, cases, results, nchk):
    th = ctx["tier"] == "thorough"
    res = simcheck.summarise(ctx, cases, results,
                              "random projects x both settings of considering_due_time_of_tail_tasks and reverse_log_information, "
                              "random due times; each without fault and with an exception injected at (step, phase) "
                              + ("for EVERY step 0-7 x 4 phases" if th else "for 2 random (step, phase) points")
                              + "; structure compared by object identity; later forward run compared with a fresh copy")
    res["extra"]["structures_checked_against_model"] = nchk
    return res


K = Kit("C17", None)
K.eval_case = eval_case
replay = K.replay

"""C13 component placement rules"""
from .. import oracles as O
from ..propkit import Kit, cutoff_ops


def _oracle(S, b, trace):
    out = []
    t0 = 0
    for rec in trace:
        if rec["op"]["op"] != "simulate":
            continue
        out += O.c13(S, rec)
    return out


def _tweak(rng, c):
    """workplace links declared on one side only (the conveyor rule reads the target's input list):
    BaseWorkplace(input_workplace_list=[...]) without the source's output list, and output entries
    without the target's input entry"""
    if len(c.get("wps", [])) >= 2 and rng.random() < 0.2:
        c["wp_oneside"] = True
        n = len(c["wps"])
        for pi in range(n):
            if rng.random() < 0.5:
                q = rng.choice([x for x in range(n) if x != pi])
                c["wps"][pi].setdefault("out_only", []).append(q)
                if not c["wps"][q]["inputs"] and rng.random() < 0.5:
                    c["wps"][q]["inputs"] = [rng.choice([x for x in range(n) if x not in (pi, q)] or [q - 1 if q else 1])]


K = Kit("C13", _oracle, facilities=True, tweak=_tweak, make_ops=cutoff_ops)
eval_case, run, replay = K.eval_case, K.run, K.replay

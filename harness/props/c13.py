"""C13 component placement rules"""
from .. import oracles as O
from ..propkit import Kit


def _oracle(S, b, trace):
    out = []
    t0 = 0
    for rec in trace:
        if rec["op"]["op"] != "simulate":
            continue
        out += O.c13(S, rec)
    return out


K = Kit("C13", _oracle, facilities=True)
eval_case, run, replay = K.eval_case, K.run, K.replay

"""Independent Python statements of the properties, evaluated on snapshots and
dumps recorded from the real implementation.  They are the *search* half of
the checks: a failure here is a concrete failing input on the real code.
(The theorems are about the Coq model; the correspondence ties the two.)"""
from fractions import Fraction

TOL = Fraction(1, 10 ** 10)
TOL_SPACE = Fraction(1, 10 ** 8)
NONE, READY, WORKING, WADD, FIN = 0, 1, 2, 3, -1
RANK = {NONE: 0, READY: 1, WORKING: 2, WADD: 2, FIN: 3}
R_FREE, R_WORK, R_ABS = 0, 1, -1
FS, SS, FF, SF = 0, 1, 2, 3


class Static:
    """static tables of a case, by index"""

    def __init__(self, case):
        self.case = case
        T = case["tasks"]
        self.nt = len(T)
        self.inputs = [[] for _ in T]     # in input_task_list order
        self.outputs = [[] for _ in T]
        for (p, s, k) in case.get("edges", []):
            self.inputs[s].append((p, k))
            self.outputs[p].append((s, k))
        for (p, s, k) in case.get("edges_in", []):      # declared on the successor's side only: gates read the input list
            self.inputs[s].append((p, k))
        self.name = [t["name"] for t in T]
        self.work = [Fraction(t["work"]) for t in T]
        self.progress = [Fraction(t.get("progress", "0")) for t in T]
        self.auto = [bool(t.get("auto")) for t in T]
        self.rate = [Fraction(t.get("rate", "1")) for t in T]
        self.need_fac = [bool(t.get("need_fac")) for t in T]
        self.comp = [t.get("comp") for t in T]
        self.teams_of = [list(t.get("teams", [])) for t in T]
        self.wps_of = [list(t.get("wps", [])) for t in T]
        self.fixw = [t.get("fixw") for t in T]
        self.fixf = [t.get("fixf") for t in T]
        self.exempt = [p >= 1 - TOL for p in self.progress]
        self.W = []
        for ti, tm in enumerate(case.get("teams", [])):
            for w in tm["workers"]:
                self.W.append({"team": ti, "skills": {int(k): Fraction(v) for k, v in w.get("skills", {}).items()},
                               "fskills": {int(k): Fraction(v) for k, v in w.get("fskills", {}).items()},
                               "cost": Fraction(w.get("cost", "0")), "solo": bool(w.get("solo")),
                               "abs": set(w.get("abs", [])), "mainwp": w.get("mainwp")})
        self.F = []
        for pi, wp in enumerate(case.get("wps", [])):
            for f in wp.get("facs", []):
                self.F.append({"wp": pi, "name": f.get("name"), "skills": {int(k): Fraction(v) for k, v in f.get("skills", {}).items()},
                               "cost": Fraction(f.get("cost", "0")), "solo": bool(f.get("solo")), "abs": set(f.get("abs", []))})
        self.team_members = [[i for i, w in enumerate(self.W) if w["team"] == ti] for ti in range(len(case.get("teams", [])))]
        self.wp_members = [[i for i, f in enumerate(self.F) if f["wp"] == pi] for pi in range(len(case.get("wps", [])))]
        self.cap = [Fraction(10 ** 9) if w.get("cap") == "inf" else Fraction(w.get("cap", "1")) for w in case.get("wps", [])]
        self.wp_inputs = [list(w.get("inputs", [])) for w in case.get("wps", [])]
        C = case.get("comps", [])
        self.nc = len(C)
        self.size = [Fraction(c.get("size", "1")) for c in C]
        self.children = [list(c.get("children", [])) for c in C]
        self.parents = [[j for j in range(len(C)) if i in self.children[j]] for i in range(len(C))]
        self.ghost = [bool(c.get("ghost_parent")) for c in C]       # has a parent that is not part of the product
        self.comp_tasks = [[i for i, t in enumerate(T) if t.get("comp") == c] + list(C[c].get("extra_tasks", [])) for c in range(len(C))]

    def wskill(self, w, t):
        return self.W[w]["skills"].get(self.name[t], Fraction(0))

    def fskill(self, f, t):
        return self.F[f]["skills"].get(self.name[t], Fraction(0))

    def has_wskill(self, w, t):
        return self.wskill(w, t) > TOL

    def has_fskill(self, f, t):
        return self.fskill(f, t) > TOL

    def w_operates(self, w, f):
        return self.W[w]["fskills"].get(self.F[f]["name"], Fraction(0)) > TOL

    def w_targets(self, w, t):
        return self.W[w]["team"] in self.teams_of[t]

    def f_targets(self, f, t):
        return self.F[f]["wp"] in self.wps_of[t]

    def ancestors(self, c):
        out, todo = set(), list(self.parents[c])
        while todo:
            x = todo.pop()
            if x not in out:
                out.add(x)
                todo.extend(self.parents[x])
        return out

    def descendants(self, c):
        out, todo = set(), list(self.children[c])
        while todo:
            x = todo.pop()
            if x not in out:
                out.add(x)
                todo.extend(self.children[x])
        return out


def started(st):
    return st in (WORKING, WADD, FIN)


def ready_gate(S, snap, i):
    for (p, k) in S.inputs[i]:
        ps = snap["T"][p]["st"]
        if k == FS and ps != FIN:
            return False
        if k == SS and not started(ps):
            return False
    return True


def finish_gate(S, snap, i):
    for (p, k) in S.inputs[i]:
        ps = snap["T"][p]["st"]
        if k == FF and ps != FIN:
            return False
        if k == SF and not started(ps):
            return False
    return True


def V(clause, sig, detail=None):
    return {"clause": clause, "signature": sig, "detail": detail}


def fresh(op):
    return op.get("init_state", True) and op.get("init_log", True)


def is_working_step(op, k):
    return k not in op.get("abs", [])


# ============================================================== C01
def c01(S, rec):
    out = []
    op = rec["op"]
    prev = None
    for (k, ph, working, sn) in rec["snaps"]:
        for i in range(S.nt):
            st = sn["T"][i]["st"]
            ex = S.exempt[i] and fresh(op)
            if ex:
                if st != FIN:
                    out.append(V("(e) exempt task not FINISHED", "C01/e", (k, ph, i)))
                continue
            if st != NONE and not ready_gate(S, sn, i):
                bad = [(p, kd, sn["T"][p]["st"]) for (p, kd) in S.inputs[i]]
                out.append(V("(a) task left NONE before its FS/SS predecessors allowed it", "C01/a", (k, ph, i, bad)))
            if st == FIN and not finish_gate(S, sn, i):
                out.append(V("(b) task FINISHED before its FF/SF predecessors allowed it", "C01/b", (k, ph, i)))
            if prev is not None and RANK[st] < RANK[prev["T"][i]["st"]]:
                out.append(V("(c) task state moved backwards", "C01/c", (k, ph, i, prev["T"][i]["st"], st)))
        prev = sn
        if ph == "recorded" and rec.get("dump"):
            d = rec["dump"]
            for i in range(S.nt):
                lg = d["T"][i]["l_st"]
                if rec["op"]["op"] == "simulate" and k < len(lg):
                    exp = sn["T"][i]["st"]
                    if not working and exp == WORKING:
                        exp = READY
                    if lg[k] != exp:
                        out.append(V("(d) logged state differs from the live state", "C01/d", (k, i, lg[k], exp)))
    return out


# ============================================================== C02
def contribution(S, sn, i, working, auto_abs):
    """contribution to task i at this step from the `allocated` snapshot"""
    t = sn["T"][i]
    if t["st"] != WORKING:
        return Fraction(0)
    if S.auto[i]:
        return S.rate[i] if (working or auto_abs) else Fraction(0)
    if not working:
        return Fraction(0)
    tot = Fraction(0)
    if S.need_fac[i]:
        for w, f in zip(t["aw"], t["af"]):
            a = S.wskill(w, i) if (S.has_wskill(w, i) and sn["W"][w]["st"] != R_ABS) else Fraction(0)
            b = S.fskill(f, i) if (S.has_fskill(f, i) and sn["F"][f]["st"] != R_ABS) else Fraction(0)
            tot += a * b
    else:
        for w in t["aw"]:
            if S.has_wskill(w, i) and sn["W"][w]["st"] != R_ABS:
                tot += S.wskill(w, i)
    return tot


def c02(S, rec):
    out = []
    op = rec["op"]
    snaps = rec["snaps"]
    first = True
    for j, (k, ph, working, sn) in enumerate(snaps):
        if first and fresh(op) and ph == "updated":
            first = False
            for i in range(S.nt):
                if sn["T"][i]["st"] in (NONE, READY) and sn["T"][i]["rem"] != S.work[i] * (1 - S.progress[i]):
                    out.append(V("(f) initial remaining work is not work*(1-progress)", "C02/f", (i,)))
        if ph == "updated":
            for i in range(S.nt):
                t = sn["T"][i]
                if t["st"] == WORKING and t["rem"] < TOL and finish_gate(S, sn, i):
                    out.append(V("(d) work is done and finish dependencies hold but the task is not FINISHED at the next step",
                                 "C02/d", (k, i)))
                if t["st"] == FIN and not (S.exempt[i] and fresh(op)) and t["rem"] != 0:
                    out.append(V("(e) FINISHED task reports non-zero remaining work", "C02/e", (k, i, str(t["rem"]))))
        if j + 1 < len(snaps):
            (k2, ph2, w2, sn2) = snaps[j + 1]
            for i in range(S.nt):
                a, b = sn["T"][i], sn2["T"][i]
                if ph == "allocated" and ph2 == "performed":
                    exp = a["rem"] - contribution(S, sn, i, working, op.get("auto_abs", False))
                    if b["rem"] != exp:
                        out.append(V("(a) remaining work did not change by exactly the allocated resources' contribution",
                                     "C02/a", (k, i, str(a["rem"]), str(b["rem"]), str(exp))))
                elif ph == "recorded" and ph2 == "updated":
                    if b["st"] == FIN and a["st"] != FIN:
                        if not a["rem"] < TOL:
                            out.append(V("(c) task FINISHED while work remained", "C02/c", (k2, i, str(a["rem"]))))
                        if b["rem"] != 0:
                            out.append(V("(e) FINISHED task reports non-zero remaining work", "C02/e", (k2, i)))
                    elif b["rem"] != a["rem"]:
                        out.append(V("(b) remaining work changed outside the perform phase", "C02/b", (k2, ph2, i)))
                else:
                    if b["rem"] != a["rem"]:
                        out.append(V("(b) remaining work changed outside the perform phase", "C02/b", (k2, ph2, i)))
        if ph == "recorded" and rec.get("dump") and op["op"] == "simulate":
            for i in range(S.nt):
                lg = rec["dump"]["T"][i]["l_rem"]
                if k < len(lg) and lg[k] != sn["T"][i]["rem"]:
                    out.append(V("(e) logged remaining work differs from the live value", "C02/log", (k, i)))
    return out


# ============================================================== C03
def absent(S, op, kind, r, k):
    if not is_working_step(op, k):
        return True
    return k in (S.W[r]["abs"] if kind == "W" else S.F[r]["abs"])


def c03(S, rec):
    out = []
    op = rec["op"]
    prev_rec = None
    for (k, ph, working, sn) in rec["snaps"]:
        T = sn["T"]
        for kind, key in (("W", "aw"), ("F", "af")):
            R = sn[kind]
            for r, rs in enumerate(R):
                if len(rs["as"]) > 1:
                    out.append(V("(a) resource assigned to more than one task", "C03/a", (k, ph, kind, r, rs["as"])))
                for t in rs["as"]:
                    if r not in T[t][key]:
                        out.append(V("(b) resource lists a task that does not list it", "C03/b", (k, ph, kind, r, t)))
            for i, t in enumerate(T):
                if len(set(t[key])) != len(t[key]):
                    out.append(V("(a) duplicate in a task's allocation list", "C03/a", (k, ph, i)))
                for r in t[key]:
                    if i not in R[r]["as"]:
                        out.append(V("(b) task lists a resource that does not list it", "C03/b", (k, ph, kind, r, i)))
                if t[key] and t["st"] not in (READY, WORKING):
                    out.append(V("(c) a task that is not READY/WORKING holds resources", "C03/c", (k, ph, i, t["st"])))
            if ph in ("allocated", "recorded"):
                for r, rs in enumerate(R):
                    ab = absent(S, op, kind, r, k)
                    if (rs["st"] == R_ABS) != ab:
                        out.append(V("(d) ABSENCE state does not match the absence lists", "C03/d", (k, ph, kind, r, rs["st"])))
                    if (rs["st"] == R_WORK) != (bool(rs["as"]) and not ab):
                        out.append(V("(d) WORKING state does not match 'holds a task and is not absent'", "C03/d",
                                     (k, ph, kind, r, rs["st"], rs["as"])))
        if ph == "updated" and prev_rec is not None:
            for i, t in enumerate(T):
                if t["st"] == FIN and prev_rec["T"][i]["st"] != FIN:
                    if t["aw"] or t["af"] or any(i in w["as"] for w in sn["W"]) or any(i in f["as"] for f in sn["F"]):
                        out.append(V("(e) a task that became FINISHED still holds resources", "C03/e", (k, i)))
        if ph == "recorded":
            prev_rec = sn
            if rec.get("dump") and op["op"] == "simulate":
                d = rec["dump"]
                for i, t in enumerate(T):
                    if k < len(d["T"][i]["l_aw"]) and (d["T"][i]["l_aw"][k] != t["aw"] or d["T"][i]["l_af"][k] != t["af"]):
                        out.append(V("(f) allocation id log differs from the live lists", "C03/f", (k, i)))
                for kind in ("W", "F"):
                    for r, rs in enumerate(sn[kind]):
                        if k < len(d[kind][r]["l_as"]) and d[kind][r]["l_as"][k] != rs["as"]:
                            out.append(V("(f) assignment id log differs from the live lists", "C03/f", (k, kind, r)))
    return out


# ============================================================== C04
def c04(S, rec):
    out = []
    op = rec["op"]
    snaps = rec["snaps"]
    for j, (k, ph, working, sn) in enumerate(snaps):
        if ph != "allocated":
            continue
        up = snaps[j - 1][3] if j > 0 and snaps[j - 1][1] == "updated" else None
        for i, t in enumerate(sn["T"]):
            if up is not None:
                old_w, old_f = up["T"][i]["aw"], up["T"][i]["af"]
                new_w = [w for w in t["aw"] if w not in old_w]
                new_f = [f for f in t["af"] if f not in old_f]
                if (new_w or new_f) and not working:
                    out.append(V("allocation at a project-wide absence step", "C04/absence-step", (k, i)))
                for w in new_w:
                    if not S.has_wskill(w, i):
                        out.append(V("worker without positive skill allocated", "C04/skill", (k, i, w)))
                    if not S.w_targets(w, i):
                        out.append(V("worker of a team not assigned to the task allocated", "C04/team", (k, i, w)))
                    if k in S.W[w]["abs"]:
                        out.append(V("absent worker allocated", "C04/absent", (k, i, w)))
                    if S.fixw[i] is not None and w not in S.fixw[i]:
                        out.append(V("worker outside the fixed ID list allocated", "C04/fixw", (k, i, w)))
                if S.need_fac[i]:
                    if len(new_w) != len(new_f):
                        out.append(V("workers and facilities not allocated in pairs", "C04/pairs", (k, i, new_w, new_f)))
                    c = S.comp[i]
                    pw = sn["C"][c]["pw"] if c is not None else None
                    for w, f in zip(new_w, new_f):
                        if not S.has_fskill(f, i):
                            out.append(V("facility without positive skill allocated", "C04/fskill", (k, i, f)))
                        if not S.f_targets(f, i):
                            out.append(V("facility of a workplace not assigned to the task allocated", "C04/wp", (k, i, f)))
                        if S.fixf[i] is not None and f not in S.fixf[i]:
                            out.append(V("facility outside the fixed ID list allocated", "C04/fixf", (k, i, f)))
                        if not S.w_operates(w, f):
                            out.append(V("paired worker cannot operate the facility", "C04/operate", (k, i, w, f)))
                        if k in S.F[f]["abs"]:
                            out.append(V("absent facility allocated", "C04/fabsent", (k, i, f)))
                elif new_f:
                    out.append(V("facility allocated to a task that needs none", "C04/nofac", (k, i, new_f)))
            if len(t["aw"]) > 1 and any(S.W[w]["solo"] for w in t["aw"]):
                out.append(V("solo-working worker combined with another worker", "C04/solo", (k, i, t["aw"])))
            if len(t["af"]) > 1 and any(S.F[f]["solo"] for f in t["af"]):
                out.append(V("solo-working facility combined with another facility", "C04/solo-f", (k, i, t["af"])))
    return out


# ============================================================== C05
def eligible_worker(S, w, i):
    return S.has_wskill(w, i) and S.w_targets(w, i) and (S.fixw[i] is None or w in S.fixw[i])


def c05_basic(S, rec, t0):
    out = []
    op = rec["op"]
    mt = op.get("max_time", 200)
    if rec["exc"] is not None and rec["exc"] != "Crash":
        out.append(V("simulate() raised instead of returning", "C05/raises/" + rec["exc"].split(":")[0], rec["exc"]))
        return out
    d = rec["dump"]
    nrec = sum(1 for s in rec["snaps"] if s[1] == "recorded")
    if nrec > max(0, mt - t0):
        out.append(V("(a) more steps simulated than max_time allows", "C05/a", (nrec, mt, t0)))
    for (k, ph, w, sn) in rec["snaps"]:
        if ph != "updated" and k >= mt:
            out.append(V("(a) a step at or beyond max_time was simulated", "C05/a", (k, ph)))
    allfin = all(t["st"] == FIN for t in d["T"])
    if (d["status"] == 1) != allfin:
        out.append(V("(b) status SUCCESS does not coincide with 'all tasks FINISHED'", "C05/b", (d["status"], allfin)))
    if d["status"] == -1 and d["time"] < mt:
        out.append(V("(b) FINISHED_FAILURE reported before max_time", "C05/b2", (d["time"], mt)))
    if d["status"] == 0:
        out.append(V("(b) simulate returned without a final status", "C05/b3", None))
    # (d) a task nobody can ever serve
    if fresh(op):
        for i in range(S.nt):
            if not S.auto[i] and not S.exempt[i]:
                if not any(eligible_worker(S, w, i) for w in range(len(S.W))):
                    if d["status"] == 1:
                        out.append(V("(d) success reported although a task has no eligible worker", "C05/d", (i,)))
    return out


def feasible(S, op):
    """the feasibility condition of DESIGN.md C05 for worker-only projects;
    returns (ok, bound)"""
    if S.nt == 0:
        return False, 0
    if any(S.need_fac) or any(S.comp[i] is not None and S.auto[i] for i in range(S.nt)):
        return False, 0
    delta = None
    shared = {}
    for i in range(S.nt):
        if S.exempt[i]:
            continue
        if S.auto[i]:
            if S.rate[i] <= 0:
                return False, 0
            delta = S.rate[i] if delta is None else min(delta, S.rate[i])
            continue
        el = [w for w in range(len(S.W)) if eligible_worker(S, w, i)]
        if not el:
            return False, 0
        # a solo flag or fixed list must not exclude all of them -> require a non-solo eligible worker
        if not any(not S.W[w]["solo"] for w in el):
            return False, 0
        for w in el:
            shared.setdefault(w, set()).add(i)
            s = S.wskill(w, i)
            delta = s if delta is None else min(delta, s)
    # (H3) a worker eligible for a task with an incoming FF/SF link is eligible for nothing else
    for i in range(S.nt):
        if any(k in (FF, SF) for (_, k) in S.inputs[i]) and not S.auto[i] and not S.exempt[i]:
            for w in range(len(S.W)):
                if eligible_worker(S, w, i) and len(shared.get(w, ())) > 1:
                    return False, 0
    # solo workers complicate sharing: exclude
    if any(w["solo"] for w in S.W):
        return False, 0
    if delta is None:
        delta = Fraction(1)
    nabs = len(op.get("abs", [])) + sum(len(w["abs"]) for w in S.W)
    import math
    bound = nabs + sum(math.ceil(S.work[i] * (1 - S.progress[i]) / delta) + 2 for i in range(S.nt))
    return True, bound


def c05_liveness(S, rec):
    op = rec["op"]
    if not fresh(op) or rec["exc"] is not None:
        return []
    ok, bound = feasible(S, op)
    if ok and op.get("max_time", 200) > bound and rec["dump"]["status"] != 1:
        return [V("(c) a feasible project did not complete within the sequential work bound", "C05/c",
                  {"bound": bound, "status": rec["dump"]["status"], "time": rec["dump"]["time"]})]
    return []


# ============================================================== C06
def can_add_worker(S, sn, i, w):
    t = sn["T"][i]
    if t["st"] in (NONE, FIN):
        return False
    if any(S.W[x]["solo"] for x in t["aw"]) or any(S.F[x]["solo"] for x in t["af"]):
        return False
    if S.W[w]["solo"] and t["aw"]:
        return False
    if S.fixw[i] is not None and w not in S.fixw[i]:
        return False
    return S.has_wskill(w, i)


def can_add_pair(S, sn, i, w, f):
    t = sn["T"][i]
    if not can_add_worker(S, sn, i, w):
        return False
    if S.F[f]["solo"] and t["af"]:
        return False
    if S.fixf[i] is not None and f not in S.fixf[i]:
        return False
    if sn["F"][f]["as"]:
        return False
    return S.has_fskill(f, i) and S.w_operates(w, f)


def c06(S, rec):
    out = []
    op = rec["op"]
    snaps = rec["snaps"]
    upd_pw = None
    for j, (k, ph, working, sn) in enumerate(snaps):
        wk = is_working_step(op, k)
        if ph == "updated":
            upd_pw = [c["pw"] for c in sn["C"]]
        if ph == "updated" and wk:
            for i in range(S.nt):
                if S.exempt[i] and fresh(op):
                    continue
                t = sn["T"][i]
                if t["st"] == NONE and ready_gate(S, sn, i):
                    out.append(V("(a) dependencies satisfied but the task is still NONE", "C06/a",
                                 (k, i, [(p, kd, sn["T"][p]["st"]) for (p, kd) in S.inputs[i]])))
                if t["st"] == WORKING and t["rem"] < TOL and finish_gate(S, sn, i):
                    out.append(V("(d) work done and finish dependencies hold but the task is not FINISHED", "C06/d", (k, i)))
        if ph == "allocated" and wk:
            for i in range(S.nt):
                t = sn["T"][i]
                if S.auto[i] and S.comp[i] is None and t["st"] == READY:
                    out.append(V("(b) automatic task without component waits in READY", "C06/b", (k, i)))
                if t["st"] not in (READY, WORKING) or S.auto[i]:
                    continue
                if not S.need_fac[i]:
                    for w, ws in enumerate(sn["W"]):
                        if ws["st"] == R_FREE and eligible_worker(S, w, i) and can_add_worker(S, sn, i, w):
                            out.append(V("(c) a FREE eligible worker was left idle although the task could accept it",
                                         "C06/c", (k, i, w)))
                else:
                    c = S.comp[i]
                    if c is None or len(S.comp_tasks[c]) != 1:
                        continue
                    pw = sn["C"][c]["pw"]
                    if pw is None:
                        continue
                    # the clause is relative to the workplace at which the component sat when the
                    # task was served (Props/C06.v); a component that changed place in this very step
                    # may have been moved after the task's turn by a task of its parent assembly
                    if upd_pw is not None and upd_pw[c] != pw:
                        family = {c} | S.ancestors(c) | S.descendants(c)
                        for a in list(S.ancestors(c)):
                            family |= S.descendants(a)
                        if any(t2 != i for x in family for t2 in S.comp_tasks[x]):
                            continue
                    for f in S.wp_members[pw]:
                        if sn["F"][f]["st"] != R_FREE or not S.f_targets(f, i):
                            continue
                        for w, ws in enumerate(sn["W"]):
                            if ws["st"] == R_FREE and eligible_worker(S, w, i) and can_add_pair(S, sn, i, w, f):
                                out.append(V("(c) a FREE eligible worker-facility pair was left idle", "C06/c-pair", (k, i, w, f)))
    return out


# ============================================================== C07
def c07(S, dump):
    out = []
    n = len(dump["cost"])
    for kind, tab in (("W", S.W), ("F", S.F)):
        for r, e in enumerate(dump[kind]):
            for k in range(min(len(e["l_cost"]), len(e["l_st"]))):
                exp = tab[r]["cost"] if e["l_st"][k] == R_WORK else Fraction(0)
                if e["l_cost"][k] != exp:
                    out.append(V("resource charged although not WORKING / not charged although WORKING", "C07/resource", (kind, r, k)))
    for k in range(n):
        tsum = Fraction(0)
        for ti, mem in enumerate(S.team_members):
            s = sum((dump["W"][w]["l_cost"][k] for w in mem if k < len(dump["W"][w]["l_cost"])), Fraction(0))
            if k >= len(dump["TEAM"][ti]["l_cost"]) or dump["TEAM"][ti]["l_cost"][k] != s:
                out.append(V("team cost is not the sum over its workers", "C07/team", (ti, k)))
            tsum += s
        for pi, mem in enumerate(S.wp_members):
            s = sum((dump["F"][f]["l_cost"][k] for f in mem if k < len(dump["F"][f]["l_cost"])), Fraction(0))
            if k >= len(dump["WP"][pi]["l_cost"]) or dump["WP"][pi]["l_cost"][k] != s:
                out.append(V("workplace cost is not the sum over its facilities", "C07/wp", (pi, k)))
            tsum += s
        if k >= len(dump["ORG"]["l_cost"]) or dump["ORG"]["l_cost"][k] != tsum:
            out.append(V("organization cost is not the sum over teams and workplaces", "C07/org", (k,)))
        if dump["cost"][k] != tsum:
            out.append(V("project cost differs from the organization's", "C07/project", (k,)))
    total = sum(dump["cost"], Fraction(0))
    exp = sum((S.W[r]["cost"] * sum(1 for s in e["l_st"] if s == R_WORK) for r, e in enumerate(dump["W"])), Fraction(0)) + \
        sum((S.F[r]["cost"] * sum(1 for s in e["l_st"] if s == R_WORK) for r, e in enumerate(dump["F"])), Fraction(0))
    if total != exp:
        out.append(V("total cost differs from sum of rate x WORKING steps", "C07/total", (str(total), str(exp))))
    return out


def c07_absence(S, rec):
    out = []
    d = rec["dump"]
    for k in rec["op"].get("abs", []):
        if k < len(d["cost"]) and d["cost"][k] != 0:
            out.append(V("cost charged at a project-wide absence step", "C07/absence", (k,)))
    return out


# ============================================================== C08
def log_lengths(dump):
    L = {"project.cost": len(dump["cost"]), "org.cost": len(dump["ORG"]["l_cost"])}
    for i, t in enumerate(dump["T"]):
        for f in ("l_st", "l_rem", "l_aw", "l_af"):
            L["T%d.%s" % (i, f)] = len(t[f])
    for kind in ("W", "F"):
        for i, t in enumerate(dump[kind]):
            for f in ("l_st", "l_cost", "l_as"):
                L["%s%d.%s" % (kind, i, f)] = len(t[f])
    for i, t in enumerate(dump["C"]):
        for f in ("l_st", "l_pw"):
            L["C%d.%s" % (i, f)] = len(t[f])
    for i, t in enumerate(dump["TEAM"]):
        L["TEAM%d.l_cost" % i] = len(t["l_cost"])
    for i, t in enumerate(dump["WP"]):
        for f in ("l_cost", "l_pc"):
            L["WP%d.%s" % (i, f)] = len(t[f])
    return L


def c08_lengths(dump, sig="C08/length"):
    L = log_lengths(dump)
    bad = {k: v for k, v in L.items() if v != dump["time"]}
    if bad:
        return [V("(a) a log does not have exactly one entry per simulated step (project.time=%d)" % dump["time"], sig,
                  dict(list(bad.items())[:6]))]
    return []


def display_task(st, working):
    return READY if (not working and st == WORKING) else st


def c08_entries(S, rec, reversed_log=False):
    """entry k of each log equals the live attribute at `recorded` of step k"""
    out = []
    d = rec["dump"]
    n = d["time"]
    for (k, ph, working, sn) in rec["snaps"]:
        if ph != "recorded":
            continue
        idx = (n - 1 - k) if reversed_log else k
        if not (0 <= idx < n):
            continue
        try:
            for i, t in enumerate(sn["T"]):
                e = d["T"][i]
                if e["l_st"][idx] != display_task(t["st"], working) or e["l_rem"][idx] != t["rem"] \
                        or e["l_aw"][idx] != t["aw"] or e["l_af"][idx] != t["af"]:
                    out.append(V("(b) task log entry differs from the live value at that step", "C08/entry-task", (k, i)))
            for kind in ("W", "F"):
                for r, rs in enumerate(sn[kind]):
                    e = d[kind][r]
                    exp = rs["st"] if working else R_ABS
                    if e["l_st"][idx] != exp or e["l_as"][idx] != rs["as"]:
                        out.append(V("(b) resource log entry differs from the live value", "C08/entry-res", (k, kind, r)))
            for c, cs in enumerate(sn["C"]):
                e = d["C"][c]
                if e["l_st"][idx] != display_task(cs["st"], working) or e["l_pw"][idx] != cs["pw"]:
                    out.append(V("(b) component log entry differs from the live value", "C08/entry-comp", (k, c)))
            for p, ps in enumerate(sn["WP"]):
                if d["WP"][p]["l_pc"][idx] != ps["pc"]:
                    out.append(V("(b) workplace contents log differs from the live value", "C08/entry-wp", (k, p)))
        except IndexError:
            out.append(V("(a) a log is shorter than the number of steps", "C08/length", (k,)))
    return out


# ============================================================== C10
def c10_steps(S, rec):
    out = []
    op = rec["op"]
    snaps = rec["snaps"]
    by = {}
    for (k, ph, working, sn) in snaps:
        by.setdefault(k, {})[ph] = (working, sn)
    d = rec["dump"]
    for k, phs in by.items():
        if not all(p in phs for p in ("updated", "allocated", "performed", "recorded")):
            continue
        up, al, pe, rc = phs["updated"][1], phs["allocated"][1], phs["performed"][1], phs["recorded"][1]
        if not is_working_step(op, k):
            for i in range(S.nt):
                if not S.auto[i] and rc["T"][i]["rem"] != up["T"][i]["rem"]:
                    out.append(V("(a) non-automatic task progressed at a project-wide absence step", "C10/a", (k, i)))
                if S.auto[i]:
                    exp = al["T"][i]["rem"] - (S.rate[i] if (op.get("auto_abs") and al["T"][i]["st"] == WORKING) else 0)
                    if rc["T"][i]["rem"] != exp:
                        out.append(V("(d) automatic task progress at an absence step does not follow the flag", "C10/d", (k, i)))
                if up["T"][i]["aw"] != al["T"][i]["aw"] or up["T"][i]["af"] != al["T"][i]["af"]:
                    out.append(V("(b) allocation changed at a project-wide absence step", "C10/b", (k, i)))
            for kind in ("W", "F"):
                for r in range(len(up[kind])):
                    if up[kind][r]["as"] != al[kind][r]["as"]:
                        out.append(V("(b) assignment changed at a project-wide absence step", "C10/b", (k, kind, r)))
                    e = d[kind][r]
                    if op["op"] == "simulate" and k < len(e["l_st"]):
                        if e["l_st"][k] != R_ABS:
                            out.append(V("(c) resource not logged ABSENCE at a project-wide absence step", "C10/c", (k, kind, r)))
                        if e["l_cost"][k] != 0:
                            out.append(V("(c) resource charged at a project-wide absence step", "C10/c-cost", (k, kind, r)))
            for c in range(len(up["C"])):
                if up["C"][c]["pw"] != al["C"][c]["pw"]:
                    out.append(V("(b) placement changed at a project-wide absence step", "C10/b-place", (k, c)))
            if op["op"] == "simulate" and k < len(d["cost"]):
                lv = [d["cost"][k], d["ORG"]["l_cost"][k]] + [t["l_cost"][k] for t in d["TEAM"]] + [w["l_cost"][k] for w in d["WP"]]
                if any(x != 0 for x in lv):
                    out.append(V("(c) cost charged at a project-wide absence step", "C10/c-cost", (k,)))
        else:
            for kind, tab in (("W", S.W), ("F", S.F)):
                for r in range(len(al[kind])):
                    if k in tab[r]["abs"]:
                        e = d[kind][r]
                        if op["op"] == "simulate" and k < len(e["l_cost"]) and e["l_cost"][k] != 0:
                            out.append(V("(e) individually absent resource charged", "C10/e-cost", (k, kind, r)))
                        if al[kind][r]["st"] != R_ABS:
                            out.append(V("(e) individually absent resource not ABSENCE", "C10/e-state", (k, kind, r)))
    return out


# ============================================================== C12
def cpm(S, rem, t):
    """independent critical-path computation for an FS network"""
    n = S.nt
    # successors derived from the input lists: the reference follows the declared predecessors
    # whether or not they are mirrored in an output list (finding C12/onesided)
    succ = [[] for _ in range(n)]
    for i in range(n):
        for (p, k) in S.inputs[i]:
            succ[p].append((i, k))
    order, indeg = [], [len(S.inputs[i]) for i in range(n)]
    todo = [i for i in range(n) if indeg[i] == 0]
    while todo:
        x = todo.pop()
        order.append(x)
        for (s, _) in succ[x]:
            indeg[s] -= 1
            if indeg[s] == 0:
                todo.append(s)
    assert len(order) == n
    est, eft = [None] * n, [None] * n
    for i in order:
        est[i] = max([Fraction(t)] + [eft[p] for (p, _) in S.inputs[i]])
        eft[i] = est[i] + rem[i]
    tails = [i for i in range(n) if not succ[i]]
    cpl = max(eft[i] for i in tails)
    lft, lst = [None] * n, [None] * n
    for i in reversed(order):
        lft[i] = min([lst[s] for (s, _) in succ[i]]) if succ[i] else cpl
        lst[i] = lft[i] - rem[i]
    return est, eft, lst, lft, cpl


def c12_snapshot(S, sn, t, where):
    out = []
    if S.nt == 0 or any(k != FS for (_, _, k) in S.case.get("edges", [])):
        return out
    rem = [x["rem"] for x in sn["T"]]
    if any(r < 0 for r in rem):
        return out
    est, eft, lst, lft, cpl = cpm(S, rem, t)
    for i, x in enumerate(sn["T"]):
        for nm, exp in (("est", est[i]), ("eft", eft[i]), ("lst", lst[i]), ("lft", lft[i])):
            if x[nm] != exp:
                out.append(V("%s differs from the critical-path computation" % nm, "C12/" + nm, (where, i, str(x[nm]), str(exp))))
        if x["lst"] - x["est"] < 0:
            out.append(V("negative slack", "C12/slack", (where, i)))
    if sn["cpl"] != cpl:
        out.append(V("critical path length differs", "C12/cpl", (where, str(sn["cpl"]), str(cpl))))
    return out


# ============================================================== C13
def c13(S, rec, events=None):
    out = []
    op = rec["op"]
    snaps = rec["snaps"]
    for j, (k, ph, working, sn) in enumerate(snaps):
        # (a) two-way consistency, at most one workplace
        for p, ps in enumerate(sn["WP"]):
            if len(set(ps["pc"])) != len(ps["pc"]):
                out.append(V("(a) component listed twice at a workplace", "C13/a-dup", (k, ph, p)))
            for c in ps["pc"]:
                if sn["C"][c]["pw"] != p:
                    out.append(V("(a) workplace lists a component that is not placed there", "C13/a", (k, ph, p, c)))
        for c, cs in enumerate(sn["C"]):
            if cs["pw"] is not None and c not in sn["WP"][cs["pw"]]["pc"]:
                out.append(V("(a) component placed at a workplace that does not list it", "C13/a2", (k, ph, c)))
        # (b) capacity, nested assembly counted once by its top-most placed component
        for p, ps in enumerate(sn["WP"]):
            placed = set(ps["pc"])
            used = sum((S.size[c] for c in placed if not (S.ancestors(c) & placed)), Fraction(0))
            if used > S.cap[p] + TOL_SPACE:
                out.append(V("(b) space used exceeds the workplace capacity", "C13/b", (k, ph, p, str(used), str(S.cap[p]))))
        if ph == "updated":
            # (e) finished top-level components are placed nowhere
            for c in range(S.nc):
                tree = [c] + sorted(S.descendants(c))
                if not S.parents[c] and not S.ghost[c] and all(sn["T"][t]["st"] == FIN for x in tree for t in S.comp_tasks[x]) \
                        and any(sn["C"][x]["pw"] is not None for x in tree):
                    out.append(V("(e) a component whose tasks are all FINISHED is still placed", "C13/e", (k, c)))
        if ph in ("allocated", "recorded"):
            for i in range(S.nt):
                if S.need_fac[i] and S.comp[i] is not None:
                    pw = sn["C"][S.comp[i]]["pw"]
                    for f in sn["T"][i]["af"]:
                        if S.F[f]["wp"] != pw:
                            out.append(V("(f) task works with a facility of a workplace where its component is not placed",
                                         "C13/f", (k, ph, i, f, pw)))
        if ph == "allocated" and j > 0 and snaps[j - 1][1] == "updated":
            up = snaps[j - 1][3]
            for c in range(S.nc):
                a, b = up["C"][c]["pw"], sn["C"][c]["pw"]
                if a != b:
                    if b is not None and S.wp_inputs[b] and a is not None and a not in S.wp_inputs[b]:
                        out.append(V("(c) component entered a workplace from a workplace that is not one of its inputs", "C13/c", (k, c, a, b)))
                    tops = [c] + list(S.ancestors(c))
                    if any(up["T"][t]["st"] == WORKING for t in S.comp_tasks[c]):
                        out.append(V("(d) component moved while one of its tasks is WORKING", "C13/d-working", (k, c)))
        if ph in ("performed", "recorded") and j > 0:
            pv = snaps[j - 1][3]
            for c in range(S.nc):
                if pv["C"][c]["pw"] != sn["C"][c]["pw"]:
                    out.append(V("(d) placement changed outside the update/allocate phases", "C13/d-phase", (k, ph, c)))
    per = {}
    for (k, c, wp) in rec.get("events", []):
        per.setdefault((k, c), []).append(wp)
    for (k, c), lst in per.items():
        if len(lst) > 1:
            out.append(V("(d) component moved more than once in one step", "C13/d-twice", (k, c, lst)))
    return out


# ============================================================== C14
C_NONE, C_READY, C_WORKING, C_FIN = 0, 1, 2, -1


def c14(S, rec):
    out = []
    prev = None
    for (k, ph, working, sn) in rec["snaps"]:
        for c in range(S.nc):
            sts = [sn["T"][t]["st"] for t in S.comp_tasks[c]]
            cs = sn["C"][c]["st"]
            allfin = all(s == FIN for s in sts)
            if (cs == C_FIN) != allfin:
                out.append(V("(a) component FINISHED does not coincide with all of its tasks FINISHED", "C14/a", (k, ph, c, cs, sts)))
            if any(s == WORKING for s in sts) and cs != C_WORKING:
                out.append(V("(b) a task is WORKING but the component is not", "C14/b", (k, ph, c, cs, sts)))
            if any(s in (READY, WORKING) for s in sts) and cs == C_NONE:
                out.append(V("(c) component NONE while one of its tasks is READY/WORKING", "C14/c", (k, ph, c)))
            if prev is not None:
                pc = prev["C"][c]["st"]
                if pc != C_NONE and cs == C_NONE:
                    out.append(V("(d) component returned to NONE", "C14/d-none", (k, ph, c)))
                if pc == C_FIN and cs != C_FIN:
                    out.append(V("(d) component left FINISHED", "C14/d-fin", (k, ph, c)))
        prev = sn
    return out


# ============================================================== dumps
def dump_diff(a, b, ignore=()):
    """first differing paths between two dumps"""
    out = []

    def rec(x, y, path):
        if len(out) > 5:
            return
        if any(path.endswith(i) for i in ignore):
            return
        if type(x) != type(y) and not (isinstance(x, (int, Fraction)) and isinstance(y, (int, Fraction))):
            out.append((path, repr(x)[:80], repr(y)[:80]))
        elif isinstance(x, dict):
            for k in sorted(set(x) | set(y)):
                if k not in x or k not in y:
                    out.append((path + "." + k, "missing", "missing"))
                else:
                    rec(x[k], y[k], path + "." + str(k))
        elif isinstance(x, list):
            if len(x) != len(y):
                out.append((path, "len %d" % len(x), "len %d" % len(y)))
            else:
                for i, (p, q) in enumerate(zip(x, y)):
                    rec(p, q, path + "[%d]" % i)
        elif x != y:
            out.append((path, repr(x)[:80], repr(y)[:80]))
    rec(a, b, "")
    return out

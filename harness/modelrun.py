"""Run the extracted Coq model (driver/simdriver) on a case and compare its
observer snapshots and final dump with the implementation's, field by field,
restricted to a property's cone."""
import os
import subprocess
from fractions import Fraction

from . import common as C

DRIVER = os.path.join(C.VERIF, "driver", "simdriver")
PHASES = ["updated", "allocated", "performed", "recorded"]


def q2(x):
    f = Fraction(x)
    return [f.numerator, f.denominator]


def case_tokens(case, ops, want_snaps=True):
    T = case["tasks"]
    nt = len(T)
    teams = case.get("teams", [])
    wps = case.get("wps", [])
    comps = case.get("comps", [])
    workers = [(ti, w) for ti, tm in enumerate(teams) for w in tm["workers"]]
    facs = [(pi, f) for pi, wp in enumerate(wps) for f in wp.get("facs", [])]
    out = [1 if want_snaps else 0, nt, len(workers), len(facs), len(comps), len(teams), len(wps)]
    ins = [[] for _ in T]
    outs = [[] for _ in T]
    for (p, s, k) in case.get("edges", []):
        ins[s].append((p, k))
        outs[p].append((s, k))
    for (p, s, k) in case.get("edges_in", []):
        ins[s].append((p, k))
    for i, t in enumerate(T):
        out += [t["name"]] + q2(t["work"]) + q2(t.get("progress", "0")) + q2(t.get("rate", "1"))
        out += [int(bool(t.get("auto"))), int(bool(t.get("need_fac"))), -1 if t.get("comp") is None else t["comp"]]
        out += [len(ins[i])] + [x for e in ins[i] for x in e]
        out += [len(outs[i])] + [x for e in outs[i] for x in e]
        out += [len(t.get("teams", []))] + list(t.get("teams", []))
        out += [len(t.get("wps", []))] + list(t.get("wps", []))
        for key in ("fixw", "fixf"):
            v = t.get(key)
            out += [-1] if v is None else [len(v)] + list(v)
        out += [t.get("wrule", -1), t.get("frule", 0), t.get("prule", 0), t.get("due", -1)]

    def skills(d):
        r = [len(d)]
        for k, v in d.items():
            r += [int(k)] + q2(v)
        return r
    for (ti, w) in workers:
        out += [ti] + skills(w.get("skills", {})) + skills(w.get("fskills", {})) + q2(w.get("cost", "0"))
        out += [int(bool(w.get("solo")))] + [len(w.get("abs", []))] + list(w.get("abs", []))
        out += [-1 if w.get("mainwp") is None else w["mainwp"]]
    gi = 0
    for tm in teams:
        n = len(tm["workers"])
        out += [n] + list(range(gi, gi + n))
        gi += n
    for (pi, f) in facs:
        out += [pi, f.get("name", 0)] + skills(f.get("skills", {})) + q2(f.get("cost", "0"))
        out += [int(bool(f.get("solo")))] + [len(f.get("abs", []))] + list(f.get("abs", []))
    gi = 0
    for wp in wps:
        n = len(wp.get("facs", []))
        out += [n] + list(range(gi, gi + n)) + q2(wp.get("cap", "1")) + [len(wp.get("inputs", []))] + list(wp.get("inputs", []))
        gi += n
    for ci, c in enumerate(comps):
        parents = [j for j, d in enumerate(comps) if ci in d.get("children", [])]
        if c.get("ghost_parent"):
            parents = parents + [9999]          # a parent outside the product: only "has a parent" is read
        tasks = [i for i, t in enumerate(T) if t.get("comp") == ci] + list(c.get("extra_tasks", []))
        out += q2(c.get("size", "1")) + [len(c.get("children", []))] + list(c.get("children", []))
        out += [len(parents)] + parents + [len(tasks)] + tasks
    out.append(len(ops))
    crank = case.get("crank")
    if crank is None:
        order = list(range(len(comps)))
    else:
        order = sorted(range(len(comps)), key=lambda i: crank[i])
    for op in ops:
        if op["op"] == "simulate":
            ab = list(op.get("abs", []))
            out += [0, op.get("rule", 0), len(ab)] + ab + [int(bool(op.get("auto_abs"))), int(bool(op.get("init_state", True))),
                                                          int(bool(op.get("init_log", True))), int(op.get("max_time", 200))]
            out += [len(order)] + order
        elif op["op"] == "remove_absence":
            out += [1]
        elif op["op"] == "insert_absence":
            out += [2, len(op["list"])] + list(op["list"])
        elif op["op"] == "reverse_log":
            out += [3]
        elif op["op"] == "initialize":
            out += [5, int(bool(op.get("state", True))), int(bool(op.get("log", True)))]
        elif op["op"] == "backward":
            ab = list(op.get("abs", []))
            out += [4, int(bool(op.get("due", False))), int(bool(op.get("revlog", True))), op.get("rule", 0), len(ab)] + ab + [
                int(bool(op.get("auto_abs"))), int(bool(op.get("init_state", True))), int(bool(op.get("init_log", True))), int(op.get("max_time", 200))]
            out += [len(order)] + order
        else:
            raise AssertionError(op)
    return out


class Cur:
    def __init__(self, toks):
        self.t = toks
        self.i = 0

    def n(self):
        v = int(self.t[self.i])
        self.i += 1
        return v

    def q(self):
        a = self.n()
        b = self.n()
        return Fraction(a, b)

    def lst(self, f):
        k = self.n()
        return [f() for _ in range(k)]

    def opt(self):
        v = self.n()
        return None if v < 0 else v


def parse_live(lines, k):
    """lines[k:] start with a G line; returns (snap dict, next index)"""
    sn = {"T": [], "W": [], "F": [], "C": [], "WP": []}
    while k < len(lines):
        tok = lines[k]
        tag = tok[0]
        c = Cur(tok[1:])
        if tag == "G":
            sn["time"], sn["status"], sn["cpl"] = c.n(), c.n(), c.q()
        elif tag == "T":
            c.n()
            sn["T"].append({"st": c.n(), "rem": c.q(), "aw": c.lst(c.n), "af": c.lst(c.n),
                            "est": c.q(), "eft": c.q(), "lst": c.q(), "lft": c.q()})
        elif tag in ("W", "F"):
            c.n()
            sn[tag].append({"st": c.n(), "as": c.lst(c.n)})
        elif tag == "C":
            c.n()
            sn["C"].append({"st": c.n(), "pw": c.opt()})
        elif tag == "P":
            c.n()
            sn["WP"].append({"pc": c.lst(c.n)})
        else:
            break
        k += 1
    return sn, k


def parse_logs(lines, k, d):
    d["TEAM"] = []
    while k < len(lines):
        tok = lines[k]
        tag = tok[0]
        c = Cur(tok[1:])
        if tag == "LC":
            d["cost"] = c.lst(c.q)
        elif tag == "LO":
            d["ORG"] = {"l_cost": c.lst(c.q)}
        elif tag == "LT":
            e = d["T"][c.n()]
            e["l_st"], e["l_rem"] = c.lst(c.n), c.lst(c.q)
            e["l_aw"] = c.lst(lambda: c.lst(c.n))
            e["l_af"] = c.lst(lambda: c.lst(c.n))
        elif tag in ("LW", "LF"):
            e = d[tag[1]][c.n()]
            e["l_st"], e["l_cost"] = c.lst(c.n), c.lst(c.q)
            e["l_as"] = c.lst(lambda: c.lst(c.n))
        elif tag == "LK":
            e = d["C"][c.n()]
            e["l_st"], e["l_pw"] = c.lst(c.n), c.lst(c.opt)
        elif tag == "LP":
            e = d["WP"][c.n()]
            e["l_cost"] = c.lst(c.q)
            e["l_pc"] = c.lst(lambda: c.lst(c.n))
        elif tag == "LG":
            c.n()
            d["TEAM"].append({"l_cost": c.lst(c.q)})
        elif tag == "LA":
            d["abs"] = c.lst(c.n)
        else:
            break
        k += 1
    return k


def parse_output(text):
    """-> list (per case) of list (per op) of {"snaps": [(step, phase, snap)], "dump": dump}"""
    lines = [ln.split() for ln in text.splitlines() if ln.strip()]
    cases = []
    k = 0
    while k < len(lines):
        assert lines[k][0] == "CASE", lines[k]
        k += 1
        ops = {}
        while lines[k][0] != "END":
            if lines[k][0] == "SNAP":
                oi, step, ph = int(lines[k][1]), int(lines[k][2]), int(lines[k][3])
                sn, k = parse_live(lines, k + 1)
                ops.setdefault(oi, {"snaps": [], "dump": None})["snaps"].append((step, PHASES[ph], sn))
            elif lines[k][0] == "DUMP":
                oi = int(lines[k][1])
                d, k = parse_live(lines, k + 1)
                k = parse_logs(lines, k, d)
                ops.setdefault(oi, {"snaps": [], "dump": None})["dump"] = d
            else:
                raise ValueError(lines[k])
        k += 1
        cases.append([ops[i] for i in sorted(ops)])
    return cases


def run_model(case_list, want_snaps=True):
    """case_list: list of (case, ops).  Returns parsed output per case."""
    toks = [len(case_list)]
    for (case, ops) in case_list:
        toks += case_tokens(case, ops, want_snaps)
    p = subprocess.run([DRIVER], input=" ".join(map(str, toks)), stdout=subprocess.PIPE, stderr=subprocess.PIPE,
                       text=True, timeout=600)
    if p.returncode != 0:
        raise RuntimeError("model driver failed: " + p.stderr[-2000:])
    return parse_output(p.stdout)


# cones: field name -> phases at which it is compared (None = all)
ALL_FIELDS = {"T": ["st", "rem", "aw", "af", "est", "eft", "lst", "lft"], "W": ["st", "as"], "F": ["st", "as"],
              "C": ["st", "pw"], "WP": ["pc"]}
LOG_FIELDS = {"T": ["l_st", "l_rem", "l_aw", "l_af"], "W": ["l_st", "l_cost", "l_as"], "F": ["l_st", "l_cost", "l_as"],
              "C": ["l_st", "l_pw"], "WP": ["l_cost", "l_pc"], "TEAM": ["l_cost"]}
FULL = {"live": ALL_FIELDS, "logs": LOG_FIELDS, "globals": ["time", "status", "cpl"], "dump_globals": ["time", "status", "cpl", "cost"]}


def compare_snap(a, b, fields, where, out, limit=8):
    """a = model, b = implementation"""
    for kind, names in fields.items():
        la, lb = a.get(kind, []), b.get(kind, [])
        if isinstance(la, dict):
            la = [la]
        if isinstance(lb, dict):
            lb = [lb]
        if len(la) != len(lb):
            out.append("%s %s: %d objects in the model, %d in the implementation" % (where, kind, len(la), len(lb)))
            continue
        for i, (x, y) in enumerate(zip(la, lb)):
            for nm in names:
                if x.get(nm) != y.get(nm):
                    out.append("%s %s%d.%s model=%s impl=%s" % (where, kind, i, nm, x.get(nm), y.get(nm)))
                    if len(out) >= limit:
                        return


MODEL_OPS = ("simulate", "remove_absence", "insert_absence", "reverse_log", "backward", "initialize")


def applicable(case):
    """cases the model covers: sequences of simulate / remove_absence / insert_absence operations"""
    # the model fixes unit_time = 1 (DESIGN S.4)
    return all((op["op"] in MODEL_OPS or op["op"] == "report") and op.get("unit_time", 1) == 1 for op in case["ops"])


def canon_none(d):
    """the model writes an inserted 'no allocation' entry as [] where the code writes None"""
    for kind, names in (("T", ("l_aw", "l_af")), ("W", ("l_as",)), ("F", ("l_as",))):
        for e in d.get(kind, []):
            for nm in names:
                if nm in e:
                    e[nm] = [[] if x is None else x for x in e[nm]]
    for e in d.get("WP", []):
        if "l_pc" in e:
            e["l_pc"] = [[] if x is None else x for x in e["l_pc"]]
    return d


def compare(case, trace, cone=None, model=None):
    """list of disagreements between the model and the implementation trace"""
    cone = cone or FULL
    if not applicable(case):
        return []
    # the model covers runs that return; an implementation exception is the oracles' business
    n_ok = 0
    for rec in trace:
        if rec["exc"] is not None:
            break
        n_ok += 1
    if n_ok == 0:
        return []
    ops = case["ops"][:n_ok]
    # "report" operations (Gantt data, state queries) are read-only: the model does not have them, the
    # state after one is compared with the model's state after the operation before it
    real = [o for o in ops if o["op"] != "report"]
    if model is None:
        model = run_model([(case, real)])[0] if real else []
    out = []
    aligned = []
    j = 0
    for rec in trace[:n_ok]:
        if rec["op"]["op"] == "report":
            if j > 0:
                aligned.append((dict(rec, snaps=[]), dict(model[j - 1], snaps=[])))
        else:
            aligned.append((rec, model[j]))
            j += 1
    for oi, (rec, m) in enumerate(aligned):
        ms, ps = m["snaps"], rec["snaps"]
        if rec["snaps"] and rec["op"]["op"] != "backward":      # the inner run of a backward op is compared through its result only
            if [(k, ph) for (k, ph, _) in ms] != [(k, ph) for (k, ph, w, _) in ps]:
                out.append("op%d: snapshot sequence differs: model %d snapshots (last %s), implementation %d (last %s)" % (
                    oi, len(ms), ms[-1][:2] if ms else None, len(ps), ps[-1][:2] if ps else None))
                return out
            for (k, ph, msn), (_, _, w, psn) in zip(ms, ps):
                where = "op%d step%d %s" % (oi, k, ph)
                for g in cone.get("globals", []):
                    if msn.get(g) != psn.get(g):
                        out.append("%s %s model=%s impl=%s" % (where, g, msn.get(g), psn.get(g)))
                compare_snap(msn, psn, cone.get("live", {}), where, out)
                if len(out) >= 8:
                    return out
        import copy as _copy
        d, md = canon_none(_copy.deepcopy(rec["dump"])), m["dump"]
        where = "op%d dump" % oi
        if "abs" in md and cone is FULL and md.get("abs") != d.get("abs"):
            out.append("%s absence_time_list model=%s impl=%s" % (where, md.get("abs"), d.get("abs")))
        for g in cone.get("dump_globals", []):
            if md.get(g) != d.get(g):
                out.append("%s %s model=%s impl=%s" % (where, g, md.get(g), d.get(g)))
        compare_snap(md, d, cone.get("live", {}), where, out)
        compare_snap(md, d, cone.get("logs", {}), where, out)
        if "ORG" in cone.get("logs", {}) or cone is FULL:
            if md.get("ORG") != d.get("ORG"):
                out.append("%s ORG.l_cost differs" % where)
        if len(out) >= 8:
            return out
    return out


def cone(live=None, logs=None, globals_=("time",), dump_globals=("time", "status")):
    return {"live": live or {}, "logs": logs or {}, "globals": list(globals_), "dump_globals": list(dump_globals)}


CONES = {
    "C01": cone({"T": ["st"]}, {"T": ["l_st"]}),
    "C02": cone({"T": ["st", "rem", "aw", "af"], "W": ["st"], "F": ["st"]}, {"T": ["l_rem", "l_st"]}),
    "C03": cone({"T": ["st", "aw", "af"], "W": ["st", "as"], "F": ["st", "as"]}, {"T": ["l_aw", "l_af"], "W": ["l_as", "l_st"], "F": ["l_as", "l_st"]}),
    "C04": cone({"T": ["st", "aw", "af"], "W": ["st", "as"], "F": ["st", "as"], "C": ["pw"]}, {}),
    "C05": cone({"T": ["st"]}, {}, ("time", "status"), ("time", "status")),
    "C06": cone({"T": ["st", "rem", "aw", "af"], "W": ["st"], "F": ["st"], "C": ["pw"]}, {}),
    "C07": cone({"W": ["st"], "F": ["st"]}, {"W": ["l_st", "l_cost"], "F": ["l_st", "l_cost"], "WP": ["l_cost"], "TEAM": ["l_cost"], "ORG": ["l_cost"]},
                ("time",), ("time", "status", "cost")),
    "C11": cone({"T": ["st", "rem", "aw", "af", "est", "lst"], "W": ["st", "as"]}, {"T": ["l_st"]}, ("time", "cpl")),
    "C12": cone({"T": ["rem", "est", "eft", "lst", "lft"]}, {}, ("time", "cpl")),
    "C13": cone({"T": ["st", "af"], "C": ["pw"], "WP": ["pc"], "F": ["as"]}, {"C": ["l_pw"], "WP": ["l_pc"]}),
    "C14": cone({"T": ["st"], "C": ["st"]}, {"C": ["l_st"], "T": ["l_st"]}),
}
for _p in ("C08", "C09", "C10", "C15", "C16", "C17", "C18", "C20"):
    CONES[_p] = FULL

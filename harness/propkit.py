"""Kit for simulation-run properties: one forward simulate per case, oracle on
the trace, optional model correspondence on the property's cone."""
import json
import random

from . import common as C
from . import gen, oracles as O, simcheck


def cutoff_ops(rng, c):
    """mostly one fresh run; sometimes a run cut off after a few steps followed by a second call with
    any combination of the two initialize flags (state kept / reset, logs kept / cleared)"""
    o = gen.gen_sim_op(rng, c, vary_init=True)
    if rng.random() < 0.85:
        return [o]
    o1 = dict(o, init_state=True, init_log=True, max_time=rng.choice([1, 2, 3, 4, 5]))
    si, li = rng.choice([(False, False), (False, True), (True, False), (True, True)])
    o2 = dict(o, init_state=si, init_log=li, rule=rng.randrange(0, 9))
    if rng.random() < 0.3:
        return [o1, {"op": "json"}, o2]      # the cut-off project written to a file and read back before the second call
    return [o1, o2]


class Kit:
    def __init__(self, pid, oracle, streams=(("structured", 0.60), ("pairs", 0.10), ("crossing", 0.10), ("conveyor", 0.06), ("autoabs", 0.06), ("gates", 0.08)), n_quick=1200, n_thorough=20000,
                 cone=None, rule="", feasible_frac=0.5, make_ops=None, facilities=None, fs_only=False, tweak=None,
                 post=None):
        self.pid, self.oracle, self.streams = pid, oracle, streams
        self.n_quick, self.n_thorough = n_quick, n_thorough
        from . import modelrun as _m
        self.cone = cone if cone is not None else _m.CONES.get(pid)
        self.rule = rule
        self.feasible_frac = feasible_frac
        self.make_ops = make_ops
        self.tweak = tweak
        self.facilities = facilities
        self.fs_only = fs_only
        self.modname = "harness.props." + pid.lower()

    # ---- one case on the implementation (runs in a worker process)
    def eval_case(self, case):
        from . import sim
        pre = case.get("pre")
        if pre:
            # an earlier run on the same objects, then the model edited in place (a skill, a work amount, a
            # cost, an absence list, a new dependency, a new worker): what follows is judged as a run of the
            # EDITED model -- nothing of the earlier run or of the old model may survive
            b, tr_all = sim.run_ops(case, ops=[pre["op"], {"op": "edit", "edit": pre["edit"]}] + case["ops"])
            trace = tr_all[2:]
            case = sim.edited_case(case, pre["edit"])
            case.pop("pre")
            if any(r["exc"] for r in tr_all[:2]):
                trace = sim.run_ops(case)[1]
        else:
            b, trace = sim.run_ops(case)
        S = O.Static(case)
        viol = self.oracle(S, b, trace)
        res = {"violations": viol, "sig": simcheck.behaviour_sig(S, trace), "hist": simcheck.base_hist(S, trace),
               "summary": {"status": (trace[-1].get("dump") or {}).get("status"),
                           "time": (trace[-1].get("dump") or {}).get("time"), "exc": trace[-1]["exc"]}}
        res["nontrivial"] = (trace[0].get("dump") or {}).get("time", 0) >= 2
        if self.cone is not None:
            from . import modelrun
            res["disagreements"] = modelrun.compare(case, trace, self.cone)
        return res

    def gen_cases(self, rng, n):
        cases = []
        names = [s for s, _ in self.streams]
        weights = [w for _, w in self.streams]
        for i in range(n):
            stream = rng.choices(names, weights)[0]
            if stream == "structured" and rng.random() < 0.05:
                # beyond the usual 1-8 tasks: anything that switches behaviour at a size threshold
                stream = "large"
                c = gen.gen_project(rng, n_tasks=rng.choice([10, 12, 14, 16, 20, 24]), facilities=self.facilities, fs_only=self.fs_only)
            else:
                c = gen.gen_project(rng, stream=stream, facilities=self.facilities, fs_only=self.fs_only)
            if stream not in ("pairs", "crossing", "conveyor", "autoabs", "gates") and rng.random() < (0.9 if stream == "large" else self.feasible_frac):
                gen.simplify_feasible(rng, c)
            c["ops"] = self.make_ops(rng, c) if self.make_ops else [gen.gen_sim_op(rng, c, vary_init=True)]
            single = len(c["ops"]) == 1 and c["ops"][0].get("op") == "simulate"
            if stream == "autoabs" and single:
                k = c.pop("_ready_step")
                c["ops"][0]["abs"] = rng.choice([[k], [k], [k, k + 1], [k - 1, k] if k > 0 else [k], []])
                c["ops"][0]["auto_abs"] = rng.random() < 0.75
            c.pop("_ready_step", None)
            if stream == "crossing" and single:
                c["ops"][0]["rule"] = rng.choice([0, 4, 5, 6, 6, 5, 1])
                c["ops"][0]["abs"] = []
            c["stream"] = stream
            if c.get("int_rules"):
                for o in c["ops"]:
                    if o.get("op") == "simulate":
                        o["int_rule"] = True
            if self.tweak:
                self.tweak(rng, c)
            if not self.make_ops or all(o.get("op") == "simulate" for o in c["ops"]):
                gen.usage_variants(rng, c)
            if rng.random() < 0.09 and c["ops"][0].get("op") == "simulate" and "edges_in" not in c:
                from .props.c09 import gen_edit
                c["ops"][0]["init_state"], c["ops"][0]["init_log"] = True, True
                c["pre"] = {"op": dict(gen.gen_sim_op(rng, c), init_state=True, init_log=True), "edit": gen_edit(rng, c)}
                if rng.random() < 0.3:
                    c["pre"]["op"].update(op="backward", due=rng.random() < 0.5, revlog=rng.random() < 0.6)
                if c.get("int_rules"):
                    c["pre"]["op"]["int_rule"] = True
            cases.append(c)
        return cases

    def run(self, ctx):
        rng = random.Random(ctx["seed"])
        n = self.n_thorough if ctx["tier"] == "thorough" else self.n_quick
        cases = simcheck.load_corpus(self.pid) + self.gen_cases(rng, n)
        results = simcheck.run_cases(ctx, self.modname, cases)
        rule = (self.rule or "corpus + random structured projects (1-8 tasks, four dependency kinds, teams/skills/"
                "absences/components/workplaces), one forward simulate each; distinct = behaviour signature "
                "(tasks, dependency kinds, steps, absence, placement, multi-worker, status); non-trivial = at least 2 steps")
        return simcheck.summarise(ctx, cases, results, rule)

    def replay(self, rp):
        case = rp.get("case")
        if case is None:
            print("no concrete input in this replay file (broken obligation / correspondence):")
            print(json.dumps(rp, indent=1)[:3000])
            return 1
        from . import sim
        sim.pin_hashes()
        r = self.eval_case(case)
        for v in r["violations"]:
            print("FAILS:", v["clause"], "|", v["signature"], "|", v.get("detail"))
        for d in r.get("disagreements", [])[:10]:
            print("MODEL/IMPL DIFFER:", d)
        if not r["violations"] and not r.get("disagreements"):
            print("property holds on this case")
            return 0
        return 1

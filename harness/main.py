"""./check <id> [--tier quick|thorough] [--replay file]

Verdict logic (DESIGN.md 2.4):
  1. rebuild the Coq development against the regenerated tables; compile
     Props/<id>.v (obligations, Print Assumptions)
  2. run the property's harness: cases on the real implementation, the
     independent oracle of the property on every implementation result, and
     the correspondence with the Coq model
  3. a concrete failing input on the implementation  -> VIOLATION (or
     KNOWN-FINDING when listed in known_findings.json)
     a broken obligation or correspondence with no failing input
                                     -> VIOLATION ... no-failing-input-found
  4. evidence/<id>.json is always rewritten
"""
import argparse
import importlib
import json
import os
import sys
import time
import traceback

from . import common as C


def main(argv=None):
    ap = argparse.ArgumentParser()
    ap.add_argument("pid")
    ap.add_argument("--tier", default=os.environ.get("VERIF_TIER", "quick"), choices=["quick", "thorough"])
    ap.add_argument("--replay", default=None)
    ap.add_argument("--oracle-only", action="store_true", help="development: skip the Coq obligations")
    ap.add_argument("--seed", type=int, default=int(os.environ.get("VERIF_SEED", "20261001")))
    args = ap.parse_args(argv)
    pid = args.pid
    t0 = time.time()
    C.ensure_dirs()
    mod = importlib.import_module("harness.props." + pid.lower())

    if args.replay:
        with open(args.replay) as f:
            rp = json.load(f)
        return mod.replay(rp)

    ctx = {"pid": pid, "tier": args.tier, "seed": args.seed,
           "work": os.path.join(C.WORK, "%s-%d" % (pid, os.getpid()))}
    os.makedirs(ctx["work"], exist_ok=True)

    # 1. regenerate tables + build + obligations
    build_log = ""
    gen_ok, gen_msg = True, ""
    try:
        from . import extract
        gen_ok, gen_msg = extract.regenerate(pid)
    except ImportError:
        pass
    if args.oracle_only:
        C.coq_build()
        props = {"ok": True, "names": [], "obligations": 0, "discharged": 0, "axioms": [], "closed": 0, "failing": None, "log": ""}
    else:
        ok_build, build_log = C.coq_build()
        props = C.check_props(pid)

    # 2. harness
    res = None
    err = None
    try:
        res = mod.run(ctx)
    except Exception:
        err = traceback.format_exc()

    # 3. verdict
    known = C.load_known()
    lines = []
    exit_code = 0
    n_viol = 0
    known_hits = []
    if res is not None:
        seen = set()
        for v in res.get("violations", []):
            sig = v.get("signature", "")
            kf = [k for k in known.get("findings", []) if k["property"] == pid and k["signature"] == sig]
            if kf:
                if sig not in seen:
                    lines.append("KNOWN-FINDING: property=%s %s" % (pid, kf[0]["what"]))
                    known_hits.append(sig)
                seen.add(sig)
                continue
            if sig in seen:
                continue
            seen.add(sig)
            rp = {"property": pid, "kind": "failing-input", "clause": v.get("clause"),
                  "signature": sig, "case": v.get("case"), "detail": v.get("detail")}
            path = C.replay_path(pid, rp)
            C.write_json(path, rp)
            lines.append("VIOLATION property=%s replay=%s" % (pid, path))
            n_viol += 1
            exit_code = 1
    broken = []
    if not gen_ok:
        broken.append({"what": "extractor", "detail": gen_msg})
    if not props["ok"]:
        broken.append({"what": "theorem", "name": props["failing"] or "(build)", "detail": props["log"][-1500:]})
    if res is not None:
        for d in res.get("disagreements", [])[:5]:
            broken.append({"what": "correspondence", "detail": d})
    if err is not None:
        broken.append({"what": "harness-error", "detail": err[-3000:]})
    if broken and n_viol == 0:
        rp = {"property": pid, "kind": "no-failing-input-found", "broken": broken}
        path = C.replay_path(pid, rp)
        C.write_json(path, rp)
        lines.append("VIOLATION property=%s replay=%s no-failing-input-found" % (pid, path))
        exit_code = 1
        n_viol += 1

    # 4. evidence
    cov = {
        "obligations": props["obligations"],
        "discharged": props["discharged"],
        "checker_cmd": "coqc -Q /verif/coq PV Props/%s.v  (after make -C /verif/coq; Coq 8.16.1, full .vo)" % pid,
        "trusted_base": (["Coq 8.16.1 kernel (vm_compute used, native_compute not used)"]
                         + ["axiom: " + a for a in props["axioms"]]
                         + (["Print Assumptions: closed under the global context for all %d theorems" % props["closed"]]
                            if not props["axioms"] else [])),
        "theorems": props["names"],
    }
    if res is not None:
        for k in ("evaluations", "distinct_nontrivial", "rule", "samples", "exhaustive"):
            if k in res:
                cov[k] = res[k]
        cov["disagreements_checked"] = len(res.get("disagreements", []))
        cov.update(res.get("extra", {}))
    cov.setdefault("evaluations", 0)
    cov.setdefault("distinct_nontrivial", 0)
    cov.setdefault("samples", [])
    ev = {
        "property_id": pid, "tier": args.tier, "seed": args.seed, "level": "proof",
        "coverage": cov,
        "assumptions": (res or {}).get("assumptions", []) + getattr(mod, "ASSUMPTIONS", []),
        "wall_s": round(time.time() - t0, 2),
        "violations": n_viol,
        "known_findings_hit": known_hits,
    }
    C.write_json(os.path.join(C.EVIDENCE, pid + ".json"), ev)
    for ln in lines:
        print(ln)
    if exit_code == 0:
        print("OK property=%s tier=%s obligations=%d/%d evaluations=%d wall=%.1fs" % (
            pid, args.tier, props["discharged"], props["obligations"], cov["evaluations"], time.time() - t0))
    else:
        if err:
            sys.stderr.write(err)
        if not props["ok"]:
            sys.stderr.write(props["log"][-1500:] + "\n")
    # clean scratch
    import shutil
    shutil.rmtree(ctx["work"], ignore_errors=True)
    return exit_code


if __name__ == "__main__":
    sys.exit(main())

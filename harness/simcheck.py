"""Shared runner for the properties that are about simulation runs:
generate cases, execute them on the real implementation (in parallel), apply
the property's oracle to every trace, compare with the Coq model's trace on
the property's cone, summarise."""
import json
import multiprocessing as mp
import os
import random
import traceback
from fractions import Fraction

from . import common as C


def _worker(args):
    (pid, modname, case, idx) = args
    import importlib
    from . import sim
    sim.pin_hashes()
    mod = importlib.import_module(modname)
    try:
        res = mod.eval_case(case)
        res["idx"] = idx
        return res
    except Exception:
        return {"idx": idx, "violations": [], "error": traceback.format_exc()[-2000:], "sig": ("error",), "trace_txt": None}


def jsonable(x):
    if isinstance(x, Fraction):
        return C.q_str(x)
    if isinstance(x, dict):
        return {str(k): jsonable(v) for k, v in x.items()}
    if isinstance(x, (list, tuple)):
        return [jsonable(v) for v in x]
    if isinstance(x, set):
        return sorted(jsonable(v) for v in x)
    return x


def load_corpus(pid):
    out = []
    d = os.path.join(C.VERIF, "corpus", pid)
    if os.path.isdir(d):
        for fn in sorted(os.listdir(d)):
            if fn.endswith(".json"):
                with open(os.path.join(d, fn)) as f:
                    out.append(json.load(f))
    return out


def run_cases(ctx, modname, cases, procs=14):
    pid = ctx["pid"]
    jobs = [(pid, modname, c, i) for i, c in enumerate(cases)]
    if len(jobs) < 8:
        return [_worker(j) for j in jobs]
    with mp.get_context("fork").Pool(procs) as pool:
        return pool.map(_worker, jobs, chunksize=max(1, len(jobs) // (procs * 8)))


def summarise(ctx, cases, results, rule, model_cmp=None):
    """results: list of eval_case results {violations:[{clause,signature,detail}], sig:tuple, error?}"""
    violations, disagreements, errors = [], [], []
    sigs = set()
    hist = {}
    for r in results:
        c = cases[r["idx"]]
        if r.get("error"):
            errors.append(r["error"])
            continue
        sg = r.get("sig")
        if sg is not None and r.get("nontrivial", True):
            sigs.add(tuple(sg))
        for k, v in (r.get("hist") or {}).items():
            hist[k] = hist.get(k, 0) + v
        for v in r["violations"]:
            violations.append({"clause": v["clause"], "signature": v["signature"], "case": c, "detail": jsonable(v.get("detail"))})
        for d in r.get("disagreements", []):
            disagreements.append({"case": c, "field": d})
    # keep the smallest case per signature
    best = {}
    for v in violations:
        key = v["signature"]
        size = len(json.dumps(v["case"]))
        if key not in best or size < best[key][0]:
            best[key] = (size, v)
    violations = [b[1] for b in best.values()]
    if errors:
        raise RuntimeError("harness error in %d cases, first:\n%s" % (len(errors), errors[0]))
    samples = []
    for i in (0, len(cases) // 2, len(cases) - 1):
        if 0 <= i < len(cases):
            samples.append({"case": cases[i], "outcome": jsonable(next((r.get("summary") for r in results if r["idx"] == i), None))})
    return {"evaluations": len(cases), "distinct_nontrivial": len(sigs), "rule": rule, "samples": samples,
            "violations": violations, "disagreements": disagreements[:20],
            "extra": {"input_histogram": hist, "disagreements_total": len(disagreements)}}


def behaviour_sig(S, trace):
    """behaviour signature of a run: used to count distinct non-trivial cases"""
    rec = trace[0]
    d = rec.get("dump") or {}
    kinds = tuple(sorted(set(k for (_, _, k) in S.case.get("edges", []))))
    steps = d.get("time", 0)
    absn = bool(rec["op"].get("abs"))
    placed = any(any(x is not None for x in c.get("l_pw", [])) for c in d.get("C", []))
    multi = any(len(x) > 1 for t in d.get("T", []) for x in t.get("l_aw", []))
    return (S.nt, kinds, min(steps, 30), absn, placed, multi, d.get("status"), rec["exc"] is None)


def base_hist(S, trace):
    rec = trace[0]
    d = rec.get("dump") or {}
    h = {"cases": 1, "tasks": S.nt, "edges_FS": 0, "edges_SS": 0, "edges_FF": 0, "edges_SF": 0,
         "with_facility_task": int(any(S.need_fac)), "with_component": int(S.nc > 0),
         "with_project_absence": int(bool(rec["op"].get("abs"))),
         "status_success": int(d.get("status") == 1), "status_failure": int(d.get("status") == -1),
         "raised": int(rec["exc"] is not None), "steps": d.get("time", 0)}
    for (_, _, k) in S.case.get("edges", []):
        h["edges_" + ["FS", "SS", "FF", "SF"][k]] += 1
    return h

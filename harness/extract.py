"""Regeneration of the source-derived parts of the Coq development (run before
every build): coq/Gen/Schema.v (harness/schema.py)."""
import os
import traceback

from . import common as C
from . import schema

STUB = """(* GENERATED: the translator harness/schema.py FAILED on the current source *)
From Coq Require Import List String.
From PV Require Import Model.JsonSchema.
Import ListNotations.
Open Scope string_scope.
Definition cls_BaseTask : cls := mkCls "TRANSLATOR-FAILED" [("?", "?", OUnknown)] [] [] [] [].
Definition cls_BaseSubProjectTask := cls_BaseTask.
Definition cls_BaseWorkflow := cls_BaseTask.
Definition all_classes : list cls := [cls_BaseTask].
"""


def regenerate(pid=None):
    try:
        schema.generate()
        return True, ""
    except Exception:
        msg = traceback.format_exc()
        C.write_if_changed(schema.OUT, STUB)
        return (pid != "C16"), "harness/schema.py could not translate the save format of the current source:\n" + msg[-1500:]

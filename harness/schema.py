"""Translator: the save format of pDESy as Coq data (coq/Gen/Schema.v).

Reads the Python sources with `ast` and emits, for every saved class, a
Model/JsonSchema.v `cls` record: keys written by export_dict_json_data (and the
shape of the expression producing each value), constructor arguments read back
from the file (and the shape of the conversion), the attribute each constructor
parameter is stored in, and the relinking of IDs to objects in
BaseProject.read_simple_json.  Fail-closed: an expression whose shape is not one
of the known ones becomes OUnknown / IUnknown / LUnknown, which the theorem
`schema_ok` never accepts.
"""
import ast
import os

from . import common as C

MODEL_DIR = os.path.join(C.REPO, "pDESy", "model")
OUT = os.path.join(C.COQ, "Gen", "Schema.v")

# file, class, base class (whose exports / parameters / assignments are inherited)
CLASSES = [
    ("base_component.py", "BaseComponent", None),
    ("base_task.py", "BaseTask", None),
    ("base_subproject_task.py", "BaseSubProjectTask", "BaseTask"),
    ("base_worker.py", "BaseWorker", None),
    ("base_facility.py", "BaseFacility", None),
    ("base_team.py", "BaseTeam", None),
    ("base_workplace.py", "BaseWorkplace", None),
    ("base_product.py", "BaseProduct", None),
    ("base_workflow.py", "BaseWorkflow", None),
    ("base_organization.py", "BaseOrganization", None),
]
# where the objects of a class are constructed from JSON
READERS = {
    "BaseComponent": ("base_product.py", "BaseProduct"),
    "BaseTask": ("base_workflow.py", "BaseWorkflow"),
    "BaseSubProjectTask": ("base_workflow.py", "BaseWorkflow"),
    "BaseWorker": ("base_organization.py", "BaseOrganization"),
    "BaseFacility": ("base_organization.py", "BaseOrganization"),
    "BaseTeam": ("base_organization.py", "BaseOrganization"),
    "BaseWorkplace": ("base_organization.py", "BaseOrganization"),
}
# list attribute iterated by the relinking pass -> class of the elements
LOOP_CLASS = {
    "component_list": ["BaseComponent"], "task_list": ["BaseTask", "BaseSubProjectTask"], "team_list": ["BaseTeam"],
    "worker_list": ["BaseWorker"], "workplace_list": ["BaseWorkplace"], "facility_list": ["BaseFacility"],
}


def parse(fname):
    with open(os.path.join(MODEL_DIR, fname)) as f:
        return ast.parse(f.read())


def find_class(tree, name):
    for n in tree.body:
        if isinstance(n, ast.ClassDef) and n.name == name:
            return n
    raise KeyError(name)


def find_method(cls, name):
    for n in cls.body:
        if isinstance(n, ast.FunctionDef) and n.name == name:
            return n
    return None


def is_self_attr(e):
    return isinstance(e, ast.Attribute) and isinstance(e.value, ast.Name) and e.value.id == "self"


def is_not_none_test(t, target_dump):
    return (isinstance(t, ast.Compare) and len(t.ops) == 1 and isinstance(t.ops[0], ast.IsNot)
            and isinstance(t.comparators[0], ast.Constant) and t.comparators[0].value is None
            and ast.dump(t.left) == target_dump)


def is_none(e):
    return isinstance(e, ast.Constant) and e.value is None


def is_none_test(t, target_dump):
    return (isinstance(t, ast.Compare) and len(t.ops) == 1 and isinstance(t.ops[0], ast.Is)
            and isinstance(t.comparators[0], ast.Constant) and t.comparators[0].value is None
            and ast.dump(t.left) == target_dump)


def call_name(e):
    if isinstance(e, ast.Call):
        if isinstance(e.func, ast.Name):
            return e.func.id
        if isinstance(e.func, ast.Attribute):
            return e.func.attr
    return None


# ---------------------------------------------------------------- writers
def okind(e):
    """(attribute, shape) of an exported value expression"""
    if is_self_attr(e):
        return e.attr, "OPlain"
    if isinstance(e, ast.IfExp) and is_none(e.orelse):
        b = e.body
        if is_self_attr(b) and is_not_none_test(e.test, ast.dump(b)):
            return b.attr, "OOptPlain"
        if isinstance(b, ast.Attribute) and b.attr == "ID" and is_self_attr(b.value) and is_not_none_test(e.test, ast.dump(b.value)):
            return b.value.attr, "OOptId"
    if isinstance(e, ast.IfExp) and is_none(e.body):
        # the same conditional written the other way round: None if X is None else X[.ID]
        b = e.orelse
        if is_self_attr(b) and is_none_test(e.test, ast.dump(b)):
            return b.attr, "OOptPlain"
        if isinstance(b, ast.Attribute) and b.attr == "ID" and is_self_attr(b.value) and is_none_test(e.test, ast.dump(b.value)):
            return b.value.attr, "OOptId"
    if isinstance(e, ast.Call) and isinstance(e.func, ast.Name) and len(e.args) == 1 and not e.keywords:
        a = e.args[0]
        if e.func.id == "int" and is_self_attr(a):
            return a.attr, "OInt"
        if (e.func.id == "str" and isinstance(a, ast.Call) and isinstance(a.func, ast.Attribute) and a.func.attr == "total_seconds"
                and is_self_attr(a.func.value) and not a.args):
            return a.func.value.attr, "OSecondsStr"
    if isinstance(e, ast.Call) and isinstance(e.func, ast.Attribute) and e.func.attr == "strftime" and is_self_attr(e.func.value):
        return e.func.value.attr, "ODateStr"
    if isinstance(e, ast.ListComp) and len(e.generators) == 1 and not e.generators[0].ifs and is_self_attr(e.generators[0].iter):
        g = e.generators[0]
        attr = g.iter.attr
        el = e.elt
        if isinstance(g.target, ast.Name):
            v = g.target.id
            if isinstance(el, ast.Call) and isinstance(el.func, ast.Name) and len(el.args) == 1 and isinstance(el.args[0], ast.Name) and el.args[0].id == v:
                if el.func.id == "int":
                    return attr, "OListInt"
                if el.func.id == "float":
                    return attr, "OListFloat"
            if isinstance(el, ast.Attribute) and el.attr == "ID" and isinstance(el.value, ast.Name) and el.value.id == v:
                return attr, "OListId"
            if (isinstance(el, ast.Call) and isinstance(el.func, ast.Attribute) and el.func.attr == "export_dict_json_data"
                    and isinstance(el.func.value, ast.Name) and el.func.value.id == v and not el.args):
                return attr, "ONested"
        if isinstance(g.target, ast.Tuple) and len(g.target.elts) == 2 and all(isinstance(x, ast.Name) for x in g.target.elts):
            t, d = g.target.elts[0].id, g.target.elts[1].id
            if (isinstance(el, ast.Tuple) and len(el.elts) == 2
                    and isinstance(el.elts[0], ast.Attribute) and el.elts[0].attr == "ID" and isinstance(el.elts[0].value, ast.Name) and el.elts[0].value.id == t
                    and isinstance(el.elts[1], ast.Call) and call_name(el.elts[1]) == "int" and len(el.elts[1].args) == 1
                    and isinstance(el.elts[1].args[0], ast.Name) and el.elts[1].args[0].id == d):
                return attr, "OListIdDep"
        return attr, "OUnknown"
    return "?" + ast.unparse(e)[:40].replace('"', "'").replace("\n", " "), "OUnknown"


def is_type_tag(e):
    return ast.unparse(e) == "self.__class__.__name__"


def exports_of(cls):
    fn = find_method(cls, "export_dict_json_data")
    out = []
    inherits = False
    if fn is None:
        return out, True
    for n in ast.walk(fn):
        if isinstance(n, ast.Call) and isinstance(n.func, ast.Attribute) and n.func.attr == "update":
            for kw in n.keywords:
                if kw.arg == "type" and is_type_tag(kw.value):
                    continue
                a, k = okind(kw.value)
                out.append((kw.arg, a, k))
        if isinstance(n, ast.Call) and isinstance(n.func, ast.Name) and n.func.id == "dict" and not n.args and n.keywords \
                and all(kw.arg is not None for kw in n.keywords):
            # dict(k=v, ...) instead of {}.update(k=v, ...)
            for kw in n.keywords:
                if kw.arg == "type" and is_type_tag(kw.value):
                    continue
                a, k = okind(kw.value)
                out.append((kw.arg, a, k))
        if isinstance(n, ast.Dict) and n.keys and all(isinstance(k, ast.Constant) and isinstance(k.value, str) for k in n.keys):
            # a dict literal with constant string keys
            for kk, vv in zip(n.keys, n.values):
                if kk.value == "type" and is_type_tag(vv):
                    continue
                a, k = okind(vv)
                out.append((kk.value, a, k))
        if isinstance(n, ast.Call) and isinstance(n.func, ast.Attribute) and n.func.attr == "export_dict_json_data" \
                and isinstance(n.func.value, ast.Call) and call_name(n.func.value) == "super":
            inherits = True
        if isinstance(n, ast.Assign) and len(n.targets) == 1 and isinstance(n.targets[0], ast.Subscript) \
                and isinstance(n.targets[0].slice, ast.Constant) and isinstance(n.targets[0].value, ast.Name):
            a, k = okind(n.value)
            out.append((n.targets[0].slice.value, a, k))
    return out, inherits


# ---------------------------------------------------------------- readers
def sub_key(e, var):
    """key if e is var["k"]"""
    if isinstance(e, ast.Subscript) and isinstance(e.value, ast.Name) and (var is None or e.value.id == var) and isinstance(e.slice, ast.Constant):
        return e.slice.value
    return None


def get_key(e, var):
    """key if e is var.get("k"[, default])"""
    if (isinstance(e, ast.Call) and isinstance(e.func, ast.Attribute) and e.func.attr == "get" and isinstance(e.func.value, ast.Name)
            and (var is None or e.func.value.id == var) and e.args and isinstance(e.args[0], ast.Constant)):
        return e.args[0].value
    return None


def ikind(e, fn):
    """(key, shape) of a constructor argument expression"""
    k = sub_key(e, None)
    if k is not None:
        return k, "IPlain"
    k = get_key(e, None)
    if k is not None:
        return k, "IPlainDefault"
    if isinstance(e, ast.Call) and not e.keywords and len(e.args) == 1 and isinstance(e.func, ast.Name) and e.func.id[:1].isupper():
        k = sub_key(e.args[0], None)
        if k is not None:
            return k, "IEnum"
        k = get_key(e.args[0], None)
        if k is not None:
            return k, "IEnumDefault"
    if isinstance(e, ast.ListComp) and len(e.generators) == 1 and not e.generators[0].ifs and isinstance(e.generators[0].target, ast.Name):
        g = e.generators[0]
        k = sub_key(g.iter, None)
        el = e.elt
        if (k is not None and isinstance(el, ast.Call) and isinstance(el.func, ast.Name) and el.func.id[:1].isupper() and len(el.args) == 1
                and isinstance(el.args[0], ast.Name) and el.args[0].id == g.target.id):
            return k, "IListEnum"
    if ast.unparse(e).startswith("datetime.timedelta(seconds=float(") and isinstance(e, ast.Call) and len(e.keywords) == 1:
        inner = e.keywords[0].value
        if isinstance(inner, ast.Call) and call_name(inner) == "float" and len(inner.args) == 1:
            k = sub_key(inner.args[0], None)
            if k is not None:
                return k, "ISeconds"
    if isinstance(e, ast.Call) and ast.unparse(e.func) == "datetime.datetime.strptime" and len(e.args) == 2:
        k = sub_key(e.args[0], None)
        if k is not None:
            return k, "IDate"
    if isinstance(e, ast.Name) and fn is not None:
        # a local list filled from the dictionaries in j["<name>"]
        for n in ast.walk(fn):
            if isinstance(n, ast.For) and sub_key(n.iter, None) == e.id:
                return e.id, "INested"
    return "?" + ast.unparse(e)[:40].replace('"', "'").replace("\n", " "), "IUnknown"


def imports_of(cname):
    fname, rcls = READERS[cname]
    fn = find_method(find_class(parse(fname), rcls), "read_json_data")
    res = None
    for n in ast.walk(fn):
        if isinstance(n, ast.Call) and isinstance(n.func, ast.Name) and n.func.id == cname:
            cur = []
            for kw in n.keywords:
                k, kind = ikind(kw.value, fn)
                cur.append((kw.arg, k, kind))
            if n.args:
                cur.append(("?positional", "?", "IUnknown"))
            if res is not None and res != cur:
                cur.append(("?two-constructor-calls", "?", "IUnknown"))
            res = cur
    return res or []


def container_imports(cls):
    fn = find_method(cls, "read_json_data")
    out = []
    for n in ast.walk(fn):
        if isinstance(n, ast.Assign) and len(n.targets) == 1:
            k = sub_key(n.value, "json_data")
            if k is None:
                continue
            t = n.targets[0]
            if is_self_attr(t):
                out.append((t.attr, k, "IPlain"))
            elif isinstance(t, ast.Name) and any(isinstance(m, ast.Assign) and len(m.targets) == 1 and is_self_attr(m.targets[0])
                                                 and m.targets[0].attr == k for m in ast.walk(fn)):
                # j_list = json_data["k"]; self.k = [Class(...) for j in j_list]  (or filled by append)
                out.append((k, k, "INested"))
            else:
                out.append(("?", k, "IUnknown"))
    return out


def init_info(cls):
    fn = find_method(cls, "__init__")
    if fn is None:
        return [], [], False
    params = [a.arg for a in fn.args.args if a.arg != "self"] + [a.arg for a in fn.args.kwonlyargs]
    assign = []
    inherits = False
    for n in ast.walk(fn):
        if isinstance(n, ast.Assign) and len(n.targets) == 1 and is_self_attr(n.targets[0]):
            names = [x.id for x in ast.walk(n.value) if isinstance(x, ast.Name) and x.id in params]
            for p in dict.fromkeys(names):
                if (p, n.targets[0].attr) not in assign:
                    assign.append((p, n.targets[0].attr))
        if isinstance(n, ast.Call) and isinstance(n.func, ast.Attribute) and n.func.attr == "__init__" \
                and isinstance(n.func.value, ast.Call) and call_name(n.func.value) == "super":
            inherits = True
    return params, assign, inherits


# ---------------------------------------------------------------- relinking
def lkind(e, var, attr):
    """shape of  var.attr = e  in the second pass of read_simple_json"""
    def lookup_of(x, idname):
        # self.<part>.get_<x>_list(ID=<idname>)[0]
        return (isinstance(x, ast.Subscript) and isinstance(x.slice, ast.Constant) and x.slice.value == 0
                and isinstance(x.value, ast.Call) and isinstance(x.value.func, ast.Attribute) and x.value.func.attr.startswith("get_")
                and len(x.value.keywords) == 1 and x.value.keywords[0].arg == "ID" and ast.unparse(x.value.keywords[0].value) == idname)
    src = "%s.%s" % (var, attr)
    if isinstance(e, ast.ListComp) and len(e.generators) == 1 and not e.generators[0].ifs and ast.unparse(e.generators[0].iter) == src:
        g = e.generators[0]
        if isinstance(g.target, ast.Name) and lookup_of(e.elt, g.target.id):
            return "LListId"
        if (isinstance(g.target, ast.Tuple) and len(g.target.elts) == 2 and isinstance(e.elt, ast.List) and len(e.elt.elts) == 2
                and lookup_of(e.elt.elts[0], ast.unparse(g.target.elts[0]))
                and isinstance(e.elt.elts[1], ast.Call) and call_name(e.elt.elts[1]) == "BaseTaskDependency"
                and ast.unparse(e.elt.elts[1].args[0]) == ast.unparse(g.target.elts[1])):
            return "LListIdDep"
    if isinstance(e, ast.IfExp) and is_none(e.orelse) and lookup_of(e.body, src) \
            and isinstance(e.test, ast.Compare) and isinstance(e.test.ops[0], ast.IsNot) and ast.unparse(e.test.left) == src and is_none(e.test.comparators[0]):
        return "LOptId"
    return "LUnknown"


def relinks():
    pcls = find_class(parse("base_project.py"), "BaseProject")
    fn = find_method(pcls, "read_simple_json")
    res = {}

    def visit(stmts, env):
        for s in stmts:
            if isinstance(s, ast.For) and isinstance(s.target, ast.Name) and isinstance(s.iter, ast.Attribute) and s.iter.attr in LOOP_CLASS:
                visit(s.body, dict(env, **{s.target.id: LOOP_CLASS[s.iter.attr]}))
            elif isinstance(s, ast.Assign) and len(s.targets) == 1 and isinstance(s.targets[0], ast.Attribute) \
                    and isinstance(s.targets[0].value, ast.Name) and s.targets[0].value.id in env:
                v = s.targets[0].value.id
                for cname in env[v]:
                    res.setdefault(cname, []).append((s.targets[0].attr, lkind(s.value, v, s.targets[0].attr)))
            elif isinstance(s, (ast.For, ast.If, ast.With)):
                visit(s.body, env)
    visit(fn.body, {})
    return res


def project_schema():
    pcls = find_class(parse("base_project.py"), "BaseProject")
    w = find_method(pcls, "write_simple_json")
    exports = []
    for n in ast.walk(w):
        if isinstance(n, ast.Dict) and any(isinstance(k, ast.Constant) and k.value == "type" for k in n.keys):
            for k, v in zip(n.keys, n.values):
                if k.value == "type" and is_type_tag(v):
                    continue
                a, kind = okind(v)
                exports.append((k.value, a, kind))
    r = find_method(pcls, "read_simple_json")
    imports, assign = [], []
    for n in r.body:
        if isinstance(n, ast.Assign) and len(n.targets) == 1 and is_self_attr(n.targets[0]) \
                and any(isinstance(x, ast.Name) and x.id == "project_json" for x in ast.walk(n.value)):
            k, kind = ikind(n.value, None)
            imports.append((n.targets[0].attr, k, kind))
            assign.append((n.targets[0].attr, n.targets[0].attr))
    params, _, _ = init_info(pcls)
    # product / workflow / organization are saved as the three other nodes of the file
    params = [p for p in params if p not in ("product", "workflow", "organization")]
    return {"name": "BaseProject", "exports": exports, "imports": imports, "params": params, "assign": assign, "relink": []}


def extract():
    rel = relinks()
    raw = {}
    for fname, cname, base in CLASSES:
        cls = find_class(parse(fname), cname)
        ex, ex_inh = exports_of(cls)
        params, assign, init_inh = init_info(cls)
        raw[cname] = dict(name=cname, base=base, exports=ex, ex_inh=ex_inh, params=params, assign=assign, init_inh=init_inh, cls=cls)
    out = []
    for fname, cname, base in CLASSES:
        r = raw[cname]
        ex, params, assign = list(r["exports"]), list(r["params"]), list(r["assign"])
        if base:
            b = raw[base]
            if r["ex_inh"]:
                ex = list(b["exports"]) + ex
            if r["init_inh"]:
                assign = assign + [x for x in b["assign"] if x not in assign]
        if cname in READERS:
            imports = imports_of(cname)
        else:
            # the containers are filled attribute by attribute in read_json_data
            imports = container_imports(r["cls"])
            assign = [(p, p) for (p, _, _) in imports]
        out.append({"name": cname, "exports": ex, "imports": imports, "params": params, "assign": assign, "relink": rel.get(cname, [])})
    out.append(project_schema())
    return out


def coq_str(s):
    return '"%s"' % s.replace('"', '""')


def render(schema):
    lines = ["(* GENERATED by harness/schema.py from /repo/pDESy/model/*.py on every run -- do not edit *)",
             "From Coq Require Import List String.", "From PV Require Import Model.JsonSchema.", "Import ListNotations.",
             "Open Scope string_scope.", ""]
    for c in schema:
        lines.append("Definition cls_%s : cls := mkCls %s" % (c["name"], coq_str(c["name"])))
        lines.append("  [" + ";\n   ".join("(%s, %s, %s)" % (coq_str(k), coq_str(a), kd) for (k, a, kd) in c["exports"]) + "]")
        lines.append("  [" + ";\n   ".join("(%s, %s, %s)" % (coq_str(p), coq_str(k), kd) for (p, k, kd) in c["imports"]) + "]")
        lines.append("  [" + "; ".join(coq_str(p) for p in c["params"]) + "]")
        lines.append("  [" + ";\n   ".join("(%s, %s)" % (coq_str(p), coq_str(a)) for (p, a) in c["assign"]) + "]")
        lines.append("  [" + "; ".join("(%s, %s)" % (coq_str(a), l) for (a, l) in c["relink"]) + "].")
        lines.append("")
    lines.append("Definition all_classes : list cls := [" + "; ".join("cls_" + c["name"] for c in schema) + "].")
    return "\n".join(lines) + "\n"


def generate():
    """(re)write coq/Gen/Schema.v when the extracted schema changed; returns the schema"""
    schema = extract()
    text = render(schema)
    os.makedirs(os.path.dirname(OUT), exist_ok=True)
    old = None
    if os.path.exists(OUT):
        with open(OUT) as f:
            old = f.read()
    if old != text:
        with open(OUT, "w") as f:
            f.write(text)
    return schema


if __name__ == "__main__":
    import json
    print(json.dumps(generate(), indent=1))

"""Shared helpers for the /verif checks: paths, exact numbers, Coq runs,
evidence and verdict handling."""
import fcntl
import hashlib
import json
import os
import re
import subprocess
import sys
import time
from fractions import Fraction

VERIF = os.path.dirname(os.path.dirname(os.path.abspath(__file__)))
REPO = os.environ.get("VERIF_REPO", "/repo")
COQ = os.path.join(VERIF, "coq")
WORK = os.path.join(VERIF, ".work")
REPLAYS = os.path.join(VERIF, "replays")
EVIDENCE = os.path.join(VERIF, "evidence")
KNOWN = os.path.join(VERIF, "known_findings.json")
COQC_TIMEOUT = 600


# ----------------------------------------------------------------- numbers
def frac(x):
    """exact rational value of an int / float / Fraction"""
    if isinstance(x, Fraction):
        return x
    if isinstance(x, bool):
        raise TypeError("bool is not a number here")
    if isinstance(x, int):
        return Fraction(x)
    if isinstance(x, float):
        if x != x or x in (float("inf"), float("-inf")):
            raise ValueError("non-finite float")
        return Fraction(x)
    raise TypeError(type(x))


def on_grid(fr, bits=12):
    """is the rational a multiple of 2^-bits (i.e. was computed without rounding
    from grid inputs)?"""
    return (fr * (1 << bits)).denominator == 1


def coq_q(x):
    fr = frac(x)
    return "(%d # %d)" % (fr.numerator, fr.denominator)


def coq_z(n):
    return "(%d)%%Z" % int(n)


def coq_list(items):
    return "[" + "; ".join(items) + "]"


def q_str(x):
    fr = frac(x)
    return "%d/%d" % (fr.numerator, fr.denominator)


# ------------------------------------------------------------------- files
def ensure_dirs():
    for d in (WORK, REPLAYS, EVIDENCE):
        os.makedirs(d, exist_ok=True)


def write_if_changed(path, text):
    try:
        with open(path) as f:
            if f.read() == text:
                return False
    except FileNotFoundError:
        pass
    os.makedirs(os.path.dirname(path), exist_ok=True)
    with open(path, "w") as f:
        f.write(text)
    return True


class Lock:
    def __init__(self, name="build"):
        ensure_dirs()
        self.path = os.path.join(WORK, name + ".lock")

    def __enter__(self):
        self.f = open(self.path, "w")
        fcntl.flock(self.f, fcntl.LOCK_EX)
        return self

    def __exit__(self, *a):
        fcntl.flock(self.f, fcntl.LOCK_UN)
        self.f.close()


# --------------------------------------------------------------------- Coq
def run(cmd, cwd=None, timeout=COQC_TIMEOUT, env=None):
    t0 = time.time()
    try:
        p = subprocess.run(cmd, cwd=cwd, timeout=timeout, env=env,
                           stdout=subprocess.PIPE, stderr=subprocess.STDOUT, text=True)
        return p.returncode, p.stdout, time.time() - t0
    except subprocess.TimeoutExpired as e:
        out = e.stdout if isinstance(e.stdout, str) else (e.stdout or b"").decode("utf8", "replace")
        return 124, out + "\nTIMEOUT", time.time() - t0


def coq_build(targets=None, jobs=8):
    """(re)build the Coq development (full .vo).  Returns (ok, log)."""
    with Lock("build"):
        mk = os.path.join(COQ, "Makefile")
        cp = os.path.join(COQ, "_CoqProject")
        if (not os.path.exists(mk)) or os.path.getmtime(mk) < os.path.getmtime(cp):
            rc, out, _ = run(["coq_makefile", "-f", "_CoqProject", "-o", "Makefile"], cwd=COQ)
            if rc != 0:
                return False, out
        cmd = ["make", "-j%d" % jobs, "-k"] + (targets or [])
        rc, out, _ = run(cmd, cwd=COQ, timeout=1800)
        ok = rc == 0
        # extracted driver: rebuild when the model is newer
        drv = os.path.join(VERIF, "driver", "simdriver")
        srcs = [os.path.join(COQ, "Model", f) for f in os.listdir(os.path.join(COQ, "Model")) if f.endswith(".vo")] + \
               [os.path.join(VERIF, "driver", f) for f in ("main.ml", "Extract.v")]
        newest = max((os.path.getmtime(f) for f in srcs if os.path.exists(f)), default=0)
        if (not os.path.exists(drv)) or os.path.getmtime(drv) < newest:
            d = os.path.join(VERIF, "driver")
            rc1, o1, _ = run(["coqc", "-Q", COQ, "PV", "Extract.v"], cwd=d)
            rc2, o2, _ = run(["ocamlfind", "ocamlopt", "-O3", "-package", "zarith", "-linkpkg", "-w", "-a",
                              "sim.mli", "sim.ml", "main.ml", "-o", "simdriver"], cwd=d)
            out += o1 + o2
            ok = ok and rc1 == 0 and rc2 == 0
        return ok, out


def coqc_file(path, cwd=COQ, timeout=COQC_TIMEOUT, extra=()):
    cmd = ["coqc", "-Q", COQ, "PV"] + list(extra) + [path]
    return run(cmd, cwd=cwd, timeout=timeout)


THM_RE = re.compile(r"^\s*(Theorem|Lemma|Corollary|Example|Fact|Proposition)\s+([A-Za-z0-9_']+)", re.M)


def check_props(pid):
    """Compile Props/<pid>.v against the current model; returns a dict with
    obligations (theorem names), the number discharged, and the axioms
    reported by Print Assumptions."""
    src = os.path.join(COQ, "Props", pid + ".v")
    if not os.path.exists(src):
        return {"file": src, "names": [], "obligations": 0, "discharged": 0, "ok": False, "failing": None,
                "closed": 0, "n_print": 0, "axioms": [], "forbidden": [], "log": "no Props file", "wall": 0}
    with open(src) as f:
        text = f.read()
    names = [m.group(2) for m in THM_RE.finditer(text)]
    code = re.sub(r"\(\*.*?\*\)", " ", text, flags=re.S)          # comments do not count
    forbidden = re.findall(r"\b(Admitted|admit|Axiom|Axioms|Parameter|Parameters|Conjecture|Abort|Admit)\b", code)
    # the whole development must be free of escape hatches
    for root, _, files in os.walk(COQ):
        for fn in files:
            if fn.endswith(".v"):
                with open(os.path.join(root, fn)) as f:
                    body = re.sub(r"\(\*.*?\*\)", " ", f.read(), flags=re.S)
                bad = re.findall(r"\b(Admitted|admit|Axiom|Axioms|Parameter|Parameters|Conjecture|Admit Obligations|bypass_check|Unset Guard Checking|Unset Positivity Checking|Unset Universe Checking)\b", body)
                if bad:
                    forbidden += ["%s:%s" % (fn, b) for b in bad]
    with Lock("build"):
        rc, out, wall = coqc_file(os.path.join("Props", pid + ".v"))
    closed = out.count("Closed under the global context")
    axioms = sorted(set(re.findall(r"^([A-Za-z0-9_.']+)\s*$\n\s+:", out, re.M))) if "Axioms:" in out else []
    ok = (rc == 0) and not forbidden
    failing = None
    if rc != 0:
        m = re.search(r'line (\d+), characters', out)
        if m:
            line = int(m.group(1))
            before = [mm for mm in THM_RE.finditer(text) if text.count("\n", 0, mm.start()) + 1 <= line]
            failing = before[-1].group(2) if before else None
    n_print = len(re.findall(r"^\s*Print Assumptions", text, re.M))
    discharged = len(names) if ok else 0
    if not ok and failing in names:
        discharged = names.index(failing)
    return {"file": src, "names": names, "obligations": len(names), "discharged": discharged,
            "ok": ok, "failing": failing, "closed": closed, "n_print": n_print,
            "axioms": axioms, "forbidden": forbidden, "log": out[-3000:], "wall": wall}


LIST_RE = re.compile(r"=\s*\[(.*?)\]\s*:\s*list", re.S)


def coq_eval_nat_lists(vfile, cwd):
    """compile a generated cases file whose Eval commands each print a list of
    nat; returns the lists (in order) or raises."""
    rc, out, wall = coqc_file(vfile, cwd=cwd)
    if rc != 0:
        raise RuntimeError("coqc failed on %s:\n%s" % (vfile, out[-2000:]))
    res = []
    for m in LIST_RE.finditer(out):
        body = m.group(1).strip()
        if not body:
            res.append([])
        else:
            res.append([int(re.sub(r"%\w+", "", x).strip().strip("()")) for x in body.split(";")])
    return res, wall


# ---------------------------------------------------------------- verdicts
def load_known():
    try:
        with open(KNOWN) as f:
            return json.load(f)
    except FileNotFoundError:
        return {"findings": [], "fixed": []}


def replay_path(pid, obj):
    ensure_dirs()
    h = hashlib.sha1(json.dumps(obj, sort_keys=True, default=str).encode()).hexdigest()[:12]
    return os.path.join(REPLAYS, "%s-%s.json" % (pid, h))


def write_json(path, obj):
    os.makedirs(os.path.dirname(path), exist_ok=True)
    tmp = path + ".tmp%d" % os.getpid()
    with open(tmp, "w") as f:
        json.dump(obj, f, indent=1, sort_keys=True, default=str)
    os.replace(tmp, path)

(* C07  Cost accounting adds up at every level and charges only working
   resources.  Statements only; proofs in Proofs/LogsProof.v, C0708Proof.v,
   C07Total.v.

   LogsAre c h h s says that every per-step log of the project state s is the
   image of one history h of rows (working?, live state when the step was
   recorded); C08's theorems (C08_simulate_fresh / _continue, C08_histories)
   establish it for the result of every simulate call. *)
From Coq Require Import List ZArith QArith Bool Arith.
From PV Require Import Model.Types Model.Sim Model.Example Proofs.Base Proofs.RunLemmas Proofs.LogsProof
  Proofs.C0708Proof Proofs.C07Total.
Import ListNotations.
Open Scope nat_scope.

(* the premise of the theorems below holds for the result of every run *)
Theorem C07_logs_of_every_run : forall c o s, o_init_log o = true ->
  let h := perf_rows o (snd (simulate c o s)) in
  length h = time (fst (simulate c o s)) /\ LogsAre c h h (fst (simulate c o s)).
Proof. exact C08_simulate_fresh. Qed.
Print Assumptions C07_logs_of_every_run.

(* each worker / facility is charged its cost_per_time at step i iff it is
   logged WORKING at step i, and 0 otherwise *)
Theorem C07_worker_charged_iff_working : forall c h s, LogsAre c h h s ->
  forall w i x d, w < nW c ->
  nth_error (rl_cost (wl s w)) i = Some x -> nth_error (rl_st (wl s w)) i = Some d ->
  x = if rstate_eqb d RWorking then w_cost c w else 0%Q.
Proof. exact worker_cost_entry. Qed.
Print Assumptions C07_worker_charged_iff_working.

Theorem C07_facility_charged_iff_working : forall c h s, LogsAre c h h s ->
  forall f i x d, f < nF c ->
  nth_error (rl_cost (fl s f)) i = Some x -> nth_error (rl_st (fl s f)) i = Some d ->
  x = if rstate_eqb d RWorking then f_cost c f else 0%Q.
Proof. exact facility_cost_entry. Qed.
Print Assumptions C07_facility_charged_iff_working.

(* team = sum over members, workplace = sum over facilities (same summation
   order as the code, so the equalities are syntactic) *)
Theorem C07_team_is_sum_of_members : forall c h s, LogsAre c h h s ->
  forall g i, g < nTeam c -> i < length h -> (forall w, In w (team_workers c g) -> w < nW c) ->
  entry (teaml s g) i = qsum (map (fun w => entry (rl_cost (wl s w)) i) (team_workers c g)).
Proof. exact team_cost_entry. Qed.
Print Assumptions C07_team_is_sum_of_members.

Theorem C07_workplace_is_sum_of_facilities : forall c h s, LogsAre c h h s ->
  forall p i, p < nWP c -> i < length h -> (forall f, In f (wp_facs c p) -> f < nF c) ->
  entry (wl_cost (wpl s p)) i = qsum (map (fun f => entry (rl_cost (fl s f)) i) (wp_facs c p)).
Proof. exact workplace_cost_entry. Qed.
Print Assumptions C07_workplace_is_sum_of_facilities.

Theorem C07_organization_is_teams_plus_workplaces : forall c h s, LogsAre c h h s ->
  forall i, i < length h ->
  entry (orgl s) i =
  fold_left Qplus (map (fun p => entry (wl_cost (wpl s p)) i) (seq 0 (nWP c)))
    (fold_left Qplus (map (fun g => entry (teaml s g) i) (seq 0 (nTeam c))) 0%Q).
Proof. exact organization_cost_entry. Qed.
Print Assumptions C07_organization_is_teams_plus_workplaces.

Theorem C07_project_equals_organization : forall c h s, LogsAre c h h s -> costl s = orgl s.
Proof. exact project_cost_is_organization_cost. Qed.
Print Assumptions C07_project_equals_organization.

(* 0 for everyone at a project-wide absence step *)
Theorem C07_nothing_charged_in_absence : forall c h s, LogsAre c h h s ->
  forall i r, nth_error h i = Some r -> fst r = false ->
  entry (costl s) i = 0%Q
  /\ (forall w, w < nW c -> entry (rl_cost (wl s w)) i = 0%Q)
  /\ (forall f, f < nF c -> entry (rl_cost (fl s f)) i = 0%Q).
Proof. exact absence_step_costs_nothing. Qed.
Print Assumptions C07_nothing_charged_in_absence.

(* hence: total cost = sum over resources of rate x steps logged WORKING *)
Theorem C07_total_cost : forall c h s, LogsAre c h h s ->
  (forall g w, g < nTeam c -> In w (team_workers c g) -> w < nW c) ->
  (forall p f, p < nWP c -> In f (wp_facs c p) -> f < nF c) ->
  (qsum (costl s) ==
   qsum (map (fun w => w_cost c w * inject_Z (Z.of_nat (working_steps (rl_st (wl s w))))) (all_workers c))
   + qsum (map (fun f => f_cost c f * inject_Z (Z.of_nat (working_steps (rl_st (fl s f))))) (all_facs c)))%Q.
Proof. exact total_cost_is_rate_times_working_steps. Qed.
Print Assumptions C07_total_cost.

(* non-vacuity: in the example run worker 0 (rate 3) works 5 of 6 steps, worker
   1 (rate 5, absent at step 2, project absence at step 1) works 4 steps *)
Example C07_example :
  costl ex_final = [8; 0; 3; 8; 8; 8]%Q /\
  rl_st (wl ex_final 1) = [RWorking; RAbsence; RAbsence; RWorking; RWorking; RWorking] /\
  rl_st (wl ex_final 0) = [RWorking; RAbsence; RWorking; RWorking; RWorking; RWorking].
Proof. vm_compute. repeat split; reflexivity. Qed.

(* C13  Component placement respects location, capacity, conveyor and site rules.
   Statements only; proofs in Proofs/C13Proof.v, Proofs/C13Run.v, Proofs/C13Fac.v. *)
From Coq Require Import List ZArith QArith Bool Arith.
From PV Require Import Model.Types Model.Sim Model.Example Proofs.Base Proofs.RunLemmas
  Proofs.AllocInv Proofs.C13Proof Proofs.C13Run Proofs.C13Fac Proofs.C13Cap.
Import ListNotations.
Open Scope nat_scope.

(* Forest c: no component is reached twice from a root of the product
   (no cycle, no shared sub-assembly): flat AND nested products.

   (a) PInv s = a workplace lists a component exactly when the component
   reports being placed there (so a component is at no more than one
   workplace), and no component is listed twice -- in every snapshot and in
   the returned state of every run *)
Theorem C13_two_way_consistency : forall c, Forest c -> forall o s,
  (o_init_state o = true \/ PInv s) ->
  Forall (fun ob : obs => PInv (snd ob)) (snd (simulate c o s)) /\ PInv (fst (simulate c o s)).
Proof. exact PInv_all_runs. Qed.
Print Assumptions C13_two_way_consistency.

(* (b),(c),(d): a component is put somewhere (placement block of __allocate
   for task t, with the list [moved] of components already moved in this step)
   only if  placed_ok c s moved t k p :
     k is the task's component and ready, p is one of the task's workplaces,
     no component of the assembly of k has moved in this step, has a WORKING
       task or holds a worker / facility                                  (d)
     every component of the assembly comes from nowhere or from one of the
       input workplaces p declares (if it declares any)                   (c)
     size(k) - 1e-8 < free space of p                                      (b)
   and then exactly the assembly of k moves to p and is appended to [moved] *)
Theorem C13_placement_conditions : forall c s moved t,
  let r := place_for c s moved t in
  (fst r = s /\ snd r = moved)
  \/ exists k p, placed_ok c s moved t k p /\ fst r = attach_tree c (detach_tree c s k) p k /\ snd r = moved ++ tree c k.
Proof. exact place_for_spec. Qed.
Print Assumptions C13_placement_conditions.

(* the effect of one placement on the two records *)
Theorem C13_placement_effect : forall c s k p, Forest c -> PInv s ->
  let s' := attach_tree c (detach_tree c s k) p k in
  PInv s'
  /\ (forall k', In k' (tree c k) -> pw (cd s' k') = Some p)
  /\ (forall k', ~ In k' (tree c k) -> pw (cd s' k') = pw (cd s k'))
  /\ (forall q, q <> p -> forall x, In x (wpc s' q) <-> In x (wpc s q) /\ ~ In x (tree c k))
  /\ (forall x, In x (wpc s' p) <-> (In x (wpc s p) /\ ~ In x (tree c k)) \/ In x (tree c k)).
Proof. exact PInv_place. Qed.
Print Assumptions C13_placement_effect.

(* (d) at most one move per step: the list of moved components kept by
   __allocate never contains a component twice *)
Theorem C13_moves_once_per_step : forall c, Forest c -> forall o s, PInv s ->
  let r := fold_left (alloc_task c)
             (sort_tasks c (o_rule o) s (filter (fun t => is_ready (st (td s t)) || is_working (st (td s t))) (tasks c)))
             (s, filter (fun w => rstate_eqb (rst (wd s w)) RFree) (all_workers c), []) in
  allocate c o s = fst (fst r) /\ PInv (fst (fst r)) /\ NoDup (snd r).
Proof. exact allocate_moves_once. Qed.
Print Assumptions C13_moves_once_per_step.

(* (d) placement changes only in __update (removal) and __allocate *)
Theorem C13_other_phases_keep_placement : forall c o s,
  (cd (step_perform c o s) = cd s /\ wpc (step_perform c o s) = wpc s)
  /\ (cd (step_record c o s) = cd s /\ wpc (step_record c o s) = wpc s).
Proof.
  intros c o s. split; [|split; reflexivity].
  unfold step_perform. destruct (negb (mem (time s) (o_abs o))); [split; reflexivity|].
  destruct (o_auto_abs o); split; reflexivity.
Qed.

(* (e) after __update no component of an assembly whose tasks are all FINISHED
   is placed anywhere (removable c u k: k is a root, k < nC, every task of
   every component of its assembly is FINISHED in u); the visit order of the
   set iteration lists every component *)
Theorem C13_finished_assemblies_leave : forall c o s, PInv s -> (forall k, k < nC c -> In k (o_crank o)) ->
  let u := update c o s in
  forall k, removable c u k -> forall k', In k' (tree c k) -> pw (cd u k') = None.
Proof. exact update_removes. Qed.
Print Assumptions C13_finished_assemblies_leave.

(* (b) capacity in every snapshot, for flat products (no child components):
   the space taken at a workplace stays below capacity + 1e-8 (the code's
   tolerance); C13_capacity_nested below is the general statement. *)
Theorem C13_capacity_flat : forall c, Forest c -> (forall k, (0 <= c_size c k)%Q) -> Flat c ->
  (forall p, (0 <= wp_cap c p)%Q) -> forall o s, o_init_state o = true ->
  Forall (fun ob : obs => forall p, (qsum (map (c_size c) (wpc (snd ob) p)) < wp_cap c p + tol_space)%Q)
         (snd (simulate c o s)).
Proof. intros c HF Hs Hf Hc o s Hi. exact (capacity_all_runs c HF Hs o s Hf Hc Hi). Qed.
Print Assumptions C13_capacity_flat.

(* (b) capacity in every snapshot for NESTED products: the components listed
   at a workplace that are not covered by another listed component's assembly
   (the top-most placed ones) take less than capacity + 1e-8.  tree_trans says
   that descendants of descendants are descendants (true whenever the depth of
   the product does not exceed the number of components). *)
Theorem C13_capacity_nested : forall c, Forest c ->
  (forall k a y, In a (tree c k) -> In y (tree c a) -> In y (tree c k)) ->
  (forall k, (0 <= c_size c k)%Q) -> (forall p, (0 <= wp_cap c p)%Q) ->
  forall o s, o_init_state o = true ->
  Forall (fun ob : obs => forall p, (space c (wpc (snd ob) p) < wp_cap c p + tol_space)%Q) (snd (simulate c o s)).
Proof. intros c HF Ht Hs Hc o s Hi. exact (nested_capacity_all_runs c HF Ht Hs o s Hc Hi). Qed.
Print Assumptions C13_capacity_nested.

(* (f) in every snapshot a task only holds facilities of the workplace where
   its component is placed (t_comp lists back: the component of a task lists
   that task) *)
Theorem C13_facilities_of_the_site : forall c,
  (forall w, In w (all_workers c) -> w < nW c) -> NoDup (all_workers c) ->
  (forall p f, In f (wp_facs c p) -> f < nF c) -> Forest c ->
  (forall t k, t_comp c t = Some k -> In t (c_tasks c k)) ->
  forall o s, o_init_state o = true ->
  Forall (fun ob : obs => forall t f, t < nT c -> In f (af (td (snd ob) t)) ->
            exists k p, t_comp c t = Some k /\ pw (cd (snd ob) k) = Some p /\ In f (wp_facs c p))
         (snd (simulate c o s)).
Proof. exact FacInv_all_runs. Qed.
Print Assumptions C13_facilities_of_the_site.

(* non-vacuity: an assembly 0 > 1, one workplace of capacity 2 with one
   facility; the assembly is placed at step 0 (both components listed), task 0
   works with facility 0 there, task 1 follows *)
Example C13_example :
  Forest ex_pl_cfg
  /\ status ex_pl_final = StSuccess
  /\ map (fun k => cl_pw (cl ex_pl_final k)) [0; 1] = [[Some 0; Some 0; Some 0]; [Some 0; Some 0; Some 0]]
  /\ wl_pc (wpl ex_pl_final 0) = [[0; 1]; [0; 1]; [0; 1]]
  /\ l_af (tl ex_pl_final 0) = [[0]; [0]; []].
Proof.
  split; [|vm_compute; repeat split].
  intros k. destruct k as [|[|k]]; vm_compute; repeat constructor; cbn; intuition discriminate.
Qed.

(* C18  Editing absence steps out of or into finished logs keeps all logs
   aligned.  Statements only; proofs in Proofs/C18Proof.v.
   Model/LogEdit.v mirrors the editors of every class (project, workflow/task,
   product/component, organization, team/worker, workplace/facility); the
   project's absence_time_list attribute is carried next to the state.
   "complete without error": the model's editors are total functions; runtime
   exceptions of the implementation can only be searched (oracle). *)
From Coq Require Import List ZArith QArith Bool Arith Sorted.
From PV Require Import Model.Types Model.Sim Model.LogEdit Proofs.Base Proofs.C0708Proof Proofs.C18Proof Proofs.C18Extra Proofs.C18Dead Proofs.C18Res Proofs.C18Task.
Import ListNotations.
Open Scope nat_scope.

(* Lens c s n: every per-step log of every object has length n *)

(* both editors, for ANY list of step indices (step 0, repeated elements, steps
   already listed, steps beyond the end), keep all logs at one common length
   and set project.time to it *)
Theorem C18_insert_keeps_alignment : forall c l ab s, Lens c s (time s) ->
  let s' := snd (insert_absence c l (ab, s)) in Lens c s' (time s').
Proof. exact insert_keeps_aligned. Qed.
Print Assumptions C18_insert_keeps_alignment.

Theorem C18_remove_keeps_alignment : forall c ab s, Lens c s (time s) ->
  let s' := snd (remove_absence c (ab, s)) in Lens c s' (time s').
Proof. exact remove_keeps_aligned. Qed.
Print Assumptions C18_remove_keeps_alignment.

(* hence in any sequence of remove / insert calls *)
Inductive edit := Remove | Insert (l : list nat).
Definition apply_edit c (e : estate) (x : edit) : estate :=
  match x with Remove => remove_absence c e | Insert l => insert_absence c l e end.
Theorem C18_any_sequence : forall c (ops : list edit) ab s, Lens c s (time s) ->
  let e := fold_left (apply_edit c) ops (ab, s) in Lens c (snd e) (time (snd e)).
Proof.
  intros c ops. induction ops as [|x ops IH]; intros ab s H; cbn [fold_left]; [exact H|].
  destruct x as [|l]; cbn [apply_edit].
  - pose proof (remove_keeps_aligned c ab s H) as R. cbv zeta in R.
    destruct (remove_absence c (ab, s)) as [ab' s'] eqn:E. apply IH. exact R.
  - pose proof (insert_keeps_aligned c l ab s H) as R. cbv zeta in R.
    destruct (insert_absence c l (ab, s)) as [ab' s'] eqn:E. apply IH. exact R.
Qed.
Print Assumptions C18_any_sequence.

(* every log changes by the same number of entries (a function of the old
   length and the step list only) *)
Theorem C18_same_change_everywhere : forall c l ab s, Lens c s (time s) ->
  let s' := snd (insert_absence c l (ab, s)) in
  Lens c s' (len_ins (stable_sort nat Nat.leb (new_steps ab [] l)) (time s)).
Proof. exact insert_same_delta. Qed.
Print Assumptions C18_same_change_everywhere.

(* inserting steps into an absence-free result and removing them gives back
   every log, project.time and the empty absence list *)
Theorem C18_insert_then_remove_restores : forall c l s, Lens c s (time s) ->
  let e := remove_absence c (insert_absence c l ([], s)) in
  fst e = [] /\ time (snd e) = time s
  /\ (forall t, t < nT c -> tl (snd e) t = tl s t) /\ (forall w, w < nW c -> wl (snd e) w = wl s w)
  /\ (forall f, f < nF c -> fl (snd e) f = fl s f) /\ (forall k, k < nC c -> cl (snd e) k = cl s k)
  /\ (forall p, p < nWP c -> wpl (snd e) p = wpl s p) /\ (forall g, g < nTeam c -> teaml (snd e) g = teaml s g)
  /\ orgl (snd e) = orgl s /\ costl (snd e) = costl s.
Proof. exact insert_then_remove_restores. Qed.
Print Assumptions C18_insert_then_remove_restores.

(* an inserted step is a no-work, zero-cost step: the inserted cost entry is 0,
   the inserted remaining-work / allocation entry repeats the previous one (the
   initial value at step 0), the inserted resource state is FREE; and later
   insertions (at larger indices) do not disturb it *)
Theorem C18_inserted_entry : forall (mk : nat -> list Q -> Q) k (l : list Q), k < length l ->
  nth k (ins_one (fun _ _ => 0%Q) l k) 1%Q = 0%Q
  /\ (forall d0, nth k (ins_one (fun k l => prev d0 k l) l k) d0 = prev d0 k l).
Proof. exact inserted_step_is_dead. Qed.
Print Assumptions C18_inserted_entry.

Theorem C18_later_insertions_keep_it : forall A (mk : nat -> list A -> A) (l : list A) j k d,
  j < k -> nth j (ins_one mk l k) d = nth j l d.
Proof. intros A. exact later_insertions_keep_earlier_entries. Qed.
Print Assumptions C18_later_insertions_keep_it.

Example C18_example :
  ins_seq (fun _ _ => 0%Q) [0; 2; 9] [5; 6; 7]%Q = [0; 5; 0; 6; 7]%Q
  /\ rem_seq [0; 2; 9] (ins_seq (fun _ _ => 0%Q) [0; 2; 9] [5; 6; 7]%Q) = [5; 6; 7]%Q.
Proof. vm_compute. split; reflexivity. Qed.

(* the removal, too, changes every log by one common number of entries (a
   function of the old length and the listed steps only) *)
Theorem C18_remove_same_change_everywhere : forall c ab s, Lens c s (time s) ->
  let s' := snd (remove_absence c (ab, s)) in Lens c s' (len_rem (sorted_set ab) (time s)).
Proof. exact remove_same_delta. Qed.
Print Assumptions C18_remove_same_change_everywhere.

(* steps beyond the end of the run: a log is left as it is by both editors, and
   at project level neither project.time nor the common length changes *)
Theorem C18_steps_beyond_the_end_change_no_log : forall A (mk : nat -> list A -> A) steps (l : list A),
  (forall k, In k steps -> length l <= k) -> rem_seq steps l = l /\ ins_seq mk steps l = l.
Proof. intros A mk steps l H. split; [apply rem_seq_beyond|apply ins_seq_beyond]; exact H. Qed.
Print Assumptions C18_steps_beyond_the_end_change_no_log.

Theorem C18_remove_beyond_the_end : forall c ab s, Lens c s (time s) ->
  (forall k, In k ab -> time s <= k) ->
  let s' := snd (remove_absence c (ab, s)) in time s' = time s /\ Lens c s' (time s).
Proof. exact remove_beyond_end_keeps_time. Qed.
Print Assumptions C18_remove_beyond_the_end.

Theorem C18_insert_beyond_the_end : forall c l ab s, Lens c s (time s) ->
  (forall k, In k l -> time s <= k) ->
  let s' := snd (insert_absence c l (ab, s)) in time s' = time s /\ Lens c s' (time s).
Proof. exact insert_beyond_end_keeps_time. Qed.
Print Assumptions C18_insert_beyond_the_end.

Example C18_example_beyond :
  rem_seq [3; 9] [5; 6; 7]%Q = [5; 6; 7]%Q /\ ins_seq (fun _ _ => 0%Q) [3; 9] [5; 6; 7]%Q = [5; 6; 7]%Q
  /\ len_rem [0; 1; 7] 3 = 1.
Proof. vm_compute. repeat split. Qed.

(* after a WHOLE insertion pass (ascending duplicate-free steps, as the project
   editor builds them) every really inserted step holds a zero cost entry; at
   project level: every new step inside the run costs nothing in the project's,
   the organization's and every team's cost list *)
Theorem C18_inserted_steps_are_zero_cost : forall steps, StronglySorted lt steps -> forall (l : list Q) j,
  In j steps -> j < length l -> nth j (ins_seq (fun _ _ => 0%Q) steps l) 1%Q = 0%Q.
Proof. exact inserted_steps_are_zero_cost. Qed.
Print Assumptions C18_inserted_steps_are_zero_cost.

Theorem C18_inserted_steps_cost_nothing : forall c l ab s j, Lens c s (time s) ->
  In j (new_steps ab [] l) -> j < time s ->
  let s' := snd (insert_absence c l (ab, s)) in
  nth j (costl s') 1%Q = 0%Q /\ nth j (orgl s') 1%Q = 0%Q
  /\ (forall g, g < nTeam c -> nth j (teaml s' g) 1%Q = 0%Q).
Proof. exact inserted_steps_cost_nothing. Qed.
Print Assumptions C18_inserted_steps_cost_nothing.

(* and a dead step of every worker and facility: cost entry 0, logged state
   FREE (the value the editors of BaseWorker / BaseFacility insert) *)
Theorem C18_inserted_steps_are_dead_for_resources : forall c l ab s j, Lens c s (time s) ->
  In j (new_steps ab [] l) -> j < time s ->
  let s' := snd (insert_absence c l (ab, s)) in
  (forall w, w < nW c -> nth j (rl_cost (wl s' w)) 1%Q = 0%Q /\ nth j (rl_st (wl s' w)) RWorking = RFree)
  /\ (forall f, f < nF c -> nth j (rl_cost (fl s' f)) 1%Q = 0%Q /\ nth j (rl_st (fl s' f)) RWorking = RFree).
Proof. exact inserted_steps_are_dead_for_resources. Qed.
Print Assumptions C18_inserted_steps_are_dead_for_resources.

(* and a no-work step of every task: after the whole pass the remaining-work
   entry of a new step repeats the entry before it (the initial remaining work
   at step 0) *)
Theorem C18_inserted_steps_do_no_work : forall c l ab s j, Lens c s (time s) ->
  In j (new_steps ab [] l) -> j < time s ->
  let s' := snd (insert_absence c l (ab, s)) in
  forall t, t < nT c ->
    let d0 := (t_work c t * (1 - t_progress c t))%Q in
    nth j (l_rem (tl s' t)) d0 = prev d0 j (l_rem (tl s' t)).
Proof. exact inserted_steps_do_no_work. Qed.
Print Assumptions C18_inserted_steps_do_no_work.

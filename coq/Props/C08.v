(* C08  Every log has one entry per simulated step, equal to that step's live
   state.  Statements only; proofs in Proofs/LogsProof.v, Proofs/C0708Proof.v.

   row  = (working?, project state at the `performed` phase of a step); the
          record phase changes no live value, so this is the live state "when
          the step was recorded".
   LogsAre c h h s: every per-step log of s (task state / remaining work /
          allocations, component state / placement, worker and facility state /
          cost / assignments, team, workplace, organization and project costs,
          workplace contents) is the map of its row function over h, with the
          display rule (WORKING shown READY, resources ABSENCE) at non-working
          rows. *)
From Coq Require Import List ZArith QArith Bool Arith.
From PV Require Import Model.Types Model.Sim Model.LogEdit Model.RevLog Model.BackwardRun Model.Example Proofs.Base Proofs.RunLemmas Proofs.LogsProof Proofs.C0708Proof
  Proofs.RevLogProof Proofs.C17Run.
Import ListNotations.
Open Scope nat_scope.

(* a run with log initialisation: the logs are exactly the recorded rows of
   this run's trace, one per simulated step, and project.time is their number *)
Theorem C08_fresh_run : forall c o s, o_init_log o = true ->
  let h := perf_rows o (snd (simulate c o s)) in
  length h = time (fst (simulate c o s)) /\ LogsAre c h h (fst (simulate c o s)).
Proof. exact C08_simulate_fresh. Qed.
Print Assumptions C08_fresh_run.

(* resuming / re-running without log initialisation appends this run's rows *)
Theorem C08_continued_run : forall c o s h, o_init_log o = false ->
  length h = time s -> LogsAre c h h s ->
  let h' := h ++ perf_rows o (snd (simulate c o s)) in
  length h' = time (fst (simulate c o s)) /\ LogsAre c h' h' (fst (simulate c o s)).
Proof. exact C08_simulate_continue. Qed.
Print Assumptions C08_continued_run.

(* the alignment is preserved by any sequence of simulate / initialize calls
   with any options (all four flag combinations, any absence lists, rules,
   max_time): all logs of all objects have length project.time *)
Theorem C08_any_history : forall c (ops : list op),
  AllLengths c (fold_left (apply_op c) ops (blank c)).
Proof. exact C08_histories. Qed.
Print Assumptions C08_any_history.

(* log reversal: every log becomes the map of its row function over the
   REVERSED history (entry k of the reversed log is the value recorded at step
   n-1-k), so the alignment is preserved; live values, time, status untouched *)
Theorem C08_reverse_log : forall c hc h s ab, LogsAre c hc h s ->
  LogsAre c (rev hc) (rev h) (snd (reverse_log c (ab, s))) /\ time (snd (reverse_log c (ab, s))) = time s.
Proof. intros c hc h s ab H. split; [apply LogsAre_reverse; exact H|reflexivity]. Qed.
Print Assumptions C08_reverse_log.

(* backward simulation (inner forward run on the reversed network with the
   due-time helper tasks, then the optional log reversal): all logs of the
   project's own objects have one entry per simulated step *)
Theorem C08_backward_simulate : forall c due rv o e, o_init_log o = true ->
  AllLengths c (snd (backward_simulate c due rv o e)).
Proof. exact backward_lengths. Qed.
Print Assumptions C08_backward_simulate.

(* any sequence of simulate / initialize / reverse_log_information calls *)
Theorem C08_any_history_with_reversal : forall c (ops : list (rop)),
  AllLengths c (snd (fold_left (apply_rop c) ops ([], blank c))).
Proof. exact histories_with_reversal. Qed.
Print Assumptions C08_any_history_with_reversal.

Theorem C08_lengths_from_history : forall c h s, length h = time s -> LogsAre c h h s -> AllLengths c s.
Proof. exact LogsAre_lengths. Qed.
Print Assumptions C08_lengths_from_history.

(* the record phase does not change live values (so the row is the live state
   at record time) *)
Theorem C08_record_keeps_live : forall c o s,
  td (step_record c o s) = td s /\ wd (step_record c o s) = wd s /\ fd (step_record c o s) = fd s
  /\ cd (step_record c o s) = cd s /\ wpc (step_record c o s) = wpc s.
Proof. intros; repeat split; reflexivity. Qed.
Print Assumptions C08_record_keeps_live.

Example C08_example :
  time ex_final = 6 /\ length (perf_rows ex_opts ex_trace) = 6 /\
  map Qred (l_rem (tl ex_final 2)) = [3; 3; 3; 1; -1; 0]%Q.
Proof. vm_compute. repeat split; reflexivity. Qed.

(* C12  PERT/CPM values equal an independent critical-path computation at every update.
   Statements only; proofs in Proofs/Worklist.v, Proofs/C12Proof.v, Proofs/C12Run.v. *)
From Coq Require Import List ZArith QArith Bool Arith.
From PV Require Import Model.Types Model.Sim Model.Example Proofs.Base Proofs.RunLemmas
  Proofs.C12Proof Proofs.C12Run.
Import ListNotations.
Open Scope nat_scope.

(* fs_dag c rank: every edge is finish-to-start, input and output lists mirror
   each other and stay in range, and [rank] numbers the tasks topologically
   (rank u < rank v along every edge, rank < nT): acyclicity, any shape, any
   number of heads and tails.

   The independent critical-path computation is given by its recurrences,
   which determine every value on a DAG (induction along rank):
     ES = t           for a task without predecessors
     ES = max EF(u)   over the predecessors u   (>= all of them, = one of them)
     EF = ES + remaining work
     CPL = max EF     (>= EF of every task, = EF of a task without successors)
     LF = CPL         for a task without successors
     LF = min LS(o)   over the successors o     (<= all of them, = one of them)
     LS = LF - remaining work
   so ES = t + the longest chain of remaining work among the predecessors. *)

(* after ANY update_PERT_data(t) on ANY state with non-negative remaining work
   -- freshly initialised or after any sequence of progress updates *)
Theorem C12_update_pert_is_cpm : forall c rank, fs_dag c rank -> 0 < nT c ->
  forall (tm : nat) (s : pstate), (forall v, v < nT c -> (0 <= rem (td s v))%Q) ->
  let t0 := inject_nat tm in
  let s' := update_pert c tm s in
  let ES v := est (td s' v) in let EF v := eft (td s' v) in
  let LS v := lst (td s' v) in let LF v := lft (td s' v) in
  let W v := rem (td s' v) in
  (forall v, rem (td s' v) = rem (td s v) /\ st (td s' v) = st (td s v))
  /\ (forall v, v < nT c -> (EF v == ES v + W v)%Q /\ (t0 <= ES v)%Q)
  /\ (forall v, v < nT c -> t_inputs c v = [] -> (ES v == t0)%Q)
  /\ (forall v u, v < nT c -> In (u, FS) (t_inputs c v) -> (EF u <= ES v)%Q)
  /\ (forall v, v < nT c -> t_inputs c v <> [] -> exists u, In (u, FS) (t_inputs c v) /\ (ES v == EF u)%Q)
  /\ (forall v, v < nT c -> (EF v <= cpl s')%Q)
  /\ (exists t, t < nT c /\ t_outputs c t = [] /\ (cpl s' == EF t)%Q)
  /\ (forall v, v < nT c -> (LS v == LF v - W v)%Q /\ (ES v <= LS v)%Q)
  /\ (forall v, v < nT c -> t_outputs c v = [] -> (LF v == cpl s')%Q)
  /\ (forall v o, v < nT c -> In (o, FS) (t_outputs c v) -> (LF v <= LS o)%Q)
  /\ (forall v, v < nT c -> t_outputs c v <> [] -> exists o, In (o, FS) (t_outputs c v) /\ (LF v == LS o)%Q).
Proof. intros c rank D Hn tm s H. exact (update_pert_correct c rank D tm s Hn H). Qed.
Print Assumptions C12_update_pert_is_cpm.

(* slack is never negative; it is zero at the task that defines the critical
   path length, and from every zero-slack task one can step back to a
   zero-slack predecessor finishing exactly at its start: a critical path *)
Theorem C12_slack : forall c rank, fs_dag c rank -> 0 < nT c ->
  forall (tm : nat) (s : pstate), (forall v, v < nT c -> (0 <= rem (td s v))%Q) ->
  let s' := update_pert c tm s in
  (forall v, v < nT c -> (est (td s' v) <= lst (td s' v))%Q)
  /\ (exists t, t < nT c /\ t_outputs c t = [] /\ (lst (td s' t) == est (td s' t))%Q /\ (eft (td s' t) == cpl s')%Q)
  /\ (forall v, v < nT c -> t_inputs c v <> [] -> (lst (td s' v) == est (td s' v))%Q ->
        exists u, In (u, FS) (t_inputs c v) /\ (eft (td s' u) == est (td s' v))%Q /\ (lst (td s' u) == est (td s' u))%Q).
Proof. intros c rank D Hn tm s H. exact (zero_slack_chain c rank D tm s Hn H). Qed.
Print Assumptions C12_slack.

(* at every later step of a simulation: in every `updated` snapshot of every
   freshly initialised run (any options, any resources) the recurrences hold
   with t = the time of the snapshot; PertOK c t s' is the conjunction above
   without the frame clause.  Non-negative remaining work is not assumed here:
   it is an invariant of the run (C12Run.NN). *)
Theorem C12_at_every_step : forall c rank, fs_dag c rank -> 0 < nT c ->
  (forall t, t < nT c -> (0 <= t_work c t)%Q /\ (0 <= t_progress c t <= 1)%Q) ->
  forall o s, o_init_state o = true ->
  Forall (fun ob : obs => snd (fst ob) = PUpdated -> PertOK c (inject_nat (time (snd ob))) (snd ob))
         (snd (simulate c o s)).
Proof. intros c rank D Hn Hw o s Hs. exact (pert_in_every_update c rank D Hn Hw o s Hs). Qed.
Print Assumptions C12_at_every_step.

(* the frontier iteration behind both passes ends before its fuel is used up
   on every ranked graph, has then processed every node reachable from the
   first frontier, and every edge leaving a processed node is satisfied *)
Theorem C12_frontier_iteration : forall (St : Type) (succs : nat -> list (nat * dep)) (step : St -> nat -> nat * dep -> St)
  (rank : nat -> nat) (N : nat),
  (forall u e, In e (succs u) -> rank u < rank (fst e) /\ rank (fst e) < N) ->
  forall (Good : St -> Prop) (Ready : St -> nat -> Prop) (Sat : St -> nat -> nat * dep -> Prop),
  (forall s u e, In e (succs u) -> Good s -> Ready s u -> Good (step s u e)) ->
  (forall s u e, In e (succs u) -> Good s -> Ready s u -> Ready (step s u e) (fst e)) ->
  (forall s u e x, In e (succs u) -> Good s -> Ready s u -> Ready s x -> Ready (step s u e) x) ->
  (forall s u e, In e (succs u) -> Good s -> Ready s u -> Sat (step s u e) u e) ->
  (forall s u e u' e', In e (succs u) -> In e' (succs u') -> Good s -> Ready s u -> Sat s u' e' -> fst e <> u' -> Sat (step s u e) u' e') ->
  forall fuel s front, Good s -> (forall x, In x front -> Ready s x /\ rank x < N) -> N <= fuel ->
  exists P, incl front P /\ Good (Worklist.loop St succs step fuel s front)
  /\ (forall u, In u P -> Ready (Worklist.loop St succs step fuel s front) u)
  /\ forall u, In u P -> forall e, In e (succs u) -> In (fst e) P /\ Sat (Worklist.loop St succs step fuel s front) u e.
Proof. exact Worklist.loop_result. Qed.
Print Assumptions C12_frontier_iteration.

(* non-vacuity: the FS diamond 0 -> {1,2} -> 3 with work 2, 1, 3, 1 is an
   fs_dag; at time 0: ES = 0,2,2,5  EF = 2,3,5,6  LS = 0,4,2,5  LF = 2,5,5,6,
   critical path 0-2-3 of length 6 *)
Example C12_example :
  fs_dag ex_fs_cfg (fun v => v)
  /\ map (fun v => (est (td ex_fs_init v), eft (td ex_fs_init v), lst (td ex_fs_init v), lft (td ex_fs_init v))) [0; 1; 2; 3]
     = [(0, 2, 0, 2); (2, 3, 4, 5); (2, 5, 2, 5); (5, 6, 5, 6)]%Q
  /\ cpl ex_fs_init = 6%Q.
Proof.
  split; [|vm_compute; split; reflexivity].
  constructor.
  - intros u e. destruct u as [|[|[|u]]]; cbn; intuition (subst; reflexivity).
  - intros u v k. destruct u as [|[|[|[|u]]]]; destruct v as [|[|[|[|v]]]]; cbn; intuition congruence.
  - intros u e. destruct u as [|[|[|u]]]; cbn; intuition (subst; cbn; auto with arith).
  - intros v e. destruct v as [|[|[|[|v]]]]; cbn; intuition (subst; cbn; auto with arith).
  - intros u e. destruct u as [|[|[|u]]]; cbn; intuition (subst; cbn; auto with arith).
  - intros v Hv. exact Hv.
Qed.

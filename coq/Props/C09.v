(* C09  Simulation results are reproducible and independent of object identity.
   Statements only; proofs in Proofs/C09Proof.v.
   The model is a pure function of (configuration, options, incoming state):
   object identity, memory addresses and hash seeds do not exist in it; what
   those could influence in the code is the visit order of the unordered
   collections it iterates over, and hidden state left in the project object.
   Axiom used (Coq standard library): functional_extensionality_dep, to state
   the order-independence results as equalities of project states.
   Every set the loop iterates over (finished top-level components, NONE
   tasks, the target set of __check_working) may be visited in any order.
   PARTIAL: fresh processes / other hash seeds / shifted heaps live in the
   Python runtime and are exercised by the harness. *)
From Coq Require Import List ZArith QArith Bool Arith Permutation.
From PV Require Import Model.Types Model.Sim Model.Example Proofs.Base Proofs.RunLemmas Proofs.C09Proof Proofs.C09CW.
Import ListNotations.
Open Scope nat_scope.

(* a run with state and log initialisation does not depend on the incoming
   project state at all: no hidden state survives into a later run *)
Theorem C09_no_hidden_state : forall c o s s',
  o_init_state o = true -> o_init_log o = true -> simulate c o s = simulate c o s'.
Proof. exact simulate_independent_of_incoming_state. Qed.
Print Assumptions C09_no_hidden_state.

(* calling simulate() again on an already simulated project gives exactly the
   same logs, times, costs and status *)
Theorem C09_simulate_again : forall c o s,
  o_init_state o = true -> o_init_log o = true ->
  simulate c o (fst (simulate c o s)) = simulate c o s.
Proof. exact simulate_again_same_result. Qed.
Print Assumptions C09_simulate_again.

(* the set of finished top-level components may be visited in any order *)
Theorem C09_component_set_order : forall c cr cr' s,
  Permutation cr cr' -> check_removing c cr s = check_removing c cr' s.
Proof. exact check_removing_order_independent. Qed.
Print Assumptions C09_component_set_order.

(* the set of NONE tasks may be visited in any order: promoting them one after
   the other gives the model's simultaneous result *)
Theorem C09_none_task_set_order : forall c s order,
  NoDup order -> (forall t, In t order <-> (t < nT c /\ st (td s t) = TNone)) ->
  forall i, td (fold_left (ready_one c) order s) i = td (check_ready c s) i.
Proof. exact check_ready_any_order. Qed.
Print Assumptions C09_none_task_set_order.

(* the target set of __check_working (READY tasks with workers, READY automatic
   tasks that may start, WORKING tasks with workers) may be visited in any
   order: the visits commute pairwise, whatever the state (no exclusivity of
   workers needed) *)
Theorem C09_check_working_set_order : forall c s order,
  Permutation order (filter (cw_target c s) (tasks c)) -> fold_left (cw_one c) order s = check_working c s.
Proof. exact check_working_any_order. Qed.
Print Assumptions C09_check_working_set_order.

(* finishing (a fixpoint over the ordered task list) and the two PERT passes
   (ordered work lists) iterate over lists in the repaired code: the model has
   no order parameter for them *)
Example C09_example :
  fst (simulate ex_cfg ex_opts ex_final) = ex_final.
Proof. unfold ex_final. rewrite C09_simulate_again; reflexivity. Qed.

(* C14  A component's state is determined by the states of its tasks.
   Statements only; proofs in Proofs/C14Proof.v. *)
From Coq Require Import List ZArith QArith Bool Arith.
From PV Require Import Model.Types Model.Sim Model.Example Proofs.Base Proofs.RunLemmas Proofs.C01Proof Proofs.C14Proof.
Import ListNotations.
Open Scope nat_scope.

(* CompOK c s k:
     component k is FINISHED  <->  all of its tasks are FINISHED (vacuously for a task-less component)
     some task WORKING         ->  the component is WORKING
     some task READY/WORKING   ->  the component is not NONE                                   *)
Theorem C14_state_determined_by_tasks : forall c o s,
  (o_init_state o = true \/ COK c s) ->
  Forall (fun ob : obs => forall k, k < nC c -> CompOK c (snd ob) k) (snd (simulate c o s)).
Proof. exact C14_component_state. Qed.
Print Assumptions C14_state_determined_by_tasks.

(* never returns to NONE, never leaves FINISHED: between any two consecutive
   snapshots of a run *)
Theorem C14_never_back : forall c o tr, consecutive c o tr ->
  forall i a b, nth_error tr i = Some a -> nth_error tr (S i) = Some b -> COK c (snd a) ->
  forall k, k < nC c ->
    (cst (cd (snd a) k) <> CNone -> cst (cd (snd b) k) <> CNone) /\
    (cst (cd (snd a) k) = CFinished -> cst (cd (snd b) k) = CFinished).
Proof. exact C14_monotone. Qed.
Print Assumptions C14_never_back.

(* the one-component decision function: BaseComponent.check_state applied to
   a state in which FINISHED components have only FINISHED tasks *)
Theorem C14_check_state : forall c s k,
  (cst (cd s k) = CFinished -> forallb is_fin (ctask_states c s k) = true) ->
  let r := comp_check c s k in
  (r = CFinished <-> forallb is_fin (ctask_states c s k) = true)
  /\ (existsb is_working (ctask_states c s k) = true -> r = CWorking)
  /\ (existsb rw (ctask_states c s k) = true -> r <> CNone)
  /\ (r = CNone -> cst (cd s k) = CNone)
  /\ (cst (cd s k) = CFinished -> r = CFinished).
Proof. exact comp_check_ok. Qed.
Print Assumptions C14_check_state.

(* the log entry is the displayed live state *)
Theorem C14_logged_state : forall c o s k, k < nC c ->
  cl_st (cl (step_record c o s) k) =
  cl_st (cl s k) ++ [disp_c (negb (mem (time s) (o_abs o))) (cst (cd s k))].
Proof.
  intros c o s k Hk. unfold step_record, record. cbn [cl]. rewrite tab_spec.
  apply Nat.ltb_lt in Hk. rewrite Hk. reflexivity.
Qed.
Print Assumptions C14_logged_state.

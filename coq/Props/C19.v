(* C19  Gantt data, state queries and dates report exactly what the logs contain.
   Only theorem statements closed by [exact]; proofs live in Proofs/GanttProof.v. *)
From Coq Require Import List ZArith QArith Bool.
From PV Require Import Model.Gantt Proofs.GanttProof.
Import ListNotations.

(* The intervals returned for tasks are the maximal READY / WORKING runs:
   (start index, run length - 1 + finish margin), in order -- for every state
   sequence over the full enum (not only reachable ones) and every margin. *)
Theorem C19_task_gantt_is_rle : forall (l : list tstate) (m : Q),
  gantt_task l m = (runs_state tstate_eqb TReady l m, runs_state tstate_eqb TWorking l m).
Proof. exact gantt_task_is_rle. Qed.
Print Assumptions C19_task_gantt_is_rle.

Theorem C19_component_gantt_is_rle : forall (l : list cstate) (m : Q),
  gantt_component l m = (runs_state cstate_eqb CReady l m, runs_state cstate_eqb CWorking l m).
Proof. exact gantt_component_is_rle. Qed.
Print Assumptions C19_component_gantt_is_rle.

Theorem C19_resource_gantt_is_rle : forall (l : list rstate) (m : Q),
  gantt_resource l m =
  (runs_state rstate_eqb RFree l m, runs_state rstate_eqb RWorking l m,
   runs_state rstate_eqb RAbsence l m).
Proof. exact gantt_resource_is_rle. Qed.
Print Assumptions C19_resource_gantt_is_rle.

(* [groups] really is the decomposition into maximal runs: concatenating the
   runs gives back the log, runs are non-empty and contiguous from index 0,
   and neighbouring runs have different states. *)
Theorem C19_runs_cover : forall A eqb, (forall a b : A, eqb a b = true <-> a = b) ->
  forall l, expand A (groups A eqb l) = l.
Proof. exact groups_expand. Qed.
Print Assumptions C19_runs_cover.

Theorem C19_runs_maximal : forall A (eqb : A -> A -> bool),
  forall l, well_formed A eqb 0 None (groups A eqb l).
Proof. exact groups_wf. Qed.
Print Assumptions C19_runs_maximal.

(* extract_<state>_list: exactly the objects whose log shows the state at all
   requested times *)
Theorem C19_extract : forall A eqb, (forall a b : A, eqb a b = true <-> a = b) ->
  forall (logs : list (list A)) target times k,
  In k (extract A eqb logs target times) <->
  (exists lg, nth_error logs k = Some lg /\
              forall t, In t times -> (t < length lg)%nat /\ nth_error lg t = Some target).
Proof. exact extract_spec. Qed.
Print Assumptions C19_extract.

(* chart rows: index k -> init + k * unit; whole-step lengths end where the
   row of index from+n starts *)
Theorem C19_row_start : forall init unit_s k, row_start init unit_s k = (init + k * unit_s)%Z.
Proof. exact row_start_spec. Qed.
Print Assumptions C19_row_start.

Theorem C19_row_finish : forall init unit_s from n,
  row_finish init unit_s from (inject_Z n) = row_start init unit_s (from + n)%Z.
Proof. exact row_finish_integral. Qed.
Print Assumptions C19_row_finish.

(* set_last_datetime: the last simulated step falls on the given date *)
Theorem C19_last_datetime : forall last unit_s time,
  row_start (set_last_datetime last unit_s time) unit_s (time - 1)%Z = last.
Proof. exact set_last_datetime_spec. Qed.
Print Assumptions C19_last_datetime.

(* non-vacuity: a sequence using every task state, with a run that the
   pre-repair encoder dropped (READY followed by WORKING_ADDITIONALLY) *)
Example C19_example :
  gantt_task [TNone; TReady; TReady; TWorkingAdd; TWorking; TWorking; TReady; TFinished] 1
  = ([(1%Z, 2#1); (6%Z, 1#1)], [(4%Z, 2#1)]).
Proof. vm_compute. reflexivity. Qed.

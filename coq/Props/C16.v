(* C16  Saving to JSON and loading restores everything that was saved.
   Statements only; proofs in Proofs/C16Proof.v.  Gen/Schema.v is regenerated
   from the Python sources on every run. *)
From Coq Require Import List String Bool.
From PV Require Import Model.JsonSchema Model.JsonConcrete Proofs.C16Proof Gen.Schema.
Import ListNotations.
Open Scope string_scope.

(* constructor parameters that are not model settings of the base simulation:
   the back references to the owning workflow / product (re-created by the
   container), the additional-work bookkeeping of derived simulators
   (WORKING_ADDITIONALLY is never produced by the base simulation, see C01),
   and the quality / error bookkeeping "for customized simulation": written by
   perform() but read by no base-class method *)
Definition exempt : list string :=
  ["parent_workflow"; "parent_product"; "additional_work_amount"; "additional_task_flag"; "actual_work_amount";
   "quality_skill_mean_map"; "quality_skill_sd_map"; "error_tolerance"; "error"].

(* the generated schema of the current source is well formed: for every class,
   every exported key is read back into the constructor parameter that is
   stored in the exported attribute, through a conversion (and relinking) that
   undoes the export; every constructor parameter outside [exempt] is read from
   the file; every key that is read is written *)
Theorem C16_schema_of_current_source :
  forallb (fun c => schema_ok c && ctor_saved exempt c && imports_exported c) all_classes = true.
Proof. vm_compute. reflexivity. Qed.
Print Assumptions C16_schema_of_current_source.

(* (a) for every class of the current source, whatever the conversions are,
   as long as each compatible reader/writer pair satisfies
   write (read (write v)) = write v:  export (import (export o)) = export o *)
Theorem C16_roundtrip : forall (V J : Type) (out : okind -> V -> J) (inn : ikind -> lkind -> option J -> V),
  (forall ko ki l v, compatible ko ki l = true -> out ko (inn ki l (Some (out ko v))) = out ko v) ->
  forall c, In c all_classes -> forall o dflt : obj V,
  export V J out c (import V J inn c (export V J out c o) dflt) = export V J out c o.
Proof.
  intros V J out inn law c Hin o dflt. apply roundtrip; [exact law|].
  pose proof C16_schema_of_current_source as H. rewrite forallb_forall in H. specialize (H c Hin).
  apply andb_true_iff in H. destruct H as [H _]. apply andb_true_iff in H. apply H.
Qed.
Print Assumptions C16_roundtrip.

(* the hypothesis is met by the conversions the shapes stand for (Model/
   JsonConcrete.v: JSON values, attribute values with enum members, object
   references, timedeltas, datetimes with microseconds, nested objects; int(),
   float(), x.ID, str(total_seconds()), strftime and their readers, ID lookup
   in the project being read -- including the lossy ones and ill-typed
   attribute values): for every class of the current source and every object,
   writing what was read from what was written gives the same document *)
Theorem C16_roundtrip_concrete : forall (env : string -> nat) c, In c all_classes -> forall o dflt : obj av,
  export av jv out c (import av jv (inn env) c (export av jv out c o) dflt) = export av jv out c o.
Proof. intros env c Hin o dflt. apply (C16_roundtrip av jv out (inn env) (law env) c Hin). Qed.
Print Assumptions C16_roundtrip_concrete.

(* (d) every constructor parameter of every saved class is part of the format *)
Theorem C16_constructor_parameters_saved : forall c, In c all_classes ->
  forall p, In p (c_params c) ->
  In p exempt \/ exists k ki a ko, import_of p (c_imports c) = Some (k, ki) /\ In (k, a, ko) (c_exports c).
Proof.
  intros c Hin p Hp.
  pose proof C16_schema_of_current_source as H. rewrite forallb_forall in H. specialize (H c Hin).
  apply andb_true_iff in H. destruct H as [H H3]. apply andb_true_iff in H. destruct H as [_ H2].
  destruct (ctor_saved_spec exempt c H2 p Hp) as [He|(k & ki & E)]; [left; exact He|right].
  assert (Hi : In (p, k, ki) (c_imports c)).
  { clear -E. induction (c_imports c) as [|[[p' k'] ki'] r IH]; [discriminate|]. cbn in E.
    destruct (String.eqb p p') eqn:Ep; [apply String.eqb_eq in Ep; injection E as -> ->; subst; left; reflexivity|right; apply IH; exact E]. }
  destruct (imports_exported_spec c H3 p k ki Hi) as (a & ko & Hex).
  exists k, ki, a, ko. split; assumption.
Qed.
Print Assumptions C16_constructor_parameters_saved.

(* non-vacuity: the schema has the eleven saved classes, and the task class
   carries the three priority rules, a relinked dependency list and a nested
   record list *)
Example C16_example :
  List.length all_classes = 11
  /\ In ("worker_priority_rule", "worker_priority_rule", OInt) (c_exports cls_BaseTask)
  /\ In ("input_task_list", "input_task_list", OListIdDep) (c_exports cls_BaseTask)
  /\ relink_of cls_BaseTask "input_task_list" = LListIdDep
  /\ In ("unit_timedelta", "unit_timedelta", OSecondsStr) (c_exports cls_BaseSubProjectTask)
  /\ In ("task_list", "task_list", ONested) (c_exports cls_BaseWorkflow).
Proof. vm_compute. repeat split; auto 40. Qed.

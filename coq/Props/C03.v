(* C03  Resource allocation is exclusive and two-way consistent at every step.
   Statements only; proofs in Proofs/AllocInv.v (structure) and
   Proofs/C03Res.v (worker / facility states). *)
From Coq Require Import List ZArith QArith Bool Arith.
From PV Require Import Model.Types Model.Sim Model.Example Proofs.Base Proofs.RunLemmas Proofs.C01Proof
  Proofs.AllocInv Proofs.LogsProof Proofs.C03Res.
Import ListNotations.
Open Scope nat_scope.

(* Configuration well-formedness used below (guaranteed by the way the object
   graph is built): worker ids listed in teams are in range and each worker is
   listed once; facility ids listed in workplaces are in range, once per
   workplace. *)
Definition wf_resources (c : cfg) : Prop :=
  (forall w, In w (all_workers c) -> w < nW c) /\ NoDup (all_workers c) /\
  (forall p f, In f (wp_facs c p) -> f < nF c) /\ (forall p, NoDup (wp_facs c p)).

(* (a),(b),(c): AInv c s =
     a task lists a worker / facility  <->  that worker / facility lists the task
     every worker and facility is assigned to at most one task; no duplicates in a task's lists
     only READY / WORKING tasks hold resources; tasks that need no facility hold none
   in every observer snapshot and in the returned state of every run *)
Theorem C03_exclusive_and_consistent : forall c, wf_resources c -> forall o s,
  (o_init_state o = true \/ AInv c s) ->
  Forall (fun ob : obs => AInv c (snd ob)) (snd (simulate c o s)) /\ AInv c (fst (simulate c o s)).
Proof. intros c (H1 & H2 & H3 & H4) o s. apply AInv_all_runs; assumption. Qed.
Print Assumptions C03_exclusive_and_consistent.

(* (d): in every `allocated`, `performed` and `recorded` snapshot of every run
   the state of each worker and facility is  Rexp working k absences x :
     ABSENCE  if step k is a project-wide absence step or k is in the
              resource's own absence list,
     otherwise WORKING if it holds a task and FREE if it holds none
   (C03_Rexp_spec spells out the two "exactly when" clauses).  At `updated`
   snapshots the states are those of the previous step except for the resources
   released by finished tasks (C03_release_on_finish). *)
Theorem C03_resource_states : forall c, wf_resources c -> forall o s, o_init_state o = true ->
  Forall (fun ob : obs => match snd (fst ob) with
                          | PUpdated => True
                          | _ => let x := snd ob in let working := negb (mem (time x) (o_abs o)) in
                                 (forall w, w < nW c -> rst (wd x w) = Rexp working (time x) (w_abs c w) (wd x w))
                                 /\ (forall f, f < nF c -> rst (fd x f) = Rexp working (time x) (f_abs c f) (fd x f))
                          end)
         (snd (simulate c o s)).
Proof. intros c (H1 & H2 & H3 & _) o s Hs. exact (resources_all_runs c H1 H2 H3 o s Hs). Qed.
Print Assumptions C03_resource_states.

Theorem C03_Rexp_spec : forall working k abs x,
  (Rexp working k abs x = RAbsence <-> (working = false \/ mem k abs = true))
  /\ (Rexp working k abs x = RWorking <-> (working = true /\ mem k abs = false /\ asg x <> []))
  /\ (Rexp working k abs x = RFree <-> (working = true /\ mem k abs = false /\ asg x = [])).
Proof.
  intros working k abs x. unfold Rexp.
  destruct working, (mem k abs), (asg x); cbn; repeat split; intros; try tauto; try discriminate;
    try (destruct H as [H|H]; discriminate); try (destruct H as (A & B & D); try discriminate; congruence); auto.
Qed.

(* (e): everything a task held is released when it becomes FINISHED: after
   finishing task t, t lists nothing, the workers and facilities it held are
   FREE and hold nothing, and (by two-way consistency) nobody lists t *)
Theorem C03_release_on_finish : forall c s t, AInv c s -> t < nT c ->
  let s' := finish_task c s t in
  aw (td s' t) = [] /\ af (td s' t) = []
  /\ (forall w, In w (aw (td s t)) -> wd s' w = mkRL RFree [])
  /\ (forall f, In f (af (td s t)) -> fd s' f = mkRL RFree [])
  /\ (forall w, ~ In w (aw (td s t)) -> wd s' w = wd s w)
  /\ (forall f, ~ In f (af (td s t)) -> fd s' f = fd s f).
Proof.
  intros c s t H Ht. cbv zeta.
  destruct (finish_task_fields c s t H Ht) as (Eaw & Eaf & Ewd & Efd).
  repeat split.
  - rewrite Eaw, Nat.eqb_refl. reflexivity.
  - rewrite Eaf, Nat.eqb_refl. reflexivity.
  - intros w Hin. rewrite Ewd. apply mem_In in Hin. rewrite Hin. reflexivity.
  - intros f Hin. rewrite Efd. apply mem_In in Hin. rewrite Hin. reflexivity.
  - intros w Hn. rewrite Ewd. destruct (mem w (aw (td s t))) eqn:E; [apply mem_In in E; contradiction|reflexivity].
  - intros f Hn. rewrite Efd. destruct (mem f (af (td s t))) eqn:E; [apply mem_In in E; contradiction|reflexivity].
Qed.
Print Assumptions C03_release_on_finish.

(* (f): the id logs are the live lists at record time *)
Theorem C03_logged_allocations : forall c h s, LogsAre c h h s ->
  (forall t, t < nT c -> l_aw (tl s t) = map (fun r : row => aw (td (snd r) t)) h
                      /\ l_af (tl s t) = map (fun r : row => af (td (snd r) t)) h)
  /\ (forall w, w < nW c -> rl_asg (wl s w) = map (fun r : row => asg (wd (snd r) w)) h)
  /\ (forall f, f < nF c -> rl_asg (fl s f) = map (fun r : row => asg (fd (snd r) f)) h).
Proof.
  intros c h s (H1 & H2 & H3 & _). repeat split.
  - rewrite (H1 t H). reflexivity.
  - rewrite (H1 t H). reflexivity.
  - intros w Hw. rewrite (H2 w Hw). reflexivity.
  - intros f Hf. rewrite (H3 f Hf). reflexivity.
Qed.
Print Assumptions C03_logged_allocations.

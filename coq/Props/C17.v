(* C17  Backward simulation leaves the model intact and respects dependencies.
   Statements only; proofs in Proofs/C17Proof.v, Proofs/LogOrder.v, Proofs/C09Proof.v. *)
From Coq Require Import List ZArith QArith Bool Arith Permutation.
From PV Require Import Model.Types Model.Sim Model.LogEdit Model.RevLog Model.Backward Model.BackwardRun Model.Example Proofs.Base Proofs.C01Proof
  Proofs.LogOrder Proofs.C17Proof Proofs.C09Proof Proofs.C0708Proof Proofs.C17Run.
Import ListNotations.
Open Scope nat_scope.

(* graph_ok g fresh: no task is listed twice in workflow.task_list, listed
   tasks are numbered below [fresh], and the numbers from [fresh] on denote
   new objects (empty dependency lists): the helper tasks get these numbers.

   (a),(b): after the finally-block -- reached both when the inner run returns
   and when it raises at any step; the model's [crashed] flag is provably
   irrelevant -- the task list, every input list, every output list of a
   non-helper task and every workplace list is what it was before the call,
   element for element and in the same order; no helper is left in the list
   (g_list is restored exactly).  The helpers are removed in ANY order [l]
   (the implementation iterates over a set of helper objects). *)
Theorem C17_structure_restored : forall nwp consider_due due fresh g, graph_ok g fresh ->
  let g1 := fst (backward_prepare nwp consider_due due fresh g) in
  let hs := snd (backward_prepare nwp consider_due due fresh g) in
  forall l, Permutation l hs ->
  let g' := backward_finally nwp l g1 in
  g_list g' = g_list g
  /\ (forall t, g_in g' t = g_in g t)
  /\ (forall t, t < fresh -> g_out g' t = g_out g t)
  /\ (forall p, g_wpin g' p = g_wpin g p) /\ (forall p, g_wpout g' p = g_wpout g p).
Proof. exact backward_restores. Qed.
Print Assumptions C17_structure_restored.

Theorem C17_crash_irrelevant : forall nwp cd due fresh g,
  backward_structure nwp cd due fresh true g = backward_structure nwp cd due fresh false g.
Proof. exact backward_structure_crash_irrelevant. Qed.
Print Assumptions C17_crash_irrelevant.

(* (c): with the structure (hence the configuration c) restored, a later
   forward simulate does not depend on the state the backward run left behind:
   it equals the forward simulate from any other incoming state *)
Theorem C17_forward_unaffected : forall c o s_after_backward s_never_backward,
  o_init_state o = true -> o_init_log o = true ->
  simulate c o s_after_backward = simulate c o s_never_backward.
Proof. intros c o s1 s2 H1 H2. apply simulate_independent_of_incoming_state; assumption. Qed.
Print Assumptions C17_forward_unaffected.

(* (d): the inner run is a forward run on the reversed configuration, in which
   a finish-to-start predecessor p of i (original direction) is a successor of
   i.  In the logs of ANY run: along an FS edge i -> p the successor p is never
   logged WORKING at or before a step at which i is logged WORKING ... *)
Theorem C17_inner_run_order : forall c o s,
  (o_init_state o = true \/ Inv c s) -> o_init_log o = true ->
  let sf := fst (simulate c o s) in
  forall p i, p < nT c -> i < nT c -> In (i, FS) (t_inputs c p) ->
  forall j k, nth_error (l_st (tl sf p)) j = Some TWorking -> nth_error (l_st (tl sf i)) k = Some TWorking -> k < j.
Proof. exact fs_log_order. Qed.
Print Assumptions C17_inner_run_order.

(* ... the reversed configuration has exactly the reversed edges ... *)
Theorem C17_reversed_edges : forall c t, t_inputs (rev_cfg c) t = t_outputs c t /\ t_outputs (rev_cfg c) t = t_inputs c t.
Proof. intros; split; reflexivity. Qed.

(* ... and reversing two logs of equal length (one entry per step) swaps the
   order: in the time-reversed logs p (the original predecessor) is logged
   WORKING only strictly before i *)
Theorem C17_reversed_log_order : forall (lp li : list tstate), length lp = length li ->
  (forall j k, nth_error lp j = Some TWorking -> nth_error li k = Some TWorking -> k < j) ->
  forall j k, nth_error (rev lp) j = Some TWorking -> nth_error (rev li) k = Some TWorking -> j < k.
Proof. intros lp li. apply order_reversed. Qed.
Print Assumptions C17_reversed_log_order.

(* (d) for the model of the whole call (Model/BackwardRun.v: inner run on the
   reversed configuration extended by the helper tasks, then the log reversal):
   in the time-reversed logs of a backward run an FS predecessor p of i is
   logged WORKING only at steps strictly before the steps at which i is logged
   WORKING, and every log of the project's own objects has one entry per step *)
Theorem C17_backward_run_order : forall c due o e p i, o_init_state o = true -> o_init_log o = true ->
  p < nT c -> i < nT c -> In (i, FS) (t_outputs c p) ->
  let r := snd (backward_simulate c due true o e) in
  forall j k, nth_error (l_st (tl r p)) j = Some TWorking -> nth_error (l_st (tl r i)) k = Some TWorking -> j < k.
Proof. exact backward_fs_order. Qed.
Print Assumptions C17_backward_run_order.

Theorem C17_backward_run_lengths : forall c due rv o e, o_init_log o = true ->
  AllLengths c (snd (backward_simulate c due rv o e)).
Proof. exact backward_lengths. Qed.
Print Assumptions C17_backward_run_lengths.

(* ... hence for every link of a configuration whose input lists are mirrored
   in the output lists (what append_input_task / extend_input_task_list build) *)
Theorem C17_backward_run_order_for_mirrored_links : forall c due o e p i, o_init_state o = true -> o_init_log o = true ->
  p < nT c -> i < nT c -> In (p, FS) (t_inputs c i) ->
  (forall u v k, In (u, k) (t_inputs c v) -> In (v, k) (t_outputs c u)) ->
  let r := snd (backward_simulate c due true o e) in
  forall j k, nth_error (l_st (tl r p)) j = Some TWorking -> nth_error (l_st (tl r i)) k = Some TWorking -> j < k.
Proof.
  intros c due o e p i Hs Hl Hp Hi Hin Hm. apply (backward_fs_order c due o e p i Hs Hl Hp Hi). apply Hm. exact Hin.
Qed.
Print Assumptions C17_backward_run_order_for_mirrored_links.

(* The order theorem speaks of links recorded in the predecessor's OUTPUT list
   (the list the reversed run gates on).  For a link that is declared in the
   successor's input list only -- what BaseTask(input_task_list=[[p, FS]])
   builds -- the statement is false: the forward run respects the link (task 1
   starts when task 0 is FINISHED), the backward run does not see it and logs
   both tasks WORKING at step 0.  Recorded finding C17/order-onesided; the
   implementation behaves the same on corpus/C17/onesided_link.json. *)
Theorem C17_backward_order_refuted_for_input_only_links :
  exists c o p i, In (p, FS) (t_inputs c i) /\ t_outputs c p = []
    /\ l_st (tl (fst (simulate c o (blank c))) p) = [TWorking; TWorking; TFinished; TFinished]
    /\ l_st (tl (fst (simulate c o (blank c))) i) = [TNone; TNone; TWorking; TWorking]
    /\ let r := snd (backward_simulate c false true o ([], blank c)) in
       exists j k, nth_error (l_st (tl r p)) j = Some TWorking /\ nth_error (l_st (tl r i)) k = Some TWorking /\ ~ j < k.
Proof.
  exists ex_one_cfg, ex_ff_opts, 0, 1. split; [left; reflexivity|]. split; [reflexivity|].
  split; [vm_compute; reflexivity|]. split; [vm_compute; reflexivity|].
  exists 0, 0. split; [vm_compute; reflexivity|]. split; [vm_compute; reflexivity|]. apply Nat.lt_irrefl.
Qed.
Print Assumptions C17_backward_order_refuted_for_input_only_links.

(* non-vacuity: a chain 0 -> 1 -> 2 with due times making task 0's reversed
   image a tail that needs a helper: two tails after reversal would need two
   sinks; use a fork 0 -> 1, 0 -> 2 (reversed: tails 1 and 2) with due 3 and 7 *)
Definition ex_g : gstate :=
  mkG [0; 1; 2]
      (fun t => match t with 1 => [(0, FS)] | 2 => [(0, SS)] | _ => [] end)
      (fun t => match t with 0 => [(1, FS); (2, SS)] | _ => [] end)
      (fun p => match p with 1 => [0] | _ => [] end)
      (fun p => match p with 0 => [1] | _ => [] end).
Definition ex_due (t : nat) : Z := match t with 1 => 3%Z | 2 => 7%Z | _ => (-1)%Z end.
Example C17_example :
  graph_ok ex_g 3
  /\ snd (backward_prepare 2 true ex_due 3 ex_g) = [3]
  /\ g_list (fst (backward_prepare 2 true ex_due 3 ex_g)) = [0; 1; 2; 3]
  /\ g_in (fst (backward_prepare 2 true ex_due 3 ex_g)) 1 = [(3, FS)]
  /\ g_in (fst (backward_prepare 2 true ex_due 3 ex_g)) 0 = [(1, FS); (2, SS)]
  /\ g_list (backward_structure 2 true ex_due 3 false ex_g) = [0; 1; 2]
  /\ map (g_in (backward_structure 2 true ex_due 3 false ex_g)) [0; 1; 2; 3] = [[]; [(0, FS)]; [(0, SS)]; []].
Proof.
  split.
  - constructor.
    + repeat constructor; cbn; intuition discriminate.
    + intros t [<-|[<-|[<-|[]]]]; auto with arith.
    + intros h Hh. destruct h as [|[|[|h]]]; try (exfalso; inversion Hh as [|? H1]; inversion H1 as [|? H2]; inversion H2; fail); split; reflexivity.
  - vm_compute. repeat split.
Qed.

(* C04  Only eligible resources are ever allocated to a task.
   Statements only; proofs in Proofs/C04Proof.v, Proofs/AllocStruct.v. *)
From Coq Require Import List ZArith QArith Bool Arith.
From PV Require Import Model.Types Model.Sim Model.Example Proofs.Base Proofs.RunLemmas Proofs.C01Proof
  Proofs.AllocInv Proofs.AllocStruct Proofs.C04Proof.
Import ListNotations.
Open Scope nat_scope.

(* EligW c s0 w t: positive skill for the task's name, member of a team assigned
   to the task, FREE in the state s0 right after the absence refresh of the
   step (hence not absent, C04_free_is_present), listed in the task's fixed
   worker ids when the task has such a list.
   EligF c s0 f t: the same for a facility: positive skill, its workplace is
   assigned to the task, FREE, listed in the fixed facility ids when given. *)
Theorem C04_new_allocations_are_eligible : forall c o s, NoDup (all_workers c) ->
  let s0 := absence_update c true s in
  (forall t w, In w (aw (td (step_allocate c o s) t)) ->
     In w (aw (td s t)) \/ (negb (mem (time s) (o_abs o)) = true /\ EligW c s0 w t))
  /\ (forall t f, In f (af (td (step_allocate c o s) t)) ->
     In f (af (td s t)) \/ (negb (mem (time s) (o_abs o)) = true /\ EligF c s0 f t)).
Proof. exact C04_new_allocations_eligible. Qed.
Print Assumptions C04_new_allocations_are_eligible.

Theorem C04_free_is_present : forall c s w, w < nW c ->
  rstate_eqb (rst (wd (absence_update c true s) w)) RFree = true -> mem (time s) (w_abs c w) = false.
Proof. exact free_not_absent. Qed.
Print Assumptions C04_free_is_present.

Theorem C04_free_facility_is_present : forall c s f, f < nF c ->
  rstate_eqb (rst (fd (absence_update c true s) f)) RFree = true -> mem (time s) (f_abs c f) = false.
Proof. exact free_fac_not_absent. Qed.
Print Assumptions C04_free_facility_is_present.

(* in every snapshot of every run: a solo-working worker or facility is never
   combined with another one on the same task, and for a task that needs a
   facility the allocated workers and facilities are paired by position, each
   worker being able to operate its facility *)
Theorem C04_solo_and_pairing : forall c,
  (forall w, In w (all_workers c) -> w < nW c) -> NoDup (all_workers c) ->
  (forall p f, In f (wp_facs c p) -> f < nF c) ->
  forall o s, (o_init_state o = true \/ (AInv c s /\ SoloPair c s)) ->
  Forall (fun ob : obs => forall t, t < nT c ->
            solo_ok (w_solo c) (aw (td (snd ob) t)) /\ solo_ok (f_solo c) (af (td (snd ob) t))
            /\ (t_needfac c t = true -> pairs_ok c (aw (td (snd ob) t)) (af (td (snd ob) t))))
         (snd (simulate c o s)).
Proof. exact C04_solo_and_pairs. Qed.
Print Assumptions C04_solo_and_pairing.

(* the induction principle for __allocate that the proofs above instantiate *)
Theorem C04_allocate_induction : forall c (P : pstate -> list nat -> Prop),
  (forall s s' fr, td s' = td s -> wd s' = wd s -> fd s' = fd s -> P s fr -> P s' fr) ->
  (forall s fr fr', Permutation.Permutation fr' fr -> P s fr -> P s fr') ->
  (forall s fr t w, t < nT c -> In w fr -> has_wskill c w t = true -> w_targets c w t = true ->
     can_add c s t w None = true -> t_needfac c t = false -> t_auto c t = false ->
     P s fr -> P (do_alloc_w s t w) (filter (fun w' => negb (Nat.eqb w' w)) fr)) ->
  (forall s fr t w f k p, t < nT c -> t_comp c t = Some k -> pw (cd s k) = Some p -> In f (wp_facs c p) ->
     rstate_eqb (rst (fd s f)) RFree = true -> has_fskill c f t = true -> f_targets c f t = true ->
     In w fr -> has_wskill c w t = true -> w_targets c w t = true ->
     can_add c s t w (Some f) = true -> t_needfac c t = true -> t_auto c t = false ->
     P s fr -> P (do_alloc_f (do_alloc_w s t w) t f) (filter (fun w' => negb (Nat.eqb w' w)) fr)) ->
  forall o s, NoDup (all_workers c) ->
  P s (filter (fun w => rstate_eqb (rst (wd s w)) RFree) (all_workers c)) ->
  exists fr, P (allocate c o s) fr.
Proof. exact allocate_induction. Qed.
Print Assumptions C04_allocate_induction.

(* C15  A run paused at any step and resumed gives exactly the uninterrupted result.
   Statements only; proofs in Proofs/StatusIndep.v, Proofs/C15Proof.v. *)
From Coq Require Import List ZArith QArith Bool Arith.
From PV Require Import Model.Types Model.Sim Model.Example Proofs.Base Proofs.RunLemmas
  Proofs.StatusIndep Proofs.C12Proof Proofs.C13Proof Proofs.C15Proof Proofs.C15Stable Proofs.PertStable Proofs.C15Run.
Import ListNotations.
Open Scope nat_scope.

(* with_max o m: the options o with max_time = m;  resume_opts o m: the same
   with initialize_state_info = initialize_log_info = False.

   stable_heads c o tr: in every `updated` snapshot u of the trace,
   __update is idempotent: update c o u = u.  This side condition is where the
   resumed run differs from the uninterrupted one: it calls __update once more
   on the state the paused run returned.  It is PROVED below
   (C15_update_idempotent_up_to_pert, C15_pause_resume_pert) for everything in
   __update except the PERT refresh, so that only
   pert_stable c u : update_pert c (time u) u = u  remains; that is proved for
   every acyclic network and every state (C15_pert_refresh_idempotent_any), so
   the final theorem C15_pause_resume_any_acyclic_model has no side condition.
   The harness still checks the idempotence on the implementation at every
   step of every run it explores (second __update call from the observer).

   For EVERY configuration, options, incoming state, pause step k and final
   max_time m >= k (k beyond the makespan included: the paused run is then
   simply finished): the resumed run returns the state -- all logs, costs,
   time, status, live state -- of the uninterrupted run. *)
Theorem C15_pause_resume : forall c o s k m, k <= m ->
  stable_heads c o (snd (simulate c (with_max o m) s)) ->
  let paused := fst (simulate c (with_max o k) s) in
  fst (simulate c (resume_opts o m) paused) = fst (simulate c (with_max o m) s).
Proof. exact pause_resume. Qed.
Print Assumptions C15_pause_resume.

(* a second __update on a state __update has just produced changes nothing
   except, possibly, through the PERT refresh: the finishing pass finds nothing
   to finish, component states are already the function of the task states,
   finished assemblies are already removed, no NONE task has an open gate
   (placement records consistent: PInv, which holds in every run, C13) *)
Theorem C15_update_idempotent_up_to_pert : forall c o s, PInv s ->
  let u := update c o s in
  update c o u = update_pert c (time u) u.
Proof. exact update_stable. Qed.
Print Assumptions C15_update_idempotent_up_to_pert.

(* the pause / resume theorem with the side condition reduced to the PERT
   refresh at the `updated` snapshots of the uninterrupted run *)
Theorem C15_pause_resume_pert : forall c o s k m, k <= m -> Forest c ->
  (o_init_state o = true \/ PInv s) ->
  Forall (fun ob : obs => snd (fst ob) = PUpdated -> pert_stable c (snd ob)) (snd (simulate c (with_max o m) s)) ->
  let paused := fst (simulate c (with_max o k) s) in
  fst (simulate c (resume_opts o m) paused) = fst (simulate c (with_max o m) s).
Proof. intros c o s k m. exact (pause_resume_pert c o s k m). Qed.
Print Assumptions C15_pause_resume_pert.

(* the PERT refresh is idempotent on its own result for EVERY acyclic network
   (dag c rank: lists mirror each other, ids in range, rank increases along
   every edge), ANY mix of the four dependency kinds and ANY state in which no
   task has negative remaining work: two runs of the frontier iteration are
   compared in lock step; the only value one of them could read stale -- the
   earliest finish of a task whose first relaxation fails -- is never read *)
Theorem C15_pert_refresh_idempotent : forall c rank, dag c rank -> forall (tm : nat) (x : pstate),
  (forall v, v < nT c -> (0 <= rem (td x v))%Q) ->
  let u := update_pert c tm x in update_pert c tm u = u.
Proof. exact pert_refresh_idempotent. Qed.
Print Assumptions C15_pert_refresh_idempotent.

(* hence: for every acyclic model, every pause step and every final max_time,
   the resumed run is the uninterrupted run, provided no task has negative
   remaining work at the `updated` snapshots of the uninterrupted run (a task
   has negative remaining work only while it is held WORKING by an unfinished
   FF / unstarted SF predecessor after overshooting its work) *)
Theorem C15_pause_resume_acyclic : forall c rank o s k m, k <= m -> dag c rank -> Forest c ->
  (o_init_state o = true \/ PInv s) ->
  Forall (fun ob : obs => snd (fst ob) = PUpdated -> forall v, v < nT c -> (0 <= rem (td (snd ob) v))%Q)
         (snd (simulate c (with_max o m) s)) ->
  let paused := fst (simulate c (with_max o k) s) in
  fst (simulate c (resume_opts o m) paused) = fst (simulate c (with_max o m) s).
Proof. intros c rank o s k m. exact (pause_resume_dag c rank o s k m). Qed.
Print Assumptions C15_pause_resume_acyclic.

(* and unconditionally for finish-to-start networks (any resources, rules,
   absences, components): remaining work is never negative at an `updated`
   snapshot there (C12's run invariant) *)
Theorem C15_pause_resume_finish_to_start : forall c rank o s k m, k <= m -> fs_dag c rank -> 0 < nT c -> Forest c ->
  (forall t, t < nT c -> (0 <= t_work c t)%Q /\ (0 <= t_progress c t <= 1)%Q) ->
  o_init_state o = true ->
  let paused := fst (simulate c (with_max o k) s) in
  fst (simulate c (resume_opts o m) paused) = fst (simulate c (with_max o m) s).
Proof. intros c rank o s k m. exact (pause_resume_fs c rank o s k m). Qed.
Print Assumptions C15_pause_resume_finish_to_start.

(* THE UNCONDITIONAL FORM.  The PERT refresh is idempotent on its own result
   for every acyclic network and EVERY state -- also when tasks held back by a
   finish-to-finish or start-to-finish link have overshot their work and carry
   negative remaining work, so that a relaxation of the forward pass can fail
   and a node can be read while its earliest finish is still the value of the
   previous update.  Proof: both runs take the same branches (est depends on
   est and remaining work only); a ghost records for every node the edge that
   set its values last and what the source looked like then; at the end of the
   frontier iteration that source is unchanged since (it would have been
   re-queued and would have set the node again), so a node's final earliest
   finish is the same function of its last source's final earliest finish in
   both runs; induction along the rank. *)
Theorem C15_pert_refresh_idempotent_any : forall c rank, dag c rank -> forall (tm : nat) (x : pstate),
  let u := update_pert c tm x in update_pert c tm u = u.
Proof. exact pert_refresh_idempotent_any. Qed.
Print Assumptions C15_pert_refresh_idempotent_any.

(* hence, for EVERY acyclic model (any mix of the four dependency kinds, any
   resources, rules, absences, components on disjoint trees), every incoming
   state of a freshly initialised or placement-consistent project, every pause
   step k and every final max_time m >= k: the resumed run returns exactly the
   state of the uninterrupted run -- all logs, costs, time, status, live state *)
Theorem C15_pause_resume_any_acyclic_model : forall c rank o s k m, k <= m -> dag c rank -> Forest c ->
  (o_init_state o = true \/ PInv s) ->
  let paused := fst (simulate c (with_max o k) s) in
  fst (simulate c (resume_opts o m) paused) = fst (simulate c (with_max o m) s).
Proof. intros c rank o s k m. exact (pause_resume_any c rank o s k m). Qed.
Print Assumptions C15_pause_resume_any_acyclic_model.

(* no phase reads project.status, which is the only field in which the state
   returned by the paused run differs from the uninterrupted loop state *)
Theorem C15_status_is_never_read : forall c o x z,
  update c o (with_status x z) = with_status (update c o x) z
  /\ step_allocate c o (with_status x z) = with_status (step_allocate c o x) z
  /\ step_perform c o (with_status x z) = with_status (step_perform c o x) z
  /\ step_record c o (with_status x z) = with_status (step_record c o x) z.
Proof.
  intros c o x z. split; [apply SC_update|]. split; [apply SC_step_allocate|].
  split; [apply SC_step_perform|apply SC_step_record].
Qed.
Print Assumptions C15_status_is_never_read.

(* a resumed run does not re-initialise anything *)
Theorem C15_initialize_off : forall c o s, o_init_state o = false -> o_init_log o = false -> initialize c o s = s.
Proof. exact initialize_off. Qed.
Print Assumptions C15_initialize_off.

(* non-vacuity: the diamond example paused at step 3 and resumed equals the
   uninterrupted run, and its `updated` snapshots are stable in the fields a
   dump shows (checked by evaluation for this instance) *)
Example C15_example :
  let paused := fst (simulate ex_cfg (with_max ex_opts 3) (blank ex_cfg)) in
  status paused = StFailure /\ time paused = 3
  /\ map (fun t => l_st (tl (fst (simulate ex_cfg (resume_opts ex_opts 50) paused)) t)) [0; 1; 2; 3]
     = map (fun t => l_st (tl ex_final t)) [0; 1; 2; 3]
  /\ costl (fst (simulate ex_cfg (resume_opts ex_opts 50) paused)) = costl ex_final
  /\ status (fst (simulate ex_cfg (resume_opts ex_opts 50) paused)) = StSuccess.
Proof. vm_compute. repeat split. Qed.

(* non-vacuity of the unconditional form: the finish-to-finish pair of
   Model/Example.v (task 1 waits for task 0 with remaining work 0, -1, -2) is
   an acyclic model with negative remaining work at `updated` snapshots; paused
   at step 2 and resumed it gives the logs of the uninterrupted run *)
Example C15_example_negative_remaining_work :
  dag ex_ff_cfg (fun v => v)
  /\ (let paused := fst (simulate ex_ff_cfg (with_max ex_ff_opts 2) (blank ex_ff_cfg)) in
      let whole := fst (simulate ex_ff_cfg (with_max ex_ff_opts 50) (blank ex_ff_cfg)) in
      rem (td paused 1) = (-1)%Q
      /\ map (fun t => l_rem (tl (fst (simulate ex_ff_cfg (resume_opts ex_ff_opts 50) paused)) t)) [0; 1]
         = map (fun t => l_rem (tl whole t)) [0; 1]
      /\ status (fst (simulate ex_ff_cfg (resume_opts ex_ff_opts 50) paused)) = StSuccess).
Proof.
  split; [|vm_compute; repeat split].
  constructor.
  - intros u v k. destruct u as [|[|u]]; destruct v as [|[|v]]; cbn; intuition congruence.
  - intros u e. destruct u as [|[|u]]; cbn; intuition (subst; cbn; auto with arith).
  - intros v e. destruct v as [|[|v]]; cbn; intuition (subst; cbn; auto with arith).
  - intros u e. destruct u as [|[|u]]; cbn; intuition (subst; cbn; auto with arith).
  - intros v Hv. exact Hv.
Qed.

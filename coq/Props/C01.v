(* C01  Task dependencies (FS/SS/FF/SF) are never violated; the task lifecycle
   only advances.  Statements only; proofs in Proofs/C01Proof.v. *)
From Coq Require Import List ZArith QArith Bool Arith.
From PV Require Import Model.Types Model.Sim Model.Example Proofs.Base Proofs.RunLemmas Proofs.C01Proof.
Import ListNotations.
Open Scope nat_scope.

(* Inv c s: for every task t < nT that is not (exempt and FINISHED):
     state <> NONE      ->  every FS predecessor FINISHED, every SS predecessor WORKING/FINISHED
     state = FINISHED   ->  every FF predecessor FINISHED, every SF predecessor WORKING/FINISHED *)

(* (a),(b): in every observer snapshot and in the returned state of every
   simulate call -- any cfg (acyclicity not needed), any options, any fuel;
   for a resumed run (state not re-initialised) provided the incoming state
   satisfied the invariant *)
Theorem C01_dependencies_hold : forall c o s,
  (o_init_state o = true \/ Inv c s) ->
  Forall (fun ob : obs => Inv c (snd ob)) (snd (simulate c o s)) /\ Inv c (fst (simulate c o s)).
Proof. exact C01_dependencies. Qed.
Print Assumptions C01_dependencies_hold.

(* every trace of simulate has the block structure updated/allocated/
   performed/recorded produced by the phase functions (the fuel of the model's
   loop is never exhausted) *)
Theorem C01_trace_shape : forall c o s,
  exists tr, trace_from c o (initialize c o s) tr (fst (simulate c o s)) /\ snd (simulate c o s) = tr.
Proof. exact simulate_trace. Qed.
Print Assumptions C01_trace_shape.

Theorem C01_trace_consecutive : forall c o s tr sf, trace_from c o s tr sf -> consecutive c o tr.
Proof. exact trace_consecutive. Qed.
Print Assumptions C01_trace_consecutive.

(* (c): between any two consecutive snapshots every task's state advances
   along NONE -> READY -> WORKING -> FINISHED (or stays) *)
Theorem C01_lifecycle_only_advances : forall c o tr, consecutive c o tr ->
  forall i a b, nth_error tr i = Some a -> nth_error tr (S i) = Some b ->
  forall t, adv (st (td (snd a) t)) (st (td (snd b) t)).
Proof. exact C01_monotone. Qed.
Print Assumptions C01_lifecycle_only_advances.

(* (d): the recorded entry is the live state, WORKING shown as READY at a
   project-wide absence step *)
Theorem C01_logged_state : forall c o s t, t < nT c ->
  l_st (tl (step_record c o s) t) =
  l_st (tl s t) ++ [disp_t (negb (mem (time s) (o_abs o))) (st (td s t))].
Proof. exact C01_log. Qed.
Print Assumptions C01_logged_state.

(* (e): tasks whose default progress is complete are FINISHED in every snapshot
   of a freshly initialised run *)
Theorem C01_exempt_finished : forall c o s, o_init_state o = true -> o_init_log o = true ->
  Forall (fun ob : obs => forall t, t < nT c -> exempt c t = true -> st (td (snd ob) t) = TFinished)
         (snd (simulate c o s)).
Proof. exact C01_exempt. Qed.
Print Assumptions C01_exempt_finished.

(* non-vacuity: the diamond with one edge of each kind runs to success, every
   task passes through READY and WORKING, and step 1 is an absence step *)
Example C01_example :
  status ex_final = StSuccess /\ time ex_final = 6 /\
  map (fun t => l_st (tl ex_final t)) [0; 1; 2; 3] =
  [[TWorking; TFinished; TFinished; TFinished; TFinished; TFinished];
   [TNone; TReady; TWorking; TFinished; TFinished; TFinished];
   [TNone; TReady; TReady; TWorking; TWorking; TFinished];
   [TReady; TReady; TReady; TReady; TReady; TWorking]].
Proof. vm_compute. repeat split. Qed.

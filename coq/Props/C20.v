(* C20  A sub-project task lasts exactly as long as the sub-project it stands
   for.  Statements only; proofs in Proofs/C20Proof.v.
   The run-level statement (the task is logged WORKING at exactly
   ceil(remaining work / rate) working steps of the parent run, from the first
   working step at which it is READY until it is FINISHED) is
   C20_working_steps_in_the_run.  The model treats a configured sub-project
   task as an automatic task of the parent; the real class inside the parent
   run is checked on the implementation by the oracle. *)
From Coq Require Import List ZArith QArith Qround Bool Arith.
From PV Require Import Model.Types Model.Sim Model.Subproject Proofs.Base Proofs.C01Proof Proofs.C20Proof Proofs.RunLemmas Proofs.C20Run.
Import ListNotations.

(* configuration from a successfully simulated project: the work amount is its
   duration, minus the number of distinct absence steps inside the run when
   they are to be removed; unit time taken over; nothing is refused *)
Theorem C20_configured_from_success : forall remove r t, r_status r = StSuccess ->
  let t' := fst (configure remove r t) in
  s_work t' = inject_Z (Z.of_nat (r_time r - (if remove then simulated_absences r else 0)))
  /\ s_unit t' = r_unit r /\ s_read t' = true /\ s_remove t' = remove /\ snd (configure remove r t) = false.
Proof. exact configure_success. Qed.
Print Assumptions C20_configured_from_success.

(* configuration from a project that was not simulated successfully is refused
   with a warning and leaves the task unchanged *)
Theorem C20_refused_unchanged : forall remove r t, r_status r <> StSuccess ->
  configure remove r t = (t, true).
Proof. exact configure_refused. Qed.
Print Assumptions C20_refused_unchanged.

Theorem C20_unit_rate : forall pu t, s_rate (set_rate pu t) = (pu / s_unit t)%Q.
Proof. exact rate_is_unit_ratio. Qed.
Print Assumptions C20_unit_rate.

(* an automatic task that starts with remaining work d and loses r per working
   step is WORKING for exactly ceil(d / r) working steps (0 when d = 0) -- for
   every d >= 0, r > 0 on a grid where no positive remainder is below the
   finishing tolerance *)
Theorem C20_number_of_working_steps : forall fuel d r n, (0 < r)%Q -> (0 <= d)%Q -> on_grid d r ->
  steps_working fuel d r = Some n -> Z.of_nat n = Z.max 0 (Qceiling (d / r)).
Proof. exact C20_working_steps. Qed.
Print Assumptions C20_number_of_working_steps.

(* the grid hypothesis holds for whole-step durations d and rates pu/su *)
Theorem C20_grid_for_unit_ratios : forall (d : nat) (pu su : positive), (Zpos su <= 10000000000)%Z ->
  on_grid (inject_Z (Z.of_nat d)) (Zpos pu # su).
Proof. exact on_grid_integral. Qed.
Print Assumptions C20_grid_for_unit_ratios.

(* in the simulation: an automatic WORKING task loses exactly its unit rate in
   every working step; it is never given workers or facilities *)
Theorem C20_progress_per_step : forall c o s t, (t < nT c)%nat -> t_auto c t = true -> st (td s t) = TWorking ->
  negb (mem (time s) (o_abs o)) = true ->
  rem (td (step_perform c o s) t) = (rem (td s t) - t_rate c t)%Q.
Proof. exact auto_task_progress. Qed.
Print Assumptions C20_progress_per_step.

Theorem C20_needs_no_workers : forall c acc t, t_auto c t = true ->
  let '(s, free, moved) := acc in
  aw (td (fst (fst (alloc_task c acc t))) t) = aw (td s t) /\ af (td (fst (fst (alloc_task c acc t))) t) = af (td s t).
Proof. exact auto_task_never_allocated. Qed.
Print Assumptions C20_needs_no_workers.

(* in the run: an automatic task t that is not bound to a component and has no
   FF / SF predecessors (a configured sub-project task), with
   perform_auto_task_while_absence_time off.  From any loop state in which it
   is READY or WORKING with remaining work x >= 1e-10 until it is FINISHED, it is
   logged WORKING at exactly steps_working x rate working steps (work_count
   counts the `performed` snapshots of working steps in which it is WORKING);
   with C20_number_of_working_steps that number is ceil(x / rate).  The proof
   also shows that it starts at the first working step at which it is READY
   and performs at every working step until it finishes. *)
Theorem C20_working_steps_in_the_run : forall c o t, (t < nT c)%nat -> t_auto c t = true -> t_comp c t = None ->
  (forall e, In e (t_inputs c t) -> snd e = FS \/ snd e = SS) -> o_auto_abs o = false ->
  forall s tr sf, trace_from c o s tr sf ->
  let u := update c o s in
  ((st (td u t) = TReady /\ (tol <= rem (td u t))%Q) \/ (st (td u t) = TWorking /\ (tol <= rem (td u t))%Q)) ->
  st (td sf t) = TFinished ->
  exists fuel, steps_working fuel (rem (td u t)) (t_rate c t) = Some (work_count o t tr).
Proof. exact working_steps_counted. Qed.
Print Assumptions C20_working_steps_in_the_run.

Example C20_example :
  steps_working 50 7 (60 # 180) = Some 21%nat /\ Z.max 0 (Qceiling (7 / (60 # 180))) = 21%Z
  /\ steps_working 50 0 (60 # 180) = Some 0%nat.
Proof. vm_compute. repeat split. Qed.

(* C11  Priority rules order candidates as documented and allocation never
   inverts them.  Statements only; proofs in Proofs/SortProof.v,
   Proofs/C11Proof.v, Proofs/C06Max.v.
   The allocation clause (no inversion) is proved for tasks that need no
   facility and, pairwise, for tasks that need one (relative to the workplace
   of the component when the task was served); the oracle searches inversions
   on the implementation (harness/props/c11.py). *)
From Coq Require Import List ZArith QArith Bool Arith Permutation Sorted.
From PV Require Import Model.Types Model.Sim Proofs.Base Proofs.SortProof Proofs.C11Proof Proofs.C06Max Proofs.C06Fac.
Import ListNotations.

(* sorted_by le key l : adjacent (indeed all ordered pairs of) elements are in
   non-decreasing key order;  stable_wrt le key inp out : for every key class the
   subsequence of its members is the same in the output as in the input.
   Descending rules (LPT, FIFO, LRPT, LWRPT, free space, skill sums) use the
   negated key, which is exactly Python's stable reverse=True. *)

(* sort_task_list, every rule: TSLACK lst-est, EST est, SPT/LPT default work
   amount, FIFO number of READY log entries, LRPT/SRPT remaining work,
   LWRPT/SWRPT workflow critical path length *)
Theorem C11_sort_task_list : forall c rule s l,
  Permutation (sort_tasks c rule s l) l
  /\ sorted_by Qleb (task_key c rule s) (sort_tasks c rule s l)
  /\ stable_wrt Qleb (task_key c rule s) l (sort_tasks c rule s l).
Proof. exact sort_tasks_spec. Qed.
Print Assumptions C11_sort_task_list.

(* sort_worker_list: MW (main workplace equals target -- by value --, has a main
   workplace, skill sum), SSP (skill sum, ...), VC (cost, ...), HSV (higher
   skill for the task first, a missing entry last, ...) *)
Theorem C11_sort_worker_list : forall c rule t tgt l, (rule = -1 \/ rule = 0 \/ rule = 1 \/ rule = 2)%Z ->
  Permutation (sort_workers c rule t tgt l) l
  /\ sorted_by le3 (worker_key c rule t tgt) (sort_workers c rule t tgt l)
  /\ stable_wrt le3 (worker_key c rule t tgt) l (sort_workers c rule t tgt l).
Proof. exact sort_workers_spec. Qed.
Print Assumptions C11_sort_worker_list.

(* sort_facility_list accepts all four rule values *)
Theorem C11_sort_facility_list : forall c rule t l,
  Permutation (sort_facs c rule t l) l
  /\ (rule = 0%Z -> sorted_by Qleb (fun f => skill_sum (f_skills c f)) (sort_facs c rule t l)
                    /\ stable_wrt Qleb (fun f => skill_sum (f_skills c f)) l (sort_facs c rule t l))
  /\ (rule = 1%Z -> sorted_by Qleb (f_cost c) (sort_facs c rule t l)
                    /\ stable_wrt Qleb (f_cost c) l (sort_facs c rule t l))
  /\ (rule = 2%Z ->
      let key := fun f => match f_skill c f t with Some v => (0%Q, (- v)%Q, 0%Q) | None => (1%Q, 0%Q, 0%Q) end in
      sorted_by le3 key (sort_facs c rule t l) /\ stable_wrt le3 key l (sort_facs c rule t l))
  /\ (rule = (-1)%Z -> sort_facs c rule t l = l).
Proof. exact sort_facs_spec. Qed.
Print Assumptions C11_sort_facility_list.

Theorem C11_sort_workplace_list : forall c rule s t l,
  Permutation (sort_wps c rule s t l) l
  /\ (rule = 0%Z -> sorted_by Qleb (fun p => (- avail_space c s p)%Q) (sort_wps c rule s t l)
                    /\ stable_wrt Qleb (fun p => (- avail_space c s p)%Q) l (sort_wps c rule s t l))
  /\ (rule = 1%Z -> sorted_by Qleb (fun p => (- wp_total_skill c p t)%Q) (sort_wps c rule s t l)
                    /\ stable_wrt Qleb (fun p => (- wp_total_skill c p t)%Q) l (sort_wps c rule s t l)).
Proof. exact sort_wps_spec. Qed.
Print Assumptions C11_sort_workplace_list.

(* the generic facts about the model's stable insertion sort *)
Theorem C11_stable_sort : forall A (le : A -> A -> bool),
  (forall a b, le a b = true \/ le b a = true) ->
  (forall a b d, le a b = true -> le b d = true -> le a d = true) ->
  forall l, Permutation (stable_sort A le l) l
            /\ StronglySorted (leP A le) (stable_sort A le l)
            /\ forall a, filter (equiv A le a) (stable_sort A le l) = filter (equiv A le a) l.
Proof.
  intros A le Ht Hr l. split; [apply stable_sort_perm|]. split; [apply stable_sort_sorted; assumption|].
  intros a. apply stable_sort_stable; assumption.
Qed.
Print Assumptions C11_stable_sort.

(* no inversion: __allocate hands the tasks to the allocation block in the
   sorted order l; at the moment task t is handed over (prefix l1 processed),
   every earlier task t' (not automatic, needing no facility) is sated with
   respect to the free list t will choose from: no worker in it that has the
   skill for t' and belongs to one of its teams can still be added to t'.
   Whatever t receives could therefore not have gone to a higher-priority task. *)
Theorem C11_no_priority_inversion : forall c l, NoDup l -> forall l1 t l2, l = l1 ++ t :: l2 ->
  forall s free,
  let acc := fold_left (alloc_task c) l1 (s, free, []) in
  forall t', In t' l1 -> t_auto c t' = false -> t_needfac c t' = false ->
  forall w, In w (snd (fst acc)) -> has_wskill c w t' = true -> w_targets c w t' = true ->
  can_add c (fst (fst acc)) t' w None = false.
Proof.
  intros c l Hnd l1 t l2 El s free acc t' Ht' Ha Hn w Hw Hs Htg.
  apply (greedy_prefix c l Hnd l1 t l2 El s free t' Ht' (conj Ha Hn) w Hw).
  unfold eligible. rewrite Hs, Htg. reflexivity.
Qed.
Print Assumptions C11_no_priority_inversion.

(* the same for earlier tasks that need a facility: when t is handed over, an
   earlier facility task t' (served at workplace p) can take no pair of a FREE
   eligible facility of p and an eligible worker of the free list *)
Theorem C11_no_priority_inversion_facility : forall c l, NoDup l -> forall l1 t l2, l = l1 ++ t :: l2 ->
  forall l1a t' l1b, l1 = l1a ++ t' :: l1b -> t_auto c t' = false -> t_needfac c t' = true ->
  forall s free p, served_at c l1a s free t' = Some p ->
  let acc := fold_left (alloc_task c) l1 (s, free, []) in
  forall f w, In f (wp_facs c p) -> rst (fd (fst (fst acc)) f) = RFree -> has_fskill c f t' = true -> f_targets c f t' = true ->
  In w (snd (fst acc)) -> has_wskill c w t' = true -> w_targets c w t' = true ->
  can_add c (fst (fst acc)) t' w (Some f) = false.
Proof.
  intros c l Hnd l1 t l2 El l1a t' l1b E1 Ha Hn s free p Hp acc f w Hf Hfree Hfs Hft Hw Hws Hwt.
  apply (greedy_prefix_fac c l Hnd l1 t l2 El l1a t' l1b E1 Ha Hn s free p Hp f w Hf Hfree); try assumption.
  - unfold eligible_f. rewrite Hfs, Hft. reflexivity.
  - unfold eligible. rewrite Hws, Hwt. reflexivity.
Qed.
Print Assumptions C11_no_priority_inversion_facility.

Example C11_example :
  stable_sort nat (fun x y => Nat.leb (x / 10) (y / 10)) [31; 12; 35; 11; 20; 19] = [12; 11; 19; 20; 31; 35].
Proof. vm_compute. reflexivity. Qed.

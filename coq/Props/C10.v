(* C10  Absence is dead time: no work, no cost, and it only stretches the
   schedule.  Statements only; proofs in Proofs/C10Proof.v, C0708Proof.v.
   PARTIAL: (e) "an individually absent resource contributes nothing" is proved
   in the form "a resource in state ABSENCE contributes 0 and costs 0"; that
   the state is ABSENCE exactly at the listed steps, and the deletion clause
   (f), are searched by the oracle (and (f) has the recorded FIFO finding). *)
From Coq Require Import List ZArith QArith Bool Arith.
From PV Require Import Model.Types Model.Sim Model.Example Proofs.Base Proofs.RunLemmas Proofs.C01Proof
  Proofs.C02Proof Proofs.LogsProof Proofs.C0708Proof Proofs.C10Proof.
Import ListNotations.
Open Scope nat_scope.

(* (b) nothing is allocated, assigned or moved at a project-wide absence step *)
Theorem C10_nothing_newly_allocated : forall c o s, mem (time s) (o_abs o) = true ->
  (forall t, aw (td (step_allocate c o s) t) = aw (td s t) /\ af (td (step_allocate c o s) t) = af (td s t))
  /\ (forall w, asg (wd (step_allocate c o s) w) = asg (wd s w))
  /\ (forall f, asg (fd (step_allocate c o s) f) = asg (fd s f))
  /\ (forall k, pw (cd (step_allocate c o s) k) = pw (cd s k))
  /\ wpc (step_allocate c o s) = wpc s.
Proof. exact C10_nothing_allocated. Qed.
Print Assumptions C10_nothing_newly_allocated.

(* (a),(d) over the whole absence step a non-automatic task makes no progress;
   an automatic WORKING task loses exactly its unit rate iff
   perform_auto_task_while_absence_time is set *)
Theorem C10_progress_at_absence_step : forall c o s t, mem (time s) (o_abs o) = true ->
  rem (td (step_record c o (step_perform c o (step_allocate c o s))) t) =
  if (t <? nT c) && is_working (st (td (step_allocate c o s) t)) && (o_auto_abs o && t_auto c t)
  then (rem (td s t) - t_rate c t)%Q else rem (td s t).
Proof. exact C10_no_progress. Qed.
Print Assumptions C10_progress_at_absence_step.

Theorem C10_nothing_starts_in_dead_time : forall c o s t, mem (time s) (o_abs o) = true ->
  o_auto_abs o = false -> st (td (step_allocate c o s) t) = st (td s t).
Proof. exact C10_nothing_starts. Qed.
Print Assumptions C10_nothing_starts_in_dead_time.

(* (c) at a non-working row of the history every worker and facility is logged
   ABSENCE and every cost entry, at every level, is 0 *)
Theorem C10_logged_absence_and_no_cost : forall c h s, LogsAre c h h s ->
  forall i r, nth_error h i = Some r -> fst r = false ->
  (forall w, w < nW c -> nth_error (rl_st (wl s w)) i = Some RAbsence)
  /\ (forall f, f < nF c -> nth_error (rl_st (fl s f)) i = Some RAbsence)
  /\ entry (costl s) i = 0%Q
  /\ (forall w, w < nW c -> entry (rl_cost (wl s w)) i = 0%Q)
  /\ (forall f, f < nF c -> entry (rl_cost (fl s f)) i = 0%Q).
Proof.
  intros c h s HL i r Er Hf.
  destruct (absence_step_costs_nothing c h s HL i r Er Hf) as (A & B & C).
  destruct (absence_row_logged c h s HL i r Er Hf) as (D & E).
  repeat split; assumption.
Qed.
Print Assumptions C10_logged_absence_and_no_cost.

(* (e) a worker or facility in state ABSENCE contributes no progress and costs nothing *)
Theorem C10_absent_resource_contributes_nothing : forall c s w f t,
  (rst (wd s w) = RAbsence -> w_progress c s w t = 0%Q /\ rcost true (w_cost c w) (wd s w) = 0%Q)
  /\ (rst (fd s f) = RAbsence -> f_progress c s f t = 0%Q /\ rcost true (f_cost c f) (fd s f) = 0%Q).
Proof.
  intros c s w f t. split; intros E.
  - unfold w_progress, rcost. rewrite E. cbn. destruct (has_wskill c w t); split; reflexivity.
  - unfold f_progress, rcost. rewrite E. cbn. destruct (has_fskill c f t); split; reflexivity.
Qed.
Print Assumptions C10_absent_resource_contributes_nothing.

(* the state is ABSENCE right after the absence refresh of a working step iff
   the step is in the resource's own list *)
Theorem C10_refresh_sets_absence : forall c s w, w < nW c ->
  rst (wd (absence_update c true s) w) = RAbsence <-> mem (time s) (w_abs c w) = true.
Proof.
  intros c s w Hw. unfold absence_update. cbn [wd with_wd with_fd]. rewrite tab_spec.
  apply Nat.ltb_lt in Hw. rewrite Hw. unfold refresh_one.
  destruct (mem (time s) (w_abs c w)); [split; reflexivity|].
  destruct (asg (wd s w)); cbn; split; discriminate.
Qed.
Print Assumptions C10_refresh_sets_absence.

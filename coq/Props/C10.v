(* C10  Absence is dead time: no work, no cost, and it only stretches the
   schedule.  Statements only; proofs in Proofs/C10Proof.v, C0708Proof.v.
   (e) "an individually absent resource contributes nothing" is proved per
   state ("a resource in state ABSENCE contributes 0 and costs 0") and at run
   level (the state is ABSENCE in every allocated / performed / recorded
   snapshot of a step in the resource's own list).
   The deletion clause (f) is proved for the task priority rules that do not
   read PERT values (2, 3, 5, 6, 7, 8) and for TSLACK / EST on finish-to-start
   DAGs, with the auto-task flag off or without automatic tasks; otherwise it
   is searched (rule 4, FIFO, has the recorded finding). *)
From Coq Require Import List ZArith QArith Bool Arith.
From PV Require Import Model.Types Model.Sim Model.LogEdit Model.Example Proofs.Base Proofs.RunLemmas Proofs.C01Proof
  Proofs.C02Proof Proofs.LogsProof Proofs.C0708Proof Proofs.C10Proof Proofs.C13Proof Proofs.C12Proof Proofs.C03Res Proofs.KeyCong Proofs.PertEst Proofs.C10Del Proofs.C10Final.
Import ListNotations.
Open Scope nat_scope.

(* (b) nothing is allocated, assigned or moved at a project-wide absence step *)
Theorem C10_nothing_newly_allocated : forall c o s, mem (time s) (o_abs o) = true ->
  (forall t, aw (td (step_allocate c o s) t) = aw (td s t) /\ af (td (step_allocate c o s) t) = af (td s t))
  /\ (forall w, asg (wd (step_allocate c o s) w) = asg (wd s w))
  /\ (forall f, asg (fd (step_allocate c o s) f) = asg (fd s f))
  /\ (forall k, pw (cd (step_allocate c o s) k) = pw (cd s k))
  /\ wpc (step_allocate c o s) = wpc s.
Proof. exact C10_nothing_allocated. Qed.
Print Assumptions C10_nothing_newly_allocated.

(* (a),(d) over the whole absence step a non-automatic task makes no progress;
   an automatic WORKING task loses exactly its unit rate iff
   perform_auto_task_while_absence_time is set *)
Theorem C10_progress_at_absence_step : forall c o s t, mem (time s) (o_abs o) = true ->
  rem (td (step_record c o (step_perform c o (step_allocate c o s))) t) =
  if (t <? nT c) && is_working (st (td (step_allocate c o s) t)) && (o_auto_abs o && t_auto c t)
  then (rem (td s t) - t_rate c t)%Q else rem (td s t).
Proof. exact C10_no_progress. Qed.
Print Assumptions C10_progress_at_absence_step.

Theorem C10_nothing_starts_in_dead_time : forall c o s t, mem (time s) (o_abs o) = true ->
  o_auto_abs o = false -> st (td (step_allocate c o s) t) = st (td s t).
Proof. exact C10_nothing_starts. Qed.
Print Assumptions C10_nothing_starts_in_dead_time.

(* (c) at a non-working row of the history every worker and facility is logged
   ABSENCE and every cost entry, at every level, is 0 *)
Theorem C10_logged_absence_and_no_cost : forall c h s, LogsAre c h h s ->
  forall i r, nth_error h i = Some r -> fst r = false ->
  (forall w, w < nW c -> nth_error (rl_st (wl s w)) i = Some RAbsence)
  /\ (forall f, f < nF c -> nth_error (rl_st (fl s f)) i = Some RAbsence)
  /\ entry (costl s) i = 0%Q
  /\ (forall w, w < nW c -> entry (rl_cost (wl s w)) i = 0%Q)
  /\ (forall f, f < nF c -> entry (rl_cost (fl s f)) i = 0%Q).
Proof.
  intros c h s HL i r Er Hf.
  destruct (absence_step_costs_nothing c h s HL i r Er Hf) as (A & B & C).
  destruct (absence_row_logged c h s HL i r Er Hf) as (D & E).
  repeat split; assumption.
Qed.
Print Assumptions C10_logged_absence_and_no_cost.

(* (e) a worker or facility in state ABSENCE contributes no progress and costs nothing *)
Theorem C10_absent_resource_contributes_nothing : forall c s w f t,
  (rst (wd s w) = RAbsence -> w_progress c s w t = 0%Q /\ rcost true (w_cost c w) (wd s w) = 0%Q)
  /\ (rst (fd s f) = RAbsence -> f_progress c s f t = 0%Q /\ rcost true (f_cost c f) (fd s f) = 0%Q).
Proof.
  intros c s w f t. split; intros E.
  - unfold w_progress, rcost. rewrite E. cbn. destruct (has_wskill c w t); split; reflexivity.
  - unfold f_progress, rcost. rewrite E. cbn. destruct (has_fskill c f t); split; reflexivity.
Qed.
Print Assumptions C10_absent_resource_contributes_nothing.

(* the state is ABSENCE right after the absence refresh of a working step iff
   the step is in the resource's own list *)
Theorem C10_refresh_sets_absence : forall c s w, w < nW c ->
  rst (wd (absence_update c true s) w) = RAbsence <-> mem (time s) (w_abs c w) = true.
Proof.
  intros c s w Hw. unfold absence_update. cbn [wd with_wd with_fd]. rewrite tab_spec.
  apply Nat.ltb_lt in Hw. rewrite Hw. unfold refresh_one.
  destruct (mem (time s) (w_abs c w)); [split; reflexivity|].
  destruct (asg (wd s w)); cbn; split; discriminate.
Qed.
Print Assumptions C10_refresh_sets_absence.

(* (f) deleting the project-wide absence steps from the result gives the
   result of simulating without absence: same time, status, live state
   (task state / remaining work / allocations, worker and facility records,
   component records, workplace contents) and the same logs and cost lists at
   every level; only the PERT scratch values (est/eft/lst/lft, critical path
   length) are not compared.  For every absence list (any order, repeated
   steps, steps beyond the end of the run).  Hypotheses:
   - an absence step is dead: perform_auto_task_while_absence_time is off, or
     the project has no automatic task (configuration well formed);
   - the priority rule orders the candidates the same way in both runs: it
     does not read PERT values (SPT, LPT, LRPT, SRPT, LWRPL, SWRPL), or it is
     EST on ANY network -- cyclic or not, all four dependency kinds, tasks kept
     WORKING below zero remaining work by an FF / SF link included -- whose
     links stay inside the task list (every earliest start time shifts by the
     number of absence steps: `Proofs/PertEst.v`), or it is TSLACK / EST on a
     finish-to-start DAG with non-negative work amounts (all critical-path
     values then shift by the number of absence steps);
   - no worker or facility has an absence list of its own, the component trees
     are disjoint, the run starts from initialize(True, True) and ends with
     every task FINISHED.
   Component-bound automatic tasks need no exclusion when the flag is off.
   FIFO is excluded: the statement is false for it (recorded finding). *)
Theorem C10_deletion_gives_the_absence_free_run : forall c o,
  (o_auto_abs o = false
   \/ ((forall t, t_auto c t = false)
       /\ (forall w, In w (all_workers c) -> w < nW c) /\ NoDup (all_workers c)
       /\ (forall p f, In f (wp_facs c p) -> f < nF c))) ->
  (pert_free (o_rule o)
   \/ ((o_rule o = 1)%Z /\ edges_in_range c)
   \/ ((o_rule o = 0 \/ o_rule o = 1)%Z
       /\ (exists rank, fs_dag c rank) /\ 0 < nT c
       /\ (forall t, t < nT c -> (0 <= t_work c t)%Q /\ (0 <= t_progress c t <= 1)%Q))) ->
  (forall w, w_abs c w = []) -> (forall f, f_abs c f = []) -> Forest c ->
  o_init_state o = true -> o_init_log o = true ->
  forall s0, status (fst (simulate c o s0)) = StSuccess ->
  same_result c (snd (remove_absence c (o_abs o, fst (simulate c o s0)))) (fst (simulate c (no_abs o) s0)).
Proof. intros c o HS HP Hw Hf HF Hi Hl. exact (deletion_gives_the_absence_free_run c o Hw Hf HF Hi Hl HS HP). Qed.
Print Assumptions C10_deletion_gives_the_absence_free_run.

(* the step relation behind it: an absence step leaves the key of the state
   unchanged up to the worker / facility states; a working step of the run with
   absence and a step of the run without compute key-equal states *)
Theorem C10_absence_step_is_a_stutter : forall c o u, o_auto_abs o = false -> mem (time u) (o_abs o) = true ->
  KEg c false (step_perform c o (step_allocate c o u)) u.
Proof. intros c o u H1 H2. exact (absence_half c o u H1 H2). Qed.
Print Assumptions C10_absence_step_is_a_stutter.

(* non-vacuity: the two-component assembly project with rule 2 and absence at
   steps 0, 2 and 40 succeeds two steps later than without absence *)
Definition ex_del_opts : opts := mkOpts 2%Z [0; 2; 40] false true true 50 [0; 1].
Example C10_deletion_example :
  pert_free (o_rule ex_del_opts) /\ (forall w, w_abs ex_pl_cfg w = []) /\ (forall f, f_abs ex_pl_cfg f = [])
  /\ Forest ex_pl_cfg
  /\ status (fst (simulate ex_pl_cfg ex_del_opts (blank ex_pl_cfg))) = StSuccess
  /\ time (fst (simulate ex_pl_cfg ex_del_opts (blank ex_pl_cfg))) = 2 + time (fst (simulate ex_pl_cfg (no_abs ex_del_opts) (blank ex_pl_cfg)))
  /\ l_st (tl (fst (simulate ex_pl_cfg ex_del_opts (blank ex_pl_cfg))) 0) = [TReady; TReady; TReady; TWorking; TWorking].
Proof.
  split; [left; reflexivity|]. split; [intros w; reflexivity|]. split; [intros f; reflexivity|].
  split; [|vm_compute; repeat split].
  intros k. destruct k as [|[|k]]; vm_compute; repeat constructor; cbn; intuition discriminate.
Qed.

(* non-vacuity of the TSLACK case: the finish-to-start diamond under rule 0
   with absence at steps 1 and 2 ends two steps later than without absence,
   and the deleted task log equals the absence-free one *)
Definition ex_del_opts0 : opts := mkOpts 0%Z [2; 1; 1] false true true 50 [].
Example C10_deletion_example_tslack :
  (exists rank, fs_dag ex_fs_cfg rank)
  /\ status (fst (simulate ex_fs_cfg ex_del_opts0 (blank ex_fs_cfg))) = StSuccess
  /\ time (fst (simulate ex_fs_cfg ex_del_opts0 (blank ex_fs_cfg))) = 2 + time (fst (simulate ex_fs_cfg (no_abs ex_del_opts0) (blank ex_fs_cfg)))
  /\ l_st (tl (snd (remove_absence ex_fs_cfg (o_abs ex_del_opts0, fst (simulate ex_fs_cfg ex_del_opts0 (blank ex_fs_cfg))))) 1)
     = l_st (tl (fst (simulate ex_fs_cfg (no_abs ex_del_opts0) (blank ex_fs_cfg))) 1).
Proof.
  split; [exists (fun v => v)|vm_compute; repeat split].
  constructor.
  - intros u e. destruct u as [|[|[|u]]]; cbn; intuition (subst; reflexivity).
  - intros u v k. destruct u as [|[|[|[|u]]]]; destruct v as [|[|[|[|v]]]]; cbn; intuition congruence.
  - intros u e. destruct u as [|[|[|u]]]; cbn; intuition (subst; cbn; auto with arith).
  - intros v e. destruct v as [|[|[|[|v]]]]; cbn; intuition (subst; cbn; auto with arith).
  - intros u e. destruct u as [|[|[|u]]]; cbn; intuition (subst; cbn; auto with arith).
  - intros v Hv. exact Hv.
Qed.

(* non-vacuity of the EST case outside finish-to-start DAGs: task 1 (1 unit)
   is held WORKING by a finish-to-finish link from task 0 (3 units), its
   remaining work goes below zero; under rule 1 with absence at steps 2 and 1
   the run ends two steps later than without absence and the deleted logs of
   both tasks equal the absence-free ones *)
Definition ex_del_opts1 : opts := mkOpts 1%Z [2; 1] false true true 50 [].
Example C10_deletion_example_est_ff :
  edges_in_range ex_ff_cfg
  /\ (nth 4 (l_rem (tl (fst (simulate ex_ff_cfg ex_del_opts1 (blank ex_ff_cfg))) 1)) 0%Q < 0)%Q
  /\ status (fst (simulate ex_ff_cfg ex_del_opts1 (blank ex_ff_cfg))) = StSuccess
  /\ time (fst (simulate ex_ff_cfg ex_del_opts1 (blank ex_ff_cfg))) = 2 + time (fst (simulate ex_ff_cfg (no_abs ex_del_opts1) (blank ex_ff_cfg)))
  /\ l_st (tl (snd (remove_absence ex_ff_cfg (o_abs ex_del_opts1, fst (simulate ex_ff_cfg ex_del_opts1 (blank ex_ff_cfg))))) 1)
     = l_st (tl (fst (simulate ex_ff_cfg (no_abs ex_del_opts1) (blank ex_ff_cfg))) 1).
Proof.
  split; [|vm_compute; repeat split].
  intros u e. destruct u as [|[|u]]; cbn; intuition (subst; cbn; auto with arith).
Qed.

(* (e) at run level: in every allocated / performed / recorded snapshot of
   every run a worker or facility whose own absence list contains the step is
   in state ABSENCE (it stays so through the whole step), hence contributes no
   progress to any task and costs nothing (C03's resource-state invariant) *)
Theorem C10_individually_absent_resource_is_dead : forall c,
  (forall w, In w (all_workers c) -> w < nW c) -> NoDup (all_workers c) ->
  (forall p f, In f (wp_facs c p) -> f < nF c) ->
  forall o s, o_init_state o = true ->
  Forall (fun ob : obs => snd (fst ob) <> PUpdated ->
            let x := snd ob in
            (forall w t, w < nW c -> mem (time x) (w_abs c w) = true ->
               rst (wd x w) = RAbsence /\ w_progress c x w t = 0%Q /\ rcost true (w_cost c w) (wd x w) = 0%Q)
            /\ (forall f t, f < nF c -> mem (time x) (f_abs c f) = true ->
               rst (fd x f) = RAbsence /\ f_progress c x f t = 0%Q /\ rcost true (f_cost c f) (fd x f) = 0%Q))
         (snd (simulate c o s)).
Proof.
  intros c H1 H2 H3 o s Hs.
  pose proof (C03Res.resources_all_runs c H1 H2 H3 o s Hs) as H.
  eapply Forall_impl; [|exact H]. intros [[k ph] x]. cbn [fst snd]. intros Hx Hph.
  destruct ph; [contradiction Hph; reflexivity| | |]; destruct Hx as [Hw Hf]; split.
  all: try (intros w t Hlt Hm; assert (E : rst (wd x w) = RAbsence)
              by (rewrite (Hw w Hlt); unfold C03Res.Rexp; rewrite Hm, orb_true_r; reflexivity);
            split; [exact E|];
            destruct (C10_absent_resource_contributes_nothing c x w 0 t) as [A _]; apply A; exact E).
  all: intros f t Hlt Hm; assert (E : rst (fd x f) = RAbsence)
         by (rewrite (Hf f Hlt); unfold C03Res.Rexp; rewrite Hm, orb_true_r; reflexivity);
       split; [exact E|];
       destruct (C10_absent_resource_contributes_nothing c x 0 f t) as [_ A]; apply A; exact E.
Qed.
Print Assumptions C10_individually_absent_resource_is_dead.

(* (f) is FALSE for the FIFO rule, also in the model: the recorded finding
   C10/f-fifo as a theorem.  In the project ex_fifo_cfg (three tasks, two
   workers, no facilities, no individual absences, auto-task flag off) with
   project-wide absence at steps 0 and 1 both runs succeed, but the run with the
   absence steps deleted lasts 5 steps and the absence-free run 4: while task 2
   is WORKING through the absence steps it is logged READY twice, so the FIFO key
   (number of READY entries) later sends the freed worker 0 to task 2 instead of
   task 0.  The same case is corpus/C10/fifo_small.json for the implementation. *)
Theorem C10_deletion_refuted_for_FIFO :
  exists c o s0,
    o_rule o = 4%Z /\ o_auto_abs o = false /\ (forall w, w_abs c w = []) /\ (forall f, f_abs c f = [])
    /\ Forest c /\ o_init_state o = true /\ o_init_log o = true
    /\ status (fst (simulate c o s0)) = StSuccess /\ status (fst (simulate c (no_abs o) s0)) = StSuccess
    /\ ~ same_result c (snd (remove_absence c (o_abs o, fst (simulate c o s0)))) (fst (simulate c (no_abs o) s0)).
Proof.
  exists ex_fifo_cfg, ex_fifo_opts, (blank ex_fifo_cfg).
  split; [reflexivity|]. split; [reflexivity|]. split; [intros w; reflexivity|]. split; [intros f; reflexivity|].
  split; [intros k; vm_compute; repeat constructor; cbn; intuition discriminate|].
  split; [reflexivity|]. split; [reflexivity|].
  split; [vm_compute; reflexivity|]. split; [vm_compute; reflexivity|].
  intros (Ht & _). vm_compute in Ht. discriminate.
Qed.
Print Assumptions C10_deletion_refuted_for_FIFO.

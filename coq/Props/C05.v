(* C05  Every feasible project completes, and the reported status is truthful.
   Statements only; proofs in Proofs/C05Proof.v, Proofs/C05Live.v.
   PARTIAL: the liveness clause is proved for the class of
   C05_feasible_projects_complete (worker-only projects: no facilities /
   components; any dependency kinds, tasks with incoming FF / SF links having
   workers of their own); for projects with facilities it is searched by the
   oracle (harness/oracles.py feasible / c05_liveness). *)
From Coq Require Import List ZArith QArith Bool Arith Lia Lqa.
From PV Require Import Model.Types Model.Sim Model.Example Proofs.Base Proofs.RunLemmas Proofs.C01Proof Proofs.C05Proof Proofs.C05Live.
Import ListNotations.
Open Scope nat_scope.

(* simulate is a total function of the model (it always returns); no snapshot
   other than the final `updated` one has a step index >= max_time, and the
   number of recorded steps is at most max_time - start time *)
Theorem C05_no_step_beyond_max_time : forall c o s,
  Forall (fun ob : obs => snd (fst ob) <> PUpdated -> fst (fst ob) < o_max_time o) (snd (simulate c o s))
  /\ recorded (snd (simulate c o s)) <= o_max_time o - time (initialize c o s).
Proof. exact C05_bounded. Qed.
Print Assumptions C05_no_step_beyond_max_time.

(* FINISHED_SUCCESS exactly when every task is FINISHED; FINISHED_FAILURE only
   when time reached max_time; one of the two is always reported *)
Theorem C05_status_truthful : forall c o s,
  let sf := fst (simulate c o s) in
  (status sf = StSuccess <-> all_finished c sf = true)
  /\ (status sf = StFailure -> o_max_time o <= time sf)
  /\ (status sf = StSuccess \/ status sf = StFailure).
Proof. exact C05_status. Qed.
Print Assumptions C05_status_truthful.

(* a non-automatic, non-exempt task for which no worker has a positive skill,
   a targeting team and (if given) a place in the fixed id list is never
   allocated, never WORKING, never FINISHED, and the project does not report
   success *)
Theorem C05_unservable_task : forall c o, NoDup (all_workers c) -> forall s t,
  t < nT c -> Unservable c t -> o_init_state o = true -> (o_init_log o && exempt c t = false) ->
  status (fst (simulate c o s)) <> StSuccess
  /\ Forall (fun ob : obs => aw (td (snd ob) t) = [] /\ st (td (snd ob) t) <> TWorking /\ st (td (snd ob) t) <> TFinished)
            (snd (simulate c o s)).
Proof. intros c o H. exact (C05_unservable_never_succeeds c o H). Qed.
Print Assumptions C05_unservable_task.

(* liveness: every project of the following class completes.
     - the network is acyclic (rank decreases along every input edge, ids in
       range), with ANY mix of the four dependency kinds;
     - a task with an incoming finish-to-finish or start-to-finish link has
       workers of its own: a worker with a positive skill for it has a positive
       skill for no other task (such a task may have to wait, holding its
       workers, until its predecessor is done);
     - no task needs a facility or is bound to a component;
     - every non-automatic task has a worker with a positive skill for it, in
       one of its teams and (when worker ids are fixed) among the fixed ids;
     - delta > 0 bounds every positive skill and every automatic rate from
       below; work amounts are >= 0, default progress in [0, 1];
     - every project-wide and every individual absence step is < H.
   Then a freshly initialised run reports FINISHED_SUCCESS whenever
     max_time >= H + sum over tasks of (1 + ceil(work x (1 - progress) / delta)),
   for EVERY task priority rule, worker priority rule, team structure, solo
   flags, absence pattern below H and order of the task list.  (The proof: a
   natural-number measure over the unfinished tasks never grows and drops in
   every step after H, because the unfinished task of least rank is READY or
   WORKING with an open finish gate, and either it or the task that occupies
   its eligible worker -- which by the second condition never waits -- makes
   progress >= delta; C06_no_idle_eligible_worker rules out that the worker
   stays idle.) *)
Theorem C05_feasible_projects_complete : forall c o rank delta H,
  (forall w, In w (all_workers c) -> w < nW c) -> NoDup (all_workers c) ->
  (forall p f, In f (wp_facs c p) -> f < nF c) ->
  (forall t e, t < nT c -> In e (t_inputs c t) -> fst e < nT c /\ rank (fst e) < rank t) ->
  (forall t t' w, t < nT c -> t' < nT c ->
     (exists e, In e (t_inputs c t) /\ (snd e = FF \/ snd e = SF)) ->
     has_wskill c w t = true -> has_wskill c w t' = true -> t' = t) ->
  (forall t, t < nT c -> t_needfac c t = false /\ t_comp c t = None) ->
  (forall t, t < nT c -> t_auto c t = false ->
     exists w, In w (all_workers c) /\ has_wskill c w t = true /\ w_targets c w t = true
               /\ (forall l, t_fixw c t = Some l -> mem w l = true)) ->
  (0 < delta)%Q ->
  (forall w t, has_wskill c w t = true -> (delta <= skill_val (w_skill c w t))%Q) ->
  (forall w t, (0 <= skill_val (w_skill c w t))%Q) ->
  (forall t, t < nT c -> t_auto c t = true -> (delta <= t_rate c t)%Q) ->
  (forall t, t < nT c -> (0 <= t_work c t)%Q /\ (0 <= t_progress c t <= 1)%Q) ->
  (forall a, In a (o_abs o) -> a < H) -> (forall w a, In a (w_abs c w) -> a < H) ->
  forall s, o_init_state o = true -> o_init_log o = true ->
  H + work_bound c delta <= o_max_time o ->
  status (fst (simulate c o s)) = StSuccess.
Proof.
  intros c o rank delta H A1 A2 A3 A4 A5 A6 A7 A8 A9 A10 A11 A12 A13 A14 s.
  exact (feasible_projects_complete c o rank delta H A1 A2 A3 A4 A5 A6 A7 A8 A9 A10 A11 A12 A13 A14 s).
Qed.
Print Assumptions C05_feasible_projects_complete.

(* non-vacuity: the finish-to-start diamond (two workers, unit skills) is in
   the class with delta = 1, H = 0; its work bound is 11 *)
Example C05_live_example :
  work_bound ex_fs_cfg 1 = 11 /\ status (fst (simulate ex_fs_cfg ex_fs_opts (blank ex_fs_cfg))) = StSuccess
  /\ (forall t e, t < nT ex_fs_cfg -> In e (t_inputs ex_fs_cfg t) -> fst e < nT ex_fs_cfg /\ fst e < t)
  /\ (forall t, t < nT ex_fs_cfg -> t_auto ex_fs_cfg t = false ->
        exists w, In w (all_workers ex_fs_cfg) /\ has_wskill ex_fs_cfg w t = true /\ w_targets ex_fs_cfg w t = true
                  /\ (forall l, t_fixw ex_fs_cfg t = Some l -> mem w l = true)).
Proof.
  split; [vm_compute; reflexivity|]. split; [vm_compute; reflexivity|]. split.
  - intros t e Ht He. destruct t as [|[|[|[|t]]]]; cbn in *; try lia; intuition (subst; cbn; lia).
  - intros t Ht _. exists 0. destruct t as [|[|[|[|t]]]]; cbn in Ht; try lia; (split; [left; reflexivity|]); repeat split; try reflexivity; intros l F; discriminate.
Qed.

(* non-vacuity with a finish-to-finish link: two tasks, each with a worker of
   its own; task 1 (1 unit) waits for task 0 (3 units), overshooting its work,
   and the run succeeds at time 3 within the bound 0 + (1+3) + (1+1) = 6 *)
Example C05_live_example_ff :
  work_bound ex_ff_cfg 1 = 6
  /\ status (fst (simulate ex_ff_cfg ex_ff_opts (blank ex_ff_cfg))) = StSuccess
  /\ l_rem (tl (fst (simulate ex_ff_cfg ex_ff_opts (blank ex_ff_cfg))) 1) = [0; -1; -2]%Q
  /\ (forall t t' w, t < nT ex_ff_cfg -> t' < nT ex_ff_cfg ->
        (exists e, In e (t_inputs ex_ff_cfg t) /\ (snd e = FF \/ snd e = SF)) ->
        has_wskill ex_ff_cfg w t = true -> has_wskill ex_ff_cfg w t' = true -> t' = t).
Proof.
  split; [vm_compute; reflexivity|]. split; [vm_compute; reflexivity|]. split; [vm_compute; reflexivity|].
  intros t t' w Ht Ht' _ H1 H2.
  destruct t as [|[|t]]; destruct t' as [|[|t']]; cbn in Ht, Ht'; try lia; try reflexivity;
    destruct w as [|[|w]]; vm_compute in H1, H2; discriminate.
Qed.

Example C05_example : status ex_final = StSuccess /\ all_finished ex_cfg ex_final = true /\ recorded ex_trace = 6.
Proof. vm_compute. repeat split. Qed.

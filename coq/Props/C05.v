(* C05  Every feasible project completes, and the reported status is truthful.
   Statements only; proofs in Proofs/C05Proof.v.
   PARTIAL: the liveness clause (feasible projects complete within the work
   bound) is not proved yet; it is searched by the oracle (harness/oracles.py
   feasible / c05_liveness). *)
From Coq Require Import List ZArith QArith Bool Arith.
From PV Require Import Model.Types Model.Sim Model.Example Proofs.Base Proofs.RunLemmas Proofs.C01Proof Proofs.C05Proof.
Import ListNotations.
Open Scope nat_scope.

(* simulate is a total function of the model (it always returns); no snapshot
   other than the final `updated` one has a step index >= max_time, and the
   number of recorded steps is at most max_time - start time *)
Theorem C05_no_step_beyond_max_time : forall c o s,
  Forall (fun ob : obs => snd (fst ob) <> PUpdated -> fst (fst ob) < o_max_time o) (snd (simulate c o s))
  /\ recorded (snd (simulate c o s)) <= o_max_time o - time (initialize c o s).
Proof. exact C05_bounded. Qed.
Print Assumptions C05_no_step_beyond_max_time.

(* FINISHED_SUCCESS exactly when every task is FINISHED; FINISHED_FAILURE only
   when time reached max_time; one of the two is always reported *)
Theorem C05_status_truthful : forall c o s,
  let sf := fst (simulate c o s) in
  (status sf = StSuccess <-> all_finished c sf = true)
  /\ (status sf = StFailure -> o_max_time o <= time sf)
  /\ (status sf = StSuccess \/ status sf = StFailure).
Proof. exact C05_status. Qed.
Print Assumptions C05_status_truthful.

(* a non-automatic, non-exempt task for which no worker has a positive skill,
   a targeting team and (if given) a place in the fixed id list is never
   allocated, never WORKING, never FINISHED, and the project does not report
   success *)
Theorem C05_unservable_task : forall c o, NoDup (all_workers c) -> forall s t,
  t < nT c -> Unservable c t -> o_init_state o = true -> (o_init_log o && exempt c t = false) ->
  status (fst (simulate c o s)) <> StSuccess
  /\ Forall (fun ob : obs => aw (td (snd ob) t) = [] /\ st (td (snd ob) t) <> TWorking /\ st (td (snd ob) t) <> TFinished)
            (snd (simulate c o s)).
Proof. intros c o H. exact (C05_unservable_never_succeeds c o H). Qed.
Print Assumptions C05_unservable_task.

Example C05_example : status ex_final = StSuccess /\ all_finished ex_cfg ex_final = true /\ recorded ex_trace = 6.
Proof. vm_compute. repeat split. Qed.

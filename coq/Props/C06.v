(* C06  No avoidable waiting: work starts, proceeds and ends as early as the
   rules allow.  Statements only; proofs in Proofs/C02Proof.v,
   Proofs/FinishComplete.v, Proofs/C06Proof.v, Proofs/C06Max.v.
   The idle-worker clause (c) is proved for tasks that need no facility and,
   in the form "no idle worker-facility pair", for tasks that need one (with
   respect to the workplace at which the task's component sat when the task
   was served; the oracle searches the same clause on the final placement). *)
From Coq Require Import List ZArith QArith Bool Arith.
From PV Require Import Model.Types Model.Sim Model.Example Proofs.Base Proofs.RunLemmas Proofs.C01Proof
  Proofs.C02Proof Proofs.FinishComplete Proofs.C06Proof Proofs.C06Max Proofs.C06Fac.
Import ListNotations.
Open Scope nat_scope.

(* (a) after __update of any step, a task whose ready gate holds (FS
   predecessors FINISHED, SS predecessors started -- judged in that very
   state) is no longer NONE *)
Theorem C06_dependencies_satisfied_means_not_none : forall c o s t, t < nT c ->
  st (td (update c o s) t) = TNone -> ready_gate c (update c o s) t = false.
Proof. exact update_ready_complete. Qed.
Print Assumptions C06_dependencies_satisfied_means_not_none.

(* (b) an automatic task that is not bound to a component never waits in READY
   at a step in which tasks may start *)
Theorem C06_automatic_task_starts_at_once : forall c o s t, t < nT c ->
  t_auto c t = true -> t_comp c t = None -> st (td s t) = TReady ->
  (negb (mem (time s) (o_abs o)) || o_auto_abs o) = true ->
  st (td (step_allocate c o s) t) = TWorking.
Proof. exact C06_auto_never_waits. Qed.
Print Assumptions C06_automatic_task_starts_at_once.

(* (c) no worker stays FREE while a READY or WORKING task exists that this
   worker is eligible for and that can still accept a resource: after
   __allocate of a working step, for every candidate task t (READY or WORKING,
   not automatic, needing no facility) and every worker w that was FREE and
   received nothing, if w has the skill and belongs to a team of t then
   can_add_resources(t, w) is False in the state reached *)
Theorem C06_no_idle_eligible_worker : forall c o s t w,
  In t (filter (fun t => is_ready (st (td s t)) || is_working (st (td s t))) (tasks c)) ->
  t_auto c t = false -> t_needfac c t = false ->
  In w (all_workers c) -> rst (wd s w) = RFree -> asg (wd (allocate c o s) w) = asg (wd s w) ->
  has_wskill c w t = true -> w_targets c w t = true ->
  can_add c (allocate c o s) t w None = false.
Proof. exact no_idle_eligible_worker. Qed.
Print Assumptions C06_no_idle_eligible_worker.

(* (c) for a task that needs a facility: cand = l1 ++ t :: l2 is the priority
   order of this __allocate and p the workplace at which the component of t
   sits when t is served (after the tasks l1 and after t's own placement
   attempt).  No worker that was FREE and received nothing can be added to t
   together with a facility of p that was FREE, has the skill and targets t:
   can_add_resources(t, w, f) is False in the state reached -- for facilities
   that went to t or to somebody else in the meantime as well *)
Theorem C06_no_idle_eligible_pair : forall c o s l1 t l2 p w f,
  sort_tasks c (o_rule o) s (filter (fun t => is_ready (st (td s t)) || is_working (st (td s t))) (tasks c)) = l1 ++ t :: l2 ->
  t_auto c t = false -> t_needfac c t = true ->
  served_at c l1 s (filter (fun w => rstate_eqb (rst (wd s w)) RFree) (all_workers c)) t = Some p ->
  In f (wp_facs c p) -> rst (fd s f) = RFree -> has_fskill c f t = true -> f_targets c f t = true ->
  In w (all_workers c) -> rst (wd s w) = RFree -> asg (wd (allocate c o s) w) = asg (wd s w) ->
  has_wskill c w t = true -> w_targets c w t = true ->
  can_add c (allocate c o s) t w (Some f) = false.
Proof. exact no_idle_eligible_pair. Qed.
Print Assumptions C06_no_idle_eligible_pair.

(* (d) a task whose remaining work has reached zero and whose finish
   dependencies hold is FINISHED at the very next __update, independently of
   the order of the task list *)
Theorem C06_finished_at_the_next_step : forall c o s t, t < nT c ->
  st (td (update c o s) t) = TWorking -> Qltb (rem (td (update c o s) t)) tol = true ->
  finish_gate c (update c o s) t = false.
Proof. exact update_finish_complete. Qed.
Print Assumptions C06_finished_at_the_next_step.

(* closed form of the READY -> WORKING promotion *)
Theorem C06_check_working_closed_form : forall c s t,
  st (td (check_working c s) t) =
  if (t <? nT c) && cw_target c s t && is_ready (st (td s t)) then TWorking else st (td s t).
Proof. exact stof_check_working. Qed.
Print Assumptions C06_check_working_closed_form.

(* non-vacuity of the pair clause: in the two-component assembly project at
   step 0 the priority order is [0; 1], task 0 needs a facility, is served at
   workplace 0 and receives worker 0 with facility 0 *)
Example C06_pair_example :
  let s := absence_update ex_pl_cfg true (update ex_pl_cfg ex_pl_opts (initialize ex_pl_cfg ex_pl_opts (blank ex_pl_cfg))) in
  sort_tasks ex_pl_cfg (o_rule ex_pl_opts) s (filter (fun t => is_ready (st (td s t)) || is_working (st (td s t))) (tasks ex_pl_cfg)) = [0; 1]
  /\ served_at ex_pl_cfg [] s (filter (fun w => rstate_eqb (rst (wd s w)) RFree) (all_workers ex_pl_cfg)) 0 = Some 0
  /\ t_needfac ex_pl_cfg 0 = true /\ t_auto ex_pl_cfg 0 = false
  /\ aw (td (allocate ex_pl_cfg ex_pl_opts s) 0) = [0] /\ af (td (allocate ex_pl_cfg ex_pl_opts s) 0) = [0].
Proof. vm_compute. repeat split. Qed.

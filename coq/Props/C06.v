(* C06  No avoidable waiting: work starts, proceeds and ends as early as the
   rules allow.  Statements only; proofs in Proofs/C02Proof.v,
   Proofs/FinishComplete.v, Proofs/C06Proof.v, Proofs/C06Max.v.
   PARTIAL: the idle-worker clause (c) is proved for tasks that need no
   facility; for facility tasks it is searched by the oracle. *)
From Coq Require Import List ZArith QArith Bool Arith.
From PV Require Import Model.Types Model.Sim Model.Example Proofs.Base Proofs.RunLemmas Proofs.C01Proof
  Proofs.C02Proof Proofs.FinishComplete Proofs.C06Proof Proofs.C06Max.
Import ListNotations.
Open Scope nat_scope.

(* (a) after __update of any step, a task whose ready gate holds (FS
   predecessors FINISHED, SS predecessors started -- judged in that very
   state) is no longer NONE *)
Theorem C06_dependencies_satisfied_means_not_none : forall c o s t, t < nT c ->
  st (td (update c o s) t) = TNone -> ready_gate c (update c o s) t = false.
Proof. exact update_ready_complete. Qed.
Print Assumptions C06_dependencies_satisfied_means_not_none.

(* (b) an automatic task that is not bound to a component never waits in READY
   at a step in which tasks may start *)
Theorem C06_automatic_task_starts_at_once : forall c o s t, t < nT c ->
  t_auto c t = true -> t_comp c t = None -> st (td s t) = TReady ->
  (negb (mem (time s) (o_abs o)) || o_auto_abs o) = true ->
  st (td (step_allocate c o s) t) = TWorking.
Proof. exact C06_auto_never_waits. Qed.
Print Assumptions C06_automatic_task_starts_at_once.

(* (c) no worker stays FREE while a READY or WORKING task exists that this
   worker is eligible for and that can still accept a resource: after
   __allocate of a working step, for every candidate task t (READY or WORKING,
   not automatic, needing no facility) and every worker w that was FREE and
   received nothing, if w has the skill and belongs to a team of t then
   can_add_resources(t, w) is False in the state reached *)
Theorem C06_no_idle_eligible_worker : forall c o s t w,
  In t (filter (fun t => is_ready (st (td s t)) || is_working (st (td s t))) (tasks c)) ->
  t_auto c t = false -> t_needfac c t = false ->
  In w (all_workers c) -> rst (wd s w) = RFree -> asg (wd (allocate c o s) w) = asg (wd s w) ->
  has_wskill c w t = true -> w_targets c w t = true ->
  can_add c (allocate c o s) t w None = false.
Proof. exact no_idle_eligible_worker. Qed.
Print Assumptions C06_no_idle_eligible_worker.

(* (d) a task whose remaining work has reached zero and whose finish
   dependencies hold is FINISHED at the very next __update, independently of
   the order of the task list *)
Theorem C06_finished_at_the_next_step : forall c o s t, t < nT c ->
  st (td (update c o s) t) = TWorking -> Qltb (rem (td (update c o s) t)) tol = true ->
  finish_gate c (update c o s) t = false.
Proof. exact update_finish_complete. Qed.
Print Assumptions C06_finished_at_the_next_step.

(* closed form of the READY -> WORKING promotion *)
Theorem C06_check_working_closed_form : forall c s t,
  st (td (check_working c s) t) =
  if (t <? nT c) && cw_target c s t && is_ready (st (td s t)) then TWorking else st (td s t).
Proof. exact stof_check_working. Qed.
Print Assumptions C06_check_working_closed_form.

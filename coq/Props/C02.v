(* C02  Remaining work changes only by the allocated resources' contribution.
   Statements only; proofs in Proofs/C02Proof.v, Proofs/FinishComplete.v. *)
From Coq Require Import List ZArith QArith Bool Arith.
From PV Require Import Model.Types Model.Sim Model.Example Proofs.Base Proofs.RunLemmas Proofs.C01Proof
  Proofs.C02Proof Proofs.FinishComplete Proofs.LogsProof.
Import ListNotations.
Open Scope nat_scope.

(* (a) in the perform phase of a step a WORKING task loses exactly [progress]
   (the contribution computed from the allocated workers / facilities, see
   C02_contribution) -- at a working step every WORKING task, at a project-wide
   absence step only automatic tasks and only if the flag is set -- and the
   remaining work of every other task does not change *)
Theorem C02_perform_balance : forall c o s t,
  let working := negb (mem (time s) (o_abs o)) in
  rem (td (step_perform c o s) t) =
  if (t <? nT c) && is_working (st (td s t)) && (working || (o_auto_abs o && t_auto c t))
  then (rem (td s t) - progress c s t)%Q else rem (td s t).
Proof. exact rem_step_perform. Qed.
Print Assumptions C02_perform_balance.

(* the contribution: fixed unit rate for automatic tasks; sum of worker skills;
   worker skill x paired facility skill (pairs by position) when a facility is
   needed; a resource without skill or in state ABSENCE contributes 0 *)
Theorem C02_contribution : forall c s t,
  progress c s t =
  if t_auto c t then t_rate c t
  else if t_needfac c t then
    fold_left (fun a wf => (a + w_progress c s (fst wf) t * f_progress c s (snd wf) t)%Q)
              (combine (aw (td s t)) (af (td s t))) 0%Q
  else fold_left (fun a w => (a + w_progress c s w t)%Q) (aw (td s t)) 0%Q.
Proof. reflexivity. Qed.
Print Assumptions C02_contribution.

Theorem C02_worker_contribution : forall c s w t,
  w_progress c s w t =
  if negb (has_wskill c w t) then 0%Q
  else if rstate_eqb (rst (wd s w)) RAbsence then 0%Q
  else (skill_val (w_skill c w t) / inject_nat (count_working s (asg (wd s w))))%Q.
Proof. reflexivity. Qed.
Print Assumptions C02_worker_contribution.

(* (b) no other phase changes remaining work, except that __update sets it to
   0 for the tasks it finishes; (c) a task is finished only if its remaining
   work was below the tolerance *)
Theorem C02_allocate_keeps_rem : forall c o s t, rem (td (step_allocate c o s) t) = rem (td s t).
Proof. exact rem_step_allocate. Qed.
Print Assumptions C02_allocate_keeps_rem.

Theorem C02_record_keeps_rem : forall c o s t, rem (td (step_record c o s) t) = rem (td s t).
Proof. exact rem_step_record. Qed.
Print Assumptions C02_record_keeps_rem.

Theorem C02_update_rem : forall c o s t,
  (rem (td (update c o s) t) = rem (td s t)
   /\ (st (td (update c o s) t) = TFinished <-> st (td s t) = TFinished))
  \/ (st (td s t) = TWorking /\ Qltb (rem (td s t)) tol = true
      /\ st (td (update c o s) t) = TFinished /\ rem (td (update c o s) t) = 0%Q).
Proof. exact update_rem. Qed.
Print Assumptions C02_update_rem.

(* (d) "at the first step after": once __update has run, no WORKING task whose
   remaining work is below the tolerance has an open finish gate -- whatever
   the order of the tasks in the task list (fixpoint of the finishing pass; the
   model's fuel always suffices) *)
Theorem C02_finished_as_soon_as_possible : forall c o s t, t < nT c ->
  st (td (update c o s) t) = TWorking -> Qltb (rem (td (update c o s) t)) tol = true ->
  finish_gate c (update c o s) t = false.
Proof. exact update_finish_complete. Qed.
Print Assumptions C02_finished_as_soon_as_possible.

(* (e) a FINISHED task reports remaining work 0 (unless it was FINISHED from
   the start by its default progress), in every snapshot of every run *)
Theorem C02_finished_reports_zero : forall c o s,
  (o_init_state o = true \/ FinZero c s) ->
  Forall (fun ob : obs => forall t, t < nT c -> st (td (snd ob) t) = TFinished ->
                                   rem (td (snd ob) t) = 0%Q \/ exempt c t = true)
         (snd (simulate c o s)).
Proof. exact C02_finished_means_zero. Qed.
Print Assumptions C02_finished_reports_zero.

(* (f) *)
Theorem C02_initial_remaining_work : forall c o s t, o_init_state o = true -> t < nT c ->
  rem (td (initialize c o s) t) = (t_work c t * (1 - t_progress c t))%Q.
Proof. exact C02_initial_rem. Qed.
Print Assumptions C02_initial_remaining_work.

(* the log: entry k of remaining_work_amount_record_list is the live value when
   step k was recorded (all logs are maps over the history of recorded rows) *)
Theorem C02_logged_remaining_work : forall c h s t, LogsAre c h h s -> t < nT c ->
  l_rem (tl s t) = map (fun r : row => rem (td (snd r) t)) h.
Proof. intros c h s t (H1 & _) Ht. rewrite (H1 t Ht). reflexivity. Qed.
Print Assumptions C02_logged_remaining_work.

Example C02_example :
  map Qred (l_rem (tl ex_final 2)) = [3; 3; 3; 1; -1; 0]%Q /\
  map Qred (l_rem (tl ex_final 1)) = [1; 1; 0; 0; 0; 0]%Q.
Proof. vm_compute. split; reflexivity. Qed.

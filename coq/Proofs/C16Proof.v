(* C16: a well-formed save schema round-trips. *)
From Coq Require Import List String Bool.
From PV Require Import Model.JsonSchema.
Import ListNotations.
Open Scope string_scope.

Lemma mem_s_In k l : mem_s k l = true <-> In k l.
Proof.
  unfold mem_s. rewrite existsb_exists. split.
  - intros (y & Hy & E). apply String.eqb_eq in E. subst. exact Hy.
  - intros H. exists k. split; [exact H|apply String.eqb_refl].
Qed.

Lemma nodup_s_NoDup l : nodup_s l = true -> NoDup l.
Proof.
  induction l as [|x l IH]; cbn; intros H; [constructor|].
  apply andb_true_iff in H. destruct H as [H1 H2]. constructor; [|apply IH; exact H2].
  intros Hin. apply mem_s_In in Hin. rewrite Hin in H1. discriminate.
Qed.

Lemma assoc_s_map_In {A B} (key : A -> string) (val : A -> B) (l : list A) x :
  NoDup (map key l) -> In x l -> assoc_s (key x) (map (fun e => (key e, val e)) l) = Some (val x).
Proof.
  induction l as [|y l IH]; intros Hnd Hin; [contradiction|].
  cbn [map] in *. inversion Hnd as [|a b Ha Hb]; subst. cbn [assoc_s].
  destruct Hin as [->|Hin].
  - rewrite String.eqb_refl. reflexivity.
  - destruct (String.eqb (key x) (key y)) eqn:E.
    + apply String.eqb_eq in E. exfalso. apply Ha. rewrite <- E. apply in_map. exact Hin.
    + apply IH; assumption.
Qed.

Section RT.
Variables V J : Type.
Variable out : okind -> V -> J.
Variable inn : ikind -> lkind -> option J -> V.
Hypothesis law : forall ko ki l v, compatible ko ki l = true -> out ko (inn ki l (Some (out ko v))) = out ko v.

(* writing, reading into a new object (whatever its defaults) and writing
   again gives the first file *)
Theorem roundtrip c (o dflt : obj V) : schema_ok c = true ->
  export V J out c (import V J inn c (export V J out c o) dflt) = export V J out c o.
Proof.
  unfold schema_ok. intros H. apply andb_true_iff in H. destruct H as [H _].
  apply andb_true_iff in H. destruct H as [Hnd Hall].
  apply nodup_s_NoDup in Hnd. rewrite forallb_forall in Hall.
  unfold export at 1 3. apply map_ext_in. intros [[k a] ko] Hin. cbn [fst snd]. f_equal.
  specialize (Hall _ Hin). unfold entry_ok in Hall. unfold import.
  destruct (param_of a (c_assign c)) as [p|]; [|discriminate].
  destruct (import_of p (c_imports c)) as [[k' ki]|]; [|discriminate].
  apply andb_true_iff in Hall. destruct Hall as [Ek Hc]. apply String.eqb_eq in Ek. subst k'.
  unfold export.
  pose proof (assoc_s_map_In (fun e : string * string * okind => fst (fst e))
             (fun e => out (snd e) (o (snd (fst e)))) (c_exports c) (k, a, ko) Hnd Hin) as E.
  cbn [fst snd] in E. rewrite E. apply law. exact Hc.
Qed.

(* the second file has exactly the keys of the first, in the same order *)
Theorem roundtrip_keys c (o : obj V) : map fst (export V J out c o) = map (fun e => fst (fst e)) (c_exports c).
Proof. unfold export. rewrite map_map. reflexivity. Qed.
End RT.

Lemma ctor_saved_spec exempt c : ctor_saved exempt c = true ->
  forall p, In p (c_params c) -> In p exempt \/ exists k ki, import_of p (c_imports c) = Some (k, ki).
Proof.
  unfold ctor_saved. rewrite forallb_forall. intros H p Hp. specialize (H p Hp).
  apply orb_true_iff in H. destruct H as [H|H]; [left; apply mem_s_In; exact H|right].
  destruct (import_of p (c_imports c)) as [[k ki]|]; [eauto|discriminate].
Qed.

Lemma imports_exported_spec c : imports_exported c = true ->
  forall p k ki, In (p, k, ki) (c_imports c) -> exists a ko, In (k, a, ko) (c_exports c).
Proof.
  unfold imports_exported. rewrite forallb_forall. intros H p k ki Hin. specialize (H _ Hin). cbn [fst snd] in H.
  apply mem_s_In in H. apply in_map_iff in H. destruct H as ([[k' a] ko] & E & Hin'). cbn in E. subst k'. eauto.
Qed.

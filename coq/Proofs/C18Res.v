(* C18, addition: an inserted step is a dead step of every worker and facility:
   the resource's cost entry is 0 and its logged state is FREE. *)
From Coq Require Import List ZArith QArith Bool Arith Lia Permutation Sorted.
From PV Require Import Model.Types Model.Sim Model.LogEdit Proofs.Base Proofs.SortProof Proofs.C0708Proof Proofs.C18Proof Proofs.C18Dead.
Import ListNotations.
Open Scope nat_scope.

Theorem inserted_steps_hold_constant {A} (v d : A) steps : StronglySorted lt steps -> forall (l : list A) j,
  In j steps -> j < length l -> nth j (ins_seq (fun _ _ => v) steps l) d = v.
Proof.
  induction steps as [|k pre IH] using rev_ind; intros Hs l j Hin Hj; [destruct Hin|].
  destruct (ssorted_snoc pre k Hs) as [Hp Hlt].
  unfold ins_seq. rewrite fold_left_app. cbn [fold_left]. fold (ins_seq (fun _ _ => v) pre l).
  set (L := ins_seq (fun _ _ => v) pre l).
  assert (HL : length l <= length L).
  { unfold L. rewrite ins_seq_length. apply len_ins_ge. }
  apply in_app_or in Hin. destruct Hin as [Hin|[<-|[]]].
  - rewrite (later_insertions_keep_earlier_entries (fun _ _ => v) L j k d (Hlt j Hin)).
    apply IH; assumption.
  - unfold ins_one. assert (E : (k <? length L) = true) by (apply Nat.ltb_lt; lia). rewrite E.
    apply nth_insert_at_same. lia.
Qed.

(* the joint (one guard) resource editor acts on the cost and state logs as
   the list-level editors with constant entries *)
Lemma res_insert_split steps : forall g n, rlog_len n g ->
  rl_cost (res_insert steps g) = ins_seq (fun _ _ => 0%Q) steps (rl_cost g)
  /\ rl_st (res_insert steps g) = ins_seq (fun _ _ => RFree) steps (rl_st g).
Proof.
  unfold res_insert, ins_seq. induction steps as [|k steps IH]; intros g n H; cbn [fold_left]; [split; reflexivity|].
  destruct H as (H1 & H2 & H3).
  assert (Ec : ins_one (fun _ _ => 0%Q) (rl_cost g) k = if k <? n then insert_at k 0%Q (rl_cost g) else rl_cost g)
    by (unfold ins_one; rewrite H2; reflexivity).
  assert (Es : ins_one (fun _ _ => RFree) (rl_st g) k = if k <? n then insert_at k RFree (rl_st g) else rl_st g)
    by (unfold ins_one; rewrite H1; reflexivity).
  rewrite Ec, Es, H1. destruct (k <? n) eqn:E.
  - match goal with |- context [fold_left _ steps ?g0] =>
      assert (Hl : rlog_len (S n) g0) by
        (unfold rlog_len; cbn [rl_st rl_cost rl_asg]; rewrite !insert_at_length; repeat split; congruence);
      pose proof (IH g0 (S n) Hl) as R end.
    cbn [rl_st rl_cost] in R. exact R.
  - apply (IH g n). repeat split; assumption.
Qed.

Theorem inserted_steps_are_dead_for_resources c l ab s j : Lens c s (time s) ->
  In j (new_steps ab [] l) -> j < time s ->
  let s' := snd (insert_absence c l (ab, s)) in
  (forall w, w < nW c -> nth j (rl_cost (wl s' w)) 1%Q = 0%Q /\ nth j (rl_st (wl s' w)) RWorking = RFree)
  /\ (forall f, f < nF c -> nth j (rl_cost (fl s' f)) 1%Q = 0%Q /\ nth j (rl_st (fl s' f)) RWorking = RFree).
Proof.
  intros (_ & H2 & H3 & _) Hin Hj. cbv zeta.
  unfold insert_absence, edit_logs. cbn [snd wl fl].
  set (steps := stable_sort nat Nat.leb (new_steps ab [] l)).
  assert (Hs : StronglySorted lt steps) by apply edit_steps_strictly_ascending.
  assert (Hi : In j steps) by (apply (stable_sort_in nat Nat.leb); exact Hin).
  split.
  - intros w Hw. rewrite tab_spec. pose proof Hw as Hw'. apply Nat.ltb_lt in Hw'. rewrite Hw'.
    destruct (res_insert_split steps _ _ (H2 w Hw)) as [E1 E2]. rewrite E1, E2.
    destruct (H2 w Hw) as (L1 & L2 & _).
    split; apply inserted_steps_hold_constant; try assumption; lia.
  - intros f Hf. rewrite tab_spec. pose proof Hf as Hf'. apply Nat.ltb_lt in Hf'. rewrite Hf'.
    destruct (res_insert_split steps _ _ (H3 f Hf)) as [E1 E2]. rewrite E1, E2.
    destruct (H3 f Hf) as (L1 & L2 & _).
    split; apply inserted_steps_hold_constant; try assumption; lia.
Qed.

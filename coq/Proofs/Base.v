(* Basic lemmas: tabulated maps, point updates, the lifecycle order. *)
From Coq Require Import List ZArith QArith Bool Arith Lia.
From PV Require Import Model.Types.
Import ListNotations.
Open Scope nat_scope.

Lemma nth_error_map_seq {A} (f : nat -> A) n i :
  nth_error (map f (seq 0 n)) i = if i <? n then Some (f i) else None.
Proof.
  destruct (i <? n) eqn:E.
  - apply Nat.ltb_lt in E.
    rewrite nth_error_map.
    assert (H : nth_error (seq 0 n) i = Some i).
    { rewrite (nth_error_nth' (seq 0 n) 0) by (rewrite seq_length; exact E).
      rewrite seq_nth by exact E. reflexivity. }
    rewrite H. reflexivity.
  - apply Nat.ltb_ge in E.
    apply nth_error_None. rewrite map_length, seq_length. exact E.
Qed.

Lemma tab_spec {A} n (f d : nat -> A) i : tab n f d i = if i <? n then f i else d i.
Proof. unfold tab. rewrite nth_error_map_seq. destruct (i <? n); reflexivity. Qed.

Lemma upd_same {A} (f : nat -> A) i v : upd f i v i = v.
Proof. unfold upd. rewrite Nat.eqb_refl. reflexivity. Qed.
Lemma upd_other {A} (f : nat -> A) i j v : j <> i -> upd f i v j = f j.
Proof. intros H. unfold upd. apply Nat.eqb_neq in H. rewrite H. reflexivity. Qed.
Lemma upd_eq {A} (f : nat -> A) i j v : upd f i v j = if Nat.eqb j i then v else f j.
Proof. reflexivity. Qed.

Lemma mem_In x l : mem x l = true <-> In x l.
Proof.
  unfold mem. rewrite existsb_exists. split.
  - intros (y & Hy & E). apply Nat.eqb_eq in E. subst. exact Hy.
  - intros H. exists x. split; [exact H|apply Nat.eqb_refl].
Qed.

(* ------------------------------------------------------ lifecycle order *)
(* NONE -> READY -> WORKING -> FINISHED; WORKING_ADDITIONALLY is never
   produced by the base simulation and is only related to itself *)
Definition adv (a b : tstate) : Prop :=
  match a, b with
  | TNone, (TNone | TReady | TWorking | TFinished) => True
  | TReady, (TReady | TWorking | TFinished) => True
  | TWorking, (TWorking | TFinished) => True
  | TFinished, TFinished => True
  | TWorkingAdd, (TWorkingAdd | TFinished) => True
  | _, _ => False
  end.

Lemma adv_refl a : adv a a.
Proof. destruct a; exact I. Qed.
Lemma adv_trans a b c : adv a b -> adv b c -> adv a c.
Proof. destruct a, b, c; simpl; tauto. Qed.
Lemma adv_rank a b : adv a b -> tstate_rank a <= tstate_rank b.
Proof. destruct a, b; simpl; intros H; try lia; contradiction. Qed.
Lemma adv_fin a b : adv a b -> is_fin a = true -> is_fin b = true.
Proof. destruct a, b; simpl; intros H E; try discriminate; try contradiction; reflexivity. Qed.
Lemma adv_started a b : adv a b -> started a = true -> started b = true.
Proof. destruct a, b; simpl; intros H E; try discriminate; try contradiction; reflexivity. Qed.
Lemma adv_not_none a b : adv a b -> a <> TNone -> b <> TNone.
Proof. destruct a, b; simpl; intros H E; try contradiction; congruence. Qed.
Lemma adv_fin_eq a b : adv a b -> a = TFinished -> b = TFinished.
Proof. destruct a, b; simpl; intros H E; try discriminate; try contradiction; reflexivity. Qed.

Lemma is_none_true a : is_none a = true <-> a = TNone.
Proof. destruct a; simpl; split; intro H; try reflexivity; discriminate. Qed.
Lemma is_ready_true a : is_ready a = true <-> a = TReady.
Proof. destruct a; simpl; split; intro H; try reflexivity; discriminate. Qed.
Lemma is_working_true a : is_working a = true <-> a = TWorking.
Proof. destruct a; simpl; split; intro H; try reflexivity; discriminate. Qed.
Lemma is_fin_true a : is_fin a = true <-> a = TFinished.
Proof. destruct a; simpl; split; intro H; try reflexivity; discriminate. Qed.

(* folds *)
Lemma fold_left_inv {A B} (P : A -> Prop) (f : A -> B -> A) (l : list B) (a : A) :
  P a -> (forall x b, P x -> P (f x b)) -> P (fold_left f l a).
Proof.
  revert a; induction l as [|b l IH]; intros a Ha Hstep; simpl; [exact Ha|].
  apply IH; [apply Hstep; exact Ha|exact Hstep].
Qed.

Lemma fold_left_inv_in {A B} (P : A -> Prop) (f : A -> B -> A) (l : list B) (a : A) :
  P a -> (forall x b, In b l -> P x -> P (f x b)) -> P (fold_left f l a).
Proof.
  revert a; induction l as [|b l IH]; intros a Ha Hstep; simpl; [exact Ha|].
  apply IH; [apply Hstep; [left; reflexivity|exact Ha]|].
  intros x b' Hin. apply Hstep. right; exact Hin.
Qed.

Lemma forallb_ext' {A} (f g : A -> bool) l : (forall x, f x = g x) -> forallb f l = forallb g l.
Proof. intros H. induction l as [|x l IH]; simpl; [reflexivity|]. rewrite H, IH. reflexivity. Qed.

Lemma NoDup_app_snoc {A} (l : list A) x : NoDup l -> ~ In x l -> NoDup (l ++ [x]).
Proof.
  intros Hn Hx. induction Hn as [|y l Hy Hn IH]; cbn; [constructor; [intros []|constructor]|].
  constructor.
  - intros Hin. apply in_app_or in Hin. destruct Hin as [Hin|[<-|[]]]; [contradiction|]. apply Hx. left. reflexivity.
  - apply IH. intros Hin. apply Hx. right. exact Hin.
Qed.

Lemma remove_first_in x y l : In y (remove_first x l) -> In y l.
Proof.
  induction l as [|z l IH]; cbn; [intros []|].
  destruct (Nat.eqb x z); [intros H; right; exact H|].
  intros [<-|H]; [left; reflexivity|right; apply IH; exact H].
Qed.

Lemma NoDup_app_both {A} (l1 l2 : list A) : NoDup l1 -> NoDup l2 -> (forall x, In x l1 -> In x l2 -> False) -> NoDup (l1 ++ l2).
Proof.
  intros H1 H2 Hd. induction H1 as [|x l Hx Hn IH]; cbn; [exact H2|].
  constructor.
  - intros Hin. apply in_app_or in Hin. destruct Hin as [Hin|Hin]; [contradiction|]. apply (Hd x); [left; reflexivity|exact Hin].
  - apply IH. intros y Hy Hy2. apply (Hd y); [right; exact Hy|exact Hy2].
Qed.
Lemma filter_all_true {A} (p : A -> bool) l : (forall x, In x l -> p x = true) -> filter p l = l.
Proof.
  induction l as [|x l IH]; intros H; cbn; [reflexivity|]. rewrite (H x (or_introl eq_refl)). f_equal. apply IH.
  intros y Hy. apply H. right. exact Hy.
Qed.
Lemma filter_all_false {A} (p : A -> bool) l : (forall x, In x l -> p x = false) -> filter p l = [].
Proof.
  induction l as [|x l IH]; intros H; cbn; [reflexivity|]. rewrite (H x (or_introl eq_refl)). apply IH.
  intros y Hy. apply H. right. exact Hy.
Qed.
Lemma remove_first_notin x l : ~ In x l -> remove_first x l = l.
Proof.
  induction l as [|y l IH]; intros H; cbn; [reflexivity|].
  destruct (Nat.eqb x y) eqn:E; [apply Nat.eqb_eq in E; subst; exfalso; apply H; left; reflexivity|].
  f_equal. apply IH. intros Hin. apply H. right. exact Hin.
Qed.
Lemma remove_first_app_r x l1 l2 : ~ In x l1 -> remove_first x (l1 ++ l2) = l1 ++ remove_first x l2.
Proof.
  induction l1 as [|y l IH]; intros H; cbn; [reflexivity|].
  destruct (Nat.eqb x y) eqn:E; [apply Nat.eqb_eq in E; subst; exfalso; apply H; left; reflexivity|].
  f_equal. apply IH. intros Hin. apply H. right. exact Hin.
Qed.
Lemma remove_first_filter x l : NoDup l -> remove_first x l = filter (fun y => negb (Nat.eqb y x)) l.
Proof.
  induction 1 as [|y l Hy Hn IH]; cbn; [reflexivity|].
  destruct (Nat.eqb x y) eqn:E.
  - apply Nat.eqb_eq in E. subst y. rewrite Nat.eqb_refl. cbn.
    symmetry. apply filter_all_true. intros z Hz. destruct (Nat.eqb z x) eqn:Ez; [|reflexivity].
    apply Nat.eqb_eq in Ez. subst. contradiction.
  - rewrite Nat.eqb_sym, E. cbn. f_equal. exact IH.
Qed.

(* C18, addition: an inserted step is a no-work step of every task: the
   remaining-work entry of the step repeats the entry before it (the initial
   remaining work at step 0), and so do the allocation records. *)
From Coq Require Import List ZArith QArith Bool Arith Lia Permutation Sorted.
From PV Require Import Model.Types Model.Sim Model.LogEdit Proofs.Base Proofs.SortProof Proofs.C0708Proof Proofs.C18Proof Proofs.C18Dead.
Import ListNotations.
Open Scope nat_scope.

Lemma prev_ins_one_lt {A} (mk : nat -> list A -> A) (d0 : A) (L : list A) j k :
  j <= k -> prev d0 j (ins_one mk L k) = prev d0 j L.
Proof.
  intros H. destruct j as [|i]; cbn [prev]; [reflexivity|].
  apply later_insertions_keep_earlier_entries. lia.
Qed.

Theorem inserted_steps_repeat_previous {A} (d0 : A) steps : StronglySorted lt steps -> forall (l : list A) j,
  In j steps -> j < length l ->
  let r := ins_seq (fun k l => prev d0 k l) steps l in nth j r d0 = prev d0 j r.
Proof.
  induction steps as [|k pre IH] using rev_ind; intros Hs l j Hin Hj; [destruct Hin|].
  destruct (ssorted_snoc pre k Hs) as [Hp Hlt]. cbv zeta.
  unfold ins_seq. rewrite fold_left_app. cbn [fold_left]. fold (ins_seq (fun k l => prev d0 k l) pre l).
  set (L := ins_seq (fun k l => prev d0 k l) pre l).
  assert (HL : length l <= length L).
  { unfold L. rewrite ins_seq_length. apply len_ins_ge. }
  apply in_app_or in Hin. destruct Hin as [Hin|[<-|[]]].
  - pose proof (Hlt j Hin) as Hjk.
    rewrite (later_insertions_keep_earlier_entries (fun k l => prev d0 k l) L j k d0 Hjk).
    rewrite prev_ins_one_lt by lia. apply (IH Hp l j Hin Hj).
  - rewrite prev_ins_one_lt by lia.
    unfold ins_one. assert (E : (k <? length L) = true) by (apply Nat.ltb_lt; lia). rewrite E.
    apply nth_insert_at_same. lia.
Qed.

(* the joint (one guard) task editor acts on the remaining-work log as the
   list-level editor that repeats the previous entry *)
Lemma task_insert_split c t steps : forall g n, tlog_len n g ->
  l_rem (task_insert c t steps g)
  = ins_seq (fun k l => prev (t_work c t * (1 - t_progress c t))%Q k l) steps (l_rem g).
Proof.
  unfold task_insert, ins_seq. induction steps as [|k steps IH]; intros g n H; cbn [fold_left]; [reflexivity|].
  destruct H as (H1 & H2 & H3 & H4).
  set (d0 := (t_work c t * (1 - t_progress c t))%Q) in *.
  assert (Ec : ins_one (fun k l => prev d0 k l) (l_rem g) k
               = if k <? n then insert_at k (prev d0 k (l_rem g)) (l_rem g) else l_rem g)
    by (unfold ins_one; rewrite H2; reflexivity).
  rewrite Ec, H1. destruct (k <? n) eqn:E.
  - match goal with |- context [fold_left _ steps ?g0] =>
      assert (Hl : tlog_len (S n) g0) by
        (unfold tlog_len; cbn [l_st l_rem l_aw l_af]; rewrite !insert_at_length; repeat split; congruence);
      pose proof (IH g0 (S n) Hl) as R end.
    cbn [l_rem] in R. exact R.
  - apply (IH g n). repeat split; assumption.
Qed.

Theorem inserted_steps_do_no_work c l ab s j : Lens c s (time s) ->
  In j (new_steps ab [] l) -> j < time s ->
  let s' := snd (insert_absence c l (ab, s)) in
  forall t, t < nT c ->
    let d0 := (t_work c t * (1 - t_progress c t))%Q in
    nth j (l_rem (tl s' t)) d0 = prev d0 j (l_rem (tl s' t)).
Proof.
  intros (H1 & _) Hin Hj. cbv zeta. intros t Ht.
  unfold insert_absence, edit_logs. cbn [snd tl].
  set (steps := stable_sort nat Nat.leb (new_steps ab [] l)).
  assert (Hs : StronglySorted lt steps) by apply edit_steps_strictly_ascending.
  assert (Hi : In j steps) by (apply (stable_sort_in nat Nat.leb); exact Hin).
  rewrite tab_spec. pose proof Ht as Ht'. apply Nat.ltb_lt in Ht'. rewrite Ht'.
  rewrite (task_insert_split c t steps _ _ (H1 t Ht)).
  destruct (H1 t Ht) as (_ & L2 & _).
  apply (inserted_steps_repeat_previous _ steps Hs (l_rem (tl s t)) j Hi). lia.
Qed.

(* All per-step logs are maps over one history of recorded rows: entry k of
   every log is a function of (working?, live state at the `recorded` phase of
   step k).  Serves C07 (cost accounting) and C08 (alignment). *)
From Coq Require Import List ZArith QArith Bool Arith Lia.
From PV Require Import Model.Types Model.Sim Proofs.Base Proofs.Frames Proofs.Proj Proofs.RunLemmas.
Import ListNotations.
Open Scope nat_scope.

Section Logs.
Variable c : cfg.
Variable o : opts.

Definition row := (bool * pstate)%type.
Definition wk (s : pstate) : bool := negb (mem (time s) (o_abs o)).

Definition wcost (r : row) (w : nat) : Q := rcost (fst r) (w_cost c w) (wd (snd r) w).
Definition fcost (r : row) (f : nat) : Q := rcost (fst r) (f_cost c f) (fd (snd r) f).
Definition teamcost (r : row) (g : nat) : Q := qsum (map (wcost r) (team_workers c g)).
Definition wpcost (r : row) (p : nat) : Q := qsum (map (fcost r) (wp_facs c p)).
Definition total (r : row) : Q :=
  fold_left Qplus (map (wpcost r) (seq 0 (nWP c))) (fold_left Qplus (map (teamcost r) (seq 0 (nTeam c))) 0%Q).

Definition row_tlog (t : nat) (h : list row) : tlog :=
  mkTLog (map (fun r => disp_t (fst r) (st (td (snd r) t))) h)
         (map (fun r => rem (td (snd r) t)) h)
         (map (fun r => aw (td (snd r) t)) h)
         (map (fun r => af (td (snd r) t)) h).
Definition row_wlog (w : nat) (hc h : list row) : rlog :=
  mkRLog (map (fun r => disp_r (fst r) (rst (wd (snd r) w))) h)
         (map (fun r => wcost r w) hc)
         (map (fun r => asg (wd (snd r) w)) h).
Definition row_flog (f : nat) (hc h : list row) : rlog :=
  mkRLog (map (fun r => disp_r (fst r) (rst (fd (snd r) f))) h)
         (map (fun r => fcost r f) hc)
         (map (fun r => asg (fd (snd r) f)) h).
Definition row_clog (k : nat) (h : list row) : clog :=
  mkCLog (map (fun r => disp_c (fst r) (cst (cd (snd r) k))) h) (map (fun r => pw (cd (snd r) k)) h).
Definition row_wplog (p : nat) (hc h : list row) : wplog :=
  mkWPLog (map (fun r => wpcost r p) hc) (map (fun r => wpc (snd r) p) h).

(* hc: rows of the cost logs (one longer than h between `performed` and `recorded`) *)
Definition LogsAre (hc h : list row) (s : pstate) : Prop :=
  (forall t, t < nT c -> tl s t = row_tlog t h)
  /\ (forall w, w < nW c -> wl s w = row_wlog w hc h)
  /\ (forall f, f < nF c -> fl s f = row_flog f hc h)
  /\ (forall k, k < nC c -> cl s k = row_clog k h)
  /\ (forall p, p < nWP c -> wpl s p = row_wplog p hc h)
  /\ (forall g, g < nTeam c -> teaml s g = map (fun r => teamcost r g) hc)
  /\ orgl s = map total hc
  /\ costl s = map total hc.

(* the log part of the state *)
Definition logs_of (s : pstate) :=
  (tl s, wl s, fl s, cl s, wpl s, teaml s, orgl s, costl s).

Lemma LogsAre_logs hc h s s' : logs_of s' = logs_of s -> LogsAre hc h s -> LogsAre hc h s'.
Proof.
  unfold logs_of. intros E. injection E as E1 E2 E3 E4 E5 E6 E7 E8.
  unfold LogsAre. rewrite E1, E2, E3, E4, E5, E6, E7, E8. exact (fun x => x).
Qed.

Lemma logs_update s : logs_of (update c o s) = logs_of s.
Proof. apply (pi_update c _ logs_of); reflexivity. Qed.

Lemma logs_step_allocate s : logs_of (step_allocate c o s) = logs_of s.
Proof.
  unfold step_allocate.
  set (w := negb (mem (time s) (o_abs o))).
  assert (H1 : logs_of (absence_update c w s) = logs_of s) by (apply (pi_absence_update c _ logs_of); reflexivity).
  assert (H2 : logs_of (if w then allocate c o (absence_update c w s) else absence_update c w s) = logs_of s).
  { destruct w; [|exact H1]. rewrite <- H1. apply (pi_allocate c _ logs_of); reflexivity. }
  destruct (w || o_auto_abs o); [|exact H2].
  rewrite <- H2. rewrite (pi_product_check_state c _ logs_of) by reflexivity.
  apply (pi_check_working c _ logs_of); reflexivity.
Qed.

(* rows that agree on the worker / facility part give the same cost entries *)
Lemma wcost_ext b x y w : wd x = wd y -> wcost (b, x) w = wcost (b, y) w.
Proof. intros E. unfold wcost. cbn [fst snd]. rewrite E. reflexivity. Qed.
Lemma fcost_ext b x y f : fd x = fd y -> fcost (b, x) f = fcost (b, y) f.
Proof. intros E. unfold fcost. cbn [fst snd]. rewrite E. reflexivity. Qed.
Lemma teamcost_ext b x y g : wd x = wd y -> teamcost (b, x) g = teamcost (b, y) g.
Proof. intros E. unfold teamcost. f_equal. apply map_ext. intros w. apply wcost_ext. exact E. Qed.
Lemma wpcost_ext b x y p : fd x = fd y -> wpcost (b, x) p = wpcost (b, y) p.
Proof. intros E. unfold wpcost. f_equal. apply map_ext. intros f. apply fcost_ext. exact E. Qed.
Lemma total_ext b x y : wd x = wd y -> fd x = fd y -> total (b, x) = total (b, y).
Proof.
  intros E1 E2. unfold total.
  rewrite (map_ext _ _ (fun p => wpcost_ext b x y p E2)).
  rewrite (map_ext _ _ (fun g => teamcost_ext b x y g E1)). reflexivity.
Qed.

(* add_cost appends the cost entries of the row (working, s) *)
Lemma LogsAre_add_cost h s : LogsAre h h s -> LogsAre (h ++ [(wk s, s)]) h (add_cost c (wk s) s).
Proof.
  intros (H1 & H2 & H3 & H4 & H5 & H6 & H7 & H8). unfold LogsAre, add_cost. cbn [tl wl fl cl wpl teaml orgl costl].
  repeat split.
  - exact H1.
  - intros w Hw. rewrite tab_spec. pose proof Hw as Hw'. apply Nat.ltb_lt in Hw'. rewrite Hw'.
    rewrite (H2 w Hw). unfold row_wlog. cbn [rl_st rl_cost rl_asg]. rewrite map_app. reflexivity.
  - intros f Hf. rewrite tab_spec. pose proof Hf as Hf'. apply Nat.ltb_lt in Hf'. rewrite Hf'.
    rewrite (H3 f Hf). unfold row_flog. cbn [rl_st rl_cost rl_asg]. rewrite map_app. reflexivity.
  - exact H4.
  - intros p Hp. rewrite tab_spec. pose proof Hp as Hp'. apply Nat.ltb_lt in Hp'. rewrite Hp'.
    rewrite (H5 p Hp). unfold row_wplog. cbn [wl_cost wl_pc]. rewrite map_app. reflexivity.
  - intros g Hg. rewrite tab_spec. pose proof Hg as Hg'. apply Nat.ltb_lt in Hg'. rewrite Hg'.
    rewrite (H6 g Hg). rewrite map_app. reflexivity.
  - rewrite H7, map_app. reflexivity.
  - rewrite H8, map_app. reflexivity.
Qed.

Lemma map_snoc_ext {A B} (f : A -> B) h x y : f x = f y -> map f (h ++ [x]) = map f (h ++ [y]).
Proof. intros E. rewrite !map_app. cbn [map]. rewrite E. reflexivity. Qed.

(* record appends the row (working, s) to every other log *)
Lemma LogsAre_record h x s :
  wd x = wd s -> fd x = fd s ->
  LogsAre (h ++ [(wk s, x)]) h s -> LogsAre (h ++ [(wk s, s)]) (h ++ [(wk s, s)]) (record c (wk s) s).
Proof.
  intros Ew Ef (H1 & H2 & H3 & H4 & H5 & H6 & H7 & H8). unfold LogsAre, record.
  cbn [tl wl fl cl wpl teaml orgl costl].
  repeat split.
  - intros t Ht. rewrite tab_spec. pose proof Ht as Ht'. apply Nat.ltb_lt in Ht'. rewrite Ht'.
    rewrite (H1 t Ht). unfold row_tlog. cbn [l_st l_rem l_aw l_af]. rewrite !map_app. reflexivity.
  - intros w Hw. rewrite tab_spec. pose proof Hw as Hw'. apply Nat.ltb_lt in Hw'. rewrite Hw'.
    rewrite (H2 w Hw). unfold row_wlog. cbn [rl_st rl_cost rl_asg]. rewrite !map_app. cbn [map].
    rewrite (wcost_ext (wk s) x s w Ew). reflexivity.
  - intros f Hf. rewrite tab_spec. pose proof Hf as Hf'. apply Nat.ltb_lt in Hf'. rewrite Hf'.
    rewrite (H3 f Hf). unfold row_flog. cbn [rl_st rl_cost rl_asg]. rewrite !map_app. cbn [map].
    rewrite (fcost_ext (wk s) x s f Ef). reflexivity.
  - intros k Hk. rewrite tab_spec. pose proof Hk as Hk'. apply Nat.ltb_lt in Hk'. rewrite Hk'.
    rewrite (H4 k Hk). unfold row_clog. cbn [cl_st cl_pw]. rewrite !map_app. reflexivity.
  - intros p Hp. rewrite tab_spec. pose proof Hp as Hp'. apply Nat.ltb_lt in Hp'. rewrite Hp'.
    rewrite (H5 p Hp). unfold row_wplog. cbn [wl_cost wl_pc]. rewrite !map_app. cbn [map].
    rewrite (wpcost_ext (wk s) x s p Ef). reflexivity.
  - intros g Hg. rewrite (H6 g Hg). apply map_snoc_ext. apply teamcost_ext. exact Ew.
  - rewrite H7. apply map_snoc_ext. apply total_ext; assumption.
  - rewrite H8. apply map_snoc_ext. apply total_ext; assumption.
Qed.

(* the four phase predicates *)
Definition L0 (s : pstate) : Prop := exists h, length h = time s /\ LogsAre h h s.
Definition LP (s : pstate) : Prop :=
  exists h x, length h = time s /\ wd x = wd s /\ fd x = fd s /\ LogsAre (h ++ [(wk s, x)]) h s.
Definition LR (s : pstate) : Prop := exists h, length h = S (time s) /\ LogsAre h h s.

Lemma L0_update s : L0 s -> L0 (update c o s).
Proof.
  intros (h & Hl & H). exists h. split; [rewrite (time_update c o); exact Hl|].
  eapply LogsAre_logs; [apply logs_update|exact H].
Qed.

Lemma L0_step_allocate s : L0 s -> L0 (step_allocate c o s).
Proof.
  intros (h & Hl & H). exists h. split; [rewrite (time_step_allocate c o); exact Hl|].
  eapply LogsAre_logs; [apply logs_step_allocate|exact H].
Qed.

Lemma LP_step_perform s : L0 s -> LP (step_perform c o s).
Proof.
  intros (h & Hl & H). unfold step_perform. fold (wk s).
  pose proof (LogsAre_add_cost h s H) as Ha.
  exists h, s.
  destruct (wk s) eqn:Ew.
  - split; [exact Hl|]. split; [reflexivity|]. split; [reflexivity|].
    change (wk (perform c false (add_cost c true s))) with (wk s). rewrite Ew.
    eapply LogsAre_logs; [|exact Ha]. reflexivity.
  - destruct (o_auto_abs o).
    + split; [exact Hl|]. split; [reflexivity|]. split; [reflexivity|].
      change (wk (perform c true (add_cost c false s))) with (wk s). rewrite Ew.
      eapply LogsAre_logs; [|exact Ha]. reflexivity.
    + split; [exact Hl|]. split; [reflexivity|]. split; [reflexivity|].
      change (wk (add_cost c false s)) with (wk s). rewrite Ew. exact Ha.
Qed.

Lemma LR_step_record s : LP s -> LR (step_record c o s).
Proof.
  intros (h & x & Hl & Ew & Ef & H). unfold step_record. fold (wk s).
  exists (h ++ [(wk s, s)]). split; [rewrite app_length; cbn [length time record]; lia|].
  apply (LogsAre_record h x s Ew Ef H).
Qed.

Lemma L0_next s : LR s -> L0 (with_time s (S (time s))).
Proof.
  intros (h & Hl & H). exists h. split; [exact Hl|]. eapply LogsAre_logs; [|exact H]. reflexivity.
Qed.

End Logs.

(* ------------------------------------------------------------------------ *)
(* Explicit history: the rows are the `performed` snapshots of the trace (the
   record phase does not change any live value).                             *)
Section Explicit.
Variable c : cfg.
Variable o : opts.

Fixpoint perf_rows (tr : list obs) : list (row) :=
  match tr with
  | [] => []
  | (k, PPerformed, s) :: r => (wk o s, s) :: perf_rows r
  | _ :: r => perf_rows r
  end.

Lemma LogsAre_update h s : LogsAre c h h s -> LogsAre c h h (update c o s).
Proof. intros H. eapply LogsAre_logs; [apply logs_update|exact H]. Qed.
Lemma LogsAre_step_allocate h s : LogsAre c h h s -> LogsAre c h h (step_allocate c o s).
Proof. intros H. eapply LogsAre_logs; [apply logs_step_allocate|exact H]. Qed.

Lemma wk_step_perform s : wk o (step_perform c o s) = wk o s.
Proof. unfold wk. rewrite (time_step_perform c o). reflexivity. Qed.

Lemma wd_step_perform s : wd (step_perform c o s) = wd s.
Proof.
  unfold step_perform. destruct (negb (mem (time s) (o_abs o))); [reflexivity|].
  destruct (o_auto_abs o); reflexivity.
Qed.
Lemma fd_step_perform s : fd (step_perform c o s) = fd s.
Proof.
  unfold step_perform. destruct (negb (mem (time s) (o_abs o))); [reflexivity|].
  destruct (o_auto_abs o); reflexivity.
Qed.

Lemma LogsAre_step_perform h s :
  LogsAre c h h s -> LogsAre c (h ++ [(wk o s, s)]) h (step_perform c o s).
Proof.
  intros H. pose proof (LogsAre_add_cost c o h s H) as Ha.
  unfold step_perform. fold (wk o s).
  destruct (wk o s) eqn:Ew.
  - eapply LogsAre_logs; [|exact Ha]. reflexivity.
  - destruct (o_auto_abs o); [eapply LogsAre_logs; [|exact Ha]; reflexivity|exact Ha].
Qed.

Lemma LogsAre_step_record h s :
  let sp := step_perform c o s in
  LogsAre c (h ++ [(wk o s, s)]) h sp ->
  LogsAre c (h ++ [(wk o sp, sp)]) (h ++ [(wk o sp, sp)]) (step_record c o sp).
Proof.
  intros sp H. unfold step_record. fold (wk o sp).
  apply (LogsAre_record c o h s sp).
  - symmetry. apply wd_step_perform.
  - symmetry. apply fd_step_perform.
  - unfold sp at 1. rewrite wk_step_perform. exact H.
Qed.

Theorem logs_are_history s tr sf :
  trace_from c o s tr sf ->
  forall h, length h = time s -> LogsAre c h h s ->
  let h' := h ++ perf_rows tr in
  length h' = time sf /\ LogsAre c h' h' sf.
Proof.
  induction 1 as [s Ha|s Ha Hm|s rest sf Ha Hm s1 sa sp sr Hrest IH]; intros h Hl H.
  - cbn [perf_rows]. rewrite app_nil_r. split.
    + cbn [time with_status]. rewrite (time_update c o). exact Hl.
    + eapply LogsAre_logs; [|apply LogsAre_update; exact H]. reflexivity.
  - cbn [perf_rows]. rewrite app_nil_r. split.
    + cbn [time with_status]. rewrite (time_update c o). exact Hl.
    + eapply LogsAre_logs; [|apply LogsAre_update; exact H]. reflexivity.
  - cbn [perf_rows].
    assert (H1 : LogsAre c h h s1) by (apply LogsAre_update; exact H).
    assert (HA : LogsAre c h h sa) by (apply LogsAre_step_allocate; exact H1).
    assert (HP : LogsAre c (h ++ [(wk o sa, sa)]) h sp) by (apply LogsAre_step_perform; exact HA).
    assert (HR : LogsAre c (h ++ [(wk o sp, sp)]) (h ++ [(wk o sp, sp)]) sr) by (apply LogsAre_step_record; exact HP).
    specialize (IH (h ++ [(wk o sp, sp)])).
    rewrite <- app_assoc in IH. cbn [app] in IH.
    apply IH.
    + rewrite app_length. cbn [length time with_time].
      assert (Et : time sr = time s).
      { unfold sr. rewrite (time_step_record c o). unfold sp. rewrite (time_step_perform c o).
        unfold sa. rewrite (time_step_allocate c o). unfold s1. apply (time_update c o). }
      rewrite Et. lia.
    + eapply LogsAre_logs; [|exact HR]. reflexivity.
Qed.

(* logs of a never simulated / freshly initialised project are empty *)
Lemma LogsAre_nil s :
  (forall t, t < nT c -> tl s t = mkTLog [] [] [] []) ->
  (forall w, w < nW c -> wl s w = mkRLog [] [] []) ->
  (forall f, f < nF c -> fl s f = mkRLog [] [] []) ->
  (forall k, k < nC c -> cl s k = mkCLog [] []) ->
  (forall p, p < nWP c -> wpl s p = mkWPLog [] []) ->
  (forall g, g < nTeam c -> teaml s g = []) -> orgl s = [] -> costl s = [] ->
  LogsAre c [] [] s.
Proof. intros. repeat split; assumption. Qed.

Lemma logs_with_cd x f : logs_of (with_cd x f) = logs_of x. Proof. reflexivity. Qed.
Lemma logs_with_cpl x q : logs_of (with_cpl x q) = logs_of x. Proof. reflexivity. Qed.

Lemma logs_init_tail x :
  logs_of (check_ready c (update_pert c 0 (with_cpl x 0%Q))) = logs_of x
  /\ time (check_ready c (update_pert c 0 (with_cpl x 0%Q))) = time x.
Proof.
  split.
  - rewrite (pi_check_ready c _ logs_of) by reflexivity.
    rewrite (pi_update_pert c _ logs_of) by reflexivity. reflexivity.
  - rewrite (pi_check_ready c _ time) by reflexivity.
    rewrite (pi_update_pert c _ time) by reflexivity. reflexivity.
Qed.

Lemma logs_initialize_keep s : o_init_log o = false -> logs_of (initialize c o s) = logs_of s /\ time (initialize c o s) = time s.
Proof.
  intros Hl. unfold initialize. rewrite Hl.
  destruct (o_init_state o); [|split; reflexivity].
  match goal with |- logs_of (with_cd (check_ready c (update_pert c 0 (with_cpl ?x 0%Q))) _) = _ /\ _ =>
    destruct (logs_init_tail x) as [E1 E2] end.
  split.
  - rewrite logs_with_cd, E1. reflexivity.
  - cbn [time with_cd]. rewrite E2. reflexivity.
Qed.

Lemma logs_initialize_clear s : o_init_log o = true -> LogsAre c [] [] (initialize c o s) /\ time (initialize c o s) = 0.
Proof.
  intros Hl. unfold initialize. rewrite Hl.
  match goal with |- context [check_ready c (update_pert c 0 (with_cpl ?x 0%Q))] => set (s1 := x) end.
  assert (E1 : LogsAre c [] [] s1 /\ time s1 = 0).
  { split; [|reflexivity]. apply LogsAre_nil; unfold s1; cbn [tl wl fl cl wpl teaml orgl costl];
      try reflexivity; intros i Hi; rewrite tab_spec; apply Nat.ltb_lt in Hi; rewrite Hi; reflexivity. }
  destruct E1 as [E1 E2].
  destruct (o_init_state o); [|split; assumption].
  destruct (logs_init_tail s1) as [F1 F2].
  split.
  - eapply LogsAre_logs; [|exact E1]. rewrite logs_with_cd, F1. reflexivity.
  - cbn [time with_cd]. rewrite F2. exact E2.
Qed.

End Explicit.

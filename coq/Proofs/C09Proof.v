(* C09: reproducibility.  (i) A run with state and log initialisation is a
   function of the configuration and the options only: the incoming project
   state is irrelevant, so simulating again gives the same result.  (ii) The
   places where the code iterates over an unordered collection give the same
   result for every visit order.
   Uses functional extensionality (Coq.Logic.FunctionalExtensionality) to turn
   pointwise equality of the state maps into equality of states. *)
From Coq Require Import List ZArith QArith Bool Arith Lia Permutation FunctionalExtensionality.
From PV Require Import Model.Types Model.Sim Proofs.Base Proofs.Frames Proofs.Proj Proofs.RunLemmas Proofs.C01Proof.
Import ListNotations.
Open Scope nat_scope.

Section C09.
Variable c : cfg.

(* ------------------------------------------------------------- (i) rerun *)
Lemma initialize_independent o s s' :
  o_init_state o = true -> o_init_log o = true -> initialize c o s = initialize c o s'.
Proof. intros Hs Hl. unfold initialize. rewrite Hs, Hl. reflexivity. Qed.

Theorem simulate_independent_of_incoming_state o s s' :
  o_init_state o = true -> o_init_log o = true -> simulate c o s = simulate c o s'.
Proof.
  intros Hs Hl. unfold simulate. rewrite (initialize_independent o s s' Hs Hl). reflexivity.
Qed.

Theorem simulate_again_same_result o s :
  o_init_state o = true -> o_init_log o = true ->
  simulate c o (fst (simulate c o s)) = simulate c o s.
Proof. intros Hs Hl. apply simulate_independent_of_incoming_state; assumption. Qed.

(* ------------------------------------------------- (ii) unordered visits *)
(* folding pairwise commuting operations over any permutation of a list *)
Lemma fold_commute_perm {S A} (f : S -> A -> S) :
  (forall s a b, f (f s a) b = f (f s b) a) ->
  forall l l', Permutation l l' -> forall s, fold_left f l s = fold_left f l' s.
Proof.
  intros Hc l l' P. induction P as [|x l l' P IH|x y l|l l' l'' P1 IH1 P2 IH2]; intros s; cbn [fold_left].
  - reflexivity.
  - apply IH.
  - rewrite Hc. reflexivity.
  - rewrite IH1. apply IH2.
Qed.

Lemma pstate_eq s s' :
  time s = time s' -> status s = status s' -> cpl s = cpl s' ->
  (forall i, td s i = td s' i) -> (forall i, wd s i = wd s' i) -> (forall i, fd s i = fd s' i) ->
  (forall i, cd s i = cd s' i) -> (forall i, wpc s i = wpc s' i) ->
  (forall i, tl s i = tl s' i) -> (forall i, wl s i = wl s' i) -> (forall i, fl s i = fl s' i) ->
  (forall i, cl s i = cl s' i) -> (forall i, wpl s i = wpl s' i) -> (forall i, teaml s i = teaml s' i) ->
  orgl s = orgl s' -> costl s = costl s' -> s = s'.
Proof.
  destruct s, s'. cbn. intros. subst.
  f_equal; apply functional_extensionality; assumption.
Qed.

Lemma remove_first_comm a b l : remove_first a (remove_first b l) = remove_first b (remove_first a l).
Proof.
  induction l as [|x l IH]; cbn; [reflexivity|].
  destruct (Nat.eqb b x) eqn:Eb, (Nat.eqb a x) eqn:Ea; cbn; rewrite ?Ea, ?Eb; try reflexivity.
  - apply Nat.eqb_eq in Ea, Eb. subst. reflexivity.
  - rewrite IH. reflexivity.
Qed.

(* taking two components away from their workplaces, in either order *)
Lemma detach_one_comm s a b : detach_one (detach_one s a) b = detach_one (detach_one s b) a.
Proof.
  destruct (Nat.eq_dec a b) as [->|Hne]; [reflexivity|].
  assert (Hab : Nat.eqb a b = false) by (apply Nat.eqb_neq; exact Hne).
  assert (Hba : Nat.eqb b a = false) by (apply Nat.eqb_neq; auto).
  unfold detach_one.
  destruct (pw (cd s a)) as [p|] eqn:Ea; destruct (pw (cd s b)) as [q|] eqn:Eb;
    cbn [cd wpc with_cd with_wpc]; rewrite ?upd_eq, ?Hab, ?Hba, ?Ea, ?Eb; cbn [cd wpc with_cd with_wpc]; try reflexivity.
  apply pstate_eq; cbn [time status cpl td wd fd cd wpc tl wl fl cl wpl teaml orgl costl with_cd with_wpc]; try reflexivity.
  - intros i. rewrite !upd_eq. destruct (Nat.eqb i b) eqn:E1, (Nat.eqb i a) eqn:E2; try reflexivity.
    apply Nat.eqb_eq in E1, E2. subst. contradiction.
  - intros i. rewrite !upd_eq.
    destruct (Nat.eqb i q) eqn:E1; destruct (Nat.eqb i p) eqn:E2.
    + apply Nat.eqb_eq in E1, E2. subst. rewrite !Nat.eqb_refl. apply remove_first_comm.
    + apply Nat.eqb_eq in E1. subst i. rewrite E2. reflexivity.
    + apply Nat.eqb_eq in E2. subst i. rewrite E1. reflexivity.
    + reflexivity.
Qed.

Lemma detach_tree_comm s a b : detach_tree c (detach_tree c s a) b = detach_tree c (detach_tree c s b) a.
Proof.
  unfold detach_tree.
  assert (G : forall l x k, fold_left detach_one l (detach_one x k) = detach_one (fold_left detach_one l x) k).
  { induction l as [|y l IH]; intros x k; cbn [fold_left]; [reflexivity|].
    rewrite <- IH. f_equal. apply detach_one_comm. }
  assert (G2 : forall l1 l2 x, fold_left detach_one l2 (fold_left detach_one l1 x) = fold_left detach_one l1 (fold_left detach_one l2 x)).
  { induction l1 as [|y l1 IH]; intros l2 x; cbn [fold_left]; [reflexivity|].
    rewrite IH. rewrite G. reflexivity. }
  apply G2.
Qed.

Lemma Permutation_filter' {A} (p : A -> bool) l l' : Permutation l l' -> Permutation (filter p l) (filter p l').
Proof.
  induction 1 as [|x l l' P IH|x y l|l l' l'' P1 IH1 P2 IH2]; cbn.
  - constructor.
  - destruct (p x); [constructor|]; exact IH.
  - destruct (p x), (p y); try reflexivity. apply perm_swap.
  - etransitivity; eassumption.
Qed.

(* BaseProduct.check_removing_placed_workplace iterates over a set of
   components: the result does not depend on the visit order *)
Theorem check_removing_order_independent cr cr' s :
  Permutation cr cr' -> check_removing c cr s = check_removing c cr' s.
Proof.
  intros P. unfold check_removing.
  apply fold_commute_perm; [intros; apply detach_tree_comm|].
  apply Permutation_filter'. exact P.
Qed.

Lemma update_crank_independent o o' s :
  o_rule o' = o_rule o -> o_abs o' = o_abs o -> o_auto_abs o' = o_auto_abs o ->
  o_max_time o' = o_max_time o -> Permutation (o_crank o) (o_crank o') ->
  update c o s = update c o' s.
Proof.
  intros _ _ _ _ P. unfold update. rewrite (check_removing_order_independent _ _ _ P). reflexivity.
Qed.

(* BaseWorkflow.__check_ready iterates over a set of NONE tasks and promotes
   each one whose gate holds: visiting them one after the other in ANY order
   gives the model's (simultaneous) result *)
Definition ready_one (s : pstate) (t : nat) : pstate :=
  if is_none (st (td s t)) && ready_gate c s t
  then with_td s (upd (td s) t (set_st (td s t) TReady)) else s.

Lemma ready_one_td s t i :
  td (ready_one s t) i = if Nat.eqb i t && is_none (st (td s t)) && ready_gate c s t then set_st (td s t) TReady else td s i.
Proof.
  unfold ready_one. destruct (is_none (st (td s t)) && ready_gate c s t) eqn:E.
  - cbn [td with_td]. rewrite upd_eq. destruct (Nat.eqb i t) eqn:Ei; cbn [andb].
    + apply andb_true_iff in E. destruct E as [E1 E2]. rewrite E1, E2. reflexivity.
    + reflexivity.
  - destruct (Nat.eqb i t); cbn [andb]; [|reflexivity].
    destruct (is_none (st (td s t))); cbn [andb] in *; [rewrite E|]; reflexivity.
Qed.

Lemma ready_gate_ready_one s t t' : ready_gate c (ready_one s t) t' = ready_gate c s t'.
Proof.
  unfold ready_gate. apply forallb_ext'. intros [p k]. cbn [fst snd].
  rewrite ready_one_td.
  destruct (Nat.eqb p t && is_none (st (td s t)) && ready_gate c s t) eqn:E; [|reflexivity].
  apply andb_true_iff in E. destruct E as [E _]. apply andb_true_iff in E. destruct E as [E1 E2].
  apply Nat.eqb_eq in E1. subst p. apply is_none_true in E2. rewrite E2. destruct k; reflexivity.
Qed.

Theorem check_ready_any_order s order :
  NoDup order -> (forall t, In t order <-> (t < nT c /\ st (td s t) = TNone)) ->
  forall i, td (fold_left ready_one order s) i = td (check_ready c s) i.
Proof.
  intros Hnd Hset i.
  assert (G : forall l x, NoDup l ->
             (forall t, ready_gate c x t = ready_gate c s t) ->
             (forall t, In t l -> td x t = td s t) ->
             td (fold_left ready_one l x) i =
             if mem i l && is_none (st (td s i)) && ready_gate c s i then set_st (td s i) TReady else td x i).
  { induction l as [|y l IH]; intros x Hn Hg Hx; cbn [fold_left]; [reflexivity|].
    inversion Hn as [|y' l' Hy Hn']; subst.
    rewrite IH; [|exact Hn'| |].
    - unfold mem. cbn [existsb]. fold (mem i l). rewrite ready_one_td.
      destruct (Nat.eqb i y) eqn:Ei.
      + apply Nat.eqb_eq in Ei. subst y. cbn [orb andb].
        assert (Em : mem i l = false) by (destruct (mem i l) eqn:Em; [apply mem_In in Em; contradiction|reflexivity]).
        rewrite Em. cbn [andb]. rewrite (Hx i (or_introl eq_refl)), Hg. reflexivity.
      + cbn [orb andb]. reflexivity.
    - intros t. rewrite ready_gate_ready_one. apply Hg.
    - intros t Ht. rewrite ready_one_td.
      destruct (Nat.eqb t y) eqn:E; [apply Nat.eqb_eq in E; subst; contradiction|].
      cbn [andb]. apply Hx. right. exact Ht. }
  rewrite G; [|exact Hnd|reflexivity|reflexivity].
  unfold check_ready. cbn [td with_td]. rewrite tab_spec.
  destruct (mem i order) eqn:Em.
  - apply mem_In in Em. apply Hset in Em. destruct Em as [Hlt Hn].
    apply Nat.ltb_lt in Hlt. rewrite Hlt. cbn [andb]. reflexivity.
  - cbn [andb]. destruct (i <? nT c) eqn:Elt; [|reflexivity].
    destruct (is_none (st (td s i))) eqn:En; [|reflexivity].
    exfalso. apply Nat.ltb_lt in Elt. apply is_none_true in En.
    assert (Hin : In i order) by (apply Hset; split; assumption). apply mem_In in Hin. congruence.
Qed.

End C09.

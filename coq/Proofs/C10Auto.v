(* C10 (f) with perform_auto_task_while_absence_time ON and no automatic task:
   an absence step then also runs __check_working and the component check and
   "performs" automatic tasks only; on a loop state none of this changes
   anything (READY tasks hold nothing, every resource is ABSENCE). *)
From Coq Require Import List ZArith QArith Bool Arith Lia.
From PV Require Import Model.Types Model.Sim Model.LogEdit Proofs.Base Proofs.Frames Proofs.Proj Proofs.RunLemmas
  Proofs.C01Proof Proofs.AllocInv Proofs.C04Proof Proofs.C03Res Proofs.C13Proof Proofs.C15Stable
  Proofs.KeyCong Proofs.KeepList Proofs.C10Del.
Import ListNotations.
Open Scope nat_scope.

Section Auto.
Variable c : cfg.
Hypothesis Hw_range : forall w, In w (all_workers c) -> w < nW c.
Hypothesis Hw_nodup : NoDup (all_workers c).
Hypothesis Hf_range : forall p f, In f (wp_facs c p) -> f < nF c.
Variable oA : opts.
Notation L := (o_abs oA).
Notation KE := (KEg c true).
Notation KA := (KEg c false).
Hypothesis Hno_auto : forall t, t_auto c t = false.
Hypothesis Hauto : o_auto_abs oA = true.

Lemma Q0_next x : Q0 c x -> Q0 c (next c oA (update c oA x)).
Proof.
  intros H. pose proof (Q0_update c oA x H) as (A & B & C & D).
  set (u := update c oA x) in *.
  assert (Ha : Q0 c (step_allocate c oA u)).
  { split; [apply AInv_step_allocate; assumption|]. split; [apply SoloPair_step_allocate; assumption|].
    split; [apply (NoWAdd_adv c u); [apply (proj1 (Step_step_allocate c oA u))|exact C]|].
    apply (step_allocate_resources c Hw_range Hw_nodup Hf_range oA u A B C D). }
  pose proof (Q0_step_perform c oA _ Ha) as Hp.
  unfold next, half.
  apply (Q0_lists c (step_perform c oA (step_allocate c oA u))); try reflexivity. exact Hp.
Qed.

Lemma CompOK_update o s : CompOK c (update c o s).
Proof.
  rewrite update_pre_pert.
  apply (CompOK_ext c (pre_pert c o s));
    [intros t; apply st_update_pert|apply (pi_update_pert c _ cd); reflexivity|apply CompOK_pcs].
Qed.

Lemma fold_fix {A B} (f : A -> B -> A) l a : (forall b, In b l -> f a b = a) -> fold_left f l a = a.
Proof.
  induction l as [|b l IH]; intros H; cbn [fold_left]; [reflexivity|].
  rewrite (H b (or_introl eq_refl)). apply IH. intros b' Hb. apply H. right. exact Hb.
Qed.

Lemma f2w_fix l (d : nat -> rlive) : (forall r, In r l -> rst (d r) = RAbsence) -> fold_left free_to_working l d = d.
Proof.
  intros H. apply fold_fix. intros r Hr. unfold free_to_working. rewrite (H r Hr). reflexivity.
Qed.

Lemma with_wd_id s : with_wd s (wd s) = s. Proof. destruct s; reflexivity. Qed.
Lemma with_fd_id s : with_fd s (fd s) = s. Proof. destruct s; reflexivity. Qed.

(* __check_working does nothing in a state where READY tasks hold nothing and
   every resource is ABSENCE *)
Lemma check_working_absent s : AInv c s -> ReadyClean c s ->
  (forall w, w < nW c -> rst (wd s w) = RAbsence) -> (forall f, f < nF c -> rst (fd s f) = RAbsence) ->
  check_working c s = s.
Proof.
  intros HA HR Hw Hf. unfold check_working. apply fold_fix. intros t Ht.
  apply filter_In in Ht. destruct Ht as [Hin Htg]. apply in_seq in Hin. assert (Ht : t < nT c) by lia.
  unfold cw_one. destruct (is_ready (st (td s t))) eqn:Er.
  - exfalso. apply is_ready_true in Er. destruct (HR t Ht Er) as [Ea _].
    unfold cw_target in Htg. rewrite Ea, Hno_auto in Htg. apply is_ready_true in Er. rewrite Er in Htg.
    assert (Ew : is_working (st (td s t)) = false) by (destruct (st (td s t)); cbn in *; congruence).
    rewrite Ew in Htg. cbn in Htg. discriminate.
  - destruct (is_working (st (td s t))); [|reflexivity].
    rewrite (f2w_fix (aw (td s t)) (wd s)) by (intros r Hr; apply Hw; apply (a_w1 c s HA t r Ht Hr)).
    rewrite with_wd_id.
    destruct (t_needfac c t && negb match aw (td s t) with [] => true | _ :: _ => false end); [|reflexivity].
    rewrite (f2w_fix (af (td s t)) (fd s)) by (intros r Hr; apply Hf; apply (a_f1 c s HA t r Ht Hr)).
    apply with_fd_id.
Qed.

Lemma perform_auto_only_key y : KE (perform c true y) y.
Proof.
  unfold perform. split; [|repeat split].
  intros t. cbn [td with_td]. rewrite tab_spec. destruct (t <? nT c); [|reflexivity].
  rewrite Hno_auto. cbn [negb orb]. rewrite andb_false_r. reflexivity.
Qed.

Lemma absence_half_auto x : Q0 c x -> mem (time x) L = true -> KA (half c oA (update c oA x)) (update c oA x).
Proof.
  intros HQ Hm. pose proof (Q0_update c oA x HQ) as (A & B & C & D).
  set (u := update c oA x) in *.
  assert (Em : mem (time u) L = true) by (unfold u; rewrite (time_update c oA); exact Hm).
  unfold half. rewrite step_perform_flag, (time_step_allocate c oA), step_allocate_flag, Em. cbn [negb].
  unfold sp_flag, sa_flag. rewrite Hauto. cbn [orb].
  set (s1 := absence_update c false u).
  assert (K1 : KA s1 u).
  { unfold s1, absence_update. split; [reflexivity|]. split; [|split; [|split; reflexivity]].
    - intros w. cbn [wd with_wd with_fd]. rewrite tab_spec. unfold req. destruct (w <? nW c); reflexivity.
    - intros f. cbn [fd with_wd with_fd]. rewrite tab_spec. unfold req. destruct (f <? nF c); reflexivity. }
  assert (E1 : check_working c s1 = s1).
  { apply check_working_absent.
    - apply AInv_absence_update. exact A.
    - intros t Ht Hr. apply D; assumption.
    - intros w Hw. unfold s1, absence_update. cbn [wd with_wd with_fd]. rewrite tab_spec. apply Nat.ltb_lt in Hw. rewrite Hw. reflexivity.
    - intros f Hf. unfold s1, absence_update. cbn [fd with_wd with_fd]. rewrite tab_spec. apply Nat.ltb_lt in Hf. rewrite Hf. reflexivity. }
  assert (E2 : product_check_state c s1 = s1).
  { apply pcs_fix. apply (CompOK_ext c u); [intros t; reflexivity|reflexivity|apply CompOK_update]. }
  rewrite E1, E2.
  eapply KE_trans; [apply KE_weaken; apply perform_auto_only_key|].
  eapply KE_trans; [apply KE_weaken; apply add_cost_key|]. exact K1.
Qed.

End Auto.

(* C15: everything in __update except the PERT refresh is idempotent on a
   state that __update has just produced; the side condition of the
   pause/resume theorem reduces to the PERT refresh. *)
From Coq Require Import List ZArith QArith Bool Arith Lia FunctionalExtensionality.
From PV Require Import Model.Types Model.Sim Proofs.Base Proofs.Frames Proofs.Proj Proofs.RunLemmas Proofs.C01Proof
  Proofs.C02Proof Proofs.FinishComplete Proofs.C13Proof Proofs.C13Run Proofs.C15Proof.
Import ListNotations.
Open Scope nat_scope.

Lemma pstate_eta (x : pstate) :
  mkP (time x) (status x) (cpl x) (td x) (wd x) (fd x) (cd x) (wpc x) (tl x) (wl x) (fl x) (cl x) (wpl x) (teaml x) (orgl x) (costl x) = x.
Proof. destruct x. reflexivity. Qed.
Lemma with_td_same x f : (forall t, f t = td x t) -> with_td x f = x.
Proof. intros H. unfold with_td. replace f with (td x) by (apply functional_extensionality; intros t; symmetry; apply H). apply pstate_eta. Qed.
Lemma with_cd_same x f : (forall k, f k = cd x k) -> with_cd x f = x.
Proof. intros H. unfold with_cd. replace f with (cd x) by (apply functional_extensionality; intros t; symmetry; apply H). apply pstate_eta. Qed.

Section Stable.
Variable c : cfg.

(* -------------------------------------------------------- check_finished *)
Lemma check_finished_fix x : Complete c x -> check_finished c x = x.
Proof.
  intros HC.
  assert (Hp : finish_pass c x = (x, false)).
  { unfold finish_pass.
    assert (G : forall l, (forall t, In t l -> t < nT c /\ zero_work x t = true) ->
              fold_left (fun (acc : pstate * bool) t => let (s', ch) := acc in
                           if finish_gate c s' t then (finish_task c s' t, true) else (s', ch)) l (x, false) = (x, false)).
    { induction l as [|t l IH]; intros Hl; cbn [fold_left]; [reflexivity|].
      destruct (Hl t (or_introl eq_refl)) as [Ht Hz]. unfold zero_work in Hz. apply andb_true_iff in Hz. destruct Hz as [Hw Hr].
      apply is_working_true in Hw. rewrite (HC t Ht Hw Hr). apply IH. intros y Hy. apply Hl. right. exact Hy. }
    apply G. intros t Ht. apply filter_In in Ht. destruct Ht as [Ht Hz]. split; [|exact Hz].
    unfold tasks in Ht. apply in_seq in Ht. lia. }
  unfold check_finished. cbn [finish_loop]. rewrite Hp. reflexivity.
Qed.

(* ---------------------------------------------------- product_check_state *)
Definition CompOK (x : pstate) : Prop := forall k, k < nC c -> cst (cd x k) = comp_check c x k.

Lemma pcs_fix x : CompOK x -> product_check_state c x = x.
Proof.
  intros H. unfold product_check_state. apply with_cd_same. intros k. rewrite tab_spec.
  destruct (k <? nC c) eqn:E; [|reflexivity]. apply Nat.ltb_lt in E. rewrite <- (H k E). destruct (cd x k). reflexivity.
Qed.

(* comp_check looks at the task states and, as a fallback, at the previous
   component state; fed with its own result it returns it *)
Lemma comp_check_idem x y k : (forall t, st (td y t) = st (td x t)) -> cst (cd y k) = comp_check c x k ->
  comp_check c y k = comp_check c x k.
Proof.
  intros Est Ecst. unfold comp_check in *. unfold ctask_states in *.
  assert (E : map (fun t => st (td y t)) (c_tasks c k) = map (fun t => st (td x t)) (c_tasks c k))
    by (apply map_ext; intros t; apply Est).
  rewrite E in *. rewrite Ecst.
  set (sts := map (fun t => st (td x t)) (c_tasks c k)).
  destruct (forallb is_fin sts); [reflexivity|].
  destruct (existsb is_working sts); [reflexivity|].
  destruct (negb (forallb is_working sts) && negb false && existsb is_ready sts); reflexivity.
Qed.

Lemma CompOK_pcs x : CompOK (product_check_state c x).
Proof.
  intros k Hk. unfold product_check_state at 1. cbn [cd with_cd]. rewrite tab_spec. apply Nat.ltb_lt in Hk. rewrite Hk. cbn [cst].
  symmetry. apply comp_check_idem; [intros t; reflexivity|].
  unfold product_check_state. cbn [cd with_cd]. rewrite tab_spec, Hk. reflexivity.
Qed.

Lemma CompOK_ext x y : (forall t, st (td y t) = st (td x t)) -> cd y = cd x -> CompOK x -> CompOK y.
Proof.
  intros Est Ecd H k Hk. rewrite Ecd. rewrite (H k Hk). symmetry. apply comp_check_idem; [exact Est|].
  rewrite Ecd. apply H. exact Hk.
Qed.

(* ---------------------------------------------------------- check_removing *)
Lemma detach_unplaced l : forall x, (forall k, In k l -> pw (cd x k) = None) -> fold_left detach_one l x = x.
Proof.
  induction l as [|k l IH]; intros x H; cbn [fold_left]; [reflexivity|].
  assert (E : detach_one x k = x) by (unfold detach_one; rewrite (H k (or_introl eq_refl)); reflexivity).
  rewrite E. apply IH. intros k' Hk'. apply H. right. exact Hk'.
Qed.

Definition RemovedOK (cr : list nat) (x : pstate) : Prop :=
  forall k, In k cr -> c_parents c k = [] -> k < nC c -> tree_all c (nC c) (comp_all_fin c x) k = true ->
  forall k', In k' (tree c k) -> pw (cd x k') = None.

Lemma check_removing_fix cr x : RemovedOK cr x -> check_removing c cr x = x.
Proof.
  intros H. unfold check_removing.
  match goal with |- fold_left _ ?l x = x => assert (G : forall l', incl l' l -> fold_left (detach_tree c) l' x = x) end.
  { induction l' as [|k l' IH]; intros Hi; cbn [fold_left]; [reflexivity|].
    assert (Hk : In k (filter (fun k0 => mem k0 (filter (fun k1 => tree_all c (nC c) (comp_all_fin c x) k1)
                   (filter (fun k1 => match c_parents c k1 with [] => true | _ => false end) (seq 0 (nC c))))) cr))
      by (apply Hi; left; reflexivity).
    apply filter_In in Hk. destruct Hk as [Hcr Hk]. apply mem_In in Hk. apply filter_In in Hk. destruct Hk as [Hk Hall].
    apply filter_In in Hk. destruct Hk as [Hr Hp]. apply in_seq in Hr.
    assert (E : detach_tree c x k = x).
    { unfold detach_tree. apply detach_unplaced. intros k' Hk'. apply (H k Hcr); try assumption; [|lia].
      destruct (c_parents c k); [reflexivity|discriminate]. }
    rewrite E. apply IH. intros y Hy. apply Hi. right. exact Hy. }
  apply G. apply incl_refl.
Qed.

(* ------------------------------------------------------------- check_ready *)
Definition ReadyDone (x : pstate) : Prop := forall t, t < nT c -> is_none (st (td x t)) = true -> ready_gate c x t = false.

Lemma check_ready_fix x : ReadyDone x -> check_ready c x = x.
Proof.
  intros H. unfold check_ready. apply with_td_same. intros t. rewrite tab_spec.
  destruct (t <? nT c) eqn:E; [|reflexivity]. apply Nat.ltb_lt in E.
  destruct (is_none (st (td x t))) eqn:En; [|reflexivity]. rewrite (H t E En). reflexivity.
Qed.

Lemma ready_gate_same x y t : (forall u, is_fin (st (td y u)) = is_fin (st (td x u)) /\ started (st (td y u)) = started (st (td x u))) ->
  ready_gate c y t = ready_gate c x t.
Proof.
  intros H. unfold ready_gate. apply forallb_ext'. intros [p k]. cbn [fst snd]. destruct (H p) as [A B]. destruct k; congruence.
Qed.

Lemma ReadyDone_check_ready x : ReadyDone (check_ready c x).
Proof.
  intros t Ht Hn.
  assert (Hst : forall u, st (td (check_ready c x) u) =
                          if (u <? nT c) && is_none (st (td x u)) && ready_gate c x u then TReady else st (td x u)).
  { intros u. unfold check_ready. cbn [td with_td]. rewrite tab_spec. destruct (u <? nT c); [|reflexivity].
    cbn [andb]. destruct (is_none (st (td x u)) && ready_gate c x u); reflexivity. }
  rewrite Hst in Hn. apply Nat.ltb_lt in Ht. rewrite Ht in Hn. cbn [andb] in Hn.
  destruct (is_none (st (td x t))) eqn:En; cbn [andb] in Hn.
  - destruct (ready_gate c x t) eqn:Eg; [discriminate|].
    rewrite <- Eg. apply ready_gate_same. intros u. rewrite Hst.
    destruct ((u <? nT c) && is_none (st (td x u)) && ready_gate c x u) eqn:E; [|split; reflexivity].
    apply andb_true_iff in E. destruct E as [E _]. apply andb_true_iff in E. destruct E as [_ E].
    apply is_none_true in E. rewrite E. split; reflexivity.
  - rewrite Hn in En. discriminate.
Qed.

(* ---------------------------------------------------------------- the whole *)
(* the state just before the PERT refresh of __update *)
Definition pre_pert (o : opts) (s : pstate) : pstate :=
  product_check_state c (check_ready c (check_removing c (o_crank o) (product_check_state c (check_finished c s)))).

Lemma update_pre_pert o s : update c o s = update_pert c (time (pre_pert o s)) (pre_pert o s).
Proof. reflexivity. Qed.

Lemma st_update_pert tm x t : st (td (update_pert c tm x) t) = st (td x t).
Proof. destruct (keeps_update_pert c tm x t) as (E & _). exact E. Qed.

Theorem update_stable o s : PInv s ->
  let u := update c o s in
  update c o u = update_pert c (time u) u.
Proof.
  intros HP u.
  set (s5 := pre_pert o s).
  assert (Eu : u = update_pert c (time s5) s5) by reflexivity.
  assert (Hst : forall t, st (td u t) = st (td s5 t)) by (intros t; rewrite Eu; apply st_update_pert).
  assert (Hcd : cd u = cd s5) by (rewrite Eu; apply (pi_update_pert c _ cd); reflexivity).
  assert (Hwpc : wpc u = wpc s5) by (rewrite Eu; apply (pi_update_pert c _ wpc); reflexivity).
  (* 1. check_finished *)
  assert (E1 : check_finished c u = u) by (apply check_finished_fix; apply update_finish_complete).
  (* 2. product_check_state *)
  assert (C5 : CompOK s5) by (apply CompOK_pcs).
  assert (Cu : CompOK u) by (apply (CompOK_ext s5); assumption).
  assert (E2 : product_check_state c u = u) by (apply pcs_fix; exact Cu).
  (* 3. check_removing *)
  set (s1 := check_finished c s). set (s2 := product_check_state c s1).
  set (s3 := check_removing c (o_crank o) s2).
  assert (P2 : PInv s2).
  { apply (PInv_ext s1); [intros k; unfold s2, product_check_state; cbn [cd with_cd]; rewrite tab_spec; destruct (k <? nC c); reflexivity|reflexivity|].
    apply (PInv_ext s); [| |exact HP].
    - intros k. unfold s1. rewrite (pi_check_finished c _ cd) by reflexivity. reflexivity.
    - unfold s1. apply (pi_check_finished c _ wpc); reflexivity. }
  assert (Efin : forall t, is_fin (st (td u t)) = is_fin (st (td s2 t))).
  { intros t. pose proof (stof_update_fin c o s t) as E. unfold stof in E. fold u in E.
    change (td s2 t) with (td s1 t). fold s1 in E.
    destruct (st (td u t)) eqn:A; destruct (st (td s1 t)) eqn:B; cbn; try reflexivity;
      try (destruct E as [E _]; specialize (E eq_refl); discriminate); try (destruct E as [_ E]; specialize (E eq_refl); discriminate). }
  assert (R3 : RemovedOK (o_crank o) u).
  { intros k Hcr Hp Hk Hall k' Hk'.
    assert (Epw : pw (cd u k') = pw (cd s3 k')).
    { rewrite Hcd. unfold s5, pre_pert. fold s1. fold s2. fold s3.
      unfold product_check_state. cbn [cd with_cd]. rewrite tab_spec. destruct (k' <? nC c); reflexivity. }
    rewrite Epw. unfold s3, check_removing.
    (* k is in the visit list of the first removal pass *)
    match goal with |- pw (cd (fold_left _ ?l s2) k') = None => assert (Hin : In k l) end.
    { apply filter_In. split; [exact Hcr|]. apply mem_In. apply filter_In. split.
      - apply filter_In. split; [apply in_seq; lia|rewrite Hp; reflexivity].
      - rewrite tree_all_spec in *. rewrite forallb_forall in *. intros n Hn. specialize (Hall n Hn).
        unfold comp_all_fin in *. rewrite forallb_forall in *. intros t Ht. rewrite <- Efin. apply Hall. exact Ht. }
    match goal with |- pw (cd (fold_left _ ?l s2) k') = None =>
      assert (G : forall l' a, PInv a -> (In k l' \/ pw (cd a k') = None) -> pw (cd (fold_left (detach_tree c) l' a) k') = None) end.
    { induction l' as [|y l' IH]; intros a Ha Hor; cbn [fold_left]; [destruct Hor as [[]|E]; exact E|].
      destruct (PInv_detach_tree c a y Ha) as (A & B & C & _).
      apply IH; [exact A|]. destruct Hor as [[->|Hy]|E]; [right; apply B; exact Hk'|left; exact Hy|right; apply C; exact E]. }
    apply G; [exact P2|left; exact Hin]. }
  assert (E3 : check_removing c (o_crank o) u = u) by (apply check_removing_fix; exact R3).
  (* 4. check_ready *)
  assert (D4 : ReadyDone (check_ready c s3)) by apply ReadyDone_check_ready.
  assert (Du : ReadyDone u).
  { intros t Ht Hn. rewrite Hst in Hn. change (st (td s5 t)) with (st (td (check_ready c s3) t)) in Hn.
    rewrite <- (D4 t Ht Hn). apply ready_gate_same. intros x. rewrite Hst. split; reflexivity. }
  assert (E4 : check_ready c u = u) by (apply check_ready_fix; exact Du).
  unfold update at 1. rewrite E1, E2, E3, E4, E2. reflexivity.
Qed.

(* the side condition of the pause / resume theorem follows from the PERT
   refresh being idempotent at the `updated` snapshots *)
Definition pert_stable (u : pstate) : Prop := update_pert c (time u) u = u.

Theorem stable_from_pert o s : PInv s -> pert_stable (update c o s) -> update c o (update c o s) = update c o s.
Proof. intros HP H. rewrite (update_stable o s HP). exact H. Qed.


(* run level: if the PERT refresh is idempotent at every `updated` snapshot of
   the uninterrupted run, so is the whole of __update *)
Theorem stable_heads_from_pert o s : Forest c -> (o_init_state o = true \/ PInv s) ->
  Forall (fun ob : obs => snd (fst ob) = PUpdated -> pert_stable (snd ob)) (snd (simulate c o s)) ->
  stable_heads c o (snd (simulate c o s)).
Proof.
  intros HF Hstart Hps. destruct (simulate_trace c o s) as (tr & Htr & Esnd). rewrite Esnd in *.
  assert (H0 : PInv (initialize c o s)).
  { destruct (o_init_state o) eqn:E; [apply PInv_initialize; exact E|].
    destruct Hstart as [H|H]; [discriminate|]. unfold initialize. rewrite E. exact H. }
  destruct (trace_invariant c o PInv (fun u => PInv u /\ (pert_stable u -> update c o u = u)) PInv PInv PInv
              (fun x Hx => conj (PInv_update c o x Hx) (fun Hp => stable_from_pert o x Hx Hp))
              (fun x Hx => PInv_step_allocate c HF o x (proj1 Hx))
              (fun x Hx => PInv_ext x (step_perform c o x)
                             ltac:(intros k; unfold step_perform; destruct (negb (mem (time x) (o_abs o))); [reflexivity|destruct (o_auto_abs o); reflexivity])
                             ltac:(unfold step_perform; destruct (negb (mem (time x) (o_abs o))); [reflexivity|destruct (o_auto_abs o); reflexivity]) Hx)
              (fun x Hx => PInv_ext x (step_record c o x) (fun k => eq_refl) eq_refl Hx)
              (fun x Hx => PInv_ext x (with_time x (S (time x))) (fun k => eq_refl) eq_refl Hx)
              _ _ _ Htr H0) as [Hall _].
  unfold stable_heads. rewrite Forall_forall in *. intros ob Hin Hph.
  specialize (Hall ob Hin). specialize (Hps ob Hin Hph). destruct ob as [[k ph] sn]. cbn in *. subst ph. cbn in Hall.
  apply Hall. exact Hps.
Qed.

Theorem pause_resume_pert (o : opts) (s : pstate) (k m : nat) : k <= m -> Forest c ->
  (o_init_state o = true \/ PInv s) ->
  Forall (fun ob : obs => snd (fst ob) = PUpdated -> pert_stable (snd ob)) (snd (simulate c (with_max o m) s)) ->
  let paused := fst (simulate c (with_max o k) s) in
  fst (simulate c (resume_opts o m) paused) = fst (simulate c (with_max o m) s).
Proof.
  intros Hkm HF Hstart Hps. apply pause_resume; [exact Hkm|].
  exact (stable_heads_from_pert (with_max o m) s HF Hstart Hps).
Qed.

End Stable.

(* C04: only eligible resources are allocated. *)
From Coq Require Import List ZArith QArith Bool Arith Lia Permutation.
From PV Require Import Model.Types Model.Sim Proofs.Base Proofs.Frames Proofs.Proj Proofs.SortProof
  Proofs.RunLemmas Proofs.C01Proof Proofs.AllocInv Proofs.AllocStruct.
Import ListNotations.
Open Scope nat_scope.

Section C04.
Variable c : cfg.

(* eligibility of a worker / facility for a task, judged in the state s0 in
   which the allocation starts (after the absence refresh) *)
Definition EligW (s0 : pstate) (w t : nat) : Prop :=
  has_wskill c w t = true /\ w_targets c w t = true
  /\ rstate_eqb (rst (wd s0 w)) RFree = true
  /\ (forall l, t_fixw c t = Some l -> mem w l = true).
Definition EligF (s0 : pstate) (f t : nat) : Prop :=
  has_fskill c f t = true /\ f_targets c f t = true
  /\ rstate_eqb (rst (fd s0 f)) RFree = true
  /\ (forall l, t_fixf c t = Some l -> mem f l = true).

Lemma can_add_fixw s t w fo : can_add c s t w fo = true -> forall l, t_fixw c t = Some l -> mem w l = true.
Proof.
  unfold can_add. intros H l El. rewrite El in H.
  destruct (is_none (st (td s t)) || is_fin (st (td s t))); [discriminate|].
  destruct (existsb (w_solo c) (aw (td s t)) || existsb (f_solo c) (af (td s t))); [discriminate|].
  destruct (w_solo c w && negb match aw (td s t) with [] => true | _ :: _ => false end); [discriminate|].
  destruct (match fo with Some f => f_solo c f && negb match af (td s t) with [] => true | _ :: _ => false end | None => false end); [discriminate|].
  destruct (mem w l); [reflexivity|discriminate].
Qed.

Lemma can_add_fixf s t w f : can_add c s t w (Some f) = true -> forall l, t_fixf c t = Some l -> mem f l = true.
Proof.
  unfold can_add. intros H l El. rewrite El in H.
  destruct (is_none (st (td s t)) || is_fin (st (td s t))); [discriminate|].
  destruct (existsb (w_solo c) (aw (td s t)) || existsb (f_solo c) (af (td s t))); [discriminate|].
  destruct (w_solo c w && negb match aw (td s t) with [] => true | _ :: _ => false end); [discriminate|].
  destruct (f_solo c f && negb match af (td s t) with [] => true | _ :: _ => false end); [discriminate|].
  destruct (match t_fixw c t with Some l0 => negb (mem w l0) | None => false end); [discriminate|].
  destruct (mem f l); [reflexivity|discriminate].
Qed.

Lemma can_add_operates s t w f : can_add c s t w (Some f) = true -> w_operates c w f = true.
Proof.
  unfold can_add. intros H.
  destruct (is_none (st (td s t)) || is_fin (st (td s t))); [discriminate|].
  destruct (existsb (w_solo c) (aw (td s t)) || existsb (f_solo c) (af (td s t))); [discriminate|].
  destruct (w_solo c w && negb match aw (td s t) with [] => true | _ :: _ => false end); [discriminate|].
  destruct (f_solo c f && negb match af (td s t) with [] => true | _ :: _ => false end); [discriminate|].
  destruct (match t_fixw c t with Some l0 => negb (mem w l0) | None => false end); [discriminate|].
  destruct (match t_fixf c t with Some l0 => negb (mem f l0) | None => false end); [discriminate|].
  destruct (negb match asg (fd s f) with [] => true | _ :: _ => false end); [discriminate|].
  apply andb_true_iff in H. destruct H as [H _]. apply andb_true_iff in H. apply H.
Qed.

Lemma can_add_solo s t w fo : can_add c s t w fo = true ->
  existsb (w_solo c) (aw (td s t)) = false /\ existsb (f_solo c) (af (td s t)) = false
  /\ (w_solo c w = true -> aw (td s t) = [])
  /\ (forall f, fo = Some f -> f_solo c f = true -> af (td s t) = []).
Proof.
  unfold can_add. intros H.
  destruct (is_none (st (td s t)) || is_fin (st (td s t))); [discriminate|].
  destruct (existsb (w_solo c) (aw (td s t))) eqn:E1; [discriminate|].
  destruct (existsb (f_solo c) (af (td s t))) eqn:E2; [discriminate|]. cbn [orb] in H.
  destruct (w_solo c w) eqn:Ew.
  - destruct (aw (td s t)) eqn:Ea; [|discriminate]. cbn [negb andb] in H.
    repeat split; try reflexivity.
    intros f ->. intros Hf. rewrite Hf in H. destruct (af (td s t)); [reflexivity|discriminate].
  - cbn [andb] in H. repeat split; try reflexivity; try discriminate.
    intros f ->. intros Hf. rewrite Hf in H. destruct (af (td s t)); [reflexivity|discriminate].
Qed.

(* ------------------------------------------------ eligibility of new allocations *)
Section Elig.
Variable s0 : pstate.

Definition PE (s : pstate) (fr : list nat) : Prop :=
  (forall w, In w fr -> rstate_eqb (rst (wd s0 w)) RFree = true)
  /\ (forall f, rst (fd s f) = rst (fd s0 f))
  /\ (forall t w, In w (aw (td s t)) -> In w (aw (td s0 t)) \/ EligW s0 w t)
  /\ (forall t f, In f (af (td s t)) -> In f (af (td s0 t)) \/ EligF s0 f t).

Lemma PE_frame s s' fr : td s' = td s -> wd s' = wd s -> fd s' = fd s -> PE s fr -> PE s' fr.
Proof. intros E1 E2 E3 (A & B & C & D). unfold PE. rewrite E1, E3. repeat split; assumption. Qed.

Lemma PE_perm s fr fr' : Permutation fr' fr -> PE s fr -> PE s fr'.
Proof.
  intros Pm (A & B & C & D). repeat split; try assumption.
  intros w Hw. apply A. eapply Permutation_in; [exact Pm|exact Hw].
Qed.

Lemma PE_alloc_w s fr t w :
  t < nT c -> In w fr -> has_wskill c w t = true -> w_targets c w t = true ->
  can_add c s t w None = true -> t_needfac c t = false -> t_auto c t = false ->
  PE s fr -> PE (do_alloc_w s t w) (filter (fun w' => negb (Nat.eqb w' w)) fr).
Proof.
  intros Ht Hin Hsk Htg Hca _ _ (A & B & C & D). unfold PE, do_alloc_w. cbn [td wd fd with_td with_wd].
  repeat split.
  - intros w' Hw'. apply filter_In in Hw'. apply A, Hw'.
  - exact B.
  - intros t' w'. rewrite upd_eq. destruct (Nat.eqb t' t) eqn:E; [|apply C].
    apply Nat.eqb_eq in E. subst t'. cbn [aw set_aw]. intros Hi. apply in_app_or in Hi.
    destruct Hi as [Hi|[<-|[]]]; [apply C; exact Hi|]. right.
    repeat split; try assumption; [apply A; exact Hin|eapply can_add_fixw; exact Hca].
  - intros t' f. rewrite upd_eq. destruct (Nat.eqb t' t) eqn:E; [|apply D].
    apply Nat.eqb_eq in E. subst t'. cbn [af set_aw]. apply D.
Qed.

Lemma PE_alloc_f s fr t w f k p :
  t < nT c -> t_comp c t = Some k -> pw (cd s k) = Some p -> In f (wp_facs c p) ->
  rstate_eqb (rst (fd s f)) RFree = true -> has_fskill c f t = true -> f_targets c f t = true ->
  In w fr -> has_wskill c w t = true -> w_targets c w t = true ->
  can_add c s t w (Some f) = true -> t_needfac c t = true -> t_auto c t = false ->
  PE s fr -> PE (do_alloc_f (do_alloc_w s t w) t f) (filter (fun w' => negb (Nat.eqb w' w)) fr).
Proof.
  intros Ht _ _ _ Hfree Hfs Hft Hin Hsk Htg Hca _ _ (A & B & C & D).
  unfold PE, do_alloc_f, do_alloc_w. cbn [td wd fd with_td with_wd with_fd].
  repeat split.
  - intros w' Hw'. apply filter_In in Hw'. apply A, Hw'.
  - intros f'. rewrite upd_eq. destruct (Nat.eqb f' f) eqn:E; [apply Nat.eqb_eq in E; subst; cbn [rst]|]; apply B.
  - intros t' w'. rewrite !upd_eq. destruct (Nat.eqb t' t) eqn:E; [|apply C].
    apply Nat.eqb_eq in E. subst t'. rewrite Nat.eqb_refl. cbn [aw set_af set_aw]. intros Hi. apply in_app_or in Hi.
    destruct Hi as [Hi|[<-|[]]]; [apply C; exact Hi|]. right.
    repeat split; try assumption; [apply A; exact Hin|eapply can_add_fixw; exact Hca].
  - intros t' f'. rewrite !upd_eq. destruct (Nat.eqb t' t) eqn:E; [|apply D].
    apply Nat.eqb_eq in E. subst t'. rewrite Nat.eqb_refl. cbn [af set_af set_aw]. intros Hi. apply in_app_or in Hi.
    destruct Hi as [Hi|[<-|[]]]; [apply D; exact Hi|]. right.
    repeat split; try assumption; [rewrite <- B; exact Hfree|eapply can_add_fixf; exact Hca].
Qed.
End Elig.

Theorem allocate_eligible o s : NoDup (all_workers c) ->
  (forall t w, In w (aw (td (allocate c o s) t)) -> In w (aw (td s t)) \/ EligW s w t)
  /\ (forall t f, In f (af (td (allocate c o s) t)) -> In f (af (td s t)) \/ EligF s f t).
Proof.
  intros Hnd.
  destruct (allocate_induction c (PE s) (PE_frame s) (PE_perm s) (PE_alloc_w s) (PE_alloc_f s) o s Hnd) as (fr & _ & _ & C & D).
  - repeat split; auto. intros w Hw. apply filter_In in Hw. apply Hw.
  - split; assumption.
Qed.

(* FREE after the absence refresh of a working step means: not absent *)
Lemma free_not_absent s w : w < nW c ->
  rstate_eqb (rst (wd (absence_update c true s) w)) RFree = true -> mem (time s) (w_abs c w) = false.
Proof.
  intros Hw. unfold absence_update. cbn [wd with_wd with_fd]. rewrite tab_spec.
  apply Nat.ltb_lt in Hw. rewrite Hw. unfold refresh_one.
  destruct (mem (time s) (w_abs c w)); [cbn; discriminate|reflexivity].
Qed.
Lemma free_fac_not_absent s f : f < nF c ->
  rstate_eqb (rst (fd (absence_update c true s) f)) RFree = true -> mem (time s) (f_abs c f) = false.
Proof.
  intros Hf. unfold absence_update. cbn [fd with_wd with_fd]. rewrite tab_spec.
  apply Nat.ltb_lt in Hf. rewrite Hf. unfold refresh_one.
  destruct (mem (time s) (f_abs c f)); [cbn; discriminate|reflexivity].
Qed.

(* the allocation phase of one step: every new worker / facility of a task is eligible *)
Lemma aw_check_working s t : aw (td (check_working c s) t) = aw (td s t) /\ af (td (check_working c s) t) = af (td s t).
Proof.
  unfold check_working.
  apply (fold_left_inv (fun x => aw (td x t) = aw (td s t) /\ af (td x t) = af (td s t))); [split; reflexivity|].
  intros x t' [H1 H2]. rewrite <- H1, <- H2. unfold cw_one.
  destruct (is_ready (st (td x t'))).
  - destruct (t_needfac c t'); cbn [td with_td with_wd with_fd]; rewrite upd_eq;
      destruct (Nat.eqb t t') eqn:E; try (split; reflexivity); apply Nat.eqb_eq in E; subst; split; reflexivity.
  - destruct (is_working (st (td x t'))); [|split; reflexivity].
    destruct (t_needfac c t' && negb match aw (td x t') with [] => true | _ :: _ => false end); split; reflexivity.
Qed.

Theorem C04_new_allocations_eligible o s : NoDup (all_workers c) ->
  let s0 := absence_update c true s in
  (forall t w, In w (aw (td (step_allocate c o s) t)) ->
     In w (aw (td s t)) \/ (negb (mem (time s) (o_abs o)) = true /\ EligW s0 w t))
  /\ (forall t f, In f (af (td (step_allocate c o s) t)) ->
     In f (af (td s t)) \/ (negb (mem (time s) (o_abs o)) = true /\ EligF s0 f t)).
Proof.
  intros Hnd. cbv zeta. unfold step_allocate.
  destruct (negb (mem (time s) (o_abs o))) eqn:Ew.
  - cbn [orb]. destruct (allocate_eligible o (absence_update c true s) Hnd) as [A B].
    split.
    + intros t w Hin. cbn [td product_check_state with_cd] in Hin.
      destruct (aw_check_working (allocate c o (absence_update c true s)) t) as [E _]. rewrite E in Hin.
      destruct (A t w Hin) as [H|H]; [left; rewrite td_absence_update in H; exact H|right; split; [reflexivity|exact H]].
    + intros t f Hin. cbn [td product_check_state with_cd] in Hin.
      destruct (aw_check_working (allocate c o (absence_update c true s)) t) as [_ E]. rewrite E in Hin.
      destruct (B t f Hin) as [H|H]; [left; rewrite td_absence_update in H; exact H|right; split; [reflexivity|exact H]].
  - cbn [orb]. split.
    + intros t w Hin. left. destruct (o_auto_abs o).
      * cbn [td product_check_state with_cd] in Hin.
        destruct (aw_check_working (absence_update c false s) t) as [E _]. rewrite E, td_absence_update in Hin. exact Hin.
      * rewrite td_absence_update in Hin. exact Hin.
    + intros t f Hin. left. destruct (o_auto_abs o).
      * cbn [td product_check_state with_cd] in Hin.
        destruct (aw_check_working (absence_update c false s) t) as [_ E]. rewrite E, td_absence_update in Hin. exact Hin.
      * rewrite td_absence_update in Hin. exact Hin.
Qed.

(* ------------------------------------------------ solo flags and pairing *)
Hypothesis Hw_range : forall w, In w (all_workers c) -> w < nW c.
Hypothesis Hw_nodup : NoDup (all_workers c).
Hypothesis Hf_range : forall p f, In f (wp_facs c p) -> f < nF c.

Definition solo_ok (p : nat -> bool) (l : list nat) : Prop := existsb p l = true -> length l <= 1.
Definition pairs_ok (lw lf : list nat) : Prop := Forall2 (fun w f => w_operates c w f = true) lw lf.

Definition SoloPair (s : pstate) : Prop :=
  forall t, t < nT c ->
    solo_ok (w_solo c) (aw (td s t)) /\ solo_ok (f_solo c) (af (td s t))
    /\ (t_needfac c t = true -> pairs_ok (aw (td s t)) (af (td s t))).

Lemma solo_ok_nil p : solo_ok p []. Proof. intros H. cbn. lia. Qed.

Lemma solo_ok_snoc p l x : existsb p l = false -> (p x = true -> l = []) -> solo_ok p (l ++ [x]).
Proof.
  intros H1 H2 H. rewrite existsb_app in H. rewrite H1 in H. cbn in H. rewrite orb_false_r in H.
  rewrite (H2 H). cbn. lia.
Qed.

Lemma SoloPair_lists s s' : (forall t, aw (td s' t) = aw (td s t) /\ af (td s' t) = af (td s t)) -> SoloPair s -> SoloPair s'.
Proof. intros E H t Ht. destruct (E t) as [E1 E2]. rewrite E1, E2. apply H. exact Ht. Qed.

Lemma SoloPair_allocate o s : SoloPair s -> SoloPair (allocate c o s).
Proof.
  intros H.
  assert (F1 : forall x x' (fr : list nat), td x' = td x -> wd x' = wd x -> fd x' = fd x -> SoloPair x -> SoloPair x').
  { intros x x' fr E1 _ _ Hx. eapply SoloPair_lists; [|exact Hx]. intros t. rewrite E1. split; reflexivity. }
  assert (F2 : forall x (fr fr' : list nat), Permutation fr' fr -> SoloPair x -> SoloPair x) by (intros; assumption).
  assert (F3 : forall x fr t w, t < nT c -> In w fr -> has_wskill c w t = true -> w_targets c w t = true ->
               can_add c x t w None = true -> t_needfac c t = false -> t_auto c t = false ->
               SoloPair x -> SoloPair (do_alloc_w x t w)).
  { intros x fr t w Ht _ _ _ Hca Hnf _ Hx t' Ht'.
    unfold do_alloc_w. cbn [td with_td with_wd]. rewrite upd_eq.
    destruct (Nat.eqb t' t) eqn:E; [|apply Hx; exact Ht'].
    apply Nat.eqb_eq in E. subst t'. cbn [aw af set_aw].
    destruct (can_add_solo x t w None Hca) as (S1 & S2 & S3 & _).
    destruct (Hx t Ht) as (A1 & A2 & A3).
    split; [apply solo_ok_snoc; assumption|]. split; [exact A2|]. congruence. }
  assert (F4 : forall x fr t w f k p, t < nT c -> t_comp c t = Some k -> pw (cd x k) = Some p -> In f (wp_facs c p) ->
               rstate_eqb (rst (fd x f)) RFree = true -> has_fskill c f t = true -> f_targets c f t = true ->
               In w fr -> has_wskill c w t = true -> w_targets c w t = true ->
               can_add c x t w (Some f) = true -> t_needfac c t = true -> t_auto c t = false ->
               SoloPair x -> SoloPair (do_alloc_f (do_alloc_w x t w) t f)).
  { intros x fr t w f k p Ht _ _ _ _ _ _ _ _ _ Hca Hnf _ Hx t' Ht'.
    unfold do_alloc_f, do_alloc_w. cbn [td with_td with_wd with_fd]. rewrite !upd_eq.
    destruct (Nat.eqb t' t) eqn:E; [|apply Hx; exact Ht'].
    apply Nat.eqb_eq in E. subst t'. rewrite Nat.eqb_refl. cbn [aw af set_aw set_af].
    destruct (can_add_solo x t w (Some f) Hca) as (S1 & S2 & S3 & S4).
    destruct (Hx t Ht) as (A1 & A2 & A3).
    split; [apply solo_ok_snoc; assumption|].
    split; [apply solo_ok_snoc; [exact S2|intros Hs; apply (S4 f eq_refl Hs)]|].
    intros _. apply Forall2_app; [apply A3; exact Hnf|].
    constructor; [eapply can_add_operates; exact Hca|constructor]. }
  destruct (allocate_induction c (fun x _ => SoloPair x) F1 F2
              (fun x fr t w a1 a2 a3 a4 a5 a6 a7 a8 => F3 x fr t w a1 a2 a3 a4 a5 a6 a7 a8)
              (fun x fr t w f k p a1 a2 a3 a4 a5 a6 a7 a8 a9 a10 a11 a12 a13 a14 => F4 x fr t w f k p a1 a2 a3 a4 a5 a6 a7 a8 a9 a10 a11 a12 a13 a14)
              o s Hw_nodup H) as (fr & R).
  exact R.
Qed.

Lemma SoloPair_finish_task s t : AInv c s -> t < nT c -> SoloPair s -> SoloPair (finish_task c s t).
Proof.
  intros Ha Ht H t' Ht'. destruct (finish_task_fields c s t Ha Ht) as (Eaw & Eaf & _).
  rewrite Eaw, Eaf. destruct (Nat.eqb t' t); [|apply H; exact Ht'].
  split; [apply solo_ok_nil|]. split; [apply solo_ok_nil|]. intros _. constructor.
Qed.

Lemma SoloPair_check_finished s : AInv c s -> SoloPair s -> SoloPair (check_finished c s).
Proof.
  assert (P : forall x, AInv c x -> SoloPair x -> AInv c (fst (finish_pass c x)) /\ SoloPair (fst (finish_pass c x))).
  { intros x Hx Hs. unfold finish_pass.
    assert (G : forall l (acc : pstate * bool), (forall t, In t l -> t < nT c) ->
               AInv c (fst acc) /\ SoloPair (fst acc) ->
               let r := fold_left (fun (acc : pstate * bool) t =>
                        let (s', ch) := acc in
                        if finish_gate c s' t then (finish_task c s' t, true) else (s', ch)) l acc in
               AInv c (fst r) /\ SoloPair (fst r)).
    { induction l as [|t l IH]; intros acc Hl Ha; cbn [fold_left]; [exact Ha|].
      apply IH; [intros y Hy; apply Hl; right; exact Hy|].
      destruct acc as [s' ch]. cbn [fst] in *. destruct (finish_gate c s' t); cbn [fst]; [|exact Ha].
      destruct Ha as [A1 A2]. pose proof (Hl t (or_introl eq_refl)) as Ht. split.
      - apply AInv_finish_task; assumption.
      - apply SoloPair_finish_task; assumption. }
    apply G; [|split; assumption]. intros t Hin. apply filter_In in Hin. destruct Hin as [Hin _].
    apply in_seq in Hin. lia. }
  unfold check_finished. generalize (S (nT c)) as fuel. intros fuel. revert s.
  induction fuel as [|f IH]; intros s Ha Hs; cbn [finish_loop]; [exact Hs|].
  destruct (finish_pass c s) as [s' ch] eqn:E.
  destruct (P s Ha Hs) as [A' S']. rewrite E in A', S'. cbn [fst] in A', S'.
  destruct ch; [apply IH; assumption|exact S'].
Qed.

Lemma SoloPair_td s s' : td s' = td s -> SoloPair s -> SoloPair s'.
Proof. intros E. apply SoloPair_lists. intros t. rewrite E. split; reflexivity. Qed.

Lemma SoloPair_check_ready s : SoloPair s -> SoloPair (check_ready c s).
Proof.
  apply SoloPair_lists. intros t. unfold check_ready. cbn [td with_td]. rewrite tab_spec.
  destruct (t <? nT c); [|split; reflexivity].
  match goal with |- context [if ?b then _ else _] => destruct b end; split; reflexivity.
Qed.

Lemma SoloPair_update_pert tm s : SoloPair s -> SoloPair (update_pert c tm s).
Proof.
  apply SoloPair_lists. intros t. destruct (keeps_update_pert c tm s t) as (_ & _ & A & B). split; assumption.
Qed.

Lemma SoloPair_update o s : AInv c s -> SoloPair s -> SoloPair (update c o s).
Proof.
  intros Ha Hs. unfold update.
  apply SoloPair_update_pert.
  apply (SoloPair_td _ _ (td_product_check_state c _)).
  apply SoloPair_check_ready.
  apply (SoloPair_td _ _ (td_check_removing c _ _)).
  apply (SoloPair_td _ _ (td_product_check_state c _)).
  apply SoloPair_check_finished; assumption.
Qed.

Lemma SoloPair_step_allocate o s : SoloPair s -> SoloPair (step_allocate c o s).
Proof.
  intros Hs. unfold step_allocate.
  set (w := negb (mem (time s) (o_abs o))).
  assert (H1 : SoloPair (absence_update c w s)).
  { eapply SoloPair_lists; [|exact Hs]. intros t. rewrite td_absence_update. split; reflexivity. }
  assert (H2 : SoloPair (if w then allocate c o (absence_update c w s) else absence_update c w s)).
  { destruct w; [apply SoloPair_allocate; exact H1|exact H1]. }
  destruct (w || o_auto_abs o); [|exact H2].
  apply (SoloPair_td _ _ (td_product_check_state c _)).
  eapply SoloPair_lists; [intros t; apply aw_check_working|exact H2].
Qed.

Lemma SoloPair_step_perform o s : SoloPair s -> SoloPair (step_perform c o s).
Proof.
  apply SoloPair_lists. intros t. unfold step_perform.
  destruct (negb (mem (time s) (o_abs o))); [|destruct (o_auto_abs o)]; try (split; reflexivity);
    unfold perform; cbn [td with_td add_cost]; rewrite tab_spec; destruct (t <? nT c); try (split; reflexivity);
    match goal with |- context [if ?b then _ else _] => destruct b end; split; reflexivity.
Qed.

Theorem C04_solo_and_pairs o s :
  (o_init_state o = true \/ (AInv c s /\ SoloPair s)) ->
  Forall (fun ob : obs => SoloPair (snd ob)) (snd (simulate c o s)).
Proof.
  intros Hstart.
  destruct (simulate_trace c o s) as (tr & Htr & Esnd). rewrite Esnd.
  set (Q := fun x => AInv c x /\ SoloPair x).
  assert (H0 : Q (initialize c o s)).
  { destruct (o_init_state o) eqn:E.
    - split; [apply AInv_initialize; assumption|].
      unfold initialize. rewrite E.
      match goal with |- SoloPair (with_cd ?y ?f) => apply (SoloPair_td y (with_cd y f) eq_refl) end.
      apply SoloPair_check_ready.
      apply SoloPair_update_pert.
      match goal with |- SoloPair (with_cpl ?x _) => set (s1 := x) end.
      intros t Ht. unfold s1. cbn [td with_cpl]. rewrite tab_spec. apply Nat.ltb_lt in Ht. rewrite Ht.
      destruct (o_init_log o && exempt c t); cbn [aw af set_st init_tlive];
        (split; [apply solo_ok_nil|split; [apply solo_ok_nil|intros _; constructor]]).
    - destruct Hstart as [H|[H1 H2]]; [discriminate|]. unfold initialize. rewrite E. split.
      + match goal with |- AInv c ?y => apply (AInv_frame c s y eq_refl eq_refl eq_refl H1) end.
      + match goal with |- SoloPair ?y => apply (SoloPair_td s y eq_refl H2) end. }
  assert (U1 : forall x, Q x -> Q (update c o x)).
  { intros x [A B]. split; [apply AInv_update; assumption|apply SoloPair_update; assumption]. }
  assert (U2 : forall x, Q x -> Q (step_allocate c o x)).
  { intros x [A B]. split; [apply AInv_step_allocate; assumption|apply SoloPair_step_allocate; assumption]. }
  assert (U3 : forall x, Q x -> Q (step_perform c o x)).
  { intros x [A B]. split; [apply AInv_step_perform; assumption|apply SoloPair_step_perform; assumption]. }
  assert (U4 : forall x, Q x -> Q (step_record c o x)).
  { intros x [A B]. split; [apply (AInv_frame c x (step_record c o x) eq_refl eq_refl eq_refl A)
                           |apply (SoloPair_td x (step_record c o x) eq_refl B)]. }
  assert (U5 : forall x, Q x -> Q (with_time x (S (time x)))).
  { intros x [A B]. split; [apply (AInv_frame c x (with_time x (S (time x))) eq_refl eq_refl eq_refl A)
                           |apply (SoloPair_td x (with_time x (S (time x))) eq_refl B)]. }
  destruct (trace_invariant c o Q Q Q Q Q U1 U2 U3 U4 U5 _ _ _ Htr H0) as [Hall _].
  eapply Forall_impl; [|exact Hall]. intros [[k ph] sn]. cbn. destruct ph; intros [_ h]; exact h.
Qed.


End C04.

(* The behaviour-relevant part of a project state ("key"): task state,
   remaining work and allocation lists; worker / facility records; component
   records; workplace contents.  Every phase of a step computes the key of its
   result from the key of its argument (for task priority rules that do not
   look at PERT values): F (scrub s) and F s have the same key, where scrub
   erases everything else.  Used for C10 (f). *)
From Coq Require Import List ZArith QArith Bool Arith Lia FunctionalExtensionality.
From PV Require Import Model.Types Model.Sim Proofs.Base Proofs.Frames Proofs.Proj Proofs.SortProof Proofs.C11Proof.
Import ListNotations.
Open Scope nat_scope.

Definition strip (x : tlive) : tlive := mkTL (st x) (rem x) (aw x) (af x) 0%Q 0%Q 0%Q 0%Q.

Definition scrub (s : pstate) : pstate :=
  mkP 0 StNone 0%Q (fun t => strip (td s t)) (wd s) (fd s) (cd s) (wpc s)
      (fun _ => mkTLog [] [] [] []) (fun _ => mkRLog [] [] []) (fun _ => mkRLog [] [] [])
      (fun _ => mkCLog [] []) (fun _ => mkWPLog [] []) (fun _ => []) [] [].

Section Cong.
Variable c : cfg.

(* same key, pointwise; with [strict = false] the worker / facility records are
   compared by their assignment lists only (their states are rewritten by the
   absence refresh at the beginning of the next working step) *)
Definition req (strict : bool) (n i : nat) (a b : rlive) : Prop :=
  if strict then a = b else if i <? n then asg a = asg b else a = b.
Definition KEg (strict : bool) (x y : pstate) : Prop :=
  (forall t, strip (td x t) = strip (td y t)) /\ (forall w, req strict (nW c) w (wd x w) (wd y w))
  /\ (forall f, req strict (nF c) f (fd x f) (fd y f))
  /\ (forall k, cd x k = cd y k) /\ (forall p, wpc x p = wpc y p).
Notation KE := (KEg true).
Notation KA := (KEg false).

Lemma req_refl b n i a : req b n i a a. Proof. unfold req. destruct b; [reflexivity|]. destruct (i <? n); reflexivity. Qed.
Lemma req_sym b n i a a' : req b n i a a' -> req b n i a' a.
Proof. unfold req. destruct b; [intros H; symmetry; exact H|]. destruct (i <? n); intros H; symmetry; exact H. Qed.
Lemma req_trans b n i a a' a'' : req b n i a a' -> req b n i a' a'' -> req b n i a a''.
Proof. unfold req. destruct b; [congruence|]. destruct (i <? n); congruence. Qed.
Lemma req_asg b n i a a' : req b n i a a' -> asg a = asg a'.
Proof. unfold req. destruct b; [intros ->; reflexivity|]. destruct (i <? n); [exact (fun h => h)|intros ->; reflexivity]. Qed.
Lemma req_weaken n i a a' : req true n i a a' -> req false n i a a'.
Proof. unfold req. intros ->. destruct (i <? n); reflexivity. Qed.

Lemma KE_refl b x : KEg b x x. Proof. repeat split; intros; apply req_refl. Qed.
Lemma KE_sym b x y : KEg b x y -> KEg b y x.
Proof. intros (A & B & C & D & E). split; [intros; symmetry; auto|]. split; [intros; apply req_sym; auto|]. split; [intros; apply req_sym; auto|]. split; intros; symmetry; auto. Qed.
Lemma KE_trans b x y z : KEg b x y -> KEg b y z -> KEg b x z.
Proof.
  intros (A & B & C & D & E) (A' & B' & C' & D' & E').
  split; [intros; etransitivity; eauto|]. split; [intros; eapply req_trans; eauto|]. split; [intros; eapply req_trans; eauto|].
  split; intros; etransitivity; eauto.
Qed.
Lemma KE_weaken x y : KE x y -> KA x y.
Proof. intros (A & B & C & D & E). split; [exact A|]. split; [intros w; apply req_weaken; apply B|]. split; [intros f; apply req_weaken; apply C|]. split; assumption. Qed.

Lemma KE_scrub x y : KE x y <-> scrub x = scrub y.
Proof.
  split.
  - intros (A & B & C & D & E). unfold scrub. f_equal; apply functional_extensionality; assumption.
  - intros H.
    assert (H1 : td (scrub x) = td (scrub y)) by (rewrite H; reflexivity).
    assert (H2 : wd (scrub x) = wd (scrub y)) by (rewrite H; reflexivity).
    assert (H3 : fd (scrub x) = fd (scrub y)) by (rewrite H; reflexivity).
    assert (H4 : cd (scrub x) = cd (scrub y)) by (rewrite H; reflexivity).
    assert (H5 : wpc (scrub x) = wpc (scrub y)) by (rewrite H; reflexivity).
    cbn [scrub td wd fd cd wpc] in *.
    split; [intros i; apply (f_equal (fun g => g i)) in H1; exact H1|].
    split; [intros i; apply (f_equal (fun g => g i)) in H2; exact H2|].
    split; [intros i; apply (f_equal (fun g => g i)) in H3; exact H3|].
    split; [intros i; apply (f_equal (fun g => g i)) in H4; exact H4|].
    intros i; apply (f_equal (fun g => g i)) in H5; exact H5.
Qed.

Lemma KE_scrub_self s : KE (scrub s) s.
Proof. repeat split. Qed.

Lemma strip_fields x y : strip x = strip y -> st x = st y /\ rem x = rem y /\ aw x = aw y /\ af x = af y.
Proof. unfold strip. intros H. injection H as -> -> -> ->. repeat split. Qed.

(* F computes the key of its result from the key of its argument *)
Definition SK (k : bool) (F : pstate -> pstate) : Prop := forall x y, KEg k x y -> KEg k (F x) (F y).
Definition SK2 {B} (k : bool) (F : pstate -> pstate * B) : Prop :=
  forall x y, KEg k x y -> KEg k (fst (F x)) (fst (F y)) /\ snd (F x) = snd (F y).

Lemma SK_fold {B} k (g : pstate -> B -> pstate) : (forall b, SK k (fun x => g x b)) -> forall l, SK k (fun x => fold_left g l x).
Proof.
  intros H l. induction l as [|b l IH]; intros x y Hxy; cbn [fold_left]; [exact Hxy|]. apply IH. apply (H b). exact Hxy.
Qed.

Lemma SK_fold_pair {A B} k (g : pstate * A -> B -> pstate * A) :
  (forall b x y a, KEg k x y -> KEg k (fst (g (x, a) b)) (fst (g (y, a) b)) /\ snd (g (x, a) b) = snd (g (y, a) b)) ->
  forall l x y a, KEg k x y -> KEg k (fst (fold_left g l (x, a))) (fst (fold_left g l (y, a))) /\ snd (fold_left g l (x, a)) = snd (fold_left g l (y, a)).
Proof.
  intros H l. induction l as [|b l IH]; intros x y a Hxy; cbn [fold_left]; [split; [exact Hxy|reflexivity]|].
  destruct (H b x y a Hxy) as [H1 H2].
  destruct (g (x, a) b) as [x' a']. destruct (g (y, a) b) as [y' a'']. cbn [fst snd] in *. subst a''. apply IH. exact H1.
Qed.

(* reading the key *)
Lemma KE_st k x y t : KEg k x y -> st (td x t) = st (td y t).
Proof. intros (A & _). apply (strip_fields _ _ (A t)). Qed.
Lemma KE_rem k x y t : KEg k x y -> rem (td x t) = rem (td y t).
Proof. intros (A & _). apply (strip_fields _ _ (A t)). Qed.
Lemma KE_aw k x y t : KEg k x y -> aw (td x t) = aw (td y t).
Proof. intros (A & _). apply (strip_fields _ _ (A t)). Qed.
Lemma KE_af k x y t : KEg k x y -> af (td x t) = af (td y t).
Proof. intros (A & _). apply (strip_fields _ _ (A t)). Qed.
Lemma KE_asg_w k x y w : KEg k x y -> asg (wd x w) = asg (wd y w).
Proof. intros (_ & B & _). apply (req_asg k (nW c) w). apply B. Qed.
Lemma KE_asg_f k x y f : KEg k x y -> asg (fd x f) = asg (fd y f).
Proof. intros (_ & _ & C & _). apply (req_asg k (nF c) f). apply C. Qed.
Lemma KE_cd k x y j : KEg k x y -> cd x j = cd y j. Proof. intros (_ & _ & _ & D & _). apply D. Qed.
Lemma KE_wpc k x y p : KEg k x y -> wpc x p = wpc y p. Proof. intros (_ & _ & _ & _ & E). apply E. Qed.

Lemma ready_gate_KE k x y t : KEg k x y -> ready_gate c x t = ready_gate c y t.
Proof. intros H. unfold ready_gate. apply forallb_ext'. intros pd. rewrite (KE_st k x y (fst pd) H). reflexivity. Qed.
Lemma finish_gate_KE k x y t : KEg k x y -> finish_gate c x t = finish_gate c y t.
Proof. intros H. unfold finish_gate. apply forallb_ext'. intros pd. rewrite (KE_st k x y (fst pd) H). reflexivity. Qed.
Lemma zero_work_KE k x y t : KEg k x y -> zero_work x t = zero_work y t.
Proof. intros H. unfold zero_work. rewrite (KE_st k x y t H), (KE_rem k x y t H). reflexivity. Qed.

Lemma filter_ext' {A} (p q : A -> bool) l : (forall a, p a = q a) -> filter p l = filter q l.
Proof. intros H. induction l as [|a l IH]; cbn; [reflexivity|]. rewrite H, IH. reflexivity. Qed.

(* ---------------------------------------------------------- finish_task *)
Lemma release_one_req k n x y t (d d' : nat -> rlive) r :
  (forall u, st (td x u) = st (td y u)) -> (forall i, req k n i (d i) (d' i)) ->
  forall i, req k n i (release_one x t d r i) (release_one y t d' r i).
Proof.
  intros Hst Hd i. unfold release_one.
  rewrite (req_asg k n r _ _ (Hd r)).
  assert (E : forallb (fun t' => is_fin (st (td x t'))) (asg (d' r)) = forallb (fun t' => is_fin (st (td y t'))) (asg (d' r)))
    by (apply forallb_ext'; intros u; rewrite Hst; reflexivity).
  rewrite E.
  destruct (negb match asg (d' r) with [] => true | _ :: _ => false end && forallb (fun t' => is_fin (st (td y t'))) (asg (d' r))).
  - rewrite !upd_eq. destruct (Nat.eqb i r); [apply req_refl|apply Hd].
  - apply Hd.
Qed.

Lemma release_fold_req k n x y t l : (forall u, st (td x u) = st (td y u)) ->
  forall (d d' : nat -> rlive), (forall i, req k n i (d i) (d' i)) ->
  forall i, req k n i (fold_left (release_one x t) l d i) (fold_left (release_one y t) l d' i).
Proof.
  intros Hst. induction l as [|r l IH]; intros d d' Hd i; cbn [fold_left]; [apply Hd|].
  apply IH. intros j. apply release_one_req; assumption.
Qed.

Lemma finish_task_KE k t : SK k (fun x => finish_task c x t).
Proof.
  intros x y H. destruct H as (A & B & C & D & E).
  assert (Hs : forall u, strip (td x u) = strip (td y u)) by exact A.
  destruct (strip_fields _ _ (A t)) as (S1 & S2 & S3 & S4).
  unfold finish_task.
  set (x1 := with_td x (upd (td x) t (set_rem (set_st (td x t) TFinished) 0%Q))).
  set (y1 := with_td y (upd (td y) t (set_rem (set_st (td y t) TFinished) 0%Q))).
  assert (Hst1 : forall u, st (td x1 u) = st (td y1 u)).
  { intros u. unfold x1, y1. cbn [td with_td]. rewrite !upd_eq. destruct (Nat.eqb u t); [reflexivity|apply (strip_fields _ _ (A u))]. }
  set (wx := fold_left (release_one x1 t) (aw (td x t)) (wd x1)).
  set (wy := fold_left (release_one y1 t) (aw (td y t)) (wd y1)).
  assert (Hw : forall i, req k (nW c) i (wx i) (wy i)).
  { intros i. unfold wx, wy. rewrite S3. apply release_fold_req; [exact Hst1|exact B]. }
  set (x3 := with_td (with_wd x1 wx) (upd (td (with_wd x1 wx)) t (set_aw (td (with_wd x1 wx) t) []))).
  set (y3 := with_td (with_wd y1 wy) (upd (td (with_wd y1 wy)) t (set_aw (td (with_wd y1 wy) t) []))).
  assert (Htd3 : forall u, strip (td x3 u) = strip (td y3 u)).
  { intros u. unfold x3, y3, x1, y1. cbn [td with_td with_wd]. rewrite !upd_eq. destruct (Nat.eqb u t) eqn:Eu.
    - apply Nat.eqb_eq in Eu. subst u. rewrite !Nat.eqb_refl. unfold strip. cbn. rewrite S4. reflexivity.
    - apply A. }
  assert (Hst3 : forall u, st (td x3 u) = st (td y3 u)) by (intros u; apply (strip_fields _ _ (Htd3 u))).
  destruct (t_needfac c t).
  - set (fx := fold_left (release_one x3 t) (af (td x t)) (fd x3)).
    set (fy := fold_left (release_one y3 t) (af (td y t)) (fd y3)).
    assert (Hf : forall i, req k (nF c) i (fx i) (fy i)).
    { intros i. unfold fx, fy. rewrite S4. apply release_fold_req; [exact Hst3|exact C]. }
    split; [|split; [exact Hw|split; [exact Hf|split; [exact D|exact E]]]].
    intros u. cbn [td with_td with_fd]. rewrite !upd_eq. destruct (Nat.eqb u t) eqn:Eu.
    + pose proof (Htd3 t) as H3. unfold strip in *. cbn. injection H3 as -> -> -> _. reflexivity.
    + apply Htd3.
  - split; [exact Htd3|]. split; [exact Hw|]. split; [exact C|]. split; [exact D|exact E].
Qed.

Lemma finish_pass_KE k : SK2 k (finish_pass c).
Proof.
  intros x y H. unfold finish_pass.
  rewrite (filter_ext' (zero_work x) (zero_work y) (tasks c) (fun t => zero_work_KE k x y t H)).
  apply (SK_fold_pair k). intros t x' y' a H'. cbn [fst snd].
  rewrite (finish_gate_KE k x' y' t H'). destruct (finish_gate c y' t); cbn [fst snd]; [|split; [exact H'|reflexivity]].
  split; [apply finish_task_KE; exact H'|reflexivity]. exact H.
Qed.

Lemma finish_loop_KE k fuel : SK k (finish_loop c fuel).
Proof.
  induction fuel as [|f IH]; intros x y H; cbn [finish_loop]; [exact H|].
  destruct (finish_pass_KE k x y H) as [H1 H2].
  destruct (finish_pass c x) as [x' cx]. destruct (finish_pass c y) as [y' cy]. cbn [fst snd] in *. subst cy.
  destruct cx; [apply IH|]; exact H1.
Qed.

Lemma check_finished_KE k : SK k (check_finished c).
Proof. apply finish_loop_KE. Qed.

Lemma check_ready_KE k : SK k (check_ready c).
Proof.
  intros x y H. pose proof H as (A & B & C & D & E). unfold check_ready.
  split; [|split; [exact B|split; [exact C|split; [exact D|exact E]]]].
  intros t. cbn [td with_td]. rewrite !tab_spec. destruct (t <? nT c); [|apply A].
  rewrite (KE_st k x y t H), (ready_gate_KE k x y t H).
  destruct (is_none (st (td y t)) && ready_gate c y t); [|apply A].
  pose proof (A t) as At. unfold strip in *. cbn. injection At as _ -> -> ->. reflexivity.
Qed.

Lemma comp_check_KE k x y j : KEg k x y -> comp_check c x j = comp_check c y j.
Proof.
  intros H. unfold comp_check, ctask_states. rewrite (KE_cd k x y j H).
  assert (E : map (fun t => st (td x t)) (c_tasks c j) = map (fun t => st (td y t)) (c_tasks c j))
    by (apply map_ext; intros t; apply (KE_st k x y t H)).
  rewrite E. reflexivity.
Qed.

Lemma pcs_KE k : SK k (product_check_state c).
Proof.
  intros x y H. pose proof H as (A & B & C & D & E). unfold product_check_state.
  split; [exact A|]. split; [exact B|]. split; [exact C|]. split; [|exact E].
  intros j. cbn [cd with_cd]. rewrite !tab_spec. destruct (j <? nC c); [|apply D].
  rewrite (comp_check_KE k x y j H), (D j). reflexivity.
Qed.

Lemma detach_one_KE k j : SK k (fun x => detach_one x j).
Proof.
  intros x y H. pose proof H as (A & B & C & D & E). unfold detach_one. rewrite (D j).
  destruct (pw (cd y j)) as [p|]; [|exact H].
  split; [exact A|]. split; [exact B|]. split; [exact C|]. split.
  - intros i. cbn [cd with_cd with_wpc]. rewrite !upd_eq. destruct (Nat.eqb i j); [rewrite (D j); reflexivity|apply D].
  - intros q. cbn [wpc with_cd with_wpc]. rewrite !upd_eq. destruct (Nat.eqb q p); [rewrite (E p); reflexivity|apply E].
Qed.
Lemma detach_tree_KE k j : SK k (fun x => detach_tree c x j).
Proof. unfold detach_tree. apply SK_fold. intros b. apply detach_one_KE. Qed.

Lemma comp_all_fin_KE k x y j : KEg k x y -> comp_all_fin c x j = comp_all_fin c y j.
Proof. intros H. unfold comp_all_fin. apply forallb_ext'. intros t. rewrite (KE_st k x y t H). reflexivity. Qed.

Lemma tree_all_ext fuel (p q : nat -> bool) : (forall j, p j = q j) -> forall j, tree_all c fuel p j = tree_all c fuel q j.
Proof.
  intros Hpq. induction fuel as [|f IH]; intros j; cbn [tree_all]; [apply Hpq|]. rewrite Hpq. f_equal. apply forallb_ext'. exact IH.
Qed.

Lemma check_removing_KE k cr : SK k (check_removing c cr).
Proof.
  intros x y H. unfold check_removing.
  assert (E : forall j, tree_all c (nC c) (comp_all_fin c x) j = tree_all c (nC c) (comp_all_fin c y) j)
    by (apply tree_all_ext; intros j; apply (comp_all_fin_KE k x y j H)).
  rewrite (filter_ext' _ _ _ E).
  apply (SK_fold k (detach_tree c)); [intros b; apply detach_tree_KE|exact H].
Qed.

Lemma update_pert_KE k tm tm' x y : KEg k x y -> KEg k (update_pert c tm x) (update_pert c tm' y).
Proof.
  intros (A & B & C & D & E).
  split; [|split; [|split; [|split]]].
  - intros t. destruct (keeps_update_pert c tm x t) as (K1 & K2 & K3 & K4). destruct (keeps_update_pert c tm' y t) as (L1 & L2 & L3 & L4).
    destruct (strip_fields _ _ (A t)) as (S1 & S2 & S3 & S4). unfold strip. rewrite K1, K2, K3, K4, L1, L2, L3, L4, S1, S2, S3, S4. reflexivity.
  - intros w. rewrite !(pi_update_pert c _ wd) by reflexivity. apply B.
  - intros f. rewrite !(pi_update_pert c _ fd) by reflexivity. apply C.
  - intros j. rewrite !(pi_update_pert c _ cd) by reflexivity. apply D.
  - intros p. rewrite !(pi_update_pert c _ wpc) by reflexivity. apply E.
Qed.

(* __update: the key of the result is a function of the key of the argument,
   whatever the times of the two states *)
Theorem update_KE k o x y : KEg k x y -> KEg k (update c o x) (update c o y).
Proof.
  intros H. unfold update. apply update_pert_KE. apply pcs_KE. apply check_ready_KE. apply check_removing_KE. apply pcs_KE.
  apply check_finished_KE. exact H.
Qed.


(* ------------------------------------------------------------ allocation *)
Hypothesis Hwabs : forall w, w_abs c w = [].
Hypothesis Hfabs : forall f, f_abs c f = [].

Lemma absence_update_KE b x y : KA x y -> KE (absence_update c b x) (absence_update c b y).
Proof.
  intros (A & B & C & D & E). unfold absence_update.
  destruct b; (split; [exact A|]; split; [|split; [|split; [exact D|exact E]]]).
  - intros w. cbn [wd with_wd with_fd req]. rewrite !tab_spec. pose proof (B w) as Bw. unfold req in Bw.
    destruct (w <? nW c); [|exact Bw]. unfold refresh_one. rewrite Hwabs. cbn [mem existsb]. unfold mem. cbn [existsb]. rewrite Bw. reflexivity.
  - intros f. cbn [fd with_wd with_fd req]. rewrite !tab_spec. pose proof (C f) as Cf. unfold req in Cf.
    destruct (f <? nF c); [|exact Cf]. unfold refresh_one. rewrite Hfabs. unfold mem. cbn [existsb]. rewrite Cf. reflexivity.
  - intros w. cbn [wd with_wd with_fd req]. rewrite !tab_spec. pose proof (B w) as Bw. unfold req in Bw.
    destruct (w <? nW c); [rewrite Bw; reflexivity|exact Bw].
  - intros f. cbn [fd with_wd with_fd req]. rewrite !tab_spec. pose proof (C f) as Cf. unfold req in Cf.
    destruct (f <? nF c); [rewrite Cf; reflexivity|exact Cf].
Qed.

Lemma KE_wd x y w : KE x y -> wd x w = wd y w. Proof. intros (_ & B & _). apply B. Qed.
Lemma KE_fd x y f : KE x y -> fd x f = fd y f. Proof. intros (_ & _ & C & _). apply C. Qed.

Lemma can_add_KE x y t w fo : KE x y -> can_add c x t w fo = can_add c y t w fo.
Proof.
  intros H. unfold can_add. rewrite (KE_st _ x y t H), (KE_aw _ x y t H), (KE_af _ x y t H).
  destruct fo as [f|]; [rewrite (KE_fd x y f H)|]; reflexivity.
Qed.

Lemma ctask_states_KE k x y j : KEg k x y -> ctask_states c x j = ctask_states c y j.
Proof. intros H. unfold ctask_states. apply map_ext. intros t. apply (KE_st k x y t H). Qed.
Lemma comp_is_ready_KE k x y j : KEg k x y -> comp_is_ready c x j = comp_is_ready c y j.
Proof. intros H. unfold comp_is_ready. rewrite (ctask_states_KE k x y j H). reflexivity. Qed.
Lemma comp_idle_KE k x y j : KEg k x y -> comp_idle c x j = comp_idle c y j.
Proof.
  intros H. unfold comp_idle. apply forallb_ext'. intros t. rewrite (KE_st k x y t H), (KE_aw k x y t H), (KE_af k x y t H). reflexivity.
Qed.
Lemma can_move_KE k x y mv j : KEg k x y -> can_move c x mv j = can_move c y mv j.
Proof. intros H. unfold can_move. apply tree_all_ext. intros i. rewrite (comp_idle_KE k x y i H). reflexivity. Qed.
Lemma conveyor_ok_KE k x y p j : KEg k x y -> conveyor_ok c x p j = conveyor_ok c y p j.
Proof. intros H. unfold conveyor_ok. apply tree_all_ext. intros i. rewrite (KE_cd k x y i H). reflexivity. Qed.
Lemma avail_space_KE k x y p : KEg k x y -> avail_space c x p = avail_space c y p.
Proof. intros H. unfold avail_space. rewrite (KE_wpc k x y p H). reflexivity. Qed.
Lemma can_put_KE k x y p j : KEg k x y -> can_put c x p j = can_put c y p j.
Proof. intros H. unfold can_put. rewrite (avail_space_KE k x y p H). reflexivity. Qed.

Lemma sort_by_ext (k1 k2 : nat -> Q) l : (forall t, k1 t = k2 t) -> sort_by k1 l = sort_by k2 l.
Proof. intros H. replace k1 with k2 by (apply functional_extensionality; intros t; symmetry; apply H). reflexivity. Qed.

Lemma sort_wps_KE k rule x y t l : KEg k x y -> sort_wps c rule x t l = sort_wps c rule y t l.
Proof.
  intros H. unfold sort_wps. destruct rule as [|p|p]; try reflexivity.
  apply sort_by_ext. intros q. rewrite (avail_space_KE k x y q H). reflexivity.
Qed.

Lemma attach_tree_KE k p j : SK k (fun x => attach_tree c x p j).
Proof.
  intros x y H. pose proof H as (A & B & C & D & E). unfold attach_tree.
  split; [exact A|]. split; [exact B|]. split; [exact C|].
  assert (Hcd : forall i, fold_left (fun d k' => upd d k' (mkCL (cst (d k')) (Some p))) (tree c j) (cd x) i
                        = fold_left (fun d k' => upd d k' (mkCL (cst (d k')) (Some p))) (tree c j) (cd y) i).
  { generalize (tree c j). intros l. generalize (cd x) (cd y) D. induction l as [|a l IH]; intros d d' Hd i; cbn [fold_left]; [apply Hd|].
    apply IH. intros i'. rewrite !upd_eq. destruct (Nat.eqb i' a); [rewrite (Hd a); reflexivity|apply Hd]. }
  split; [exact Hcd|].
  intros q. cbn [wpc with_cd with_wpc]. rewrite !upd_eq. destruct (Nat.eqb q p); [rewrite (E p); reflexivity|apply E].
Qed.

Lemma try_place_KE k mv t j cands : SK2 k (fun x => try_place c x mv t j cands).
Proof.
  intros x y H. induction cands as [|p r IH]; cbn [try_place]; [split; [exact H|reflexivity]|].
  rewrite (conveyor_ok_KE k x y p j H), (can_put_KE k x y p j H).
  destruct ((p <? nWP c) && conveyor_ok c y p j && can_put c y p j && Qltb tol (wp_total_skill c p t)); [|exact IH].
  cbn [fst snd]. split; [|reflexivity]. apply attach_tree_KE. apply detach_tree_KE. exact H.
Qed.

Lemma place_for_KE k mv t : SK2 k (fun x => place_for c x mv t).
Proof.
  intros x y H. unfold place_for. destruct (t_comp c t) as [j|]; [|split; [exact H|reflexivity]].
  rewrite (comp_is_ready_KE k x y j H), (can_move_KE k x y mv j H).
  destruct (comp_is_ready c y j && can_move c y mv j); [|split; [exact H|reflexivity]].
  rewrite (sort_wps_KE k _ x y t _ H). apply try_place_KE. exact H.
Qed.

Lemma do_alloc_w_KE t w : SK true (fun x => do_alloc_w x t w).
Proof.
  intros x y H. pose proof H as (A & B & C & D & E). unfold do_alloc_w.
  split; [|split; [|split; [exact C|split; [exact D|exact E]]]].
  - intros u. cbn [td with_td with_wd]. rewrite !upd_eq. destruct (Nat.eqb u t); [|apply A].
    pose proof (A t) as At. unfold strip in *. cbn. injection At as -> -> -> ->. reflexivity.
  - intros i. cbn [wd with_td with_wd req]. rewrite !upd_eq. pose proof (B w) as Bw. cbn in Bw.
    destruct (Nat.eqb i w); [rewrite Bw; reflexivity|apply B].
Qed.
Lemma do_alloc_f_KE t f : SK true (fun x => do_alloc_f x t f).
Proof.
  intros x y H. pose proof H as (A & B & C & D & E). unfold do_alloc_f.
  split; [|split; [exact B|split; [|split; [exact D|exact E]]]].
  - intros u. cbn [td with_td with_fd]. rewrite !upd_eq. destruct (Nat.eqb u t); [|apply A].
    pose proof (A t) as At. unfold strip in *. cbn. injection At as -> -> -> ->. reflexivity.
  - intros i. cbn [fd with_td with_fd req]. rewrite !upd_eq. pose proof (C f) as Cf. cbn in Cf.
    destruct (Nat.eqb i f); [rewrite Cf; reflexivity|apply C].
Qed.

Lemma alloc_workers_KE free t : SK2 true (fun x => alloc_workers c x free t).
Proof.
  intros x y H. unfold alloc_workers. apply (SK_fold_pair true); [|exact H].
  intros w x' y' a H'. cbn [fst snd]. rewrite (can_add_KE x' y' t w None H').
  destruct (can_add c y' t w None); cbn [fst snd]; split; try reflexivity; [apply do_alloc_w_KE|]; exact H'.
Qed.

Lemma alloc_with_facility_KE free t : SK2 true (fun x => alloc_with_facility c x free t).
Proof.
  intros x y H. unfold alloc_with_facility. destruct (t_comp c t) as [j|]; [|split; [exact H|reflexivity]].
  rewrite (KE_cd _ x y j H). destruct (pw (cd y j)) as [p|]; [|split; [exact H|reflexivity]].
  rewrite (filter_ext' (fun f => rstate_eqb (rst (fd x f)) RFree) (fun f => rstate_eqb (rst (fd y f)) RFree) (wp_facs c p))
    by (intros f; rewrite (KE_fd x y f H); reflexivity).
  apply (SK_fold_pair true); [|exact H].
  intros f x' y' fr H'. cbn [fst snd].
  rewrite (filter_ext' (fun w => has_wskill c w t && w_targets c w t && can_add c x' t w (Some f))
                       (fun w => has_wskill c w t && w_targets c w t && can_add c y' t w (Some f)) fr)
    by (intros w; rewrite (can_add_KE x' y' t w (Some f) H'); reflexivity).
  destruct (sort_workers c (t_wrule c t) t (Some p) _) as [|w r]; cbn [fst snd]; split; try reflexivity; [exact H'|].
  apply do_alloc_f_KE. apply do_alloc_w_KE. exact H'.
Qed.

Lemma alloc_task_KE t x y free mv : KE x y ->
  KE (fst (fst (alloc_task c (x, free, mv) t))) (fst (fst (alloc_task c (y, free, mv) t)))
  /\ snd (fst (alloc_task c (x, free, mv) t)) = snd (fst (alloc_task c (y, free, mv) t))
  /\ snd (alloc_task c (x, free, mv) t) = snd (alloc_task c (y, free, mv) t).
Proof.
  intros H. unfold alloc_task.
  destruct (place_for_KE true mv t x y H) as [P1 P2].
  destruct (place_for c x mv t) as [x1 m1]. destruct (place_for c y mv t) as [y1 m1']. cbn [fst snd] in *. subst m1'.
  destruct (t_auto c t); cbn [fst snd]; [split; [exact P1|split; reflexivity]|].
  destruct (t_needfac c t).
  - destruct (alloc_with_facility_KE free t x1 y1 P1) as [Q1 Q2].
    destruct (alloc_with_facility c x1 free t) as [x2 f2]. destruct (alloc_with_facility c y1 free t) as [y2 f2']. cbn [fst snd] in *. subst f2'.
    split; [exact Q1|split; reflexivity].
  - destruct (alloc_workers_KE free t x1 y1 P1) as [Q1 Q2].
    destruct (alloc_workers c x1 free t) as [x2 f2]. destruct (alloc_workers c y1 free t) as [y2 f2']. cbn [fst snd] in *. subst f2'.
    split; [exact Q1|split; reflexivity].
Qed.

(* task priority rules whose keys do not involve PERT values *)
Definition pert_free (rule : Z) : Prop := (rule = 2 \/ rule = 3 \/ rule = 5 \/ rule = 6 \/ rule = 7 \/ rule = 8)%Z.

Lemma insert_always {A} (le : A -> A -> bool) x l : (forall a b, le a b = true) -> insert_sorted A le x l = l ++ [x].
Proof. intros H. induction l as [|y l IH]; cbn; [reflexivity|]. rewrite H, IH. reflexivity. Qed.
Lemma stable_sort_always {A} (le : A -> A -> bool) l : (forall a b, le a b = true) -> stable_sort A le l = l.
Proof.
  intros H. unfold stable_sort.
  assert (G : forall l' acc, fold_left (fun acc x => insert_sorted A le x acc) l' acc = acc ++ l').
  { induction l' as [|x l' IH]; intros acc; cbn [fold_left]; [rewrite app_nil_r; reflexivity|].
    rewrite IH, (insert_always le x acc H), <- app_assoc. reflexivity. }
  apply (G l []).
Qed.

Lemma sort_tasks_KE k rule x y l : pert_free rule -> KEg k x y -> sort_tasks c rule x l = sort_tasks c rule y l.
Proof.
  intros Hr H. unfold sort_tasks.
  destruct Hr as [-> | [-> | [-> | [-> | [-> | ->]]]]]; try reflexivity.
  - apply sort_by_ext. intros t. cbn. rewrite (KE_rem _ x y t H). reflexivity.
  - apply sort_by_ext. intros t. cbn. rewrite (KE_rem _ x y t H). reflexivity.
  - unfold sort_by. rewrite !stable_sort_always; [reflexivity| |]; intros a b; cbn; unfold Qleb; apply Qle_bool_iff; apply Qle_refl.
  - unfold sort_by. rewrite !stable_sort_always; [reflexivity| |]; intros a b; cbn; unfold Qleb; apply Qle_bool_iff; apply Qle_refl.
Qed.

(* the two states order every list of tasks the same way *)
Definition SortAgree (rule : Z) (x y : pstate) : Prop :=
  forall l, (forall t, In t l -> t < nT c) -> sort_tasks c rule x l = sort_tasks c rule y l.

Lemma SortAgree_pert_free k rule x y : pert_free rule -> KEg k x y -> SortAgree rule x y.
Proof. intros Hr H l _. apply (sort_tasks_KE k); assumption. Qed.

Lemma sort_tasks_absence_update rule w s l : sort_tasks c rule (absence_update c w s) l = sort_tasks c rule s l.
Proof. unfold sort_tasks. apply sort_by_ext. intros t. unfold task_key, absence_update. destruct w; reflexivity. Qed.

Theorem allocate_KE_gen o x y : SortAgree (o_rule o) x y -> KE x y -> KE (allocate c o x) (allocate c o y).
Proof.
  intros Hr H. unfold allocate.
  rewrite (filter_ext' (fun t => is_ready (st (td x t)) || is_working (st (td x t))) (fun t => is_ready (st (td y t)) || is_working (st (td y t))) (tasks c))
    by (intros t; rewrite (KE_st _ x y t H); reflexivity).
  rewrite (filter_ext' (fun w => rstate_eqb (rst (wd x w)) RFree) (fun w => rstate_eqb (rst (wd y w)) RFree) (all_workers c))
    by (intros w; rewrite (KE_wd x y w H); reflexivity).
  rewrite (Hr _) by (intros t Ht; apply filter_In in Ht; destruct Ht as [Ht _]; apply in_seq in Ht; lia).
  match goal with |- KE (fst (fst (fold_left _ ?l (x, ?fr, ?mv)))) _ => generalize l fr mv end.
  clear Hr. intros l. revert x y H. induction l as [|t l IH]; intros x y H fr mv; cbn [fold_left]; [exact H|].
  destruct (alloc_task_KE t x y fr mv H) as (A1 & A2 & A3).
  destruct (alloc_task c (x, fr, mv) t) as [[x1 f1] m1]. destruct (alloc_task c (y, fr, mv) t) as [[y1 f1'] m1']. cbn [fst snd] in *. subst f1' m1'.
  apply IH. exact A1.
Qed.

Theorem allocate_KE o x y : pert_free (o_rule o) -> KE x y -> KE (allocate c o x) (allocate c o y).
Proof. intros Hr H. apply allocate_KE_gen; [apply (SortAgree_pert_free true); assumption|exact H]. Qed.


(* -------------------------------------------- check_working, perform, record *)
Lemma cw_target_KE x y t : KE x y -> cw_target c x t = cw_target c y t.
Proof.
  intros H. unfold cw_target. rewrite (KE_st _ x y t H), (KE_aw _ x y t H).
  destruct (t_comp c t) as [j|]; [rewrite (KE_cd _ x y j H)|]; reflexivity.
Qed.

Lemma fold_rst_ext (g : (nat -> rlive) -> nat -> nat -> rlive) l : forall d d' : nat -> rlive,
  (forall d1 d2 a, (forall i, d1 i = d2 i) -> forall i, g d1 a i = g d2 a i) ->
  (forall i, d i = d' i) -> forall i, fold_left g l d i = fold_left g l d' i.
Proof.
  induction l as [|a l IH]; intros d d' Hg Hd i; cbn [fold_left]; [apply Hd|].
  apply IH; [exact Hg|]. intros j. apply Hg. exact Hd.
Qed.

Lemma set_rst_ext v (d1 d2 : nat -> rlive) a : (forall i, d1 i = d2 i) -> forall i, set_rst d1 a v i = set_rst d2 a v i.
Proof. intros H i. unfold set_rst. rewrite !upd_eq. destruct (Nat.eqb i a); [rewrite (H a); reflexivity|apply H]. Qed.
Lemma free_to_working_ext (d1 d2 : nat -> rlive) a : (forall i, d1 i = d2 i) -> forall i, free_to_working d1 a i = free_to_working d2 a i.
Proof. intros H i. unfold free_to_working. rewrite (H a). destruct (rstate_eqb (rst (d2 a)) RFree); [apply set_rst_ext; exact H|apply H]. Qed.

Lemma cw_one_KE t : SK true (fun x => cw_one c x t).
Proof.
  intros x y H. pose proof H as (A & B & C & D & E). unfold cw_one.
  rewrite (KE_st _ x y t H), (KE_aw _ x y t H), (KE_af _ x y t H).
  destruct (is_ready (st (td y t))).
  - assert (Htd : forall u, strip (upd (td x) t (set_st (td x t) TWorking) u) = strip (upd (td y) t (set_st (td y t) TWorking) u)).
    { intros u. rewrite !upd_eq. destruct (Nat.eqb u t); [|apply A].
      pose proof (A t) as At. unfold strip in *. cbn. injection At as _ -> -> ->. reflexivity. }
    assert (Hwd : forall i, fold_left (fun d w => set_rst d w RWorking) (aw (td y t)) (wd x) i = fold_left (fun d w => set_rst d w RWorking) (aw (td y t)) (wd y) i).
    { apply (fold_rst_ext (fun d w => set_rst d w RWorking)); [intros d1 d2 a Hd; apply set_rst_ext; exact Hd|exact B]. }
    destruct (t_needfac c t).
    + split; [exact Htd|]. split; [exact Hwd|]. split; [|split; [exact D|exact E]].
      apply (fold_rst_ext (fun d w => set_rst d w RWorking)); [intros d1 d2 a Hd; apply set_rst_ext; exact Hd|exact C].
    + split; [exact Htd|]. split; [exact Hwd|]. split; [exact C|split; [exact D|exact E]].
  - destruct (is_working (st (td y t))); [|exact H].
    assert (Hwd : forall i, fold_left free_to_working (aw (td y t)) (wd x) i = fold_left free_to_working (aw (td y t)) (wd y) i).
    { apply (fold_rst_ext free_to_working); [intros d1 d2 a Hd; apply free_to_working_ext; exact Hd|exact B]. }
    destruct (t_needfac c t && negb match aw (td y t) with [] => true | _ :: _ => false end).
    + split; [exact A|]. split; [exact Hwd|]. split; [|split; [exact D|exact E]].
      apply (fold_rst_ext free_to_working); [intros d1 d2 a Hd; apply free_to_working_ext; exact Hd|exact C].
    + split; [exact A|]. split; [exact Hwd|]. split; [exact C|split; [exact D|exact E]].
Qed.

Lemma check_working_KE : SK true (check_working c).
Proof.
  intros x y H. unfold check_working.
  rewrite (filter_ext' (cw_target c x) (cw_target c y) (tasks c) (fun t => cw_target_KE x y t H)).
  apply (SK_fold true (cw_one c)); [intros b; apply cw_one_KE|exact H].
Qed.

Lemma count_working_KE k x y l : KEg k x y -> count_working x l = count_working y l.
Proof.
  intros H. unfold count_working. f_equal. apply filter_ext'. intros t. rewrite (KE_st k x y t H). reflexivity.
Qed.
Lemma progress_KE x y t : KE x y -> progress c x t = progress c y t.
Proof.
  intros H. unfold progress. rewrite (KE_aw _ x y t H), (KE_af _ x y t H).
  assert (Ew : forall w, w_progress c x w t = w_progress c y w t).
  { intros w. unfold w_progress. rewrite (KE_wd x y w H), (count_working_KE _ x y _ H). reflexivity. }
  assert (Ef : forall f, f_progress c x f t = f_progress c y f t).
  { intros f. unfold f_progress. rewrite (KE_fd x y f H), (count_working_KE _ x y _ H). reflexivity. }
  destruct (t_auto c t); [reflexivity|]. destruct (t_needfac c t).
  - generalize (combine (aw (td y t)) (af (td y t))) 0%Q. intros l. induction l as [|wf l IH]; intros a; cbn [fold_left]; [reflexivity|].
    rewrite Ew, Ef. apply IH.
  - generalize (aw (td y t)) 0%Q. intros l. induction l as [|w l IH]; intros a; cbn [fold_left]; [reflexivity|]. rewrite Ew. apply IH.
Qed.

Lemma perform_KE oa : SK true (perform c oa).
Proof.
  intros x y H. pose proof H as (A & B & C & D & E). unfold perform.
  split; [|split; [exact B|split; [exact C|split; [exact D|exact E]]]].
  intros t. cbn [td with_td]. rewrite !tab_spec. destruct (t <? nT c); [|apply A].
  rewrite (KE_st _ x y t H), (KE_rem _ x y t H), (progress_KE x y t H).
  destruct (is_working (st (td y t)) && (negb oa || t_auto c t)); [|apply A].
  pose proof (A t) as At. unfold strip in *. cbn. injection At as -> _ -> ->. reflexivity.
Qed.

(* cost bookkeeping and recording do not touch the key *)
Lemma add_cost_key w x : KE (add_cost c w x) x.
Proof. repeat split. Qed.
Lemma record_key w x : KE (record c w x) x.
Proof. repeat split. Qed.

(* ------------------------------------------------------ the phases of a step *)
(* with the working flag made explicit: the two runs sit at different times *)
Definition sa_flag (o : opts) (w : bool) (s : pstate) : pstate :=
  let s1 := absence_update c w s in
  let s2 := if w then allocate c o s1 else s1 in
  if w || o_auto_abs o then product_check_state c (check_working c s2) else s2.
Definition sp_flag (o : opts) (w : bool) (s : pstate) : pstate :=
  let s1 := add_cost c w s in
  if w then perform c false s1 else if o_auto_abs o then perform c true s1 else s1.

Lemma step_allocate_flag o s : step_allocate c o s = sa_flag o (negb (mem (time s) (o_abs o))) s.
Proof. reflexivity. Qed.
Lemma step_perform_flag o s : step_perform c o s = sp_flag o (negb (mem (time s) (o_abs o))) s.
Proof. reflexivity. Qed.
Lemma step_record_flag o s : step_record c o s = record c (negb (mem (time s) (o_abs o))) s.
Proof. reflexivity. Qed.

Lemma sa_flag_KE_gen o w x y : SortAgree (o_rule o) x y -> KA x y -> KE (sa_flag o w x) (sa_flag o w y).
Proof.
  intros Hr H. unfold sa_flag. pose proof (absence_update_KE w x y H) as H1.
  assert (H2 : KE (if w then allocate c o (absence_update c w x) else absence_update c w x)
                  (if w then allocate c o (absence_update c w y) else absence_update c w y)).
  { destruct w; [|exact H1]. apply allocate_KE_gen; [|exact H1].
    intros l Hl. rewrite !sort_tasks_absence_update. apply Hr. exact Hl. }
  destruct (w || o_auto_abs o); [|exact H2]. apply pcs_KE. apply check_working_KE. exact H2.
Qed.
Lemma sa_flag_KE o w x y : pert_free (o_rule o) -> KA x y -> KE (sa_flag o w x) (sa_flag o w y).
Proof. intros Hr H. apply sa_flag_KE_gen; [apply (SortAgree_pert_free false); assumption|exact H]. Qed.
Lemma sp_flag_KE o w x y : KE x y -> KE (sp_flag o w x) (sp_flag o w y).
Proof.
  intros H. unfold sp_flag.
  assert (H1 : KE (add_cost c w x) (add_cost c w y)).
  { apply (KE_trans true _ x); [apply add_cost_key|]. apply (KE_trans true _ y); [exact H|apply KE_sym; apply add_cost_key]. }
  destruct w; [apply perform_KE; exact H1|]. destruct (o_auto_abs o); [apply perform_KE|]; exact H1.
Qed.

End Cong.

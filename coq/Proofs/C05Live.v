(* C05 liveness: every project of the class below completes -- acyclic network
   with FS / SS links, no facilities or components, every non-automatic task
   has an eligible worker, automatic tasks have a positive rate, all absences
   lie before a horizon H.  The run reports FINISHED_SUCCESS whenever max_time
   is at least H plus an explicit work bound. *)
From Coq Require Import List ZArith QArith Qround Bool Arith Lia Lqa Permutation.
From PV Require Import Model.Types Model.Sim Proofs.Base Proofs.Frames Proofs.Proj Proofs.RunLemmas Proofs.C01Proof
  Proofs.C02Proof Proofs.FinishComplete Proofs.AllocInv Proofs.AllocStruct Proofs.C04Proof Proofs.C06Proof Proofs.C11Proof
  Proofs.LogsProof Proofs.C03Res Proofs.C06Max Proofs.C12Run.
Import ListNotations.
Open Scope nat_scope.

(* ------------------------------------------------------------ arithmetic *)
Section Need.
Variable delta : Q.
Hypothesis Hd : (0 < delta)%Q.

(* number of steps of size >= delta needed to use up x *)
Definition need (x : Q) : nat := Z.to_nat (Qceiling (x / delta)).

Lemma need_mono x y : (x <= y)%Q -> need x <= need y.
Proof.
  intros H. unfold need.
  assert (L : (Qceiling (x / delta) <= Qceiling (y / delta))%Z).
  { apply Qceiling_resp_le. unfold Qdiv. apply Qmult_le_compat_r; [exact H|]. apply Qlt_le_weak. apply Qinv_lt_0_compat. exact Hd. }
  lia.
Qed.

Lemma need_drop x p : (delta <= p)%Q -> (0 < x - p)%Q -> need (x - p) + 1 <= need x.
Proof.
  intros Hp Hx. unfold need.
  set (n := Qceiling (x / delta)).
  assert (Hxn : (x / delta <= inject_Z n)%Q) by apply Qle_ceiling.
  assert (Hle : ((x - p) / delta <= inject_Z (n - 1))%Q).
  { unfold Z.sub. rewrite inject_Z_plus. change (inject_Z (- (1))) with (-1)%Q.
    assert (E : ((x - p) / delta == x / delta - p / delta)%Q) by (field; lra).
    rewrite E. assert (1 <= p / delta)%Q.
    { apply Qle_shift_div_l; [exact Hd|]. lra. }
    lra. }
  assert (L : (Qceiling ((x - p) / delta) <= n - 1)%Z).
  { rewrite <- (Qceiling_Z (n - 1)). apply Qceiling_resp_le. exact Hle. }
  assert (Pos : (0 < Qceiling ((x - p) / delta))%Z).
  { assert (0 < (x - p) / delta)%Q by (apply Qlt_shift_div_l; [exact Hd|lra]).
    pose proof (Qle_ceiling ((x - p) / delta)) as Hc.
    destruct (Z_lt_le_dec 0 (Qceiling ((x - p) / delta))) as [A|A]; [exact A|exfalso].
    assert (inject_Z (Qceiling ((x - p) / delta)) <= 0)%Q by (change 0%Q with (inject_Z 0); rewrite <- Zle_Qle; exact A). lra. }
  lia.
Qed.
End Need.

Section Live.
Variable c : cfg.
Variable o : opts.
Variable rank : nat -> nat.
Variable delta : Q.
Variable H : nat.

Hypothesis Hw_range : forall w, In w (all_workers c) -> w < nW c.
Hypothesis Hw_nodup : NoDup (all_workers c).
Hypothesis Hf_range : forall p f, In f (wp_facs c p) -> f < nF c.
(* the class *)
Hypothesis L_rank : forall t e, t < nT c -> In e (t_inputs c t) -> fst e < nT c /\ rank (fst e) < rank t.
(* a task with an incoming finish-to-finish or start-to-finish link may have to
   wait, holding its workers, until the predecessor is done: its workers must be
   its own -- a worker skilled for it is skilled for no other task *)
Definition waits (t : nat) : Prop := exists e, In e (t_inputs c t) /\ (snd e = FF \/ snd e = SF).
Hypothesis L_own : forall t t' w, t < nT c -> t' < nT c -> waits t ->
  has_wskill c w t = true -> has_wskill c w t' = true -> t' = t.
Hypothesis L_nofac : forall t, t < nT c -> t_needfac c t = false /\ t_comp c t = None.
Hypothesis L_worker : forall t, t < nT c -> t_auto c t = false ->
  exists w, In w (all_workers c) /\ has_wskill c w t = true /\ w_targets c w t = true
            /\ (forall l, t_fixw c t = Some l -> mem w l = true).
Hypothesis L_delta : (0 < delta)%Q.
Hypothesis L_skill : forall w t, has_wskill c w t = true -> (delta <= skill_val (w_skill c w t))%Q.
Hypothesis L_skill_nonneg : forall w t, (0 <= skill_val (w_skill c w t))%Q.
Hypothesis L_rate : forall t, t < nT c -> t_auto c t = true -> (delta <= t_rate c t)%Q.
Hypothesis L_work : forall t, t < nT c -> (0 <= t_work c t)%Q /\ (0 <= t_progress c t <= 1)%Q.
Hypothesis L_abs : forall a, In a (o_abs o) -> a < H.
Hypothesis L_wabs : forall w a, In a (w_abs c w) -> a < H.

Lemma waits_dec t : waits t \/ ~ waits t.
Proof.
  unfold waits. induction (t_inputs c t) as [|e l IH].
  - right. intros (e & [] & _).
  - destruct IH as [(e' & Hin & Hk)|Hn]; [left; exists e'; split; [right; exact Hin|exact Hk]|].
    destruct (snd e) eqn:Ek.
    + right. intros (e' & [<-|Hin] & Hk); [rewrite Ek in Hk; destruct Hk; discriminate|apply Hn; exists e'; split; assumption].
    + right. intros (e' & [<-|Hin] & Hk); [rewrite Ek in Hk; destruct Hk; discriminate|apply Hn; exists e'; split; assumption].
    + left. exists e. split; [left; reflexivity|left; exact Ek].
    + left. exists e. split; [left; reflexivity|right; exact Ek].
Qed.

(* the finish gate of a task that never waits is always open *)
Lemma gate_open_free s t : ~ waits t -> finish_gate c s t = true.
Proof.
  intros Hn. unfold finish_gate. apply forallb_forall. intros e He.
  destruct (snd e) eqn:Ek; try reflexivity; exfalso; apply Hn; exists e; split; [exact He|left; exact Ek|exact He|right; exact Ek].
Qed.

(* ... and so is the gate of a task whose predecessors are all FINISHED *)
Lemma gate_open_minimal s t : t < nT c -> (forall t', t' < nT c -> rank t' < rank t -> stof s t' = TFinished) ->
  finish_gate c s t = true.
Proof.
  intros Ht Hmin. unfold finish_gate. apply forallb_forall. intros e He.
  destruct (L_rank t e Ht He) as [Hr1 Hr2]. pose proof (Hmin (fst e) Hr1 Hr2) as F. unfold stof in F. rewrite F.
  destruct (snd e); reflexivity.
Qed.

(* ------------------------------------------------------------- measure *)
Definition pos0 (x : Q) : Q := if Qltb x 0 then 0%Q else x.
Definition m1 (s : pstate) (t : nat) : nat :=
  if is_fin (stof s t) then 0 else S (need delta (pos0 (remof s t))).
Definition M (s : pstate) : nat := list_sum (map (m1 s) (seq 0 (nT c))).

Lemma pos0_mono x y : (x <= y)%Q -> (pos0 x <= pos0 y)%Q.
Proof.
  intros Hxy. unfold pos0. destruct (Qltb x 0) eqn:E1; destruct (Qltb y 0) eqn:E2.
  - lra.
  - apply Qltb_false in E2. lra.
  - apply Qltb_false in E1. apply Qltb_true in E2. lra.
  - exact Hxy.
Qed.

Lemma list_sum_le (f g : nat -> nat) l : (forall x, In x l -> f x <= g x) -> list_sum (map f l) <= list_sum (map g l).
Proof.
  induction l as [|x l IH]; intros Hfg; [cbn; lia|].
  change (f x + list_sum (map f l) <= g x + list_sum (map g l)).
  pose proof (Hfg x (or_introl eq_refl)). pose proof (IH (fun y Hy => Hfg y (or_intror Hy))). lia.
Qed.
Lemma list_sum_lt (f g : nat -> nat) l x0 : In x0 l -> f x0 < g x0 -> (forall x, In x l -> f x <= g x) ->
  list_sum (map f l) < list_sum (map g l).
Proof.
  induction l as [|x l IH]; intros Hin Hlt Hfg; [contradiction|].
  change (f x + list_sum (map f l) < g x + list_sum (map g l)).
  destruct Hin as [->|Hin].
  - pose proof (list_sum_le f g l (fun y Hy => Hfg y (or_intror Hy))). lia.
  - pose proof (Hfg x (or_introl eq_refl)). pose proof (IH Hin Hlt (fun y Hy => Hfg y (or_intror Hy))). lia.
Qed.

Lemma M_zero_finished s : M s = 0 -> all_finished c s = true.
Proof.
  intros Hm. unfold all_finished, tasks. apply forallb_forall. intros t Ht.
  unfold M in Hm.
  assert (G : forall l, list_sum (map (m1 s) l) = 0 -> forall x, In x l -> m1 s x = 0).
  { induction l as [|y l IH]; intros E x Hx; [contradiction|]. change (m1 s y + list_sum (map (m1 s) l) = 0) in E.
    destruct Hx as [->|Hx]; [lia|apply IH; [lia|exact Hx]]. }
  specialize (G _ Hm t Ht). unfold m1 in G. unfold stof in G. destruct (is_fin (st (td s t))); [reflexivity|discriminate].
Qed.

(* one task's measure does not grow when its state only advances and its
   remaining work does not grow *)
Lemma m1_le s s' t : adv (stof s t) (stof s' t) -> (pos0 (remof s' t) <= pos0 (remof s t))%Q -> m1 s' t <= m1 s t.
Proof.
  intros Ha Hr. unfold m1. destruct (is_fin (stof s' t)) eqn:E'; [lia|].
  destruct (is_fin (stof s t)) eqn:E.
  - apply is_fin_true in E. rewrite E in Ha. destruct (stof s' t); cbn in *; try contradiction; discriminate.
  - apply le_n_S. apply need_mono; [exact L_delta|exact Hr].
Qed.

Lemma pos0_nonneg x : (0 <= pos0 x)%Q.
Proof. unfold pos0. destruct (Qltb x 0) eqn:E; [lra|apply Qltb_false in E; exact E]. Qed.

(* ... and drops when the task is finished or loses at least delta *)
Lemma m1_lt_finish s s' t : stof s t <> TFinished -> stof s' t = TFinished -> m1 s' t < m1 s t.
Proof.
  intros Hn Hf. unfold m1. rewrite Hf. cbn. destruct (is_fin (stof s t)) eqn:E; [apply is_fin_true in E; contradiction|lia].
Qed.
Lemma m1_lt_progress s s' t p : stof s t <> TFinished -> (delta <= p)%Q -> (remof s' t <= remof s t - p)%Q ->
  (0 < remof s' t)%Q -> m1 s' t < m1 s t.
Proof.
  intros Hn Hp Hr Hpos. unfold m1. destruct (is_fin (stof s t)) eqn:E; [apply is_fin_true in E; contradiction|].
  destruct (is_fin (stof s' t)); [lia|]. apply le_n_S.
  assert (E1 : pos0 (remof s' t) = remof s' t).
  { unfold pos0. destruct (Qltb (remof s' t) 0) eqn:Ez; [apply Qltb_true in Ez; lra|reflexivity]. }
  assert (E2 : pos0 (remof s t) = remof s t).
  { unfold pos0. destruct (Qltb (remof s t) 0) eqn:Ez; [apply Qltb_true in Ez; lra|reflexivity]. }
  rewrite E1, E2.
  assert (L1 : need delta (remof s' t) <= need delta (remof s t - p)) by (apply need_mono; assumption).
  assert (L2 : need delta (remof s t - p) + 1 <= need delta (remof s t)) by (apply need_drop; [exact L_delta|exact Hp|lra]).
  lia.
Qed.


(* ------------------------------------------------------------ invariants *)
Definition WHW (s : pstate) : Prop := forall t, t < nT c -> t_auto c t = false -> stof s t = TWorking -> aw (td s t) <> [].
Definition SkillInv (s : pstate) : Prop := forall t w, t < nT c -> In w (aw (td s t)) -> has_wskill c w t = true.
Definition LQ (s : pstate) : Prop := Q0 c s /\ WHW s /\ SkillInv s.

Lemma working_time s : H <= time s -> negb (mem (time s) (o_abs o)) = true.
Proof.
  intros Ht. destruct (mem (time s) (o_abs o)) eqn:E; [|reflexivity]. apply mem_In in E. apply L_abs in E. lia.
Qed.

(* __allocate only appends to the worker lists *)
Lemma aw_allocate_incl s t w : In w (aw (td s t)) -> In w (aw (td (allocate c o s) t)).
Proof.
  intros Hin.
  destruct (allocate_induction c (fun x _ => In w (aw (td x t)))) with (o := o) (s := s) as [fr R]; try assumption.
  - intros x x' fr E _ _ Hx. rewrite E. exact Hx.
  - intros x fr fr' _ Hx. exact Hx.
  - intros x fr t' w' _ _ _ _ _ _ _ Hx. unfold do_alloc_w. cbn [td with_td with_wd]. rewrite upd_eq.
    destruct (Nat.eqb t t') eqn:E; [|exact Hx]. apply Nat.eqb_eq in E. subst t'. cbn [aw set_aw]. apply in_or_app. left. exact Hx.
  - intros x fr t' w' f k p _ _ _ _ _ _ _ _ _ _ _ _ _ Hx. unfold do_alloc_f, do_alloc_w. cbn [td with_td with_wd with_fd]. rewrite !upd_eq.
    destruct (Nat.eqb t t') eqn:E; [|exact Hx]. apply Nat.eqb_eq in E. subst t'. rewrite Nat.eqb_refl. cbn [aw set_aw set_af]. apply in_or_app. left. exact Hx.
Qed.

(* a working step, taken apart *)
Lemma step_allocate_working u : negb (mem (time u) (o_abs o)) = true ->
  step_allocate c o u = product_check_state c (check_working c (allocate c o (absence_update c true u))).
Proof. intros Hw. unfold step_allocate. rewrite Hw. reflexivity. Qed.

Lemma stof_step_allocate_working u t : negb (mem (time u) (o_abs o)) = true ->
  let s2 := allocate c o (absence_update c true u) in
  stof (step_allocate c o u) t = if (t <? nT c) && cw_target c s2 t && is_ready (stof s2 t) then TWorking else stof s2 t.
Proof.
  intros Hw. cbv zeta. rewrite (step_allocate_working u Hw).
  change (stof (product_check_state c (check_working c (allocate c o (absence_update c true u)))) t)
    with (stof (check_working c (allocate c o (absence_update c true u))) t).
  apply stof_check_working.
Qed.

Lemma stof_allocate_same u t : stof (allocate c o (absence_update c true u)) t = stof u t.
Proof.
  unfold stof. destruct (ksr_allocate c o (absence_update c true u) t) as [E _]. rewrite E, td_absence_update. reflexivity.
Qed.

Lemma aw_step_allocate_working u t : negb (mem (time u) (o_abs o)) = true ->
  aw (td (step_allocate c o u) t) = aw (td (allocate c o (absence_update c true u)) t).
Proof.
  intros Hw. rewrite (step_allocate_working u Hw). cbn [td product_check_state with_cd].
  apply (aw_check_working c (allocate c o (absence_update c true u)) t).
Qed.


(* ------------------------------------------------------------- progress *)
Lemma Qdiv_nonneg a b : (0 <= a)%Q -> (0 <= b)%Q -> (0 <= a / b)%Q.
Proof.
  intros Ha Hb. unfold Qdiv. apply Qmult_le_0_compat; [exact Ha|]. apply Qinv_le_0_compat. exact Hb.
Qed.

Lemma inject_nat_nonneg n : (0 <= inject_nat n)%Q.
Proof. unfold inject_nat. change 0%Q with (inject_Z 0). rewrite <- Zle_Qle. lia. Qed.

Lemma w_progress_nonneg s w t : (0 <= w_progress c s w t)%Q.
Proof.
  unfold w_progress. destruct (negb (has_wskill c w t)); [lra|]. destruct (rstate_eqb (rst (wd s w)) RAbsence); [lra|].
  apply Qdiv_nonneg; [apply L_skill_nonneg|apply inject_nat_nonneg].
Qed.

Lemma fold_progress_ge s t l : forall a, (a <= fold_left (fun a w => (a + w_progress c s w t)%Q) l a)%Q.
Proof.
  induction l as [|w l IH]; intros a; cbn [fold_left]; [lra|].
  pose proof (IH (a + w_progress c s w t)%Q). pose proof (w_progress_nonneg s w t). lra.
Qed.
Lemma fold_progress_member s t l w0 : In w0 l -> forall a, (a + w_progress c s w0 t <= fold_left (fun a w => (a + w_progress c s w t)%Q) l a)%Q.
Proof.
  induction l as [|w l IH]; intros Hin a; [contradiction|]. cbn [fold_left].
  destruct Hin as [->|Hin]; [apply fold_progress_ge|].
  pose proof (IH Hin (a + w_progress c s w t)%Q). pose proof (w_progress_nonneg s w t). lra.
Qed.

Lemma progress_nonneg s t : t < nT c -> (0 <= progress c s t)%Q.
Proof.
  intros Ht. unfold progress. destruct (t_auto c t) eqn:Ea; [pose proof (L_rate t Ht Ea); lra|].
  destruct (L_nofac t Ht) as [En _]. rewrite En. apply (fold_progress_ge s t (aw (td s t)) 0%Q).
Qed.

Lemma progress_lower s t w : AInv c s -> t < nT c -> stof s t = TWorking -> t_auto c t = false ->
  In w (aw (td s t)) -> has_wskill c w t = true -> rst (wd s w) <> RAbsence -> (delta <= progress c s t)%Q.
Proof.
  intros HA Ht Hw Ha Hin Hs Hr. unfold progress. rewrite Ha. destruct (L_nofac t Ht) as [En _]. rewrite En.
  pose proof (fold_progress_member s t (aw (td s t)) w Hin 0%Q) as L.
  assert (E : (w_progress c s w t == skill_val (w_skill c w t))%Q).
  { unfold w_progress. rewrite Hs. cbn [negb].
    destruct (rstate_eqb (rst (wd s w)) RAbsence) eqn:Er; [destruct (rst (wd s w)); try discriminate; congruence|].
    rewrite (single_holder_w c s t w HA Ht Hin). unfold count_working. cbn [filter]. unfold stof in Hw. rewrite Hw. cbn [length].
    unfold inject_nat. cbn. field. }
  pose proof (L_skill w t Hs). lra.
Qed.


(* ------------------------------------------- the invariant through a step *)
Lemma working_after_update_pos s t : t < nT c -> finish_gate c (update c o s) t = true ->
  stof (update c o s) t = TWorking -> (tol <= remof (update c o s) t)%Q.
Proof.
  intros Ht Hg Hw. destruct (Qltb (remof (update c o s) t) tol) eqn:Ez; [|apply Qltb_false in Ez; exact Ez].
  pose proof (update_finish_complete c o s t Ht Hw Ez) as Hg'. rewrite Hg in Hg'. discriminate.
Qed.

(* __update after the finishing pass: only NONE -> READY, lists untouched *)
Lemma update_after_cf s t :
  let s1 := check_finished c s in
  let s3 := check_removing c (o_crank o) (product_check_state c s1) in
  stof (update c o s) t = (if (t <? nT c) && is_none (stof s1 t) && ready_gate c s3 t then TReady else stof s1 t)
  /\ aw (td (update c o s) t) = aw (td s1 t) /\ af (td (update c o s) t) = af (td s1 t).
Proof.
  cbv zeta. set (s1 := check_finished c s). set (s3 := check_removing c (o_crank o) (product_check_state c s1)).
  change (update c o s) with (update_pert c (time (product_check_state c (check_ready c s3))) (product_check_state c (check_ready c s3))).
  destruct (keeps_update_pert c (time (product_check_state c (check_ready c s3))) (product_check_state c (check_ready c s3)) t) as (K1 & _ & K3 & K4).
  unfold stof. rewrite K1, K3, K4. cbn [td product_check_state with_cd].
  fold (stof (check_ready c s3) t). rewrite stof_check_ready.
  assert (E3 : forall x, stof s3 x = stof s1 x) by (intros x; unfold stof, s3; rewrite td_check_removing; reflexivity).
  rewrite E3. split; [reflexivity|].
  unfold check_ready. cbn [td with_td]. rewrite tab_spec.
  assert (Etd : td s3 t = td s1 t) by (unfold s3; rewrite td_check_removing; reflexivity).
  destruct (t <? nT c); [|rewrite Etd; split; reflexivity].
  destruct (is_none (st (td s3 t)) && ready_gate c s3 t); cbn [aw af set_st]; rewrite Etd; split; reflexivity.
Qed.

Lemma WHW_update s : WHW s -> WHW (update c o s).
Proof.
  intros Hw t Ht Ha Hst. destruct (update_after_cf s t) as (E1 & E2 & _). rewrite E2. rewrite E1 in Hst.
  destruct ((t <? nT c) && is_none (stof (check_finished c s) t) && ready_gate c _ t); [discriminate|].
  destruct (check_finished_keeps c s t) as [F|F]; [congruence|].
  rewrite F. apply (Hw t Ht Ha). unfold stof in *. rewrite F in Hst. exact Hst.
Qed.

Lemma SkillInv_update s : AInv c s -> SkillInv s -> SkillInv (update c o s).
Proof.
  intros HA Hs t w Ht Hin. destruct (update_after_cf s t) as (_ & E2 & _). rewrite E2 in Hin.
  destruct (check_finished_keeps c s t) as [F|F].
  - exfalso. pose proof (AInv_check_finished c s HA) as A1.
    assert (Hne : aw (td (check_finished c s) t) <> []) by (intros E; rewrite E in Hin; destruct Hin).
    pose proof (a_hold c _ A1 t Ht (or_introl Hne)) as Hh. unfold stof in F. rewrite F in Hh. discriminate.
  - rewrite F in Hin. apply (Hs t w Ht Hin).
Qed.

Lemma LQ_update s : LQ s -> LQ (update c o s).
Proof.
  intros (A & B & D). split; [apply Q0_update; exact A|]. split; [apply WHW_update; exact B|].
  apply SkillInv_update; [apply A|exact D].
Qed.

(* step_allocate *)
Lemma WHW_step_allocate s : Q0 c s -> WHW s -> WHW (step_allocate c o s).
Proof.
  intros HQ Hw t Ht Ha Hst.
  destruct (stof s t) eqn:Es.
  - (* NONE stays NONE in step_allocate *)
    exfalso. unfold step_allocate in Hst.
    set (w := negb (mem (time s) (o_abs o))) in *.
    set (s2 := if w then allocate c o (absence_update c w s) else absence_update c w s) in *.
    assert (E2 : stof s2 t = TNone).
    { unfold s2. destruct w; [|unfold stof; rewrite td_absence_update; exact Es].
      unfold stof. destruct (ksr_allocate c o (absence_update c true s) t) as [E _]. rewrite E, td_absence_update. exact Es. }
    destruct (w || o_auto_abs o); [|congruence].
    change (stof (product_check_state c (check_working c s2)) t) with (stof (check_working c s2) t) in Hst.
    rewrite stof_check_working, E2 in Hst. cbn in Hst. rewrite andb_false_r in Hst. discriminate.
  - (* READY -> WORKING only through check_working with a non-empty worker list *)
    unfold step_allocate in *.
    set (w := negb (mem (time s) (o_abs o))) in *.
    set (s2 := if w then allocate c o (absence_update c w s) else absence_update c w s) in *.
    assert (E2 : stof s2 t = TReady).
    { unfold s2. destruct w; [|unfold stof; rewrite td_absence_update; exact Es].
      unfold stof. destruct (ksr_allocate c o (absence_update c true s) t) as [E _]. rewrite E, td_absence_update. exact Es. }
    destruct (w || o_auto_abs o); [|congruence].
    change (stof (product_check_state c (check_working c s2)) t) with (stof (check_working c s2) t) in Hst.
    change (td (product_check_state c (check_working c s2)) t) with (td (check_working c s2) t).
    rewrite (proj1 (aw_check_working c s2 t)).
    rewrite stof_check_working, E2 in Hst. cbn [is_ready] in Hst. rewrite andb_true_r in Hst.
    destruct ((t <? nT c) && cw_target c s2 t) eqn:Etg; [|discriminate].
    apply andb_true_iff in Etg. destruct Etg as [_ Etg]. unfold cw_target in Etg. rewrite Ha in Etg.
    unfold stof in E2. rewrite E2 in Etg.
    destruct (aw (td s2 t)); [cbn in Etg; discriminate|discriminate].
  - (* WORKING before: the list only grows *)
    pose proof (Hw t Ht Ha Es) as Hne. intros E. apply Hne.
    destruct (aw (td s t)) as [|a l] eqn:Ea; [reflexivity|exfalso].
    assert (Hin : In a (aw (td (step_allocate c o s) t))).
    { unfold step_allocate.
      set (w := negb (mem (time s) (o_abs o))).
      assert (H2 : In a (aw (td (if w then allocate c o (absence_update c w s) else absence_update c w s) t))).
      { destruct w; [apply aw_allocate_incl|]; rewrite td_absence_update, Ea; left; reflexivity. }
      destruct (w || o_auto_abs o); [|exact H2].
      cbn [td product_check_state with_cd]. rewrite (proj1 (aw_check_working c _ t)). exact H2. }
    rewrite E in Hin. destruct Hin.
  - exfalso. destruct HQ as (_ & _ & N & _). apply (N t Ht Es).
  - exfalso. pose proof (proj1 (Step_step_allocate c o s) t) as A. rewrite Es, Hst in A. exact A.
Qed.

Lemma SkillInv_step_allocate s : SkillInv s -> SkillInv (step_allocate c o s).
Proof.
  intros Hs t w Ht Hin.
  destruct (C04_new_allocations_eligible c o s Hw_nodup) as [A _]. cbv zeta in A.
  destruct (A t w Hin) as [Hold|[_ (E & _)]]; [apply (Hs t w Ht Hold)|exact E].
Qed.

Lemma LQ_step_allocate s : LQ s -> LQ (step_allocate c o s) /\ RInv c o (step_allocate c o s).
Proof.
  intros (A & B & D). destruct A as (A1 & A2 & A3 & A4).
  destruct (step_allocate_resources c Hw_range Hw_nodup Hf_range o s A1 A2 A3 A4) as [R1 R2].
  split; [|exact R1].
  split; [|split; [apply WHW_step_allocate; [exact (conj A1 (conj A2 (conj A3 A4)))|exact B]|apply SkillInv_step_allocate; exact D]].
  split; [apply AInv_step_allocate; assumption|]. split; [apply SoloPair_step_allocate; assumption|].
  split; [apply (NoWAdd_adv c s); [apply (proj1 (Step_step_allocate c o s))|exact A3]|exact R2].
Qed.

Lemma lists_step_perform s t : stof (step_perform c o s) t = stof s t /\ aw (td (step_perform c o s) t) = aw (td s t).
Proof.
  assert (G : forall oa y, st (td (perform c oa y) t) = st (td y t) /\ aw (td (perform c oa y) t) = aw (td y t)).
  { intros oa y. unfold perform. cbn [td with_td]. rewrite tab_spec. destruct (t <? nT c); [|split; reflexivity].
    destruct (is_working (st (td y t)) && (negb oa || t_auto c t)); split; reflexivity. }
  unfold step_perform, stof. destruct (negb (mem (time s) (o_abs o))).
  - destruct (G false (add_cost c true s)) as [G1 G2]. rewrite G1, G2. split; reflexivity.
  - destruct (o_auto_abs o); [destruct (G true (add_cost c false s)) as [G1 G2]; rewrite G1, G2|]; split; reflexivity.
Qed.

Lemma LQ_step_perform s : LQ s -> LQ (step_perform c o s).
Proof.
  intros (A & B & D). split; [apply Q0_step_perform; exact A|]. split.
  - intros t Ht Ha Hst. destruct (lists_step_perform s t) as [E1 E2]. rewrite E2. rewrite E1 in Hst. apply (B t Ht Ha Hst).
  - intros t w Ht Hin. destruct (lists_step_perform s t) as [_ E2]. rewrite E2 in Hin. apply (D t w Ht Hin).
Qed.

Lemma LQ_td s s' : td s' = td s -> wd s' = wd s -> fd s' = fd s -> LQ s -> LQ s'.
Proof.
  intros E1 E2 E3 (A & B & D). split; [apply (Q0_lists c s s'); [intros t; rewrite E1; reflexivity|exact E2|exact E3|exact A]|].
  split; [intros t Ht Ha Hst; unfold stof in *; rewrite E1 in *; apply (B t Ht Ha Hst)|intros t w Ht Hin; rewrite E1 in Hin; apply (D t w Ht Hin)].
Qed.


(* ------------------------------------------------------ one loop iteration *)
Definition next_head (u : pstate) : pstate :=
  let sr := step_record c o (step_perform c o (step_allocate c o u)) in with_time sr (S (time sr)).

Lemma working_then_update x t : t < nT c -> finish_gate c (update c o x) t = true -> stof x t = TWorking ->
  stof (update c o x) t = TFinished
  \/ (stof (update c o x) t = TWorking /\ remof (update c o x) t = remof x t /\ (tol <= remof x t)%Q).
Proof.
  intros Ht Hg Hw.
  destruct (update_rem c o x t) as [[E1 E2]|(_ & _ & E3 & _)]; [|left; exact E3].
  pose proof (proj1 (Step_update c o x) t) as A. rewrite Hw in A.
  destruct (stof (update c o x) t) eqn:E; cbn in A; try contradiction; [|left; reflexivity].
  right. split; [reflexivity|]. split; [exact E1|]. rewrite <- E1. apply working_after_update_pos; assumption.
Qed.

Lemma rem_iteration u t : t < nT c -> (pos0 (remof (update c o (next_head u)) t) <= pos0 (remof u t))%Q.
Proof.
  intros Ht. unfold next_head.
  set (sa := step_allocate c o u). set (sp := step_perform c o sa).
  set (nx := with_time (step_record c o sp) (S (time (step_record c o sp)))).
  assert (E1 : remof sa t = remof u t) by apply rem_step_allocate.
  assert (E2 : (remof sp t <= remof sa t)%Q).
  { unfold sp. rewrite rem_step_perform. cbv zeta.
    destruct ((t <? nT c) && is_working (stof sa t) && (negb (mem (time sa) (o_abs o)) || o_auto_abs o && t_auto c t)); [|lra].
    pose proof (progress_nonneg sa t Ht). lra. }
  assert (E3 : remof nx t = remof sp t) by reflexivity.
  destruct (update_rem c o nx t) as [[F1 _]|(_ & _ & _ & F4)]; [apply pos0_mono; rewrite F1, E3, <- E1; exact E2|].
  rewrite F4. change (pos0 0) with 0%Q. apply pos0_nonneg.
Qed.

Lemma adv_iteration u t : adv (stof u t) (stof (update c o (next_head u)) t).
Proof.
  unfold next_head.
  assert (B : task_adv u (update c o (with_time (step_record c o (step_perform c o (step_allocate c o u)))
                                        (S (time (step_record c o (step_perform c o (step_allocate c o u)))))))).
  { set (sa := step_allocate c o u). set (sp := step_perform c o sa). set (sr := step_record c o sp).
    apply (task_adv_trans u sa); [apply (proj1 (Step_step_allocate c o u))|].
    apply (task_adv_trans sa sp); [apply (proj1 (Step_step_perform c o sa))|].
    apply (task_adv_trans sp sr); [apply (proj1 (Step_step_record c o sp))|].
    apply (task_adv_trans sr (with_time sr (S (time sr)))); [apply (proj1 (Step_with_time c sr (S (time sr))))|apply (proj1 (Step_update c o _))]. }
  apply B.
Qed.

Lemma M_iteration_le u : M (update c o (next_head u)) <= M u.
Proof.
  unfold M. apply list_sum_le. intros t Ht. apply in_seq in Ht.
  apply m1_le; [apply adv_iteration|apply rem_iteration; lia].
Qed.

(* a task that is WORKING after the allocation phase of a post-horizon step,
   automatic or with a worker, brings the measure down *)
Lemma productive_task u t : LQ u -> H <= time u -> t < nT c ->
  finish_gate c (update c o (next_head u)) t = true ->
  stof (step_allocate c o u) t = TWorking ->
  (t_auto c t = true \/ aw (td (step_allocate c o u) t) <> []) ->
  m1 (update c o (next_head u)) t < m1 u t.
Proof.
  intros HL Ht0 Ht Hgate Hw Hor.
  destruct (LQ_step_allocate u HL) as [(QA & WA & SA) RA].
  set (sa := step_allocate c o u) in *. set (sp := step_perform c o sa).
  assert (Etsa : time sa = time u) by apply time_step_allocate.
  assert (Hwk : negb (mem (time sa) (o_abs o)) = true) by (rewrite Etsa; apply working_time; exact Ht0).
  assert (Hnf : stof u t <> TFinished).
  { intros F. pose proof (proj1 (Step_step_allocate c o u) t) as A. fold sa in A. rewrite F, Hw in A. exact A. }
  (* the step takes at least delta off *)
  assert (Hp : (delta <= progress c sa t)%Q).
  { destruct Hor as [Ha|Hne].
    - unfold progress. rewrite Ha. apply L_rate; assumption.
    - destruct (t_auto c t) eqn:Ea; [unfold progress; rewrite Ea; apply L_rate; assumption|].
      destruct (aw (td sa t)) as [|w l] eqn:Eaw; [congruence|].
      assert (Hin : In w (aw (td sa t))) by (rewrite Eaw; left; reflexivity).
      destruct QA as (AA & _).
      destruct (a_w1 c sa AA t w Ht Hin) as [Hwr Hasg].
      apply (progress_lower sa t w AA Ht Hw Ea Hin (SA t w Ht Hin)).
      destruct RA as [RW _]. rewrite (RW w Hwr). unfold wk, Rexp. rewrite Hwk. cbn [negb orb].
      destruct (mem (time sa) (w_abs c w)) eqn:Em; [apply mem_In in Em; apply L_wabs in Em; lia|].
      destruct (asg (wd sa w)); [destruct Hasg|discriminate]. }
  assert (Erem : remof sp t = (remof sa t - progress c sa t)%Q).
  { unfold sp. rewrite rem_step_perform. cbv zeta. apply Nat.ltb_lt in Ht. rewrite Ht, Hw, Hwk. reflexivity. }
  assert (Esa : remof sa t = remof u t) by apply rem_step_allocate.
  assert (Hwsp : stof sp t = TWorking) by (unfold sp; rewrite (proj1 (lists_step_perform sa t)); exact Hw).
  unfold next_head. fold sa. fold sp.
  set (nx := with_time (step_record c o sp) (S (time (step_record c o sp)))).
  assert (Hwnx : stof nx t = TWorking) by exact Hwsp.
  destruct (working_then_update nx t Ht Hgate Hwnx) as [F|(W & R1 & R2)].
  - apply m1_lt_finish; assumption.
  - apply (m1_lt_progress u _ t (progress c sa t) Hnf Hp).
    + rewrite R1. change (remof nx t) with (remof sp t). rewrite Erem, Esa. apply Qle_refl.
    + rewrite R1. assert (0 < tol)%Q by reflexivity. lra.
Qed.


(* --------------------------------------- somebody works in every late step *)
Lemma exists_minimal u : all_finished c u = false ->
  exists t, t < nT c /\ stof u t <> TFinished /\ forall t', t' < nT c -> rank t' < rank t -> stof u t' = TFinished.
Proof.
  intros Hf.
  assert (E0 : exists t0, t0 < nT c /\ stof u t0 <> TFinished).
  { unfold all_finished, tasks in Hf.
    destruct (forallb (fun t => is_fin (st (td u t))) (seq 0 (nT c))) eqn:E; [discriminate|].
    assert (G : forall l, forallb (fun t => is_fin (st (td u t))) l = false -> exists t0, In t0 l /\ is_fin (st (td u t0)) = false).
    { induction l as [|x l IH]; cbn; intros F; [discriminate|]. destruct (is_fin (st (td u x))) eqn:Ex.
      - destruct (IH F) as (t0 & A & B). exists t0. split; [right; exact A|exact B].
      - exists x. split; [left; reflexivity|exact Ex]. }
    destruct (G _ E) as (t0 & Hin & Hn). exists t0. apply in_seq in Hin. split; [lia|].
    intros F. unfold stof in F. rewrite F in Hn. discriminate. }
  destruct E0 as (t0 & Ht0 & Hn0).
  assert (G : forall n t, rank t <= n -> t < nT c -> stof u t <> TFinished ->
            exists m, m < nT c /\ stof u m <> TFinished /\ forall t', t' < nT c -> rank t' < rank m -> stof u t' = TFinished).
  { induction n as [|n IH]; intros t Hr Ht Hn.
    - exists t. split; [exact Ht|]. split; [exact Hn|]. intros t' _ Hlt. lia.
    - destruct (existsb (fun t' => (rank t' <? rank t) && negb (is_fin (st (td u t')))) (seq 0 (nT c))) eqn:Ex.
      + apply existsb_exists in Ex. destruct Ex as (t' & Hin & Hb). apply in_seq in Hin. apply andb_true_iff in Hb. destruct Hb as [Hb1 Hb2].
        apply Nat.ltb_lt in Hb1. apply (IH t'); [lia|lia|].
        intros F. unfold stof in F. rewrite F in Hb2. discriminate.
      + exists t. split; [exact Ht|]. split; [exact Hn|]. intros t' Ht' Hlt.
        destruct (is_fin (st (td u t'))) eqn:Ef; [apply is_fin_true in Ef; exact Ef|exfalso].
        assert (Hex : existsb (fun t' => (rank t' <? rank t) && negb (is_fin (st (td u t')))) (seq 0 (nT c)) = true).
        { apply existsb_exists. exists t'. split; [apply in_seq; lia|]. apply Nat.ltb_lt in Hlt. rewrite Hlt, Ef. reflexivity. }
        congruence. }
  apply (G (rank t0) t0 (le_n _) Ht0 Hn0).
Qed.

Lemma ready_gate_of_finished u t : t < nT c -> (forall t', t' < nT c -> rank t' < rank t -> stof u t' = TFinished) ->
  ready_gate c u t = true.
Proof.
  intros Ht Hmin. unfold ready_gate. apply forallb_forall. intros e He.
  destruct (L_rank t e Ht He) as [Hr1 Hr2]. pose proof (Hmin (fst e) Hr1 Hr2) as F. unfold stof in F. rewrite F.
  destruct (snd e); reflexivity.
Qed.

Lemma can_add_fresh s t w : stof s t = TReady -> aw (td s t) = [] -> af (td s t) = [] ->
  (forall l, t_fixw c t = Some l -> mem w l = true) -> has_wskill c w t = true -> can_add c s t w None = true.
Proof.
  intros Hr Ea Ef Hfix Hs. unfold can_add. unfold stof in Hr. rewrite Hr, Ea, Ef. cbn.
  rewrite andb_false_r. destruct (t_fixw c t) as [l|]; [rewrite (Hfix l eq_refl); cbn|]; exact Hs.
Qed.

Lemma somebody_works h : let u := update c o h in LQ u -> H <= time u -> all_finished c u = false ->
  exists t, t < nT c /\ stof (step_allocate c o u) t = TWorking /\ (t_auto c t = true \/ aw (td (step_allocate c o u) t) <> [])
            /\ (~ waits t \/ forall t', t' < nT c -> rank t' < rank t -> stof u t' = TFinished).
Proof.
  intros u HL Ht0 Hnf.
  destruct (exists_minimal u Hnf) as (t & Ht & Hn & Hmin).
  assert (Hwk : negb (mem (time u) (o_abs o)) = true) by (apply working_time; exact Ht0).
  destruct (LQ_step_allocate u HL) as [(_ & _ & SA) _].
  destruct HL as ((AA & SP & NW & RC) & WH & SK).
  (* the minimal unfinished task is READY or WORKING *)
  assert (Hst : stof u t = TReady \/ stof u t = TWorking).
  { destruct (stof u t) eqn:Es; auto.
    - exfalso. pose proof (update_ready_complete c o h t Ht Es) as G. fold u in G. rewrite (ready_gate_of_finished u t Ht Hmin) in G. discriminate.
    - exfalso. apply (NW t Ht Es).
    - congruence. }
  destruct (t_auto c t) eqn:Ea.
  { exists t. split; [exact Ht|]. split; [|split; [left; exact Ea|right; exact Hmin]].
    destruct Hst as [Hr|Hw]; [|apply working_step_allocate; exact Hw].
    apply C06_auto_never_waits; try assumption; [apply (L_nofac t Ht)|rewrite Hwk; reflexivity]. }
  destruct Hst as [Hr|Hw].
  2:{ exists t. split; [exact Ht|]. split; [apply working_step_allocate; exact Hw|split; [right|right; exact Hmin]].
      pose proof (WH t Ht Ea Hw) as Hne. intros E. apply Hne.
      destruct (aw (td u t)) as [|a l] eqn:Eaw; [reflexivity|exfalso].
      assert (Hin : In a (aw (td (step_allocate c o u) t))).
      { rewrite (aw_step_allocate_working u t Hwk). apply aw_allocate_incl. rewrite td_absence_update, Eaw. left. reflexivity. }
      rewrite E in Hin. destruct Hin. }
  (* READY and not automatic *)
  set (s1 := absence_update c true u). set (s2 := allocate c o s1).
  assert (A1 : AInv c s1) by (apply AInv_absence_update; exact AA).
  assert (A2 : AInv c s2) by (apply AInv_allocate; [assumption..|exact A1|apply FreeEmpty_absence_update]).
  assert (Est2 : forall x, stof s2 x = stof u x) by (intros x; apply stof_allocate_same).
  assert (Hsa : forall x, stof (step_allocate c o u) x = if (x <? nT c) && cw_target c s2 x && is_ready (stof s2 x) then TWorking else stof s2 x)
    by (intros x; apply (stof_step_allocate_working u x Hwk)).
  assert (Hawsa : forall x, aw (td (step_allocate c o u) x) = aw (td s2 x)) by (intros x; apply (aw_step_allocate_working u x Hwk)).
  (* a task that holds a worker after __allocate is WORKING after the phase *)
  assert (Holder : forall x w, x < nT c -> In w (aw (td s2 x)) ->
            stof (step_allocate c o u) x = TWorking /\ aw (td (step_allocate c o u) x) <> []).
  { intros x w Hx Hin. split; [|rewrite Hawsa; intros E; rewrite E in Hin; destruct Hin].
    assert (Hne : aw (td s2 x) <> []) by (intros E; rewrite E in Hin; destruct Hin).
    pose proof (a_hold c s2 A2 x Hx (or_introl Hne)) as Hh. rewrite Hsa.
    assert (Hx' : (x <? nT c) = true) by (apply Nat.ltb_lt; exact Hx). rewrite Hx'. cbn [andb].
    pose proof (NW x Hx) as Hnw. rewrite <- Est2 in Hnw.
    unfold holder_ok in Hh. unfold stof in *. destruct (st (td s2 x)) eqn:Ex; cbn in Hh; try discriminate; try congruence.
    - (* READY with workers: a target of check_working *)
      assert (Etg : cw_target c s2 x = true).
      { unfold cw_target. rewrite Ex. destruct (aw (td s2 x)); [congruence|]. reflexivity. }
      rewrite Etg. reflexivity.
    - destruct (cw_target c s2 x && is_ready TWorking); reflexivity. }
  destruct (aw (td s2 t)) as [|a l] eqn:Eaw.
  2:{ exists t. split; [exact Ht|]. destruct (Holder t a Ht ltac:(rewrite Eaw; left; reflexivity)) as [W1 W2]. split; [exact W1|split; [right; exact W2|right; exact Hmin]]. }
  (* whoever holds a worker skilled for t either never waits or is t itself *)
  assert (Other : forall x w, x < nT c -> In w (aw (td s2 x)) -> has_wskill c w t = true ->
            ~ waits x \/ forall t', t' < nT c -> rank t' < rank x -> stof u t' = TFinished).
  { intros x w Hx Hin Hsk. destruct (waits_dec x) as [Hwx|Hnx]; [|left; exact Hnx]. right.
    assert (Hskx : has_wskill c w x = true) by (apply (SA x w Hx); rewrite Hawsa; exact Hin).
    rewrite <- (L_own x t w Hx Ht Hwx Hskx Hsk). exact Hmin. }
  (* t got nobody: look at its eligible worker *)
  destruct (L_worker t Ht Ea) as (w & Hw & Hs & Htg & Hfix).
  assert (Hwr : w < nW c) by (apply Hw_range; exact Hw).
  assert (Er1 : rst (wd s1 w) = match asg (wd u w) with [] => RFree | _ => RWorking end).
  { unfold s1, absence_update. cbn [wd with_wd with_fd]. rewrite tab_spec. apply Nat.ltb_lt in Hwr. rewrite Hwr. unfold refresh_one.
    destruct (mem (time u) (w_abs c w)) eqn:Em; [apply mem_In in Em; apply L_wabs in Em; lia|]. destruct (asg (wd u w)); reflexivity. }
  assert (Easg1 : asg (wd s1 w) = asg (wd u w)) by (apply (proj1 (asg_absence_update c true u))).
  destruct (asg (wd u w)) as [|x r] eqn:Eau.
  - (* free before __allocate *)
    destruct (list_eq_dec Nat.eq_dec (asg (wd s2 w)) (asg (wd s1 w))) as [Esame|Ediff].
    + exfalso.
      assert (Hc : can_add c s2 t w None = false).
      { apply (no_idle_eligible_worker c o s1 t w); try assumption.
        - apply filter_In. split; [unfold tasks; apply in_seq; lia|]. unfold s1. rewrite td_absence_update. unfold stof in Hr. rewrite Hr. reflexivity.
        - apply (L_nofac t Ht). }
      rewrite (can_add_fresh s2 t w) in Hc; try assumption; try discriminate.
      * rewrite Est2. exact Hr.
      * apply (a_nofac c s2 A2 t Ht). apply (L_nofac t Ht).
    + (* it received a task in this step *)
      destruct (asg (wd s2 w)) as [|x r] eqn:E2; [rewrite Easg1 in Ediff; congruence|].
      destruct (a_w2 c s2 A2 w x Hwr ltac:(rewrite E2; left; reflexivity)) as [Hx Hin].
      exists x. split; [exact Hx|]. destruct (Holder x w Hx Hin) as [W1 W2]. split; [exact W1|split; [right; exact W2|apply (Other x w Hx Hin Hs)]].
  - (* busy before: its task is WORKING (READY tasks hold nothing at a loop head) *)
    destruct (a_w2 c u AA w x Hwr ltac:(rewrite Eau; left; reflexivity)) as [Hx Hin].
    assert (Hin2 : In w (aw (td s2 x))) by (apply aw_allocate_incl; unfold s1; rewrite td_absence_update; exact Hin).
    exists x. split; [exact Hx|]. destruct (Holder x w Hx Hin2) as [W1 W2]. split; [exact W1|split; [right; exact W2|apply (Other x w Hx Hin2 Hs)]].
Qed.


(* ------------------------------------------------------------ the run *)
Lemma next_head_inv u : LQ u -> LQ (next_head u).
Proof.
  intros HL. unfold next_head.
  destruct (LQ_step_allocate u HL) as [LA _].
  pose proof (LQ_step_perform _ LA) as LP.
  apply (LQ_td (step_perform c o (step_allocate c o u))); try reflexivity. exact LP.
Qed.

Lemma M_iteration_lt h : let u := update c o h in LQ u ->
  H <= time u -> all_finished c u = false -> M (update c o (next_head u)) < M u.
Proof.
  intros u HL Ht0 Hnf.
  destruct (somebody_works h HL Ht0 Hnf) as (t & Ht & Hw & Hor & Hg).
  unfold M. apply (list_sum_lt _ _ _ t); [apply in_seq; lia| |].
  - apply (productive_task u t HL Ht0 Ht); [|exact Hw|exact Hor].
    destruct Hg as [Hn|Hmin]; [apply gate_open_free; exact Hn|].
    apply gate_open_minimal; [exact Ht|]. intros t' Ht' Hr.
    pose proof (adv_iteration u t') as A. pose proof (Hmin t' Ht' Hr) as F. subst u. rewrite F in A.
    destruct (stof (update c o (next_head (update c o h))) t'); cbn in A; try contradiction; reflexivity.
  - intros x Hx. apply in_seq in Hx. apply m1_le; [apply adv_iteration|apply rem_iteration; lia].
Qed.

Theorem trace_live : forall s tr sf, trace_from c o s tr sf -> LQ s ->
  (H - time s) + M (update c o s) + time s <= o_max_time o -> status sf = StSuccess.
Proof.
  induction 1 as [s Ha|s Ha Hm|s rest sf Ha Hm s1 sa sp sr Hrest IH]; intros HL Hb.
  - reflexivity.
  - exfalso. rewrite (time_update c o s) in Hm.
    assert (Hz : M (update c o s) = 0) by lia.
    rewrite (M_zero_finished _ Hz) in Ha. discriminate.
  - assert (HLu : LQ s1) by (apply LQ_update; exact HL).
    pose proof (next_head_inv s1 HLu) as HLn.
    change (with_time sr (S (time sr))) with (next_head s1) in *.
    assert (Etn : time (next_head s1) = S (time s)).
    { unfold next_head. cbn [time with_time]. rewrite (time_step_record c o), (time_step_perform c o), (time_step_allocate c o).
      unfold s1. rewrite (time_update c o s). reflexivity. }
    apply IH; [exact HLn|]. rewrite Etn.
    assert (Ets1 : time s1 = time s) by apply (time_update c o s).
    change (update c o s) with s1 in Hb.
    destruct (Nat.lt_ge_cases (time s) H) as [Hlt|Hge].
    + pose proof (M_iteration_le s1). lia.
    + assert (Hge' : H <= time (update c o s)) by (rewrite (time_update c o s); exact Hge).
      pose proof (M_iteration_lt s HLu Hge' Ha) as Hlt. cbv zeta in Hlt. change (update c o s) with s1 in Hlt. lia.
Qed.

(* an explicit bound on the measure of the first loop state *)
Definition work_bound : nat :=
  list_sum (map (fun t => S (need delta (t_work c t * (1 - t_progress c t)))) (seq 0 (nT c))).

Lemma M_initial s : o_init_state o = true -> M (update c o (initialize c o s)) <= work_bound.
Proof.
  intros Hs. unfold M, work_bound. apply list_sum_le. intros t Ht. apply in_seq in Ht.
  unfold m1. destruct (is_fin (stof (update c o (initialize c o s)) t)); [lia|]. apply le_n_S.
  apply need_mono; [exact L_delta|].
  assert (Hinit : remof (initialize c o s) t = (t_work c t * (1 - t_progress c t))%Q) by (apply C02_initial_rem; [exact Hs|lia]).
  assert (Hpos : (0 <= t_work c t * (1 - t_progress c t))%Q).
  { destruct (L_work t ltac:(lia)) as [A [B D]]. apply Qmult_le_0_compat; lra. }
  assert (Hle : (remof (update c o (initialize c o s)) t <= t_work c t * (1 - t_progress c t))%Q).
  { destruct (update_rem c o (initialize c o s) t) as [[E1 _]|(_ & _ & _ & E4)]; [rewrite E1, Hinit; lra|rewrite E4; exact Hpos]. }
  unfold pos0. destruct (Qltb (remof (update c o (initialize c o s)) t) 0); [exact Hpos|exact Hle].
Qed.

Theorem feasible_projects_complete s : o_init_state o = true -> o_init_log o = true ->
  H + work_bound <= o_max_time o ->
  status (fst (simulate c o s)) = StSuccess.
Proof.
  intros Hs Hl Hmax.
  destruct (simulate_trace c o s) as (tr & Htr & _).
  assert (HL : LQ (initialize c o s)).
  { split; [apply Q0_initialize; exact Hs|]. split.
    - intros t Ht _ Hw. exfalso. destruct (initialize_lists c o s t Hs Ht) as (_ & _ & _ & N). apply N. exact Hw.
    - intros t w Ht Hin. destruct (initialize_lists c o s t Hs Ht) as (Ea & _). rewrite Ea in Hin. destruct Hin. }
  apply (trace_live _ _ _ Htr HL).
  assert (Et : time (initialize c o s) = 0) by (apply (logs_initialize_clear c o s Hl)).
  rewrite Et. pose proof (M_initial s Hs). lia.
Qed.

End Live.

(* C07 (cost accounting) and C08 (log alignment) from the history
   representation of the logs (LogsProof.v). *)
From Coq Require Import List ZArith QArith Bool Arith Lia.
From PV Require Import Model.Types Model.Sim Proofs.Base Proofs.Frames Proofs.Proj Proofs.RunLemmas Proofs.LogsProof.
Import ListNotations.
Open Scope nat_scope.

Section C0708.
Variable c : cfg.

(* ------------------------------------------------------------------ C08 *)
Definition Aligned (o : opts) (s : pstate) : Prop := exists h, length h = time s /\ LogsAre c h h s.

(* what alignment means, log by log *)
Definition AllLengths (s : pstate) : Prop :=
  let n := time s in
  (forall t, t < nT c -> length (l_st (tl s t)) = n /\ length (l_rem (tl s t)) = n
                         /\ length (l_aw (tl s t)) = n /\ length (l_af (tl s t)) = n)
  /\ (forall w, w < nW c -> length (rl_st (wl s w)) = n /\ length (rl_cost (wl s w)) = n /\ length (rl_asg (wl s w)) = n)
  /\ (forall f, f < nF c -> length (rl_st (fl s f)) = n /\ length (rl_cost (fl s f)) = n /\ length (rl_asg (fl s f)) = n)
  /\ (forall k, k < nC c -> length (cl_st (cl s k)) = n /\ length (cl_pw (cl s k)) = n)
  /\ (forall p, p < nWP c -> length (wl_cost (wpl s p)) = n /\ length (wl_pc (wpl s p)) = n)
  /\ (forall g, g < nTeam c -> length (teaml s g) = n)
  /\ length (orgl s) = n /\ length (costl s) = n.

Lemma LogsAre_lengths h s : length h = time s -> LogsAre c h h s -> AllLengths s.
Proof.
  intros Hl (H1 & H2 & H3 & H4 & H5 & H6 & H7 & H8). unfold AllLengths. rewrite <- Hl.
  repeat split.
  all: try (rewrite H7; apply map_length).
  all: try (rewrite H8; apply map_length).
  all: try (match goal with Hx : ?i < nT c |- _ => rewrite (H1 _ Hx) end; cbn; apply map_length).
  all: try (match goal with Hx : ?i < nW c |- _ => rewrite (H2 _ Hx) end; cbn; apply map_length).
  all: try (match goal with Hx : ?i < nF c |- _ => rewrite (H3 _ Hx) end; cbn; apply map_length).
  all: try (match goal with Hx : ?i < nC c |- _ => rewrite (H4 _ Hx) end; cbn; apply map_length).
  all: try (match goal with Hx : ?i < nWP c |- _ => rewrite (H5 _ Hx) end; cbn; apply map_length).
  all: try (match goal with Hx : ?i < nTeam c |- _ => rewrite (H6 _ Hx) end; apply map_length).
  intros g Hg. rewrite (H6 g Hg). apply map_length.
Qed.

(* one simulate call: fresh logs *)
Theorem C08_simulate_fresh o s : o_init_log o = true ->
  let h := perf_rows o (snd (simulate c o s)) in
  length h = time (fst (simulate c o s)) /\ LogsAre c h h (fst (simulate c o s)).
Proof.
  intros Hl.
  destruct (simulate_trace c o s) as (tr & Htr & Esnd). rewrite Esnd.
  destruct (logs_initialize_clear c o s Hl) as [H0 T0].
  apply (logs_are_history c o _ _ _ Htr []); [rewrite T0; reflexivity|exact H0].
Qed.

(* one simulate call continuing existing logs (resume) *)
Theorem C08_simulate_continue o s h : o_init_log o = false ->
  length h = time s -> LogsAre c h h s ->
  let h' := h ++ perf_rows o (snd (simulate c o s)) in
  length h' = time (fst (simulate c o s)) /\ LogsAre c h' h' (fst (simulate c o s)).
Proof.
  intros Hl Hlen H.
  destruct (simulate_trace c o s) as (tr & Htr & Esnd). rewrite Esnd.
  destruct (logs_initialize_keep c o s Hl) as [E1 E2].
  apply (logs_are_history c o _ _ _ Htr h); [rewrite E2; exact Hlen|].
  eapply LogsAre_logs; [exact E1|exact H].
Qed.

Lemma Aligned_simulate o s : (exists h, length h = time s /\ LogsAre c h h s) ->
  exists h, length h = time (fst (simulate c o s)) /\ LogsAre c h h (fst (simulate c o s)).
Proof.
  intros (h & Hl & H). destruct (o_init_log o) eqn:E.
  - eexists. apply (C08_simulate_fresh o s E).
  - eexists. apply (C08_simulate_continue o s h E Hl H).
Qed.

Lemma Aligned_blank : exists h, length h = time (blank c) /\ LogsAre c h h (blank c).
Proof. exists []. split; [reflexivity|]. apply LogsAre_nil; intros; reflexivity. Qed.

(* initialize alone (any flags) *)
Lemma Aligned_initialize o s : (exists h, length h = time s /\ LogsAre c h h s) ->
  exists h, length h = time (initialize c o s) /\ LogsAre c h h (initialize c o s).
Proof.
  intros (h & Hl & H). destruct (o_init_log o) eqn:E.
  - destruct (logs_initialize_clear c o s E) as [H0 T0]. exists []. split; [rewrite T0; reflexivity|exact H0].
  - destruct (logs_initialize_keep c o s E) as [E1 E2]. exists h. split; [rewrite E2; exact Hl|].
    eapply LogsAre_logs; [exact E1|exact H].
Qed.

(* any sequence of simulate / initialize calls with any options *)
Inductive op := OpSimulate (o : opts) | OpInitialize (o : opts).
Definition apply_op (s : pstate) (x : op) : pstate :=
  match x with OpSimulate o => fst (simulate c o s) | OpInitialize o => initialize c o s end.

Theorem C08_histories (ops : list op) :
  AllLengths (fold_left apply_op ops (blank c)).
Proof.
  assert (G : forall l s, (exists h, length h = time s /\ LogsAre c h h s) ->
                          exists h, length h = time (fold_left apply_op l s) /\ LogsAre c h h (fold_left apply_op l s)).
  { induction l as [|x l IH]; intros s Hs; cbn [fold_left]; [exact Hs|].
    apply IH. destruct x; cbn [apply_op]; [apply Aligned_simulate|apply Aligned_initialize]; exact Hs. }
  destruct (G ops (blank c) Aligned_blank) as (h & Hl & H).
  eapply LogsAre_lengths; eassumption.
Qed.

(* ------------------------------------------------------------------ C07 *)
Section Cost.
Variable o : opts.
Variable h : list (row).
Variable s : pstate.
Hypothesis HL : LogsAre c h h s.

Lemma nth_error_map_inv {A B} (f : A -> B) l i y : nth_error (map f l) i = Some y -> exists x, nth_error l i = Some x /\ y = f x.
Proof.
  revert i; induction l as [|a l IH]; intros i H; destruct i; cbn in *; try discriminate.
  - injection H as <-. eexists; split; reflexivity.
  - apply IH. exact H.
Qed.

(* worker / facility: charged cost_per_time exactly when logged WORKING *)
Theorem worker_cost_entry w i x d : w < nW c ->
  nth_error (rl_cost (wl s w)) i = Some x -> nth_error (rl_st (wl s w)) i = Some d ->
  x = if rstate_eqb d RWorking then w_cost c w else 0%Q.
Proof.
  intros Hw Hx Hd. destruct HL as (_ & H2 & _). rewrite (H2 w Hw) in Hx, Hd. cbn [row_wlog rl_cost rl_st] in Hx, Hd.
  apply nth_error_map_inv in Hx. apply nth_error_map_inv in Hd.
  destruct Hx as (r & Hr & ->), Hd as (r' & Hr' & ->).
  assert (E : Some r = Some r') by (rewrite <- Hr; exact Hr'). injection E as <-.
  unfold wcost, rcost, disp_r. destruct (fst r); cbn [andb]; [reflexivity|reflexivity].
Qed.

Theorem facility_cost_entry f i x d : f < nF c ->
  nth_error (rl_cost (fl s f)) i = Some x -> nth_error (rl_st (fl s f)) i = Some d ->
  x = if rstate_eqb d RWorking then f_cost c f else 0%Q.
Proof.
  intros Hf Hx Hd. destruct HL as (_ & _ & H3 & _). rewrite (H3 f Hf) in Hx, Hd. cbn [row_flog rl_cost rl_st] in Hx, Hd.
  apply nth_error_map_inv in Hx. apply nth_error_map_inv in Hd.
  destruct Hx as (r & Hr & ->), Hd as (r' & Hr' & ->).
  assert (E : Some r = Some r') by (rewrite <- Hr; exact Hr'). injection E as <-.
  unfold fcost, rcost, disp_r. destruct (fst r); cbn [andb]; reflexivity.
Qed.

Definition entry (l : list Q) (i : nat) : Q := nth i l 0%Q.

Lemma entry_map {A} (f : A -> Q) (l : list A) i r : nth_error l i = Some r -> entry (map f l) i = f r.
Proof.
  intros H. unfold entry. revert i H; induction l as [|a l IH]; intros i H; destruct i; cbn in *; try discriminate.
  - injection H as <-. reflexivity.
  - apply IH. exact H.
Qed.

(* team cost = sum over its members, workplace cost = sum over its facilities,
   organization = teams + workplaces, project = organization *)
Theorem team_cost_entry g i : g < nTeam c -> i < length h ->
  (forall w, In w (team_workers c g) -> w < nW c) ->
  entry (teaml s g) i = qsum (map (fun w => entry (rl_cost (wl s w)) i) (team_workers c g)).
Proof.
  intros Hg Hi Hm. destruct HL as (_ & H2 & _ & _ & _ & H6 & _).
  destruct (nth_error h i) as [r|] eqn:Er; [|apply nth_error_None in Er; lia].
  rewrite (H6 g Hg). rewrite (entry_map _ _ _ _ Er). unfold teamcost. f_equal.
  apply map_ext_in. intros w Hw. rewrite (H2 w (Hm w Hw)). cbn [row_wlog rl_cost].
  symmetry. apply (entry_map (fun r0 => wcost c r0 w) h i r Er).
Qed.

Theorem workplace_cost_entry p i : p < nWP c -> i < length h ->
  (forall f, In f (wp_facs c p) -> f < nF c) ->
  entry (wl_cost (wpl s p)) i = qsum (map (fun f => entry (rl_cost (fl s f)) i) (wp_facs c p)).
Proof.
  intros Hp Hi Hm. destruct HL as (_ & _ & H3 & _ & H5 & _).
  destruct (nth_error h i) as [r|] eqn:Er; [|apply nth_error_None in Er; lia].
  rewrite (H5 p Hp). cbn [row_wplog wl_cost]. rewrite (entry_map _ _ _ _ Er). unfold wpcost. f_equal.
  apply map_ext_in. intros f Hf. rewrite (H3 f (Hm f Hf)). cbn [row_flog rl_cost].
  symmetry. apply (entry_map (fun r0 => fcost c r0 f) h i r Er).
Qed.

Theorem organization_cost_entry i : i < length h ->
  entry (orgl s) i =
  fold_left Qplus (map (fun p => entry (wl_cost (wpl s p)) i) (seq 0 (nWP c)))
    (fold_left Qplus (map (fun g => entry (teaml s g) i) (seq 0 (nTeam c))) 0%Q).
Proof.
  intros Hi. destruct HL as (_ & _ & _ & _ & H5 & H6 & H7 & _).
  destruct (nth_error h i) as [r|] eqn:Er; [|apply nth_error_None in Er; lia].
  rewrite H7. rewrite (entry_map _ _ _ _ Er). unfold total. f_equal.
  - apply map_ext_in. intros p Hp. apply in_seq in Hp. rewrite (H5 p) by lia. cbn [row_wplog wl_cost].
    symmetry. apply (entry_map (fun r0 => wpcost c r0 p) h i r Er).
  - f_equal. apply map_ext_in. intros g Hg. apply in_seq in Hg. rewrite (H6 g) by lia.
    symmetry. apply (entry_map (fun r0 => teamcost c r0 g) h i r Er).
Qed.

Theorem project_cost_is_organization_cost : costl s = orgl s.
Proof. destruct HL as (_ & _ & _ & _ & _ & _ & H7 & H8). rewrite H7, H8. reflexivity. Qed.

(* nothing is charged at a project-wide absence step (row flag false) *)
Lemma qsum_zero l : (forall x, In x l -> x = 0%Q) -> qsum l = 0%Q.
Proof.
  unfold qsum. intros H.
  assert (G : forall a, a = 0%Q -> fold_left Qplus l a = 0%Q).
  { induction l as [|x l' IH]; intros a Ha; cbn; [exact Ha|].
    apply IH; [intros y Hy; apply H; right; exact Hy|].
    rewrite Ha, (H x (or_introl eq_refl)). reflexivity. }
  apply G. reflexivity.
Qed.

Theorem absence_step_costs_nothing i r : nth_error h i = Some r -> fst r = false ->
  entry (costl s) i = 0%Q
  /\ (forall w, w < nW c -> entry (rl_cost (wl s w)) i = 0%Q)
  /\ (forall f, f < nF c -> entry (rl_cost (fl s f)) i = 0%Q).
Proof.
  intros Er Hf. destruct HL as (_ & H2 & H3 & _ & _ & _ & _ & H8).
  assert (Hw : forall w, wcost c r w = 0%Q) by (intros w; unfold wcost, rcost; rewrite Hf; reflexivity).
  assert (Hfc : forall f, fcost c r f = 0%Q) by (intros f; unfold fcost, rcost; rewrite Hf; reflexivity).
  split; [|split].
  - rewrite H8, (entry_map _ _ _ _ Er). unfold total.
    assert (T : forall g, teamcost c r g = 0%Q).
    { intros g. unfold teamcost. apply qsum_zero. intros x Hx. apply in_map_iff in Hx. destruct Hx as (w & <- & _). apply Hw. }
    assert (P : forall p, wpcost c r p = 0%Q).
    { intros p. unfold wpcost. apply qsum_zero. intros x Hx. apply in_map_iff in Hx. destruct Hx as (f & <- & _). apply Hfc. }
    assert (G : forall (l : list nat) (F : nat -> Q) a, (forall x, F x = 0%Q) -> a = 0%Q -> fold_left Qplus (map F l) a = 0%Q).
    { induction l as [|x l' IH]; intros F a HF Ha; cbn; [exact Ha|]. apply IH; [exact HF|]. rewrite Ha, HF. reflexivity. }
    apply G; [exact P|]. apply G; [exact T|reflexivity].
  - intros w Hlt. rewrite (H2 w Hlt). cbn [row_wlog rl_cost]. rewrite (entry_map (fun r0 => wcost c r0 w) h i r Er). apply Hw.
  - intros f Hlt. rewrite (H3 f Hlt). cbn [row_flog rl_cost]. rewrite (entry_map (fun r0 => fcost c r0 f) h i r Er). apply Hfc.
Qed.

Theorem absence_row_logged i r : nth_error h i = Some r -> fst r = false ->
  (forall w, w < nW c -> nth_error (rl_st (wl s w)) i = Some RAbsence)
  /\ (forall f, f < nF c -> nth_error (rl_st (fl s f)) i = Some RAbsence).
Proof.
  intros Er Hf. destruct HL as (_ & H2 & H3 & _). split.
  - intros w Hw. rewrite (H2 w Hw). unfold row_wlog. cbn [rl_st].
    assert (E : disp_r (fst r) (rst (wd (snd r) w)) = RAbsence) by (rewrite Hf; reflexivity).
    rewrite <- E. apply (map_nth_error (fun r0 => disp_r (fst r0) (rst (wd (snd r0) w)))). exact Er.
  - intros f Hlt. rewrite (H3 f Hlt). unfold row_flog. cbn [rl_st].
    assert (E : disp_r (fst r) (rst (fd (snd r) f)) = RAbsence) by (rewrite Hf; reflexivity).
    rewrite <- E. apply (map_nth_error (fun r0 => disp_r (fst r0) (rst (fd (snd r0) f)))). exact Er.
Qed.

End Cost.
End C0708.

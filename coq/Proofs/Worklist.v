(* The frontier iteration shared by the forward and the backward PERT pass:
   round after round, every edge leaving a frontier node is processed and its
   target joins the next frontier.  On a ranked (acyclic) graph the iteration
   ends before its fuel does, every node reachable from the first frontier has
   been processed, and every edge leaving a processed node is satisfied. *)
From Coq Require Import List Arith Lia Bool.
From PV Require Import Model.Types Model.Sim Proofs.Base.
Import ListNotations.
Open Scope nat_scope.

Lemma dedup_add_In x y l : In x (dedup_add y l) <-> x = y \/ In x l.
Proof.
  unfold dedup_add. destruct (mem y l) eqn:E.
  - apply mem_In in E. split; [intros H; right; exact H|intros [->|H]; assumption].
  - rewrite in_app_iff. cbn. split; [intros [H|[H|[]]]; auto|intros [->|H]; auto].
Qed.

Section Worklist.
Variable St : Type.
Variable succs : nat -> list (nat * dep).
Variable step : St -> nat -> nat * dep -> St.

Definition inner (src : nat) (acc : St * list nat) : St * list nat :=
  fold_left (fun (a2 : St * list nat) e => (step (fst a2) src e, dedup_add (fst e) (snd a2))) (succs src) acc.
Definition round (s : St) (front : list nat) : St * list nat :=
  fold_left (fun acc src => inner src acc) front (s, []).
Fixpoint loop (fuel : nat) (s : St) (front : list nat) : St :=
  match fuel with
  | 0 => s
  | S f => match front with
           | [] => s
           | _ => let (s', nxt) := round s front in loop f s' nxt
           end
  end.

Variable rank : nat -> nat.
Variable N : nat.
Hypothesis Hrank : forall u e, In e (succs u) -> rank u < rank (fst e) /\ rank (fst e) < N.

Variable Good : St -> Prop.
Variable Ready : St -> nat -> Prop.          (* holds of every node once it has entered a frontier *)
Variable Sat : St -> nat -> nat * dep -> Prop.
Hypothesis H_good : forall s u e, In e (succs u) -> Good s -> Ready s u -> Good (step s u e).
Hypothesis H_ready_new : forall s u e, In e (succs u) -> Good s -> Ready s u -> Ready (step s u e) (fst e).
Hypothesis H_ready_keep : forall s u e x, In e (succs u) -> Good s -> Ready s u -> Ready s x -> Ready (step s u e) x.
Hypothesis H_new : forall s u e, In e (succs u) -> Good s -> Ready s u -> Sat (step s u e) u e.
Hypothesis H_keep : forall s u e u' e', In e (succs u) -> In e' (succs u') -> Good s -> Ready s u ->
  Sat s u' e' -> fst e <> u' -> Sat (step s u e) u' e'.

(* P: nodes whose edges have been processed at least once; pend: nodes still
   to be processed (rest of this frontier and the next one) *)
Definition WInv (s : St) (P pend : list nat) : Prop :=
  (Good s /\ forall x, In x P \/ In x pend -> Ready s x)
  /\ forall u, In u P -> forall e, In e (succs u) ->
    (In (fst e) P \/ In (fst e) pend) /\ (Sat s u e \/ In u pend).

Lemma inner_step u rest P : forall l done s next,
  succs u = done ++ l ->
  WInv s P (u :: rest ++ next) ->
  (forall e, In e done -> In (fst e) next /\ Sat s u e) ->
  let r := fold_left (fun (a2 : St * list nat) e => (step (fst a2) u e, dedup_add (fst e) (snd a2))) l (s, next) in
  WInv (fst r) P (u :: rest ++ snd r)
  /\ (forall e, In e (succs u) -> In (fst e) (snd r) /\ Sat (fst r) u e)
  /\ (forall x, In x (snd r) -> In x next \/ exists e, In e (succs u) /\ x = fst e)
  /\ (forall x, In x next -> In x (snd r)).
Proof.
  induction l as [|e l IH]; intros done s next Hsplit HW Hdone; cbv zeta.
  - cbn [fold_left fst snd]. rewrite app_nil_r in Hsplit. split; [exact HW|]. split; [rewrite Hsplit; exact Hdone|].
    split; [intros x Hx; left; exact Hx|intros x Hx; exact Hx].
  - cbn [fold_left fst snd].
    assert (He : In e (succs u)) by (rewrite Hsplit; apply in_or_app; right; left; reflexivity).
    destruct HW as [[HG HR] HP].
    assert (Ru : Ready s u) by (apply HR; right; left; reflexivity).
    assert (Hne : fst e <> u) by (destruct (Hrank u e He) as [H _]; intros E; rewrite E in H; lia).
    specialize (IH (done ++ [e]) (step s u e) (dedup_add (fst e) next)).
    destruct IH as (I1 & I2 & I3 & I4).
    + rewrite <- app_assoc. exact Hsplit.
    + split; [split|].
      * apply H_good; assumption.
      * intros x Hx.
        destruct Hx as [Hx|[Hx|Hx]];
          [apply H_ready_keep; try assumption; apply HR; left; exact Hx
          |apply H_ready_keep; try assumption; apply HR; right; left; exact Hx|].
        apply in_app_iff in Hx. destruct Hx as [Hx|Hx].
        -- apply H_ready_keep; try assumption. apply HR. right. right. apply in_app_iff. left. exact Hx.
        -- apply dedup_add_In in Hx. destruct Hx as [->|Hx]; [apply H_ready_new; assumption|].
           apply H_ready_keep; try assumption. apply HR. right. right. apply in_app_iff. right. exact Hx.
      * intros u' Hu' e' He'. destruct (HP u' Hu' e' He') as [Hm Hs]. split.
        -- destruct Hm as [Hm|Hm]; [left; exact Hm|right].
           destruct Hm as [Hm|Hm]; [left; exact Hm|right]. apply in_app_iff in Hm. apply in_app_iff.
           destruct Hm as [Hm|Hm]; [left; exact Hm|right; apply dedup_add_In; right; exact Hm].
        -- destruct Hs as [Hs|Hs].
           ++ destruct (Nat.eq_dec (fst e) u') as [E|E].
              ** right. right. apply in_app_iff. right. apply dedup_add_In. left. symmetry. exact E.
              ** left. apply H_keep; assumption.
           ++ right. destruct Hs as [Hs|Hs]; [left; exact Hs|right]. apply in_app_iff in Hs. apply in_app_iff.
              destruct Hs as [Hs|Hs]; [left; exact Hs|right; apply dedup_add_In; right; exact Hs].
    + intros e0 He0. apply in_app_iff in He0. destruct He0 as [He0|[<-|[]]].
      * destruct (Hdone e0 He0) as [A B]. split; [apply dedup_add_In; right; exact A|].
        apply H_keep; try assumption. rewrite Hsplit. apply in_or_app. left. exact He0.
      * split; [apply dedup_add_In; left; reflexivity|apply H_new; assumption].
    + split; [exact I1|]. split; [exact I2|]. split.
      * intros x Hx. destruct (I3 x Hx) as [H|H]; [|right; exact H].
        apply dedup_add_In in H. destruct H as [->|H]; [right; exists e; split; [exact He|reflexivity]|left; exact H].
      * intros x Hx. apply I4. apply dedup_add_In. right. exact Hx.
Qed.

Lemma outer_step : forall front s next P,
  WInv s P (front ++ next) ->
  let r := fold_left (fun acc src => inner src acc) front (s, next) in
  exists P', incl P P' /\ incl front P' /\ WInv (fst r) P' (snd r)
  /\ (forall x, In x (snd r) -> In x next \/ exists u e, In u front /\ In e (succs u) /\ x = fst e).
Proof.
  induction front as [|u rest IH]; intros s next P HW; cbv zeta.
  - cbn [fold_left fst snd]. exists P. split; [apply incl_refl|]. split; [intros x []|]. split; [exact HW|].
    intros x Hx. left. exact Hx.
  - cbn [fold_left].
    pose proof (inner_step u rest P (succs u) [] s next eq_refl HW (fun e F => match F with end)) as HI.
    cbv zeta in HI.
    change (fold_left (fun (a2 : St * list nat) e => (step (fst a2) u e, dedup_add (fst e) (snd a2))) (succs u) (s, next))
      with (inner u (s, next)) in HI.
    destruct HI as (I1 & I2 & I3 & I4).
    set (r := inner u (s, next)) in *.
    assert (HW' : WInv (fst r) (u :: P) (rest ++ snd r)).
    { destruct I1 as [[HG HR] HP]. split; [split; [exact HG|]|].
      - intros x Hx. apply HR. destruct Hx as [[<-|Hx]|Hx]; [right; left; reflexivity|left; exact Hx|right; right; exact Hx].
      - intros u' [<-|Hu'] e' He'.
        + destruct (I2 e' He') as [A B]. split; [right; apply in_app_iff; right; exact A|left; exact B].
        + destruct (HP u' Hu' e' He') as [Hm Hs]. split.
          * destruct Hm as [Hm|[<-|Hm]]; [left; right; exact Hm|left; left; reflexivity|right; exact Hm].
          * destruct Hs as [Hs|[<-|Hs]]; [left; exact Hs| |right; exact Hs].
            left. apply I2. exact He'. }
    destruct r as [s1 n1]. cbn [fst snd] in *.
    destruct (IH s1 n1 (u :: P) HW') as (P' & Hi1 & Hi2 & HW'' & Hsrc).
    exists P'. split; [intros x Hx; apply Hi1; right; exact Hx|]. split.
    + intros x [<-|Hx]; [apply Hi1; left; reflexivity|apply Hi2; exact Hx].
    + split; [exact HW''|]. intros x Hx. destruct (Hsrc x Hx) as [H|(u' & e & Hu' & He & ->)].
      * destruct (I3 x H) as [H'|(e & He & ->)]; [left; exact H'|right]. exists u, e. split; [left; reflexivity|split; [exact He|reflexivity]].
      * right. exists u', e. split; [right; exact Hu'|split; [exact He|reflexivity]].
Qed.

Lemma round_spec s front P : WInv s P front ->
  exists P', incl P P' /\ incl front P' /\ WInv (fst (round s front)) P' (snd (round s front))
  /\ (forall x, In x (snd (round s front)) -> exists u e, In u front /\ In e (succs u) /\ x = fst e).
Proof.
  intros HW. unfold round.
  destruct (outer_step front s [] P) as (P' & H1 & H2 & H3 & H4); [rewrite app_nil_r; exact HW|].
  exists P'. split; [exact H1|]. split; [exact H2|]. split; [exact H3|].
  intros x Hx. destruct (H4 x Hx) as [[]|H]. exact H.
Qed.

Theorem loop_spec : forall fuel s front P k,
  WInv s P front -> (forall x, In x front -> k <= rank x /\ rank x < N) -> N <= k + fuel ->
  exists P', incl P P' /\ incl front P' /\ WInv (loop fuel s front) P' [].
Proof.
  induction fuel as [|f IH]; intros s front P k HW Hrk Hfuel.
  - cbn [loop]. destruct front as [|x r].
    + exists P. split; [apply incl_refl|]. split; [intros y []|exact HW].
    + destruct (Hrk x (or_introl eq_refl)). lia.
  - cbn [loop]. destruct front as [|x r] eqn:Ef.
    + exists P. split; [apply incl_refl|]. split; [intros y []|exact HW].
    + rewrite <- Ef in *. clear Ef x r.
      destruct (round_spec s front P HW) as (P1 & H1 & H2 & H3 & H4).
      destruct (round s front) as [s' nxt]. cbn [fst snd] in *.
      destruct (IH s' nxt P1 (S k) H3) as (P' & G1 & G2 & G3).
      * intros y Hy. destruct (H4 y Hy) as (u & e & Hu & He & ->).
        destruct (Hrank u e He) as [A B]. destruct (Hrk u Hu) as [C _]. lia.
      * lia.
      * exists P'. split; [intros y Hy; apply G1, H1, Hy|]. split; [intros y Hy; apply G1, H2, Hy|exact G3].
Qed.

Corollary loop_result fuel s front : Good s -> (forall x, In x front -> Ready s x /\ rank x < N) -> N <= fuel ->
  exists P, incl front P /\ Good (loop fuel s front)
  /\ (forall u, In u P -> Ready (loop fuel s front) u)
  /\ forall u, In u P -> forall e, In e (succs u) -> In (fst e) P /\ Sat (loop fuel s front) u e.
Proof.
  intros HG Hr Hf.
  destruct (loop_spec fuel s front [] 0) as (P & _ & H2 & [[H3 H3'] H4]).
  - split; [split; [exact HG|]|intros u []]. intros x [[]|Hx]. apply Hr. exact Hx.
  - intros x Hx. split; [lia|apply Hr; exact Hx].
  - lia.
  - exists P. split; [exact H2|]. split; [exact H3|]. split; [intros u Hu; apply H3'; left; exact Hu|].
    intros u Hu e He. destruct (H4 u Hu e He) as [[A|[]] [B|[]]]. split; assumption.
Qed.

End Worklist.

(* Order of WORKING entries in the task logs along a finish-to-start edge:
   the successor is never logged WORKING at or before a step at which the
   predecessor is logged WORKING.  Used by C17 (d) on the reversed
   configuration, and true of every forward run as well. *)
From Coq Require Import List ZArith QArith Bool Arith Lia.
From PV Require Import Model.Types Model.Sim Proofs.Base Proofs.RunLemmas Proofs.C01Proof Proofs.LogsProof.
Import ListNotations.
Open Scope nat_scope.

Lemma FOP_nth {A} (R : A -> A -> Prop) l : ForallOrdPairs R l ->
  forall j k a b, j < k -> nth_error l j = Some a -> nth_error l k = Some b -> R a b.
Proof.
  induction 1 as [|x l Hx Hl IH]; intros j k a b Hjk Ha Hb.
  - destruct j; discriminate.
  - destruct k as [|k]; [lia|]. cbn [nth_error] in Hb. destruct j as [|j].
    + cbn in Ha. injection Ha as ->. rewrite Forall_forall in Hx. apply Hx. eapply nth_error_In; exact Hb.
    + cbn [nth_error] in Ha. apply (IH j k); [lia|exact Ha|exact Hb].
Qed.

Section LogOrder.
Variable c : cfg.
Variable o : opts.

Lemma rows_ordered s tr sf : trace_from c o s tr sf -> Inv c s ->
  Forall (fun r : row => Inv c (snd r) /\ task_adv s (snd r)) (perf_rows o tr)
  /\ ForallOrdPairs (fun a b : row => task_adv (snd a) (snd b)) (perf_rows o tr).
Proof.
  induction 1 as [s Ha|s Ha Hm|s rest sf Ha Hm s1 sa sp sr Hrest IH]; intros H0.
  - cbn [perf_rows]. split; constructor.
  - cbn [perf_rows]. split; constructor.
  - cbn [perf_rows].
    assert (S1 : Step c s s1) by apply Step_update.
    assert (S2 : Step c s1 sa) by apply Step_step_allocate.
    assert (S3 : Step c sa sp) by apply Step_step_perform.
    assert (S4 : Step c sp sr) by apply Step_step_record.
    assert (S5 : Step c sr (with_time sr (S (time sr)))) by apply Step_with_time.
    assert (Ssp : Step c s sp) by (eapply Step_trans; [exact S1|eapply Step_trans; [exact S2|exact S3]]).
    assert (Snx : Step c sp (with_time sr (S (time sr)))) by (eapply Step_trans; [exact S4|exact S5]).
    assert (Isp : Inv c sp) by (eapply Inv_Step; [exact Ssp|exact H0]).
    assert (Inx : Inv c (with_time sr (S (time sr)))) by (eapply Inv_Step; [exact Snx|exact Isp]).
    destruct (IH Inx) as [IH1 IH2].
    split.
    + constructor; [split; [exact Isp|apply Ssp]|].
      eapply Forall_impl; [|exact IH1]. intros r [Hr1 Hr2]. split; [exact Hr1|].
      eapply task_adv_trans; [apply Ssp|]. eapply task_adv_trans; [apply Snx|exact Hr2].
    + constructor; [|exact IH2].
      eapply Forall_impl; [|exact IH1]. intros r [Hr1 Hr2]. cbn [snd].
      eapply task_adv_trans; [apply Snx|exact Hr2].
Qed.

Lemma ready_gate_FS s p i : ready_gate c s p = true -> In (i, FS) (t_inputs c p) -> stof s i = TFinished.
Proof.
  unfold ready_gate. intros H Hin. rewrite forallb_forall in H. specialize (H _ Hin). cbn [fst snd] in H.
  apply is_fin_true. exact H.
Qed.

Lemma disp_working b x : disp_t b x = TWorking -> x = TWorking.
Proof. unfold disp_t. destruct b; [exact (fun e => e)|]. destruct x; intros E; try discriminate; exact E. Qed.

Theorem fs_log_order s :
  (o_init_state o = true \/ Inv c s) -> o_init_log o = true ->
  let sf := fst (simulate c o s) in
  forall p i, p < nT c -> i < nT c -> In (i, FS) (t_inputs c p) ->
  forall j k, nth_error (l_st (tl sf p)) j = Some TWorking -> nth_error (l_st (tl sf i)) k = Some TWorking -> k < j.
Proof.
  intros Hstart Hlog sf p i Hp Hi Hedge j k Hj Hk.
  destruct (simulate_trace c o s) as (tr & Htr & _). fold sf in Htr.
  assert (H0 : Inv c (initialize c o s)).
  { destruct Hstart as [H|H]; [apply Inv_initialize; exact H|].
    destruct (o_init_state o) eqn:E; [apply Inv_initialize; exact E|apply Inv_initialize_resume; assumption]. }
  destruct (logs_initialize_clear c o s Hlog) as [L0 T0].
  destruct (logs_are_history c o _ _ _ Htr [] (eq_sym T0) L0) as [_ HL].
  cbn [app] in HL. destruct HL as (HT & _).
  destruct (rows_ordered _ _ _ Htr H0) as [R1 R2].
  rewrite (HT p Hp) in Hj. rewrite (HT i Hi) in Hk. cbn [row_tlog l_st] in Hj, Hk.
  rewrite nth_error_map in Hj, Hk.
  match type of Hj with option_map _ ?x = _ => destruct x as [rj|] eqn:Ej end; cbn [option_map] in Hj; [|discriminate].
  match type of Hk with option_map _ ?x = _ => destruct x as [rk|] eqn:Ek end; cbn [option_map] in Hk; [|discriminate]. injection Hj as Hj. injection Hk as Hk.
  apply disp_working in Hj. apply disp_working in Hk.
  rewrite Forall_forall in R1.
  destruct (R1 rj (nth_error_In _ _ Ej)) as [Ij _].
  assert (Fi : stof (snd rj) i = TFinished).
  { destruct (Ij p Hp) as [[_ Hf]|[Hg _]]; [unfold stof in Hf; congruence|].
    apply (ready_gate_FS (snd rj) p i); [|exact Hedge]. apply Hg. unfold stof. congruence. }
  destruct (Nat.lt_ge_cases k j) as [Hlt|Hge]; [exact Hlt|exfalso].
  destruct (Nat.eq_dec j k) as [->|Hne].
  - rewrite Ej in Ek. injection Ek as ->. unfold stof in Fi. congruence.
  - assert (A : task_adv (snd rj) (snd rk)) by (apply (FOP_nth _ _ R2 j k rj rk); [lia|exact Ej|exact Ek]).
    specialize (A i). unfold stof in A, Fi. rewrite Fi, Hk in A. exact A.
Qed.

End LogOrder.

(* the same order read in a reversed log: the roles swap *)
Lemma nth_error_rev {A} (l : list A) j x : nth_error (rev l) j = Some x -> nth_error l (length l - 1 - j) = Some x /\ j < length l.
Proof.
  intros H. assert (Hj : j < length l).
  { rewrite <- rev_length. apply nth_error_Some. congruence. }
  split; [|exact Hj].
  rewrite <- (rev_involutive l) at 1. rewrite nth_error_nth' with (d := x) by (rewrite rev_involutive; lia).
  rewrite rev_nth by (rewrite rev_length; lia). rewrite rev_length.
  replace (length l - S (length l - 1 - j)) with j by lia.
  f_equal. apply nth_error_nth. exact H.
Qed.

Lemma order_reversed {A} (lp li : list A) (W : A) : length lp = length li ->
  (forall j k, nth_error lp j = Some W -> nth_error li k = Some W -> k < j) ->
  forall j k, nth_error (rev lp) j = Some W -> nth_error (rev li) k = Some W -> j < k.
Proof.
  intros Hlen H j k Hj Hk.
  apply nth_error_rev in Hj. apply nth_error_rev in Hk. destruct Hj as [Hj Hj'], Hk as [Hk Hk'].
  specialize (H _ _ Hj Hk). lia.
Qed.

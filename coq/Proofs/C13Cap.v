(* C13 (b) for nested products: the space taken at a workplace, counting a
   nested assembly once (by its top-most placed component), stays below the
   capacity (+ the 1e-8 tolerance of can_put) in every snapshot. *)
From Coq Require Import List ZArith QArith Bool Arith Lia Lqa Permutation.
From PV Require Import Model.Types Model.Sim Proofs.Base Proofs.Frames Proofs.Proj Proofs.RunLemmas Proofs.QSum
  Proofs.C11Proof Proofs.C13Proof Proofs.C13Run.
Import ListNotations.
Open Scope nat_scope.

Section Cap.
Variable c : cfg.
Hypothesis HF : Forest c.
(* the descendants of a descendant are descendants (true of every product whose
   depth does not exceed the number of components) *)
Hypothesis tree_trans : forall k a y, In a (tree c k) -> In y (tree c a) -> In y (tree c k).
Hypothesis size_nonneg : forall k, (0 <= c_size c k)%Q.

(* x is covered in l: some other listed component has x in its assembly *)
Definition covered (l : list nat) (x : nat) : bool := existsb (fun a => negb (Nat.eqb a x) && mem x (tree c a)) l.
Definition tops (l : list nat) : list nat := filter (fun x => negb (covered l x)) l.
Definition space (l : list nat) : Q := qsum (map (c_size c) (tops l)).
Definition total (l : list nat) : Q := qsum (map (c_size c) l).

Lemma qsum_filter_le (p : nat -> bool) l : (qsum (map (c_size c) (filter p l)) <= qsum (map (c_size c) l))%Q.
Proof.
  induction l as [|x l IH]; cbn [filter map]; [lra|].
  destruct (p x); cbn [map]; rewrite ?qsum_cons; pose proof (size_nonneg x); lra.
Qed.

Lemma space_le_total l : (space l <= total l)%Q.
Proof. apply qsum_filter_le. Qed.

(* a sub-list sum: every element of l1 (NoDup) is in l2 *)
Lemma qsum_incl_le l1 : forall l2, NoDup l1 -> incl l1 l2 ->
  (qsum (map (c_size c) l1) <= qsum (map (c_size c) l2))%Q.
Proof.
  induction l1 as [|x l1 IH]; intros l2 Hnd Hi; cbn [map]; [|].
  - assert (G : forall l, (0 <= qsum (map (c_size c) l))%Q).
    { induction l as [|y l IHl]; cbn [map]; [unfold qsum; cbn; lra|rewrite qsum_cons; pose proof (size_nonneg y); lra]. }
    change (qsum []) with 0%Q. apply G.
  - inversion Hnd as [|a b Ha Hb]; subst.
    assert (Hx : In x l2) by (apply Hi; left; reflexivity).
    destruct (in_split _ _ Hx) as (la & lb & ->).
    rewrite qsum_cons, map_app, qsum_app. cbn [map]. rewrite qsum_cons.
    assert (Hi' : incl l1 (la ++ lb)).
    { intros y Hy. assert (In y (la ++ x :: lb)) by (apply Hi; right; exact Hy).
      apply in_app_iff in H. apply in_app_iff. destruct H as [H|[H|H]]; [left; exact H|subst; contradiction|right; exact H]. }
    pose proof (IH (la ++ lb) Hb Hi') as L. rewrite map_app, qsum_app in L. lra.
Qed.

Lemma NoDup_tops l : NoDup l -> NoDup (tops l).
Proof. intros H. apply NoDup_filter. exact H. Qed.

Lemma covered_spec l x : covered l x = true <-> exists a, In a l /\ a <> x /\ In x (tree c a).
Proof.
  unfold covered. rewrite existsb_exists. split.
  - intros (a & Ha & E). apply andb_true_iff in E. destruct E as [E1 E2]. exists a. split; [exact Ha|].
    split; [intros ->; rewrite Nat.eqb_refl in E1; discriminate|apply mem_In; exact E2].
  - intros (a & Ha & Hne & Hin). exists a. split; [exact Ha|]. apply andb_true_iff. split; [|apply mem_In; exact Hin].
    apply Nat.eqb_neq in Hne. rewrite Hne. reflexivity.
Qed.

(* removing a whole assembly does not uncover anything *)
Lemma tops_after_removal l l' k : NoDup l' ->
  (forall x, In x l' <-> In x l /\ ~ In x (tree c k)) -> incl (tops l') (tops l).
Proof.
  intros Hnd Hl x Hx. unfold tops in *. apply filter_In in Hx. destruct Hx as [Hx Hc]. apply filter_In.
  destruct (proj1 (Hl x) Hx) as [Hxl Hxk]. split; [exact Hxl|].
  destruct (covered l x) eqn:E; [|reflexivity]. exfalso.
  apply covered_spec in E. destruct E as (a & Ha & Hne & Hin).
  destruct (in_dec Nat.eq_dec a (tree c k)) as [Hak|Hak].
  - apply Hxk. apply (tree_trans k a x Hak Hin).
  - assert (Ha' : In a l') by (apply Hl; split; assumption).
    assert (Hc' : covered l' x = true) by (apply covered_spec; exists a; repeat split; assumption).
    rewrite Hc' in Hc. discriminate.
Qed.

(* after a placement the tops of the target workplace are old tops outside the
   moved assembly, plus possibly the moved root *)
Lemma tops_after_placement l l' k : NoDup l' ->
  (forall x, In x l' <-> (In x l /\ ~ In x (tree c k)) \/ In x (tree c k)) ->
  forall x, In x (tops l') -> x = k \/ (In x l /\ ~ In x (tree c k)).
Proof.
  intros Hnd Hl x Hx. unfold tops in Hx. apply filter_In in Hx. destruct Hx as [Hx Hc].
  destruct (proj1 (Hl x) Hx) as [H|H]; [right; exact H|left].
  destruct (Nat.eq_dec x k) as [E|Hne]; [exact E|exfalso].
  assert (Hk : In k l') by (apply Hl; right; unfold tree; apply tree_nodes_root).
  assert (Hc' : covered l' x = true) by (apply covered_spec; exists k; repeat split; [exact Hk|congruence|exact H]).
  rewrite Hc' in Hc. discriminate.
Qed.

Definition CapN (s : pstate) : Prop := forall p, (space (wpc s p) < wp_cap c p + tol_space)%Q.

Lemma space_removal l l' k : NoDup l -> NoDup l' -> (forall x, In x l' <-> In x l /\ ~ In x (tree c k)) -> (space l' <= space l)%Q.
Proof.
  intros H1 H2 Hl. unfold space. apply qsum_incl_le; [apply NoDup_tops; exact H2|apply (tops_after_removal l l' k H2 Hl)].
Qed.

Lemma CapN_place s m t k p : placed_ok c s m t k p -> PInv s -> CapN s ->
  CapN (attach_tree c (detach_tree c s k) p k).
Proof.
  intros Hok HP HC q.
  destruct (PInv_place c s k p HF HP) as ([_ Nd'] & _ & _ & Hq & Hp).
  destruct HP as [_ Nd].
  set (s' := attach_tree c (detach_tree c s k) p k) in *.
  destruct (Nat.eq_dec q p) as [->|Hne].
  - (* the target: old content outside the assembly plus the root *)
    pose proof (po_space c s m t k p Hok) as Hs. unfold avail_space in Hs. fold (total (wpc s p)) in Hs.
    assert (Hin : incl (tops (wpc s' p)) (k :: filter (fun x => negb (mem x (tree c k))) (wpc s p))).
    { intros x Hx. destruct (tops_after_placement (wpc s p) (wpc s' p) k (Nd' p) Hp x Hx) as [->|[A B]]; [left; reflexivity|right].
      apply filter_In. split; [exact A|]. destruct (mem x (tree c k)) eqn:E; [apply mem_In in E; contradiction|reflexivity]. }
    assert (Hle : (space (wpc s' p) <= c_size c k + total (wpc s p))%Q).
    { unfold space. eapply Qle_trans; [apply (qsum_incl_le _ _ (NoDup_tops _ (Nd' p)) Hin)|].
      cbn [map]. rewrite qsum_cons. pose proof (qsum_filter_le (fun x => negb (mem x (tree c k))) (wpc s p)). unfold total. lra. }
    lra.
  - pose proof (space_removal (wpc s q) (wpc s' q) k (Nd q) (Nd' q) (Hq q Hne)). pose proof (HC q). lra.
Qed.

Lemma CapN_detach_tree s k : PInv s -> CapN s -> CapN (detach_tree c s k).
Proof.
  intros HP HC q. destruct (PInv_detach_tree c s k HP) as ([D1 D2] & D3 & _ & D5).
  destruct HP as [H1 H2].
  assert (Hl : forall x, In x (wpc (detach_tree c s k) q) <-> In x (wpc s q) /\ ~ In x (tree c k)).
  { intros x. rewrite D1, H1. split.
    - intros E. destruct (in_dec Nat.eq_dec x (tree c k)) as [Hi|Hn]; [rewrite (D3 x Hi) in E; discriminate|].
      rewrite (D5 x Hn) in E. split; assumption.
    - intros [E Hn]. rewrite (D5 x Hn). exact E. }
  pose proof (space_removal (wpc s q) (wpc (detach_tree c s k) q) k (H2 q) (D2 q) Hl). pose proof (HC q). lra.
Qed.

Definition PCN (s : pstate) (m : list nat) : Prop := PInv s /\ CapN s.
Lemma PCN_frame s s' m : (forall k, pw (cd s' k) = pw (cd s k)) -> wpc s' = wpc s -> PCN s m -> PCN s' m.
Proof. intros E1 E2 [A B]. split; [apply (PInv_ext s); assumption|]. intros p. rewrite E2. apply B. Qed.

Lemma CapN_update o s : PInv s -> CapN s -> CapN (update c o s).
Proof.
  intros HP HC. unfold update.
  set (s1 := check_finished c s).
  assert (P1 : PInv s1).
  { apply (PInv_ext s); [| |exact HP].
    - intros x. unfold s1. rewrite (pi_check_finished c _ cd) by reflexivity. reflexivity.
    - unfold s1. apply (pi_check_finished c _ wpc); reflexivity. }
  assert (C1 : CapN s1) by (intros p; unfold s1; rewrite (pi_check_finished c _ wpc) by reflexivity; apply HC).
  set (s2 := product_check_state c s1).
  assert (P2 : PInv s2) by (apply (PInv_ext s1); [intros x; apply pw_product_check_state|reflexivity|exact P1]).
  assert (C2 : CapN s2) by (intros p; apply C1).
  assert (G : forall l a, PInv a -> CapN a -> PInv (fold_left (detach_tree c) l a) /\ CapN (fold_left (detach_tree c) l a)).
  { induction l as [|x l IH]; intros a Pa Ca; cbn [fold_left]; [split; assumption|].
    apply IH; [apply (PInv_detach_tree c a x Pa)|apply CapN_detach_tree; assumption]. }
  assert (C3 : CapN (check_removing c (o_crank o) s2)) by (unfold check_removing; apply G; assumption).
  intros p. rewrite (pi_update_pert c _ wpc) by reflexivity. apply C3.
Qed.

Theorem nested_capacity_all_runs o s : (forall p, (0 <= wp_cap c p)%Q) -> o_init_state o = true ->
  Forall (fun ob : obs => CapN (snd ob)) (snd (simulate c o s)).
Proof.
  intros Hcap Hs. destruct (simulate_trace c o s) as (tr & Htr & Esnd). rewrite Esnd.
  assert (H0 : PInv (initialize c o s) /\ CapN (initialize c o s)).
  { split; [apply PInv_initialize; exact Hs|]. intros p.
    rewrite (proj2 (initialize_unplaced c o s Hs) p). unfold space, tops. cbn. pose proof (Hcap p).
    change (qsum []) with 0%Q. assert (0 < tol_space)%Q by reflexivity. lra. }
  set (Q := fun x => PInv x /\ CapN x).
  destruct (trace_invariant c o Q Q Q Q Q
              (fun x Hx => conj (PInv_update c o x (proj1 Hx)) (CapN_update o x (proj1 Hx) (proj2 Hx)))
              (fun x Hx => match P_step_allocate c PCN PCN_frame
                                   (fun s0 m t k p Hok HPC => conj (proj1 (PInv_place c s0 k p HF (proj1 HPC))) (CapN_place s0 m t k p Hok (proj1 HPC) (proj2 HPC)))
                                   o x Hx with ex_intro _ _ r => r end)
              (fun x Hx => P_step_perform c PCN PCN_frame o x [] Hx)
              (fun x Hx => P_step_record c PCN PCN_frame o x [] Hx)
              (fun x Hx => PCN_frame x (with_time x (S (time x))) [] (fun k => eq_refl) eq_refl Hx)
              _ _ _ Htr H0) as [Hall _].
  eapply Forall_impl; [|exact Hall]. intros [[k ph] sn]. cbn. destruct ph; intros [_ h]; exact h.
Qed.

End Cap.

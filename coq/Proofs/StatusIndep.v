(* No phase reads project.status: every phase function commutes with
   overwriting the status field.  (Used by C15: the state a paused run returns
   differs from the uninterrupted loop state only in its status.) *)
From Coq Require Import List ZArith QArith Bool Arith Lia.
From PV Require Import Model.Types Model.Sim Proofs.Base.
Import ListNotations.
Open Scope nat_scope.

Notation ws := with_status.

Definition SC (F : pstate -> pstate) : Prop := forall x st, F (ws x st) = ws (F x) st.
Definition SC2 {B} (F : pstate -> pstate * B) : Prop :=
  forall x st, F (ws x st) = (ws (fst (F x)) st, snd (F x)).

Lemma SC_fold {B} (g : pstate -> B -> pstate) : (forall b, SC (fun x => g x b)) ->
  forall l, SC (fun x => fold_left g l x).
Proof.
  intros H l. induction l as [|b l IH]; intros x st; cbn [fold_left]; [reflexivity|].
  rewrite (H b x st). apply IH.
Qed.

Lemma SC_fold_pair {A B} (g : pstate * A -> B -> pstate * A) :
  (forall b x a st, g (ws x st, a) b = (ws (fst (g (x, a) b)) st, snd (g (x, a) b))) ->
  forall l x a st, fold_left g l (ws x st, a) = (ws (fst (fold_left g l (x, a))) st, snd (fold_left g l (x, a))).
Proof.
  intros H l. induction l as [|b l IH]; intros x a st; cbn [fold_left]; [reflexivity|].
  rewrite (H b x a st). rewrite IH. destruct (g (x, a) b) as [x' a']. reflexivity.
Qed.

Ltac brk := repeat match goal with
  | |- context [if ?b then _ else _] => destruct b
  | |- context [match ?x with Some _ => _ | None => _ end] => destruct x
  end.

Lemma with_td_ws x st f : with_td (ws x st) f = ws (with_td x f) st. Proof. reflexivity. Qed.
Lemma with_cpl_ws x st q : with_cpl (ws x st) q = ws (with_cpl x q) st. Proof. reflexivity. Qed.
Lemma with_time_ws x st n : with_time (ws x st) n = ws (with_time x n) st. Proof. reflexivity. Qed.

Section SI.
Variable c : cfg.

Lemma SC_finish_task t : SC (fun x => finish_task c x t).
Proof. intros x st. unfold finish_task. cbn. destruct (t_needfac c t); reflexivity. Qed.

Lemma SC_finish_pass : SC2 (finish_pass c).
Proof.
  intros x st. unfold finish_pass. cbn [td with_status].
  change (filter (zero_work (ws x st)) (tasks c)) with (filter (zero_work x) (tasks c)).
  apply SC_fold_pair. intros t y a st'. cbn [fst snd].
  change (finish_gate c (ws y st') t) with (finish_gate c y t).
  destruct (finish_gate c y t); cbn [fst snd]; [rewrite SC_finish_task|]; reflexivity.
Qed.

Lemma SC_finish_loop fuel : SC (finish_loop c fuel).
Proof.
  induction fuel as [|f IH]; intros x st; cbn [finish_loop]; [reflexivity|].
  rewrite SC_finish_pass. destruct (finish_pass c x) as [x' ch]. cbn [fst snd].
  destruct ch; [apply IH|reflexivity].
Qed.

Lemma SC_check_finished : SC (check_finished c).
Proof. apply SC_finish_loop. Qed.

Lemma SC_check_ready : SC (check_ready c).
Proof. intros x st. reflexivity. Qed.
Lemma SC_product_check_state : SC (product_check_state c).
Proof. intros x st. reflexivity. Qed.

Lemma SC_detach_one k : SC (fun x => detach_one x k).
Proof. intros x st. unfold detach_one. cbn [cd with_status]. destruct (pw (cd x k)); reflexivity. Qed.
Lemma SC_detach_tree k : SC (fun x => detach_tree c x k).
Proof. unfold detach_tree. apply SC_fold. intros b. apply SC_detach_one. Qed.
Lemma SC_check_removing cr : SC (check_removing c cr).
Proof.
  intros x st. unfold check_removing.
  change (comp_all_fin c (ws x st)) with (comp_all_fin c x).
  apply (SC_fold (detach_tree c)). intros b. apply SC_detach_tree.
Qed.
Lemma SC_attach_tree p k : SC (fun x => attach_tree c x p k).
Proof. intros x st. reflexivity. Qed.

Lemma SC_fwd_edge src e : SC (fun x => fwd_edge x src e).
Proof.
  intros x st. unfold fwd_edge. destruct e as [n k]. cbn [fst snd td with_status].
  destruct k; cbv zeta; match goal with |- context [if ?b then _ else _] => destruct b end; reflexivity.
Qed.
Lemma SC_bwd_edge src e : SC (fun x => bwd_edge x src e).
Proof.
  intros x st. unfold bwd_edge. destruct e as [n k]. cbn [fst snd td with_status].
  destruct k; cbv zeta; match goal with |- context [if ?b then _ else _] => destruct b end; reflexivity.
Qed.

Lemma SC_fwd_round front : SC2 (fun x => fwd_round c x front).
Proof.
  intros x st. unfold fwd_round. apply SC_fold_pair. intros src y a st'.
  apply (SC_fold_pair (fun (a2 : pstate * list nat) e => (fwd_edge (fst a2) src e, dedup_add (fst e) (snd a2)))).
  intros e z b st''. cbn [fst snd]. rewrite SC_fwd_edge. reflexivity.
Qed.
Lemma SC_bwd_round front : SC2 (fun x => bwd_round c x front).
Proof.
  intros x st. unfold bwd_round. apply SC_fold_pair. intros src y a st'.
  apply (SC_fold_pair (fun (a2 : pstate * list nat) e => (bwd_edge (fst a2) src e, dedup_add (fst e) (snd a2)))).
  intros e z b st''. cbn [fst snd]. rewrite SC_bwd_edge. reflexivity.
Qed.
Lemma SC_fwd_loop fuel : forall front, SC (fun x => fwd_loop c fuel x front).
Proof.
  induction fuel as [|f IH]; intros front x st; cbn [fwd_loop]; [reflexivity|].
  destruct front as [|y r]; [reflexivity|]. rewrite (SC_fwd_round (y :: r)).
  destruct (fwd_round c x (y :: r)) as [x' nx]. cbn [fst snd]. apply IH.
Qed.
Lemma SC_bwd_loop fuel : forall front, SC (fun x => bwd_loop c fuel x front).
Proof.
  induction fuel as [|f IH]; intros front x st; cbn [bwd_loop]; [reflexivity|].
  destruct front as [|y r]; [reflexivity|]. rewrite (SC_bwd_round (y :: r)).
  destruct (bwd_round c x (y :: r)) as [x' nx]. cbn [fst snd]. apply IH.
Qed.
Lemma SC_pert_forward tm : SC (pert_forward c tm).
Proof. intros x st. unfold pert_forward. cbn [td with_status]. rewrite with_td_ws. apply (SC_fwd_loop (S (nT c))). Qed.
Lemma SC_pert_backward : SC (pert_backward c).
Proof.
  intros x st. unfold pert_backward. cbn [td with_status]. rewrite with_td_ws.
  match goal with |- match ?l with [] => _ | _ => _ end = _ => destruct l as [|t0 r] eqn:El end; [reflexivity|].
  rewrite <- El. clear El.
  match goal with |- context [max_eft (ws ?y st) ?l] => change (max_eft (ws y st) l) with (max_eft y l) end.
  rewrite with_cpl_ws.
  match goal with |- bwd_loop c _ (fold_left ?g ?l (ws ?a st)) ?fr = _ =>
    rewrite (SC_fold g (fun b y st' => eq_refl) l a st) end.
  apply (SC_bwd_loop (S (nT c))).
Qed.
Lemma SC_update_pert tm : SC (update_pert c tm).
Proof. intros x st. unfold update_pert. rewrite SC_pert_forward. apply SC_pert_backward. Qed.

Lemma SC_update o : SC (update c o).
Proof.
  intros x st. unfold update.
  rewrite SC_check_finished, SC_product_check_state, SC_check_removing, SC_check_ready, SC_product_check_state.
  cbn [time with_status]. apply SC_update_pert.
Qed.


Lemma SC_absence_update w : SC (absence_update c w).
Proof. intros x st. unfold absence_update. destruct w; reflexivity. Qed.

Lemma SC_try_place moved t k cands : SC2 (fun x => try_place c x moved t k cands).
Proof.
  intros x st. induction cands as [|p r IH]; cbn [try_place]; [reflexivity|].
  change (conveyor_ok c (ws x st) p k) with (conveyor_ok c x p k).
  change (can_put c (ws x st) p k) with (can_put c x p k).
  destruct ((p <? nWP c) && conveyor_ok c x p k && can_put c x p k && Qltb tol (wp_total_skill c p t)).
  - cbn [fst snd]. rewrite SC_detach_tree. reflexivity.
  - exact IH.
Qed.

Lemma SC_place_for moved t : SC2 (fun x => place_for c x moved t).
Proof.
  intros x st. unfold place_for. destruct (t_comp c t) as [k|]; [|reflexivity].
  change (comp_is_ready c (ws x st) k) with (comp_is_ready c x k).
  change (can_move c (ws x st) moved k) with (can_move c x moved k).
  destruct (comp_is_ready c x k && can_move c x moved k); [|reflexivity].
  change (sort_wps c (t_prule c t) (ws x st) t (t_wps c t)) with (sort_wps c (t_prule c t) x t (t_wps c t)).
  apply SC_try_place.
Qed.

Lemma SC_do_alloc_w t w : SC (fun x => do_alloc_w x t w).
Proof. intros x st. reflexivity. Qed.
Lemma SC_do_alloc_f t f : SC (fun x => do_alloc_f x t f).
Proof. intros x st. reflexivity. Qed.

Lemma SC_alloc_workers free t : SC2 (fun x => alloc_workers c x free t).
Proof.
  intros x st. unfold alloc_workers. apply SC_fold_pair. intros w y a st'. cbn [fst snd].
  change (can_add c (ws y st') t w None) with (can_add c y t w None).
  destruct (can_add c y t w None); reflexivity.
Qed.

Lemma SC_alloc_with_facility free t : SC2 (fun x => alloc_with_facility c x free t).
Proof.
  intros x st. unfold alloc_with_facility. destruct (t_comp c t) as [k|]; [|reflexivity].
  cbn [cd fd with_status]. destruct (pw (cd x k)) as [p|]; [|reflexivity].
  apply SC_fold_pair. intros f y a st'. cbn [fst snd].
  match goal with |- match ?l with [] => _ | _ => _ end = _ =>
    match l with context [ws y st'] => idtac end end.
  change (fun w : nat => has_wskill c w t && w_targets c w t && can_add c (ws y st') t w (Some f))
    with (fun w : nat => has_wskill c w t && w_targets c w t && can_add c y t w (Some f)).
  destruct (sort_workers c (t_wrule c t) t (Some p) _) as [|w r]; reflexivity.
Qed.

Lemma SC_alloc_task t x free moved st :
  alloc_task c (ws x st, free, moved) t =
  (ws (fst (fst (alloc_task c (x, free, moved) t))) st, snd (fst (alloc_task c (x, free, moved) t)), snd (alloc_task c (x, free, moved) t)).
Proof.
  unfold alloc_task. rewrite SC_place_for. destruct (place_for c x moved t) as [x1 m1]. cbn [fst snd].
  destruct (t_auto c t); [reflexivity|].
  destruct (t_needfac c t).
  - rewrite SC_alloc_with_facility. destruct (alloc_with_facility c x1 free t). reflexivity.
  - rewrite SC_alloc_workers. destruct (alloc_workers c x1 free t). reflexivity.
Qed.

Lemma SC_allocate o : SC (allocate c o).
Proof.
  intros x st. unfold allocate. cbn [td wd with_status].
  change (sort_tasks c (o_rule o) (ws x st)) with (sort_tasks c (o_rule o) x).
  match goal with |- fst (fst (fold_left _ ?l _)) = _ => generalize l end.
  generalize (filter (fun w : nat => rstate_eqb (rst (wd x w)) RFree) (all_workers c)). generalize (@nil nat).
  intros moved free l. revert x free moved. induction l as [|t l IH]; intros x free moved; cbn [fold_left]; [reflexivity|].
  rewrite SC_alloc_task. destruct (alloc_task c (x, free, moved) t) as [[x1 f1] m1]. cbn [fst snd]. apply IH.
Qed.

Lemma SC_cw_one t : SC (fun x => cw_one c x t).
Proof.
  intros x z. unfold cw_one. cbn [td with_status].
  destruct (is_ready (st (td x t))); [destruct (t_needfac c t); reflexivity|].
  destruct (is_working (st (td x t))); [|reflexivity].
  destruct (t_needfac c t && negb match aw (td x t) with [] => true | _ :: _ => false end); reflexivity.
Qed.
Lemma SC_check_working : SC (check_working c).
Proof.
  intros x st. unfold check_working. change (cw_target c (ws x st)) with (cw_target c x).
  apply (SC_fold (cw_one c)). intros b. apply SC_cw_one.
Qed.

Lemma SC_add_cost w : SC (add_cost c w).
Proof. intros x st. reflexivity. Qed.
Lemma SC_perform oa : SC (perform c oa).
Proof. intros x st. reflexivity. Qed.
Lemma SC_record w : SC (record c w).
Proof. intros x st. reflexivity. Qed.

Lemma SC_step_allocate o : SC (step_allocate c o).
Proof.
  intros x st. unfold step_allocate. cbn [time with_status].
  destruct (negb (mem (time x) (o_abs o))); cbn [orb].
  - rewrite SC_absence_update, SC_allocate, SC_check_working, SC_product_check_state. reflexivity.
  - destruct (o_auto_abs o); [rewrite SC_absence_update, SC_check_working, SC_product_check_state|rewrite SC_absence_update]; reflexivity.
Qed.
Lemma SC_step_perform o : SC (step_perform c o).
Proof.
  intros x st. unfold step_perform. cbn [time with_status].
  destruct (negb (mem (time x) (o_abs o))); [rewrite SC_add_cost; apply SC_perform|].
  destruct (o_auto_abs o); [rewrite SC_add_cost; apply SC_perform|apply SC_add_cost].
Qed.
Lemma SC_step_record o : SC (step_record c o).
Proof. intros x st. reflexivity. Qed.

Lemma all_finished_ws x st : all_finished c (ws x st) = all_finished c x.
Proof. reflexivity. Qed.

End SI.

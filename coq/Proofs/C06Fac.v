(* C06 (c) / C11 for tasks that need a facility: when the allocation block of
   such a task is over, no (FREE eligible facility of the workplace where its
   component is placed, worker still in the free list and eligible) pair can be
   added to it any more; and this stays so while later tasks are served. *)
From Coq Require Import List ZArith QArith Bool Arith Lia Permutation.
From PV Require Import Model.Types Model.Sim Proofs.Base Proofs.Frames Proofs.Proj Proofs.SortProof Proofs.C11Proof
  Proofs.AllocInv Proofs.C06Max.
Import ListNotations.
Open Scope nat_scope.

Definition isnil {A} (l : list A) : bool := match l with [] => true | _ => false end.

Section Fac.
Variable c : cfg.

Lemma can_add_fac_spec s t w f :
  can_add c s t w (Some f) =
  negb (is_none (st (td s t)) || is_fin (st (td s t)))
  && negb (existsb (w_solo c) (aw (td s t)) || existsb (f_solo c) (af (td s t)))
  && negb (w_solo c w && negb (isnil (aw (td s t))))
  && negb (f_solo c f && negb (isnil (af (td s t))))
  && negb (match t_fixw c t with Some l => negb (mem w l) | None => false end)
  && negb (match t_fixf c t with Some l => negb (mem f l) | None => false end)
  && isnil (asg (fd s f))
  && (has_fskill c f t && w_operates c w f && has_wskill c w t).
Proof.
  unfold can_add, isnil.
  destruct (is_none (st (td s t)) || is_fin (st (td s t))); [reflexivity|].
  destruct (existsb (w_solo c) (aw (td s t)) || existsb (f_solo c) (af (td s t))); [reflexivity|].
  destruct (w_solo c w && negb match aw (td s t) with [] => true | _ :: _ => false end); [reflexivity|].
  destruct (f_solo c f && negb match af (td s t) with [] => true | _ :: _ => false end); [reflexivity|].
  destruct (match t_fixw c t with Some l => negb (mem w l) | None => false end); [reflexivity|].
  destruct (match t_fixf c t with Some l => negb (mem f l) | None => false end); [reflexivity|].
  destruct (asg (fd s f)); reflexivity.
Qed.

(* what serving any task does to the records that can_add t _ (Some f) reads *)
Definition Grows (s s' : pstate) (t : nat) : Prop :=
  st (td s' t) = st (td s t)
  /\ (exists la, aw (td s' t) = aw (td s t) ++ la) /\ (exists lf, af (td s' t) = af (td s t) ++ lf)
  /\ (forall f, asg (fd s' f) = asg (fd s f) \/ asg (fd s' f) <> []).

Lemma Grows_refl s t : Grows s s t.
Proof. split; [reflexivity|]. split; [exists []; rewrite app_nil_r; reflexivity|]. split; [exists []; rewrite app_nil_r; reflexivity|intros f; left; reflexivity]. Qed.

Lemma Grows_trans s1 s2 s3 t : Grows s1 s2 t -> Grows s2 s3 t -> Grows s1 s3 t.
Proof.
  intros (A1 & (la & A2) & (lf & A3) & A4) (B1 & (la' & B2) & (lf' & B3) & B4).
  split; [congruence|]. split; [exists (la ++ la'); rewrite B2, A2, app_assoc; reflexivity|].
  split; [exists (lf ++ lf'); rewrite B3, A3, app_assoc; reflexivity|].
  intros f. destruct (B4 f) as [E|E]; [|right; exact E]. rewrite E. apply A4.
Qed.

Lemma isnil_app_false {A} (l l' : list A) : isnil l = false -> isnil (l ++ l') = false.
Proof. destruct l; [discriminate|reflexivity]. Qed.

(* once refused, refused for good *)
Lemma can_add_fac_mono s s' t w f : Grows s s' t -> can_add c s t w (Some f) = false -> can_add c s' t w (Some f) = false.
Proof.
  intros (Es & (la & Ea) & (lf & Ef) & Hf) H.
  destruct (can_add c s' t w (Some f)) eqn:E; [|reflexivity]. exfalso.
  rewrite can_add_fac_spec in E, H. rewrite Es, Ea, Ef in E.
  repeat (apply andb_true_iff in E; destruct E as [E ?]).
  rewrite !existsb_app in *.
  assert (X1 : existsb (w_solo c) (aw (td s t)) || existsb (f_solo c) (af (td s t)) = false).
  { match goal with K : negb (_ || _ || (_ || _)) = true |- _ => apply negb_true_iff in K; apply orb_false_iff in K; destruct K as [K1 K2];
      apply orb_false_iff in K1; apply orb_false_iff in K2; destruct K1 as [K1 _]; destruct K2 as [K2 _]; rewrite K1, K2; reflexivity end. }
  assert (X2 : w_solo c w && negb (isnil (aw (td s t))) = false).
  { match goal with K : negb (w_solo c w && _) = true |- _ => apply negb_true_iff in K end.
    destruct (w_solo c w); [|reflexivity]. cbn [andb] in *. destruct (isnil (aw (td s t))) eqn:N; [reflexivity|].
    match goal with K : negb (isnil (_ ++ la)) = false |- _ => rewrite (isnil_app_false _ la N) in K; discriminate end. }
  assert (X3 : f_solo c f && negb (isnil (af (td s t))) = false).
  { match goal with K : negb (f_solo c f && _) = true |- _ => apply negb_true_iff in K end.
    destruct (f_solo c f); [|reflexivity]. cbn [andb] in *. destruct (isnil (af (td s t))) eqn:N; [reflexivity|].
    match goal with K : negb (isnil (_ ++ lf)) = false |- _ => rewrite (isnil_app_false _ lf N) in K; discriminate end. }
  assert (X4 : isnil (asg (fd s f)) = true).
  { match goal with K : isnil (asg (fd s' f)) = true |- _ =>
      destruct (Hf f) as [E1|E1]; [rewrite <- E1; exact K|destruct (asg (fd s' f)); [contradiction|discriminate]] end. }
  rewrite X1, X2, X3, X4 in H.
  repeat match goal with K : ?b = true |- _ => rewrite K in H; clear K end.
  cbn in H. discriminate.
Qed.

Definition eligible_f (f t : nat) : bool := has_fskill c f t && f_targets c f t.

(* t, whose component sits at workplace p, cannot take any pair of a FREE
   eligible facility of p and an eligible worker of the free list *)
Definition SatedF (s : pstate) (fr : list nat) (t p : nat) : Prop :=
  forall f w, In f (wp_facs c p) -> rst (fd s f) = RFree -> eligible_f f t = true ->
    In w fr -> eligible c w t = true -> can_add c s t w (Some f) = false.

Lemma SatedF_frame s s' fr fr' t p : Grows s s' t -> (forall f, rst (fd s' f) = rst (fd s f)) -> incl fr' fr ->
  SatedF s fr t p -> SatedF s' fr' t p.
Proof.
  intros HG Hr Hi H f w Hf Hfree He Hw Hew. apply (can_add_fac_mono s s' t w f HG).
  apply H; try assumption; [rewrite <- Hr; exact Hfree|apply Hi; exact Hw].
Qed.

Lemma Grows_do_alloc s t w f : Grows s (do_alloc_f (do_alloc_w s t w) t f) t.
Proof.
  unfold do_alloc_f, do_alloc_w. split; [cbn [td with_td with_wd with_fd]; rewrite !upd_same; reflexivity|].
  split; [exists [w]; cbn [td with_td with_wd with_fd]; rewrite !upd_same; reflexivity|].
  split; [exists [f]; cbn [td with_td with_wd with_fd]; rewrite !upd_same; reflexivity|].
  intros f'. cbn [fd with_td with_wd with_fd]. rewrite upd_eq. destruct (Nat.eqb f' f); [right; cbn [asg]; destruct (asg (fd s f)); discriminate|left; reflexivity].
Qed.

Lemma rst_do_alloc s t w f f' : rst (fd (do_alloc_f (do_alloc_w s t w) t f) f') = rst (fd s f').
Proof.
  unfold do_alloc_f, do_alloc_w. cbn [fd with_td with_wd with_fd]. rewrite upd_eq.
  destruct (Nat.eqb f' f) eqn:E; [apply Nat.eqb_eq in E; subst; reflexivity|reflexivity].
Qed.

(* the allocation block of a task that needs a facility *)
Lemma alloc_with_facility_sated s free t k p : t_comp c t = Some k -> pw (cd s k) = Some p ->
  let r := alloc_with_facility c s free t in
  SatedF (fst r) (snd r) t p /\ Grows s (fst r) t /\ (forall f, rst (fd (fst r) f) = rst (fd s f)).
Proof.
  intros Ek Ep. cbv zeta. unfold alloc_with_facility. rewrite Ek, Ep.
  set (free_f := sort_facs c (t_frule c t) t (filter (fun f => rstate_eqb (rst (fd s f)) RFree) (wp_facs c p))).
  set (alloc_f := filter (fun f => has_fskill c f t && f_targets c f t) free_f).
  match goal with |- SatedF (fst (fold_left ?g _ _)) _ _ _ /\ _ => set (step := g) end.
  assert (G : forall l (acc : pstate * list nat) (seen : list nat),
            Grows s (fst acc) t -> (forall f, rst (fd (fst acc) f) = rst (fd s f)) ->
            (forall f w, In f seen -> In w (snd acc) -> eligible c w t = true -> can_add c (fst acc) t w (Some f) = false) ->
            let r := fold_left step l acc in
            Grows s (fst r) t /\ (forall f, rst (fd (fst r) f) = rst (fd s f))
            /\ (forall f w, (In f seen \/ In f l) -> In w (snd r) -> eligible c w t = true -> can_add c (fst r) t w (Some f) = false)).
  { induction l as [|f l IH]; intros [s' fr] seen HG Hr Hseen; cbv zeta; cbn [fold_left fst snd] in *.
    - split; [exact HG|]. split; [exact Hr|]. intros f w [Hf|[]] Hw He. apply Hseen; assumption.
    - set (cands := sort_workers c (t_wrule c t) t (Some p)
                      (filter (fun w => has_wskill c w t && w_targets c w t && can_add c s' t w (Some f)) fr)).
      assert (Estep : step (s', fr) f = match cands with [] => (s', fr) | w :: _ => (do_alloc_f (do_alloc_w s' t w) t f, filter (fun w' => negb (Nat.eqb w' w)) fr) end) by reflexivity.
      rewrite Estep. clear Estep.
      destruct cands as [|w0 rest] eqn:Ec.
      + (* nobody can operate f for t *)
        specialize (IH (s', fr) (f :: seen) HG Hr). cbv zeta in IH. cbn [fst snd] in IH.
        destruct IH as (I1 & I2 & I3).
        * intros f' w [<-|Hf'] Hw He; [|apply Hseen; assumption].
          destruct (can_add c s' t w (Some f)) eqn:Eca; [|reflexivity]. exfalso.
          assert (Hin : In w cands).
          { unfold cands. eapply Permutation_in; [apply Permutation_sym; apply (sort_workers_perm c)|].
            apply filter_In. split; [exact Hw|]. unfold eligible in He. rewrite He, Eca. reflexivity. }
          rewrite Ec in Hin. destruct Hin.
        * split; [exact I1|]. split; [exact I2|]. intros f' w Hf' Hw He. apply I3; [|exact Hw|exact He].
          destruct Hf' as [Hf'|[<-|Hf']]; [left; right; exact Hf'|left; left; reflexivity|right; exact Hf'].
      + (* f goes to t with worker w0 *)
        set (s2 := do_alloc_f (do_alloc_w s' t w0) t f).
        assert (HG2 : Grows s' s2 t) by apply Grows_do_alloc.
        specialize (IH (s2, filter (fun w' => negb (Nat.eqb w' w0)) fr) (f :: seen)). cbv zeta in IH. cbn [fst snd] in IH.
        destruct IH as (I1 & I2 & I3).
        * eapply Grows_trans; eassumption.
        * intros f'. unfold s2. rewrite rst_do_alloc. apply Hr.
        * intros f' w [<-|Hf'] Hw He.
          -- (* f is taken now *)
             rewrite can_add_fac_spec.
             assert (Easg : isnil (asg (fd s2 f)) = false).
             { unfold s2, do_alloc_f. cbn [fd with_td with_fd]. rewrite upd_same. cbn [asg]. destruct (asg (fd (do_alloc_w s' t w0) f)); reflexivity. }
             rewrite Easg. rewrite andb_false_r. reflexivity.
          -- apply (can_add_fac_mono s' s2 t w f' HG2). apply filter_In in Hw. apply Hseen; [exact Hf'|apply Hw|exact He].
        * split; [exact I1|]. split; [exact I2|]. intros f' w Hf' Hw He. apply I3; [|exact Hw|exact He].
          destruct Hf' as [Hf'|[<-|Hf']]; [left; right; exact Hf'|left; left; reflexivity|right; exact Hf']. }
  destruct (G alloc_f (s, free) [] (Grows_refl s t) (fun f => eq_refl) (fun f w F => match F with end)) as (G1 & G2 & G3).
  cbv zeta in *. cbn [fst snd] in *.
  split; [|split; assumption].
  intros f w Hf Hfree He Hw Hew. apply G3; [right|exact Hw|exact Hew].
  unfold alloc_f. apply filter_In. split; [|exact He].
  unfold free_f. eapply Permutation_in; [apply Permutation_sym; apply (proj1 (sort_facs_spec c (t_frule c t) t _))|].
  apply filter_In. split; [exact Hf|]. rewrite G2 in Hfree. rewrite Hfree. reflexivity.
Qed.


(* ------------------------------------------------------- later tasks *)
Lemma alloc_with_facility_fd s free t :
  let r := alloc_with_facility c s free t in
  (forall f, rst (fd (fst r) f) = rst (fd s f)) /\ (forall f, asg (fd (fst r) f) = asg (fd s f) \/ asg (fd (fst r) f) <> []).
Proof.
  cbv zeta. destruct (t_comp c t) as [k|] eqn:Ek.
  - destruct (pw (cd s k)) as [p|] eqn:Ep.
    + destruct (alloc_with_facility_sated s free t k p Ek Ep) as (_ & (_ & _ & _ & G) & R). split; assumption.
    + unfold alloc_with_facility. rewrite Ek, Ep. split; intros f; [reflexivity|left; reflexivity].
  - unfold alloc_with_facility. rewrite Ek. split; intros f; [reflexivity|left; reflexivity].
Qed.

(* serving another task keeps a sated facility task sated *)
Lemma alloc_task_keeps acc t' t : t' <> t ->
  let r := alloc_task c acc t' in
  Grows (fst (fst acc)) (fst (fst r)) t /\ (forall f, rst (fd (fst (fst r)) f) = rst (fd (fst (fst acc)) f))
  /\ incl (snd (fst r)) (snd (fst acc)).
Proof.
  destruct acc as [[s free] moved]. cbn [fst snd]. intros Hne. cbv zeta. unfold alloc_task.
  destruct (place_for c s moved t') as [s1 m1] eqn:Ep.
  assert (E1 : td s1 = td s) by (change s1 with (fst (s1, m1)); rewrite <- Ep; apply td_place_for).
  assert (E2 : fd s1 = fd s) by (change s1 with (fst (s1, m1)); rewrite <- Ep; apply (pi_place_for c _ fd); reflexivity).
  assert (G1 : Grows s s1 t).
  { split; [rewrite E1; reflexivity|]. split; [exists []; rewrite E1, app_nil_r; reflexivity|].
    split; [exists []; rewrite E1, app_nil_r; reflexivity|intros f; left; rewrite E2; reflexivity]. }
  destruct (t_auto c t'); cbn [fst snd].
  - split; [exact G1|]. split; [intros f; rewrite E2; reflexivity|apply incl_refl].
  - destruct (t_needfac c t').
    + destruct (alloc_with_facility_other c s1 free t') as [I1 I2].
      pose proof (alloc_with_facility_fd s1 free t') as R. cbv zeta in R.
      destruct (alloc_with_facility c s1 free t') as [s2 f2]. cbn [fst snd] in *. destruct R as [R1 R2].
      split; [|split; [intros f; rewrite R1, E2; reflexivity|exact I1]].
      apply (Grows_trans s s1 s2 t G1).
      assert (Et : td s2 t = td s1 t) by (apply I2; intros ->; apply Hne; reflexivity).
      split; [rewrite Et; reflexivity|]. split; [exists []; rewrite Et, app_nil_r; reflexivity|].
      split; [exists []; rewrite Et, app_nil_r; reflexivity|exact R2].
    + pose proof (alloc_workers_sated c s1 free t') as R. cbv zeta in R.
      assert (Ef : fd (fst (alloc_workers c s1 free t')) = fd s1) by (apply (pi_alloc_workers c _ fd); reflexivity).
      destruct (alloc_workers c s1 free t') as [s2 f2]. cbn [fst snd] in *. destruct R as (_ & R2 & R3).
      split; [|split; [intros f; rewrite Ef, E2; reflexivity|exact R2]].
      apply (Grows_trans s s1 s2 t G1).
      assert (Et : td s2 t = td s1 t) by (apply R3; intros ->; apply Hne; reflexivity).
      split; [rewrite Et; reflexivity|]. split; [exists []; rewrite Et, app_nil_r; reflexivity|].
      split; [exists []; rewrite Et, app_nil_r; reflexivity|intros f; left; rewrite Ef; reflexivity].
Qed.

Lemma fold_keeps l t : ~ In t l -> forall acc,
  let r := fold_left (alloc_task c) l acc in
  Grows (fst (fst acc)) (fst (fst r)) t /\ (forall f, rst (fd (fst (fst r)) f) = rst (fd (fst (fst acc)) f))
  /\ incl (snd (fst r)) (snd (fst acc)).
Proof.
  induction l as [|t' l IH]; intros Hn acc; cbv zeta; cbn [fold_left].
  - split; [apply Grows_refl|]. split; [reflexivity|apply incl_refl].
  - assert (Hne : t' <> t) by (intros ->; apply Hn; left; reflexivity).
    destruct (alloc_task_keeps acc t' t Hne) as (A1 & A2 & A3).
    destruct (IH (fun F => Hn (or_intror F)) (alloc_task c acc t')) as (B1 & B2 & B3).
    split; [eapply Grows_trans; eassumption|]. split; [intros f; rewrite B2; apply A2|].
    intros x Hx. apply A3. apply B3. exact Hx.
Qed.

(* the workplace at which the component of t sits when t is served, after the
   tasks l1 before it *)
Definition served_at (l1 : list nat) (s : pstate) (free : list nat) (t : nat) : option nat :=
  let acc := fold_left (alloc_task c) l1 (s, free, []) in
  match t_comp c t with
  | None => None
  | Some k => pw (cd (fst (place_for c (fst (fst acc)) (snd acc) t)) k)
  end.

(* C06 (c) / C11 for a task that needs a facility: once it has been served it
   stays sated until the end of __allocate *)
Theorem facility_task_sated l : NoDup l -> forall l1 t l2, l = l1 ++ t :: l2 ->
  t_auto c t = false -> t_needfac c t = true ->
  forall s free p, served_at l1 s free t = Some p ->
  forall l2', (exists l2'', l2 = l2' ++ l2'') ->
  let acc := fold_left (alloc_task c) (l1 ++ t :: l2') (s, free, []) in
  SatedF (fst (fst acc)) (snd (fst acc)) t p.
Proof.
  intros Hnd l1 t l2 El Ha Hn s free p Hp l2' (l2'' & E2). cbv zeta.
  rewrite fold_left_app. cbn [fold_left].
  set (acc1 := fold_left (alloc_task c) l1 (s, free, [])) in *.
  unfold served_at in Hp. fold acc1 in Hp.
  destruct (t_comp c t) as [k|] eqn:Ek; [|discriminate].
  assert (Hnot : ~ In t l2').
  { rewrite El, E2 in Hnd. apply NoDup_remove_2 in Hnd. intros F. apply Hnd. apply in_or_app. right. apply in_or_app. left. exact F. }
  (* the block of t *)
  assert (Hblock : SatedF (fst (fst (alloc_task c acc1 t))) (snd (fst (alloc_task c acc1 t))) t p).
  { destruct acc1 as [[x fr] mv]. cbn [fst snd] in *. unfold alloc_task.
    destruct (place_for c x mv t) as [x1 m1] eqn:Epl. cbn [fst] in Hp. rewrite Ha, Hn.
    pose proof (alloc_with_facility_sated x1 fr t k p Ek Hp) as R. cbv zeta in R.
    destruct (alloc_with_facility c x1 fr t) as [x2 f2]. cbn [fst snd] in *. apply R. }
  destruct (fold_keeps l2' t Hnot (alloc_task c acc1 t)) as (K1 & K2 & K3).
  eapply SatedF_frame; eassumption.
Qed.

End Fac.

(* C06 (c) for facility tasks, at the end of __allocate: no worker that was
   FREE and received nothing can be paired with a FREE facility of the
   workplace at which the task's component sat when the task was served *)
Theorem no_idle_eligible_pair (c : cfg) o s l1 t l2 p w f :
  let cand := sort_tasks c (o_rule o) s (filter (fun t => is_ready (st (td s t)) || is_working (st (td s t))) (tasks c)) in
  let free0 := filter (fun w => rstate_eqb (rst (wd s w)) RFree) (all_workers c) in
  cand = l1 ++ t :: l2 -> t_auto c t = false -> t_needfac c t = true ->
  served_at c l1 s free0 t = Some p ->
  In f (wp_facs c p) -> rst (fd s f) = RFree -> has_fskill c f t = true -> f_targets c f t = true ->
  In w (all_workers c) -> rst (wd s w) = RFree -> asg (wd (allocate c o s) w) = asg (wd s w) ->
  has_wskill c w t = true -> w_targets c w t = true ->
  can_add c (allocate c o s) t w (Some f) = false.
Proof.
  cbv zeta. intros El Ha Hn Hp Hf Hfree Hfs Hft Hw Hwfree Hasg Hws Hwt.
  set (cand := sort_tasks c (o_rule o) s (filter (fun t => is_ready (st (td s t)) || is_working (st (td s t))) (tasks c))) in *.
  set (free0 := filter (fun w => rstate_eqb (rst (wd s w)) RFree) (all_workers c)) in *.
  assert (Hnd : NoDup cand).
  { unfold cand, sort_tasks, sort_by. eapply Permutation_NoDup; [apply Permutation_sym; apply stable_sort_perm|].
    apply NoDup_filter. apply seq_NoDup. }
  pose proof (facility_task_sated c cand Hnd l1 t l2 El Ha Hn s free0 p Hp l2 (ex_intro _ [] (eq_sym (app_nil_r l2)))) as H.
  cbv zeta in H. rewrite <- El in H.
  change (fst (fst (fold_left (alloc_task c) cand (s, free0, [])))) with (allocate c o s) in H.
  apply H.
  - exact Hf.
  - assert (E : rst (fd (allocate c o s) f) = rst (fd s f)).
    { pose proof (fold_keeps c cand (nT c + S (list_max cand))) as K.
      assert (Hn' : ~ In (nT c + S (list_max cand)) cand).
      { intros F. pose proof (proj1 (list_max_le cand (list_max cand)) (le_n _)) as Hm. rewrite Forall_forall in Hm. specialize (Hm _ F). lia. }
      destruct (K Hn' (s, free0, [])) as (_ & K2 & _). apply K2. }
    rewrite E. exact Hfree.
  - unfold eligible_f. rewrite Hfs, Hft. reflexivity.
  - apply (free_list_complete c o s w Hw Hwfree Hasg).
  - unfold eligible. rewrite Hws, Hwt. reflexivity.
Qed.

(* C11 for facility tasks: when task t is handed to the allocation block,
   every facility task before it is sated with respect to the free list *)
Theorem greedy_prefix_fac (c : cfg) l : NoDup l -> forall l1 t l2, l = l1 ++ t :: l2 ->
  forall l1a t' l1b, l1 = l1a ++ t' :: l1b -> t_auto c t' = false -> t_needfac c t' = true ->
  forall s free p, served_at c l1a s free t' = Some p ->
  let acc := fold_left (alloc_task c) l1 (s, free, []) in
  SatedF c (fst (fst acc)) (snd (fst acc)) t' p.
Proof.
  intros Hnd l1 t l2 El l1a t' l1b E1 Ha Hn s free p Hp. cbv zeta. rewrite E1.
  apply (facility_task_sated c l Hnd l1a t' (l1b ++ t :: l2)); try assumption.
  - rewrite El, E1, <- app_assoc. reflexivity.
  - exists (t :: l2). reflexivity.
Qed.

(* C18, additions: the removal changes every log by one common amount, and
   steps beyond the end of the run change nothing (both editors). *)
From Coq Require Import List ZArith QArith Bool Arith Lia Permutation.
From PV Require Import Model.Types Model.Sim Model.LogEdit Proofs.Base Proofs.SortProof Proofs.C0708Proof Proofs.C18Proof.
Import ListNotations.
Open Scope nat_scope.

(* every log shrinks by the same number of entries *)
Theorem remove_same_delta c ab s : Lens c s (time s) ->
  let s' := snd (remove_absence c (ab, s)) in Lens c s' (len_rem (sorted_set ab) (time s)).
Proof.
  intros H. pose proof (remove_keeps_aligned c ab s H) as R. cbv zeta in *.
  assert (E : time (snd (remove_absence c (ab, s))) = len_rem (sorted_set ab) (time s)).
  { destruct H as (_ & _ & _ & _ & _ & _ & _ & H8). unfold remove_absence, edit_logs. cbn [snd time].
    unfold removed_count. rewrite rem_seq_length, H8.
    pose proof (len_rem_le (sorted_set ab) (time s)). lia. }
  rewrite <- E. exact R.
Qed.

(* steps at or beyond the end of a log leave it as it is *)
Lemma fold_rem_beyond {A} (r : list nat) : forall l : list A,
  (forall k, In k r -> length l <= k) -> fold_left rem_one r l = l.
Proof.
  induction r as [|k r IH]; intros l H; cbn [fold_left]; [reflexivity|].
  assert (E : rem_one l k = l).
  { unfold rem_one. assert (Hk : (k <? length l) = false) by (apply Nat.ltb_ge, H; left; reflexivity).
    rewrite Hk. reflexivity. }
  rewrite E. apply IH. intros j Hj. apply H. right. exact Hj.
Qed.
Theorem rem_seq_beyond {A} steps (l : list A) :
  (forall k, In k steps -> length l <= k) -> rem_seq steps l = l.
Proof.
  intros H. unfold rem_seq. apply fold_rem_beyond. intros k Hk. apply H. apply in_rev. exact Hk.
Qed.
Theorem ins_seq_beyond {A} mk steps : forall l : list A,
  (forall k, In k steps -> length l <= k) -> ins_seq mk steps l = l.
Proof.
  unfold ins_seq. induction steps as [|k r IH]; intros l H; cbn [fold_left]; [reflexivity|].
  assert (E : ins_one mk l k = l).
  { unfold ins_one. assert (Hk : (k <? length l) = false) by (apply Nat.ltb_ge, H; left; reflexivity).
    rewrite Hk. reflexivity. }
  rewrite E. apply IH. intros j Hj. apply H. right. exact Hj.
Qed.

Lemma len_rem_beyond steps n : (forall k, In k steps -> n <= k) -> len_rem steps n = n.
Proof.
  intros H. pose proof (rem_seq_length steps (repeat tt n)) as E.
  rewrite rem_seq_beyond in E by (rewrite repeat_length; exact H).
  rewrite repeat_length in E. symmetry. exact E.
Qed.
Lemma len_ins_beyond steps n : (forall k, In k steps -> n <= k) -> len_ins steps n = n.
Proof.
  intros H. pose proof (ins_seq_length (fun _ _ => tt) steps (repeat tt n)) as E.
  rewrite ins_seq_beyond in E by (rewrite repeat_length; exact H).
  rewrite repeat_length in E. symmetry. exact E.
Qed.

Lemma sorted_set_In ab k : In k (sorted_set ab) -> In k ab.
Proof.
  unfold sorted_set. intros H.
  apply (Permutation_in k (stable_sort_perm nat Nat.leb (nodup Nat.eq_dec ab))) in H.
  apply nodup_In in H. exact H.
Qed.
Lemma new_steps_In cur l : forall acc k, In k (new_steps cur acc l) -> In k acc \/ In k l.
Proof.
  induction l as [|x l IH]; intros acc k H; cbn [new_steps] in H; [left; exact H|].
  destruct (mem x cur || mem x acc).
  - destruct (IH _ _ H) as [Ha|Hl]; [left; exact Ha|right; right; exact Hl].
  - destruct (IH _ _ H) as [Ha|Hl]; [|right; right; exact Hl].
    apply in_app_or in Ha. destruct Ha as [Ha|[Hx|[]]]; [left; exact Ha|right; left; exact Hx].
Qed.

(* project level: when every listed step lies at or beyond the end of the run,
   neither editor changes the common length of the logs nor project.time *)
Theorem remove_beyond_end_keeps_time c ab s : Lens c s (time s) ->
  (forall k, In k ab -> time s <= k) ->
  let s' := snd (remove_absence c (ab, s)) in time s' = time s /\ Lens c s' (time s).
Proof.
  intros H Hb. cbv zeta.
  pose proof (remove_same_delta c ab s H) as R. cbv zeta in R.
  assert (E : len_rem (sorted_set ab) (time s) = time s).
  { apply len_rem_beyond. intros k Hk. apply Hb, sorted_set_In, Hk. }
  rewrite E in R. split; [|exact R].
  destruct H as (_ & _ & _ & _ & _ & _ & _ & H8). unfold remove_absence, edit_logs. cbn [snd time].
  unfold removed_count. rewrite rem_seq_length, H8, E. lia.
Qed.
Theorem insert_beyond_end_keeps_time c l ab s : Lens c s (time s) ->
  (forall k, In k l -> time s <= k) ->
  let s' := snd (insert_absence c l (ab, s)) in time s' = time s /\ Lens c s' (time s).
Proof.
  intros H Hb. cbv zeta.
  pose proof (insert_same_delta c l ab s H) as R. cbv zeta in R.
  assert (E : len_ins (stable_sort nat Nat.leb (new_steps ab [] l)) (time s) = time s).
  { apply len_ins_beyond. intros k Hk.
    apply (Permutation_in k (stable_sort_perm nat Nat.leb _)) in Hk.
    destruct (new_steps_In _ _ _ _ Hk) as [[]|Hl]. apply Hb, Hl. }
  rewrite E in R. split; [|exact R].
  destruct H as (_ & _ & _ & _ & _ & _ & _ & H8). unfold insert_absence, edit_logs. cbn [snd time].
  unfold inserted_count, cost_insert. rewrite ins_seq_length, H8, E. lia.
Qed.

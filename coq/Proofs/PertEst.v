(* The earliest start times computed by the forward pass at two different
   times, from two states with the same remaining work, differ by the
   difference of the two times -- on ANY network (cyclic or not, all four
   dependency kinds, any sign of the remaining work, whatever stale values the
   two states carry): EST is reset for every task at the beginning of the
   pass and the forward pass computes a new EST from ESTs and remaining work
   only; the two passes run in lock step with the same work list.  Hence the
   EST priority rule orders every list of tasks the same way in the two
   states.  For C10 (f), rule EST. *)
From Coq Require Import List ZArith QArith Bool Arith Lia Lqa.
From PV Require Import Model.Types Model.Sim Proofs.Base Proofs.Proj Proofs.SortProof Proofs.C12Proof Proofs.Worklist Proofs.PertStable
  Proofs.KeyCong Proofs.PertShift.
Import ListNotations.
Open Scope nat_scope.

Definition edges_in_range (c : cfg) : Prop :=
  forall u e, In e (t_outputs c u) -> u < nT c /\ fst e < nT c.

Section EstShift.
Variable c : cfg.
Hypothesis RANGE : edges_in_range c.
Variables ta tb : Q.
Let d : Q := (ta - tb)%Q.

Definition RelE (ab : pstate * pstate) : Prop :=
  forall v, v < nT c -> rem (td (fst ab) v) = rem (td (snd ab) v) /\ (est (td (fst ab) v) == est (td (snd ab) v) + d)%Q.

Lemma fst_fwd_vals_shift k xi xn yi yn :
  rem xi = rem yi -> (est xi == est yi + d)%Q ->
  (fst (fwd_vals k xi xn) == fst (fwd_vals k yi yn) + d)%Q.
Proof. intros Hr He. destruct k; cbn; rewrite ?Hr, He; ring. Qed.

Lemma RelE_step ab u e : In e (t_outputs c u) -> RelE ab -> RelE (step2 pstate fwd_edge ab u e).
Proof.
  destruct ab as [a b]. destruct e as [v k]. intros Hin H. unfold step2. cbn [fst snd] in *.
  destruct (RANGE u (v, k) Hin) as [Hu Hv]. cbn [fst] in Hv.
  rewrite !fwd_edge_eq.
  destruct (H u Hu) as [Ru Eu]. destruct (H v Hv) as [Rv Ev]. cbn [fst snd] in Ru, Eu, Rv, Ev.
  pose proof (fst_fwd_vals_shift k (td a u) (td a v) (td b u) (td b v) Ru Eu) as E1.
  rewrite (Qleb_shift _ _ _ _ d Ev E1).
  destruct (Qleb (est (td b v)) (fst (fwd_vals k (td b u) (td b v)))); [|exact H].
  intros w Hw. cbn [fst snd td with_td]. rewrite !upd_eq. destruct (Nat.eqb w v); [|apply (H w Hw)].
  cbn. split; [exact Rv|exact E1].
Qed.

Lemma RelE_forward x y : (forall v, rem (td x v) = rem (td y v)) ->
  RelE (pert_forward c ta x, pert_forward c tb y).
Proof.
  intros Hr. rewrite !pert_forward_unfold.
  rewrite <- (loop_pair pstate (t_outputs c) fwd_edge).
  apply (loop_inv (t_outputs c) (step2 pstate fwd_edge) RelE).
  - intros s u e He Hs. apply RelE_step; assumption.
  - intros v Hv. cbn [fst snd]. unfold fwd_init. cbn [td with_td]. rewrite !tab_spec.
    apply Nat.ltb_lt in Hv. rewrite Hv.
    destruct (t_inputs c v); cbn; (split; [apply Hr|unfold d; ring]).
Qed.

(* the backward pass leaves EST alone *)
Theorem est_shift_update_pert x y : (forall v, rem (td x v) = rem (td y v)) ->
  forall v, v < nT c ->
  (est (td (pert_backward c (pert_forward c ta x)) v) == est (td (pert_backward c (pert_forward c tb y)) v) + d)%Q.
Proof.
  intros Hr v Hv.
  destruct (keepsE_pert_backward c (pert_forward c ta x) v) as [Ea _].
  destruct (keepsE_pert_backward c (pert_forward c tb y) v) as [Eb _].
  rewrite Ea, Eb. apply (RelE_forward x y Hr v Hv).
Qed.
End EstShift.

(* EST orders every list of tasks the same way in two states refreshed at
   different times from the same remaining work *)
Theorem SortAgree_est c (na nb : nat) x y : edges_in_range c -> (forall v, rem (td x v) = rem (td y v)) ->
  SortAgree c 1 (update_pert c na x) (update_pert c nb y).
Proof.
  intros HR Hr l Hl. unfold sort_tasks, sort_by. apply stable_sort_ext_in. intros p q Hp Hq.
  unfold update_pert. cbn [task_key].
  apply (Qleb_shift _ _ _ _ (inject_nat na - inject_nat nb)%Q).
  - apply (est_shift_update_pert c HR _ _ x y Hr p (Hl p Hp)).
  - apply (est_shift_update_pert c HR _ _ x y Hr q (Hl q Hq)).
Qed.

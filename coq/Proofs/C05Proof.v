(* C05: bounded runs, truthful status, unservable tasks never succeed. *)
From Coq Require Import List ZArith QArith Bool Arith Lia.
From PV Require Import Model.Types Model.Sim Proofs.Base Proofs.Frames Proofs.Proj Proofs.RunLemmas
  Proofs.C01Proof Proofs.C02Proof Proofs.AllocInv Proofs.AllocStruct Proofs.C04Proof.
Import ListNotations.
Open Scope nat_scope.

Section C05.
Variable c : cfg.
Variable o : opts.

(* (a) no step at or beyond max_time is simulated *)
Lemma trace_bounded s tr sf : trace_from c o s tr sf ->
  Forall (fun ob : obs => snd (fst ob) <> PUpdated -> fst (fst ob) < o_max_time o) tr.
Proof.
  induction 1 as [s Ha|s Ha Hm|s rest sf Ha Hm s1 sa sp sr Hrest IH].
  - constructor; [cbn; congruence|constructor].
  - constructor; [cbn; congruence|constructor].
  - constructor; [cbn; congruence|].
    constructor; [cbn; intros _; exact Hm|].
    constructor; [cbn; intros _; exact Hm|].
    constructor; [cbn; intros _; exact Hm|exact IH].
Qed.

(* the number of recorded steps *)
Fixpoint recorded (tr : list obs) : nat :=
  match tr with
  | [] => 0
  | (_, PRecorded, _) :: r => S (recorded r)
  | _ :: r => recorded r
  end.

Lemma trace_steps s tr sf : trace_from c o s tr sf ->
  time sf = time s + recorded tr /\ (recorded tr = 0 \/ time sf <= o_max_time o).
Proof.
  induction 1 as [s Ha|s Ha Hm|s rest sf Ha Hm s1 sa sp sr Hrest IH].
  - cbn. rewrite (time_update c o). split; [lia|left; reflexivity].
  - cbn. rewrite (time_update c o). split; [lia|left; reflexivity].
  - cbn [recorded]. destruct IH as [IH1 IH2]. cbn [time with_time] in IH1.
    assert (Et : time sr = time s).
    { unfold sr. rewrite (time_step_record c o). unfold sp. rewrite (time_step_perform c o).
      unfold sa. rewrite (time_step_allocate c o). unfold s1. apply (time_update c o). }
    rewrite Et in IH1. split; [lia|]. right.
    destruct IH2 as [E0|Hle]; [|exact Hle].
    rewrite E0 in IH1. unfold s1 in Hm. rewrite (time_update c o) in Hm. lia.
Qed.

Theorem C05_bounded s :
  Forall (fun ob : obs => snd (fst ob) <> PUpdated -> fst (fst ob) < o_max_time o) (snd (simulate c o s))
  /\ recorded (snd (simulate c o s)) <= o_max_time o - time (initialize c o s).
Proof.
  destruct (simulate_trace c o s) as (tr & Htr & Esnd). rewrite Esnd.
  split; [eapply trace_bounded; exact Htr|].
  destruct (trace_steps _ _ _ Htr) as [E1 [E0|Hle]]; lia.
Qed.

(* (b) the status is truthful *)
Lemma trace_status s tr sf : trace_from c o s tr sf ->
  (status sf = StSuccess /\ all_finished c sf = true)
  \/ (status sf = StFailure /\ all_finished c sf = false /\ o_max_time o <= time sf).
Proof.
  induction 1 as [s Ha|s Ha Hm|s rest sf Ha Hm s1 sa sp sr Hrest IH].
  - left. split; [reflexivity|exact Ha].
  - right. repeat split; [exact Ha|exact Hm].
  - exact IH.
Qed.

Theorem C05_status s :
  let sf := fst (simulate c o s) in
  (status sf = StSuccess <-> all_finished c sf = true)
  /\ (status sf = StFailure -> o_max_time o <= time sf)
  /\ (status sf = StSuccess \/ status sf = StFailure).
Proof.
  cbv zeta. destruct (simulate_trace c o s) as (tr & Htr & _).
  destruct (trace_status _ _ _ Htr) as [[E1 E2]|(E1 & E2 & E3)]; rewrite E1, E2.
  - split; [split; reflexivity|]. split; [discriminate|left; reflexivity].
  - split; [split; discriminate|]. split; [intros _; exact E3|right; reflexivity].
Qed.

(* (d) a non-automatic task that no worker can ever serve is never allocated,
   never starts, and the project never reports success *)
Definition StaticElig (w t : nat) : Prop :=
  has_wskill c w t = true /\ w_targets c w t = true /\ (forall l, t_fixw c t = Some l -> mem w l = true).
Definition Unservable (t : nat) : Prop := t_auto c t = false /\ forall w, ~ StaticElig w t.

Definition Stuck (t : nat) (s : pstate) : Prop :=
  aw (td s t) = [] /\ (stof s t = TNone \/ stof s t = TReady).

Hypothesis Hw_nodup : NoDup (all_workers c).

Lemma aw_finish_task_other s t' t : t <> t' -> aw (td (finish_task c s t') t) = aw (td s t).
Proof.
  intros Hne. unfold finish_task. destruct (t_needfac c t'); cbn [td with_td with_wd with_fd];
    rewrite ?upd_eq; apply Nat.eqb_neq in Hne; rewrite ?Hne; reflexivity.
Qed.

Lemma Stuck_check_finished t s : Stuck t s -> Stuck t (check_finished c s).
Proof.
  intros [Ha Hs].
  assert (P : forall x, Stuck t x -> Stuck t (fst (finish_pass c x))).
  { intros x [Hxa Hxs]. unfold finish_pass.
    assert (G : forall l (acc : pstate * bool), (forall y, In y l -> stof x y = TWorking) -> Stuck t (fst acc) ->
               Stuck t (fst (fold_left (fun (acc : pstate * bool) y =>
                        let (s', ch) := acc in
                        if finish_gate c s' y then (finish_task c s' y, true) else (s', ch)) l acc))).
    { induction l as [|y l IH]; intros acc Hl Hacc; cbn [fold_left]; [exact Hacc|].
      apply IH; [intros z Hz; apply Hl; right; exact Hz|].
      destruct acc as [s' ch]. cbn [fst] in *. destruct (finish_gate c s' y); cbn [fst]; [|exact Hacc].
      assert (Hne : t <> y).
      { intros ->. pose proof (Hl y (or_introl eq_refl)) as Hw. destruct Hxs as [E|E]; rewrite E in Hw; discriminate. }
      destruct Hacc as [A1 A2]. split; [rewrite aw_finish_task_other by exact Hne; exact A1|].
      rewrite stof_finish_task. apply Nat.eqb_neq in Hne. rewrite Hne. exact A2. }
    apply G; [|split; assumption].
    intros y Hy. apply filter_In in Hy. destruct Hy as [_ Hz]. unfold zero_work in Hz.
    apply andb_true_iff in Hz. destruct Hz as [Hz _]. apply is_working_true in Hz. exact Hz. }
  unfold check_finished. generalize (S (nT c)) as fuel. intros fuel.
  assert (G : forall x, Stuck t x -> Stuck t (finish_loop c fuel x)).
  { induction fuel as [|f IH]; intros x Hx; cbn [finish_loop]; [exact Hx|].
    destruct (finish_pass c x) as [s' ch] eqn:E.
    assert (H' : Stuck t s') by (change s' with (fst (s', ch)); rewrite <- E; apply P; exact Hx).
    destruct ch; [apply IH; exact H'|exact H']. }
  apply G. split; assumption.
Qed.

Lemma Stuck_keep t s s' : aw (td s' t) = aw (td s t) -> stof s' t = stof s t -> Stuck t s -> Stuck t s'.
Proof. intros E1 E2 [A B]. split; [rewrite E1; exact A|rewrite E2; exact B]. Qed.

Lemma Stuck_update t s : Stuck t s -> Stuck t (update c o s).
Proof.
  intros H. unfold update.
  set (s1 := check_finished c s). assert (H1 : Stuck t s1) by (apply Stuck_check_finished; exact H).
  set (s3 := check_removing c (o_crank o) (product_check_state c s1)).
  assert (H3 : Stuck t s3).
  { eapply Stuck_keep; [| |exact H1]; unfold s3, stof; rewrite td_check_removing; reflexivity. }
  set (s4 := check_ready c s3).
  assert (H4 : Stuck t s4).
  { destruct H3 as [A B]. split.
    - unfold s4, check_ready. cbn [td with_td]. rewrite tab_spec. destruct (t <? nT c); [|exact A].
      match goal with |- context [if ?b then _ else _] => destruct b end; exact A.
    - unfold s4. rewrite stof_check_ready.
      match goal with |- context [if ?b then _ else _] => destruct b end; [right; reflexivity|exact B]. }
  destruct (keeps_update_pert c (time (product_check_state c s4)) (product_check_state c s4) t) as (E1 & _ & E2 & _).
  eapply Stuck_keep; [exact E2|exact E1|]. exact H4.
Qed.

Lemma Stuck_step_allocate t s : t < nT c -> Unservable t -> Stuck t s -> Stuck t (step_allocate c o s).
Proof.
  intros Ht [Hna Hun] [Ha Hs].
  assert (Eaw : aw (td (step_allocate c o s) t) = []).
  { destruct (C04_new_allocations_eligible c o s Hw_nodup) as [A _].
    destruct (aw (td (step_allocate c o s) t)) as [|w l] eqn:E; [reflexivity|exfalso].
    destruct (A t w) as [Hin|[_ (E1 & E2 & _ & E4)]]; [rewrite E; left; reflexivity|rewrite Ha in Hin; exact Hin|].
    apply (Hun w). repeat split; assumption. }
  split; [exact Eaw|].
  (* the state: allocate keeps it; check_working promotes only targets *)
  unfold step_allocate.
  set (w := negb (mem (time s) (o_abs o))).
  set (s2 := if w then allocate c o (absence_update c w s) else absence_update c w s).
  assert (E2 : stof s2 t = stof s t /\ aw (td s2 t) = []).
  { unfold s2. destruct w.
    - split.
      + unfold stof. destruct (ksr_allocate c o (absence_update c true s) t) as [E _]. rewrite E, td_absence_update. reflexivity.
      + destruct (allocate_eligible c o (absence_update c true s) Hw_nodup) as [A _].
        destruct (aw (td (allocate c o (absence_update c true s)) t)) as [|x l] eqn:E; [reflexivity|exfalso].
        destruct (A t x) as [Hin|(E1 & E2' & _ & E4)]; [rewrite E; left; reflexivity| |].
        * rewrite td_absence_update, Ha in Hin. exact Hin.
        * apply (Hun x). repeat split; assumption.
    - unfold stof. rewrite td_absence_update. split; [reflexivity|exact Ha]. }
  destruct E2 as [E2 E2a].
  destruct (w || o_auto_abs o); [|rewrite E2; exact Hs].
  unfold stof at 1 2. cbn [td product_check_state with_cd]. fold (stof (check_working c s2) t).
  unfold check_working.
  assert (G : forall l x, (forall y, In y l -> cw_target c s2 y = true) ->
              stof x t = stof s2 t -> stof (fold_left (cw_one c) l x) t = stof s2 t).
  { induction l as [|y l IH]; intros x Hl Hx; cbn [fold_left]; [exact Hx|].
    apply IH; [intros z Hz; apply Hl; right; exact Hz|].
    rewrite stof_cw_one. destruct (Nat.eqb t y) eqn:E; [|exact Hx].
    apply Nat.eqb_eq in E. subst y. cbn [andb].
    (* t would have to be a target: READY with workers or automatic, or WORKING *)
    pose proof (Hl t (or_introl eq_refl)) as Htg. unfold cw_target in Htg.
    rewrite E2a, Hna in Htg. cbn [negb andb orb] in Htg. rewrite !andb_false_r in Htg. cbn in Htg. discriminate. }
  rewrite G; [rewrite E2; exact Hs| |reflexivity].
  intros y Hy. apply filter_In in Hy. apply Hy.
Qed.

Lemma Stuck_step_perform t s : Stuck t s -> Stuck t (step_perform c o s).
Proof.
  apply Stuck_keep.
  - unfold step_perform.
    destruct (negb (mem (time s) (o_abs o))); [|destruct (o_auto_abs o)]; try reflexivity;
      unfold perform; cbn [td with_td add_cost]; rewrite tab_spec; destruct (t <? nT c); try reflexivity;
      match goal with |- context [if ?b then _ else _] => destruct b end; reflexivity.
  - unfold step_perform, stof. destruct (negb (mem (time s) (o_abs o))); [rewrite st_perform; reflexivity|].
    destruct (o_auto_abs o); [rewrite st_perform; reflexivity|reflexivity].
Qed.

Lemma Stuck_initialize t s : t < nT c -> o_init_state o = true -> (o_init_log o && exempt c t = false) ->
  Stuck t (initialize c o s).
Proof.
  intros Ht Hs Hex. unfold initialize. rewrite Hs.
  match goal with |- Stuck t (with_cd ?y ?f) => apply (Stuck_keep t y (with_cd y f) eq_refl eq_refl) end.
  match goal with |- Stuck t (check_ready c (update_pert c 0 (with_cpl ?x _))) => set (s1 := x) end.
  assert (H1 : Stuck t (with_cpl s1 0%Q)).
  { unfold Stuck, stof, s1. cbn [td with_cpl]. rewrite tab_spec. pose proof Ht as Ht'. apply Nat.ltb_lt in Ht'. rewrite Ht'.
    rewrite Hex. cbn. split; [reflexivity|left; reflexivity]. }
  assert (H2 : Stuck t (update_pert c 0 (with_cpl s1 0%Q))).
  { destruct (keeps_update_pert c 0 (with_cpl s1 0%Q) t) as (E1 & _ & E2 & _).
    eapply Stuck_keep; [exact E2|exact E1|exact H1]. }
  destruct H2 as [A B]. split.
  - unfold check_ready. cbn [td with_td]. rewrite tab_spec. destruct (t <? nT c); [|exact A].
    match goal with |- context [if ?b then _ else _] => destruct b end; exact A.
  - rewrite stof_check_ready.
    match goal with |- context [if ?b then _ else _] => destruct b end; [right; reflexivity|exact B].
Qed.

Theorem C05_unservable_never_succeeds s t :
  t < nT c -> Unservable t -> o_init_state o = true -> (o_init_log o && exempt c t = false) ->
  status (fst (simulate c o s)) <> StSuccess
  /\ Forall (fun ob : obs => aw (td (snd ob) t) = [] /\ stof (snd ob) t <> TWorking /\ stof (snd ob) t <> TFinished)
            (snd (simulate c o s)).
Proof.
  intros Ht Hun Hs Hex.
  destruct (simulate_trace c o s) as (tr & Htr & Esnd). rewrite Esnd.
  pose proof (Stuck_initialize t s Ht Hs Hex) as H0.
  destruct (trace_invariant c o (Stuck t) (Stuck t) (Stuck t) (Stuck t) (Stuck t)
              (fun x Hx => Stuck_update t x Hx)
              (fun x Hx => Stuck_step_allocate t x Ht Hun Hx)
              (fun x Hx => Stuck_step_perform t x Hx)
              (fun x Hx => Stuck_keep t x (step_record c o x) eq_refl eq_refl Hx)
              (fun x Hx => Stuck_keep t x (with_time x (S (time x))) eq_refl eq_refl Hx)
              _ _ _ Htr H0) as [Hall (su & Hsu & x & Ex)].
  split.
  - destruct (trace_status _ _ _ Htr) as [[E1 E2]|(E1 & _)]; [|rewrite E1; discriminate].
    exfalso. rewrite Ex in E2. unfold all_finished in E2. rewrite forallb_forall in E2.
    assert (Hin : In t (tasks c)) by (apply in_seq; lia).
    specialize (E2 t Hin). cbn [td with_status] in E2. fold (stof su t) in E2.
    destruct Hsu as [_ [E|E]]; rewrite E in E2; discriminate.
  - eapply Forall_impl; [|exact Hall]. intros [[k ph] sn]. cbn.
    assert (G : Stuck t sn -> aw (td sn t) = [] /\ stof sn t <> TWorking /\ stof sn t <> TFinished).
    { intros [A [B|B]]; rewrite B; repeat split; try exact A; discriminate. }
    destruct ph; exact G.
Qed.

End C05.

(* C13 (f): a task that needs a facility only ever holds facilities of the
   workplace where its component is placed. *)
From Coq Require Import List ZArith QArith Bool Arith Lia Permutation.
From PV Require Import Model.Types Model.Sim Proofs.Base Proofs.Frames Proofs.Proj Proofs.RunLemmas Proofs.C01Proof
  Proofs.AllocInv Proofs.AllocStruct Proofs.C04Proof Proofs.C13Proof Proofs.C13Run.
Import ListNotations.
Open Scope nat_scope.

Section Fac.
Variable c : cfg.
Hypothesis Hw_range : forall w, In w (all_workers c) -> w < nW c.
Hypothesis Hw_nodup : NoDup (all_workers c).
Hypothesis Hf_range : forall p f, In f (wp_facs c p) -> f < nF c.
Hypothesis HF : Forest c.
(* the component of a task lists that task *)
Hypothesis wf_comp : forall t k, t_comp c t = Some k -> In t (c_tasks c k).

Definition FacInv (s : pstate) : Prop :=
  forall t f, t < nT c -> In f (af (td s t)) ->
  exists k p, t_comp c t = Some k /\ pw (cd s k) = Some p /\ In f (wp_facs c p).

Lemma FacInv_ext s s' : (forall t, af (td s' t) = af (td s t)) -> (forall k, pw (cd s' k) = pw (cd s k)) ->
  FacInv s -> FacInv s'.
Proof.
  intros E1 E2 H t f Ht Hin. rewrite E1 in Hin. destruct (H t f Ht Hin) as (k & p & A & B & D).
  exists k, p. rewrite E2. repeat split; assumption.
Qed.

(* -------------------------------------------------------- check_finished *)
Lemma af_check_finished s : AInv c s -> forall t f, In f (af (td (check_finished c s) t)) -> In f (af (td s t)).
Proof.
  intros H0.
  set (J := fun x => AInv c x /\ forall t f, In f (af (td x t)) -> In f (af (td s t))).
  assert (Jpass : forall x, J x -> J (fst (finish_pass c x))).
  { intros x Hx. unfold finish_pass.
    assert (G : forall l (acc : pstate * bool), (forall t, In t l -> t < nT c) -> J (fst acc) ->
              J (fst (fold_left (fun (acc : pstate * bool) t =>
                       let (s', ch) := acc in if finish_gate c s' t then (finish_task c s' t, true) else (s', ch)) l acc))).
    { induction l as [|t l IH]; intros acc Hl Ha; cbn [fold_left]; [exact Ha|].
      apply IH; [intros y Hy; apply Hl; right; exact Hy|].
      destruct acc as [s' ch]. cbn [fst] in *. destruct (finish_gate c s' t); cbn [fst]; [|exact Ha].
      destruct Ha as [A B]. assert (Ht : t < nT c) by (apply Hl; left; reflexivity).
      split; [apply AInv_finish_task; assumption|].
      destruct (finish_task_fields c s' t A Ht) as (_ & Eaf & _).
      intros t' f Hin. rewrite Eaf in Hin. destruct (Nat.eqb t' t); [destruct Hin|apply B; exact Hin]. }
    apply G; [|exact Hx]. intros t Ht. apply filter_In in Ht. destruct Ht as [Ht _]. unfold tasks in Ht. apply in_seq in Ht. lia. }
  assert (Jloop : forall fuel x, J x -> J (finish_loop c fuel x)).
  { induction fuel as [|n IH]; intros x Hx; cbn [finish_loop]; [exact Hx|].
    pose proof (Jpass x Hx) as Hp. destruct (finish_pass c x) as [x' ch]. cbn [fst] in Hp. destruct ch; [apply IH|]; exact Hp. }
  apply (Jloop (S (nT c)) s). split; [exact H0|intros t f Hin; exact Hin].
Qed.

Lemma pw_detach_keep l : forall a k, PInv a -> (forall x, In x l -> ~ In k (tree c x)) ->
  pw (cd (fold_left (detach_tree c) l a) k) = pw (cd a k).
Proof.
  induction l as [|x l IH]; intros a k Ha Hk; cbn [fold_left]; [reflexivity|].
  destruct (PInv_detach_tree c a x Ha) as (A & _ & _ & D).
  rewrite IH; [|exact A|intros y Hy; apply Hk; right; exact Hy].
  apply D. apply Hk. left. reflexivity.
Qed.

Lemma FacInv_update o s : AInv c s -> PInv s -> FacInv s -> FacInv (update c o s).
Proof.
  intros HA HP HFi. unfold update.
  set (s1 := check_finished c s).
  assert (A1 : AInv c s1) by (apply AInv_check_finished; exact HA).
  assert (P1 : PInv s1).
  { apply (PInv_ext s); [| |exact HP].
    - intros x. unfold s1. rewrite (pi_check_finished c _ cd) by reflexivity. reflexivity.
    - unfold s1. apply (pi_check_finished c _ wpc); reflexivity. }
  assert (F1 : FacInv s1).
  { intros t f Ht Hin. apply (af_check_finished s HA) in Hin. destruct (HFi t f Ht Hin) as (k & p & A & B & D).
    exists k, p. unfold s1. rewrite (pi_check_finished c _ cd) by reflexivity. repeat split; assumption. }
  set (s2 := product_check_state c s1).
  assert (A2 : AInv c s2) by (apply AInv_pcs; exact A1).
  assert (P2 : PInv s2) by (apply (PInv_ext s1); [intros x; apply pw_product_check_state|reflexivity|exact P1]).
  assert (F2 : FacInv s2) by (apply (FacInv_ext s1); [intros t; reflexivity|intros k; apply pw_product_check_state|exact F1]).
  set (s3 := check_removing c (o_crank o) s2).
  assert (F3 : FacInv s3).
  { intros t f Ht Hin. unfold s3 in Hin. rewrite td_check_removing in Hin.
    destruct (F2 t f Ht Hin) as (k & p & A & B & D). exists k, p. split; [exact A|]. split; [|exact D].
    rewrite <- B. unfold s3, check_removing. apply pw_detach_keep; [exact P2|].
    intros x Hx Hk. apply filter_In in Hx. destruct Hx as [_ Hx]. apply mem_In in Hx. apply filter_In in Hx. destruct Hx as [_ Hx].
    rewrite tree_all_spec in Hx. rewrite forallb_forall in Hx. specialize (Hx k Hk).
    unfold comp_all_fin in Hx. rewrite forallb_forall in Hx. specialize (Hx t (wf_comp t k A)).
    assert (Hh : holder_ok (st (td s2 t)) = true).
    { apply (a_hold c s2 A2 t Ht). right. intros E. rewrite E in Hin. destruct Hin. }
    unfold holder_ok in Hh. rewrite Hx, orb_true_r in Hh. discriminate. }
  apply (FacInv_ext s3); [| |exact F3].
  - intros t. destruct (keeps_update_pert c (time (product_check_state c (check_ready c s3))) (product_check_state c (check_ready c s3)) t) as (_ & _ & _ & E).
    rewrite E. cbn [td product_check_state with_cd check_ready with_td]. rewrite tab_spec. destruct (t <? nT c); [|reflexivity].
    destruct (is_none (st (td s3 t)) && ready_gate c s3 t); reflexivity.
  - intros k. rewrite (pi_update_pert c _ cd) by reflexivity. rewrite pw_product_check_state. reflexivity.
Qed.

(* ------------------------------------------------------------- allocate *)
Definition PF (s : pstate) (fr : list nat) : Prop := PInv s /\ FacInv s.

Lemma PF_place s moved t fr : PF s fr -> PF (fst (place_for c s moved t)) fr.
Proof.
  intros [HP HFi]. pose proof (place_for_spec c s moved t) as Hp. cbv zeta in Hp.
  destruct Hp as [[-> _]|(k & p & Hok & E & _)]; [split; assumption|]. rewrite E.
  destruct (PInv_place c s k p HF HP) as (A & _ & D & _). split; [exact A|].
  intros t' f Ht' Hin.
  assert (Etd : td (attach_tree c (detach_tree c s k) p k) = td s).
  { rewrite <- E. apply td_place_for. }
  rewrite Etd in Hin. destruct (HFi t' f Ht' Hin) as (k' & p' & B1 & B2 & B3).
  exists k', p'. split; [exact B1|]. split; [|exact B3]. rewrite D; [exact B2|].
  intros Hk'. destruct (po_idle c s moved t k p Hok k' Hk') as [_ Hidle].
  unfold comp_idle in Hidle. rewrite forallb_forall in Hidle. specialize (Hidle t' (wf_comp t' k' B1)).
  apply andb_true_iff in Hidle. destruct Hidle as [_ Haf]. destruct (af (td s t')); [destruct Hin|discriminate].
Qed.

Lemma af_do_alloc_w s t w t' : af (td (do_alloc_w s t w) t') = af (td s t').
Proof. unfold do_alloc_w. cbn [td with_td with_wd]. rewrite upd_eq. destruct (Nat.eqb t' t) eqn:E; [apply Nat.eqb_eq in E; subst|]; reflexivity. Qed.
Lemma af_do_alloc_f s t f t' : af (td (do_alloc_f s t f) t') = if Nat.eqb t' t then af (td s t) ++ [f] else af (td s t').
Proof. unfold do_alloc_f. cbn [td with_td with_fd]. rewrite upd_eq. destruct (Nat.eqb t' t); reflexivity. Qed.

Lemma PF_allocate o s : PF s [] -> PF (allocate c o s) [].
Proof.
  intros H.
  destruct (allocate_induction_gen c PF PF_place
              (fun s0 fr fr' _ h => h)
              (fun s0 fr t w _ _ _ _ _ _ _ h =>
                 conj (PInv_ext s0 _ (fun k => eq_refl) eq_refl (proj1 h))
                      (FacInv_ext s0 _ (fun t' => af_do_alloc_w s0 t w t') (fun k => eq_refl) (proj2 h)))) with (o := o) (s := s) as [fr R].
  - intros s0 fr t w f k p Ht Hc Hpw Hf _ _ _ _ _ _ _ _ _ [HP HFi]. split.
    + apply (PInv_ext s0); [intros x; reflexivity|reflexivity|exact HP].
    + intros t' f' Ht' Hin. rewrite af_do_alloc_f in Hin. rewrite !af_do_alloc_w in Hin.
      assert (Ecd : forall x, pw (cd (do_alloc_f (do_alloc_w s0 t w) t f) x) = pw (cd s0 x)) by (intros x; reflexivity).
      destruct (Nat.eqb t' t) eqn:E.
      * apply Nat.eqb_eq in E. subst t'. apply in_app_iff in Hin.
        destruct Hin as [Hin|[<-|[]]].
        -- destruct (HFi t f' Ht' Hin) as (k' & p' & A & B & D). exists k', p'. rewrite Ecd. repeat split; assumption.
        -- exists k, p. rewrite Ecd. repeat split; assumption.
      * destruct (HFi t' f' Ht' Hin) as (k' & p' & A & B & D). exists k', p'. rewrite Ecd. repeat split; assumption.
  - exact Hw_nodup.
  - exact H.
  - exact R.
Qed.

Lemma PF_step_allocate o s : PInv s -> FacInv s -> PInv (step_allocate c o s) /\ FacInv (step_allocate c o s).
Proof.
  intros HP HFi. unfold step_allocate.
  set (w := negb (mem (time s) (o_abs o))).
  assert (H1 : PF (absence_update c w s) []).
  { split.
    - apply (PInv_ext s); [intros k| |exact HP].
      + rewrite (pi_absence_update c _ cd) by reflexivity. reflexivity.
      + apply (pi_absence_update c _ wpc); reflexivity.
    - apply (FacInv_ext s); [intros t; rewrite td_absence_update; reflexivity| |exact HFi].
      intros k. rewrite (pi_absence_update c _ cd) by reflexivity. reflexivity. }
  assert (H2 : PF (if w then allocate c o (absence_update c w s) else absence_update c w s) []).
  { destruct w; [apply PF_allocate; exact H1|exact H1]. }
  destruct (w || o_auto_abs o); [|exact H2].
  set (x := if w then allocate c o (absence_update c w s) else absence_update c w s) in *.
  destruct H2 as [A B]. split.
  - apply (PInv_ext x); [intros k| |exact A].
    + rewrite pw_product_check_state. rewrite (pi_check_working c _ cd) by reflexivity. reflexivity.
    + cbn [wpc product_check_state with_cd]. apply (pi_check_working c _ wpc); reflexivity.
  - apply (FacInv_ext x); [intros t| |exact B].
    + cbn [td product_check_state with_cd]. apply (aw_check_working c x t).
    + intros k. rewrite pw_product_check_state. rewrite (pi_check_working c _ cd) by reflexivity. reflexivity.
Qed.

Lemma FacInv_step_perform o s : FacInv s -> FacInv (step_perform c o s).
Proof.
  intros H. apply (FacInv_ext s); [| |exact H].
  - intros t. unfold step_perform. 
    assert (G : forall oa y, af (td (perform c oa y) t) = af (td y t)).
    { intros oa y. unfold perform. cbn [td with_td]. rewrite tab_spec. destruct (t <? nT c); [|reflexivity].
      destruct (is_working (st (td y t)) && (negb oa || t_auto c t)); reflexivity. }
    destruct (negb (mem (time s) (o_abs o))); [rewrite G; reflexivity|]. destruct (o_auto_abs o); [rewrite G|]; reflexivity.
  - intros k. unfold step_perform. destruct (negb (mem (time s) (o_abs o))); [reflexivity|]. destruct (o_auto_abs o); reflexivity.
Qed.

Lemma FacInv_initialize o s : o_init_state o = true -> FacInv (initialize c o s).
Proof.
  intros Hs t f Ht Hin. exfalso.
  unfold initialize in Hin. rewrite Hs in Hin. cbn [td with_cd] in Hin.
  match type of Hin with In f (af (td (check_ready c (update_pert c 0 ?x)) t)) => set (s1 := x) in * end.
  assert (E : af (td (check_ready c (update_pert c 0 s1)) t) = af (td s1 t)).
  { cbn [td check_ready with_td]. rewrite tab_spec. apply Nat.ltb_lt in Ht. rewrite Ht.
    destruct (keeps_update_pert c 0 s1 t) as (_ & _ & _ & E). 
    destruct (is_none (st (td (update_pert c 0 s1) t)) && ready_gate c (update_pert c 0 s1) t); cbn; exact E. }
  rewrite E in Hin. unfold s1 in Hin. cbn [td with_cpl] in Hin. rewrite tab_spec in Hin. apply Nat.ltb_lt in Ht. rewrite Ht in Hin.
  destruct (o_init_log o && exempt c t); cbn in Hin; exact Hin.
Qed.

Theorem FacInv_all_runs o s : o_init_state o = true ->
  Forall (fun ob : obs => FacInv (snd ob)) (snd (simulate c o s)).
Proof.
  intros Hs. destruct (simulate_trace c o s) as (tr & Htr & Esnd). rewrite Esnd.
  set (Q := fun x => AInv c x /\ PInv x /\ FacInv x).
  assert (H0 : Q (initialize c o s)).
  { split; [apply AInv_initialize; exact Hs|]. split; [apply PInv_initialize; exact Hs|apply FacInv_initialize; exact Hs]. }
  destruct (trace_invariant c o Q Q Q Q Q
              (fun x Hx => conj (AInv_update c o x (proj1 Hx))
                             (conj (PInv_update c o x (proj1 (proj2 Hx))) (FacInv_update o x (proj1 Hx) (proj1 (proj2 Hx)) (proj2 (proj2 Hx)))))
              (fun x Hx => conj (AInv_step_allocate c Hw_range Hw_nodup Hf_range o x (proj1 Hx))
                             (PF_step_allocate o x (proj1 (proj2 Hx)) (proj2 (proj2 Hx))))
              (fun x Hx => conj (AInv_step_perform c o x (proj1 Hx))
                             (conj (PInv_ext x (step_perform c o x)
                                      ltac:(intros k; unfold step_perform; destruct (negb (mem (time x) (o_abs o))); [reflexivity|destruct (o_auto_abs o); reflexivity])
                                      ltac:(unfold step_perform; destruct (negb (mem (time x) (o_abs o))); [reflexivity|destruct (o_auto_abs o); reflexivity])
                                      (proj1 (proj2 Hx)))
                                   (FacInv_step_perform o x (proj2 (proj2 Hx)))))
              (fun x Hx => conj (AInv_frame c x (step_record c o x) eq_refl eq_refl eq_refl (proj1 Hx))
                             (conj (PInv_ext x (step_record c o x) (fun k => eq_refl) eq_refl (proj1 (proj2 Hx)))
                                   (FacInv_ext x (step_record c o x) (fun t => eq_refl) (fun k => eq_refl) (proj2 (proj2 Hx)))))
              (fun x Hx => conj (AInv_frame c x (with_time x (S (time x))) eq_refl eq_refl eq_refl (proj1 Hx))
                             (conj (PInv_ext x (with_time x (S (time x))) (fun k => eq_refl) eq_refl (proj1 (proj2 Hx)))
                                   (FacInv_ext x (with_time x (S (time x))) (fun t => eq_refl) (fun k => eq_refl) (proj2 (proj2 Hx)))))
              _ _ _ Htr H0) as [Hall _].
  eapply Forall_impl; [|exact Hall]. intros [[k ph] sn]. cbn. destruct ph; intros (_ & _ & h); exact h.
Qed.

End Fac.

(* C08 / C17: reverse_log_information keeps every log aligned with the
   (reversed) history of recorded steps; histories with log reversal. *)
From Coq Require Import List ZArith QArith Bool Arith Lia.
From PV Require Import Model.Types Model.Sim Model.LogEdit Model.RevLog Proofs.Base Proofs.RunLemmas Proofs.LogsProof Proofs.C0708Proof.
Import ListNotations.
Open Scope nat_scope.

Section Rev.
Variable c : cfg.

Lemma LogsAre_reverse hc h s ab : LogsAre c hc h s -> LogsAre c (rev hc) (rev h) (snd (reverse_log c (ab, s))).
Proof.
  intros (H1 & H2 & H3 & H4 & H5 & H6 & H7 & H8). unfold reverse_log. cbn [snd]. unfold edit_logs, LogsAre.
  cbn [tl wl fl cl wpl teaml orgl costl].
  split; [|split; [|split; [|split; [|split; [|split; [|split]]]]]].
  - intros t Ht. rewrite tab_spec. pose proof Ht as Ht'. apply Nat.ltb_lt in Ht'. rewrite Ht'. rewrite (H1 t Ht).
    unfold rev_tlog, row_tlog. cbn [l_st l_rem l_aw l_af]. rewrite !map_rev. reflexivity.
  - intros w Hw. rewrite tab_spec. pose proof Hw as Hw'. apply Nat.ltb_lt in Hw'. rewrite Hw'. rewrite (H2 w Hw).
    unfold rev_rlog, row_wlog. cbn [rl_st rl_cost rl_asg]. rewrite !map_rev. reflexivity.
  - intros f Hf. rewrite tab_spec. pose proof Hf as Hf'. apply Nat.ltb_lt in Hf'. rewrite Hf'. rewrite (H3 f Hf).
    unfold rev_rlog, row_flog. cbn [rl_st rl_cost rl_asg]. rewrite !map_rev. reflexivity.
  - intros k Hk. rewrite tab_spec. pose proof Hk as Hk'. apply Nat.ltb_lt in Hk'. rewrite Hk'. rewrite (H4 k Hk).
    unfold rev_clog, row_clog. cbn [cl_st cl_pw]. rewrite !map_rev. reflexivity.
  - intros p Hp. rewrite tab_spec. pose proof Hp as Hp'. apply Nat.ltb_lt in Hp'. rewrite Hp'. rewrite (H5 p Hp).
    unfold rev_wplog, row_wplog. cbn [wl_cost wl_pc]. rewrite !map_rev. reflexivity.
  - intros g Hg. rewrite tab_spec. pose proof Hg as Hg'. apply Nat.ltb_lt in Hg'. rewrite Hg'. rewrite (H6 g Hg). rewrite map_rev. reflexivity.
  - rewrite H7, map_rev. reflexivity.
  - rewrite H8, map_rev. reflexivity.
Qed.

Lemma time_reverse ab s : time (snd (reverse_log c (ab, s))) = time s.
Proof. reflexivity. Qed.

Lemma live_reverse ab s :
  let s' := snd (reverse_log c (ab, s)) in
  td s' = td s /\ wd s' = wd s /\ fd s' = fd s /\ cd s' = cd s /\ wpc s' = wpc s /\ status s' = status s /\ cpl s' = cpl s.
Proof. cbv zeta. repeat split; reflexivity. Qed.

(* histories with log reversal (the absence list travels with the state) *)
Inductive rop := RSimulate (o : opts) | RInitialize (o : opts) | RReverse.
Definition apply_rop (e : estate) (x : rop) : estate :=
  match x with
  | RSimulate o => (o_abs o, fst (simulate c o (snd e)))
  | RInitialize o => (fst e, initialize c o (snd e))
  | RReverse => reverse_log c e
  end.

Theorem histories_with_reversal (ops : list rop) :
  AllLengths c (snd (fold_left apply_rop ops ([], blank c))).
Proof.
  assert (G : forall l e, (exists h, length h = time (snd e) /\ LogsAre c h h (snd e)) ->
                          exists h, length h = time (snd (fold_left apply_rop l e)) /\ LogsAre c h h (snd (fold_left apply_rop l e))).
  { induction l as [|x l IH]; intros e He; cbn [fold_left]; [exact He|].
    apply IH. destruct x; cbn [apply_rop snd].
    - apply Aligned_simulate. exact He.
    - apply Aligned_initialize. exact He.
    - destruct e as [ab s]. destruct He as (h & Hl & H). exists (rev h). split.
      + rewrite rev_length. exact Hl.
      + apply LogsAre_reverse. exact H. }
  destruct (G ops ([], blank c) (Aligned_blank c)) as (h & Hl & H).
  eapply LogsAre_lengths; eassumption.
Qed.

(* reversing twice restores every log of every object in range *)
Lemma reverse_twice ab s :
  let s2 := snd (reverse_log c (reverse_log c (ab, s))) in
  (forall t, t < nT c -> tl s2 t = tl s t) /\ (forall w, w < nW c -> wl s2 w = wl s w) /\ (forall f, f < nF c -> fl s2 f = fl s f)
  /\ (forall k, k < nC c -> cl s2 k = cl s k) /\ (forall p, p < nWP c -> wpl s2 p = wpl s p)
  /\ (forall g, g < nTeam c -> teaml s2 g = teaml s g) /\ orgl s2 = orgl s /\ costl s2 = costl s /\ time s2 = time s.
Proof.
  cbv zeta. unfold reverse_log. cbn [snd fst]. unfold edit_logs. cbn [tl wl fl cl wpl teaml orgl costl time].
  repeat split.
  - intros t Ht. rewrite !tab_spec. apply Nat.ltb_lt in Ht. rewrite Ht. unfold rev_tlog. cbn. rewrite !rev_involutive. destruct (tl s t); reflexivity.
  - intros w Hw. rewrite !tab_spec. apply Nat.ltb_lt in Hw. rewrite Hw. unfold rev_rlog. cbn. rewrite !rev_involutive. destruct (wl s w); reflexivity.
  - intros f Hf. rewrite !tab_spec. apply Nat.ltb_lt in Hf. rewrite Hf. unfold rev_rlog. cbn. rewrite !rev_involutive. destruct (fl s f); reflexivity.
  - intros k Hk. rewrite !tab_spec. apply Nat.ltb_lt in Hk. rewrite Hk. unfold rev_clog. cbn. rewrite !rev_involutive. destruct (cl s k); reflexivity.
  - intros p Hp. rewrite !tab_spec. apply Nat.ltb_lt in Hp. rewrite Hp. unfold rev_wplog. cbn. rewrite !rev_involutive. destruct (wpl s p); reflexivity.
  - intros g Hg. rewrite !tab_spec. apply Nat.ltb_lt in Hg. rewrite Hg. apply rev_involutive.
  - apply rev_involutive.
  - apply rev_involutive.
Qed.

End Rev.

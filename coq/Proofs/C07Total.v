(* C07, corollary: total project cost = sum over resources of
   cost_per_time x number of steps logged WORKING (up to Qeq). *)
From Coq Require Import List ZArith QArith Bool Arith Lia Lqa.
From PV Require Import Model.Types Model.Sim Proofs.Base Proofs.QSum Proofs.LogsProof.
Import ListNotations.

Section Total.
Variable c : cfg.
Variable h : list row.
Variable s : pstate.
Hypothesis HL : LogsAre c h h s.
Hypothesis Hworkers : forall g w, (g < nTeam c)%nat -> In w (team_workers c g) -> (w < nW c)%nat.
Hypothesis Hfacs : forall p f, (p < nWP c)%nat -> In f (wp_facs c p) -> (f < nF c)%nat.

Definition working_steps (l : list rstate) : nat := length (filter (fun d => rstate_eqb d RWorking) l).

Open Scope Q_scope.

Lemma total_split r :
  total c r == qsum (map (teamcost c r) (seq 0 (nTeam c))) + qsum (map (wpcost c r) (seq 0 (nWP c))).
Proof. unfold total. rewrite fold_plus_acc. rewrite (fold_plus_acc _ 0). ring. Qed.

Lemma worker_sum w : (w < nW c)%nat ->
  qsum (map (fun r => wcost c r w) h) == w_cost c w * inject_Z (Z.of_nat (working_steps (rl_st (wl s w)))).
Proof.
  intros Hw. destruct HL as (_ & H2 & _). rewrite (H2 w Hw). cbn [row_wlog rl_st].
  unfold working_steps. rewrite filter_map_length.
  rewrite <- (qsum_indicator (fun r : row => rstate_eqb (disp_r (fst r) (rst (wd (snd r) w))) RWorking) (w_cost c w) h).
  apply qsum_map_ext. intros r _. unfold wcost, rcost, disp_r.
  destruct (fst r); cbn [andb]; [reflexivity|reflexivity].
Qed.

Lemma facility_sum f : (f < nF c)%nat ->
  qsum (map (fun r => fcost c r f) h) == f_cost c f * inject_Z (Z.of_nat (working_steps (rl_st (fl s f)))).
Proof.
  intros Hf. destruct HL as (_ & _ & H3 & _). rewrite (H3 f Hf). cbn [row_flog rl_st].
  unfold working_steps. rewrite filter_map_length.
  rewrite <- (qsum_indicator (fun r : row => rstate_eqb (disp_r (fst r) (rst (fd (snd r) f))) RWorking) (f_cost c f) h).
  apply qsum_map_ext. intros r _. unfold fcost, rcost, disp_r.
  destruct (fst r); cbn [andb]; reflexivity.
Qed.

Theorem total_cost_is_rate_times_working_steps :
  qsum (costl s) ==
  qsum (map (fun w => w_cost c w * inject_Z (Z.of_nat (working_steps (rl_st (wl s w))))) (all_workers c))
  + qsum (map (fun f => f_cost c f * inject_Z (Z.of_nat (working_steps (rl_st (fl s f))))) (all_facs c)).
Proof.
  assert (E : costl s = map (total c) h) by (destruct HL as (_ & _ & _ & _ & _ & _ & _ & H8); exact H8).
  rewrite E.
  rewrite (qsum_map_ext (total c) _ h (fun r _ => total_split r)).
  rewrite qsum_map_plus.
  apply Qplus_comp.
  - rewrite (qsum_swap (fun r g => teamcost c r g) h (seq 0 (nTeam c))).
    unfold all_workers. rewrite qsum_flat_map.
    apply qsum_map_ext. intros g Hg. apply in_seq in Hg.
    unfold teamcost. rewrite (qsum_swap (fun r w => wcost c r w) h (team_workers c g)).
    apply qsum_map_ext. intros w Hw. apply worker_sum. apply (Hworkers g); [lia|exact Hw].
  - rewrite (qsum_swap (fun r p => wpcost c r p) h (seq 0 (nWP c))).
    unfold all_facs. rewrite qsum_flat_map.
    apply qsum_map_ext. intros p Hp. apply in_seq in Hp.
    unfold wpcost. rewrite (qsum_swap (fun r f => fcost c r f) h (wp_facs c p)).
    apply qsum_map_ext. intros f Hf. apply facility_sum. apply (Hfacs p); [lia|exact Hf].
Qed.

End Total.

(* C09: __check_working iterates over a Python set of tasks; the visits
   commute pairwise, so any visiting order gives the same project state. *)
From Coq Require Import List ZArith QArith Bool Arith Lia Permutation FunctionalExtensionality.
From PV Require Import Model.Types Model.Sim Proofs.Base Proofs.Frames Proofs.Proj Proofs.C03Res Proofs.C09Proof.
Import ListNotations.
Open Scope nat_scope.

Section CW.
Variable c : cfg.

(* what a visit does to the state of one worker / facility *)
Inductive rop := RSet | RF2W | RId.
Definition app_op (o : rop) (x : rstate) : rstate :=
  match o with RSet => RWorking | RF2W => if rstate_eqb x RFree then RWorking else x | RId => x end.

Lemma app_op_comm o1 o2 x : app_op o1 (app_op o2 x) = app_op o2 (app_op o1 x).
Proof. destruct o1, o2, x; reflexivity. Qed.

Definition wop (x : pstate) (t w : nat) : rop :=
  if mem w (aw (td x t)) then
    (if is_ready (st (td x t)) then RSet else if is_working (st (td x t)) then RF2W else RId)
  else RId.
Definition fop (x : pstate) (t f : nat) : rop :=
  if mem f (af (td x t)) && t_needfac c t then
    (if is_ready (st (td x t)) then RSet
     else if is_working (st (td x t)) && negb (match aw (td x t) with [] => true | _ => false end) then RF2W else RId)
  else RId.

Lemma rst_wd_op x t w : rst (wd (cw_one c x t) w) = app_op (wop x t w) (rst (wd x w)).
Proof.
  rewrite rst_wd_cw_one. unfold wop. destruct (mem w (aw (td x t))); [|reflexivity].
  destruct (is_ready (st (td x t))); [reflexivity|]. destruct (is_working (st (td x t))); reflexivity.
Qed.
Lemma rst_fd_op x t f : rst (fd (cw_one c x t) f) = app_op (fop x t f) (rst (fd x f)).
Proof.
  rewrite rst_fd_cw_one. unfold fop. destruct (mem f (af (td x t)) && t_needfac c t); [|reflexivity].
  destruct (is_ready (st (td x t))); [reflexivity|].
  destruct (is_working (st (td x t)) && negb match aw (td x t) with [] => true | _ :: _ => false end); reflexivity.
Qed.

Lemma asg_set_rst_fold (d : nat -> rlive) l v r : asg (fold_left (fun d w => set_rst d w v) l d r) = asg (d r).
Proof.
  revert d. induction l as [|x l IH]; intros d; cbn [fold_left]; [reflexivity|].
  rewrite IH. unfold set_rst. rewrite upd_eq. destruct (Nat.eqb r x) eqn:E; [apply Nat.eqb_eq in E; subst; reflexivity|reflexivity].
Qed.
Lemma asg_f2w_fold (d : nat -> rlive) l r : asg (fold_left free_to_working l d r) = asg (d r).
Proof.
  revert d. induction l as [|x l IH]; intros d; cbn [fold_left]; [reflexivity|].
  rewrite IH. unfold free_to_working. destruct (rstate_eqb (rst (d x)) RFree); [|reflexivity].
  unfold set_rst. rewrite upd_eq. destruct (Nat.eqb r x) eqn:E; [apply Nat.eqb_eq in E; subst; reflexivity|reflexivity].
Qed.

Lemma asg_wd_cw_one x t w : asg (wd (cw_one c x t) w) = asg (wd x w).
Proof.
  unfold cw_one. destruct (is_ready (st (td x t))).
  - destruct (t_needfac c t); cbn [wd with_wd with_fd with_td]; apply asg_set_rst_fold.
  - destruct (is_working (st (td x t))); [|reflexivity].
    destruct (t_needfac c t && negb match aw (td x t) with [] => true | _ :: _ => false end); cbn [wd with_wd with_fd]; apply asg_f2w_fold.
Qed.
Lemma asg_fd_cw_one x t f : asg (fd (cw_one c x t) f) = asg (fd x f).
Proof.
  unfold cw_one. destruct (is_ready (st (td x t))).
  - destruct (t_needfac c t); cbn [fd with_wd with_fd with_td]; [apply asg_set_rst_fold|reflexivity].
  - destruct (is_working (st (td x t))); [|reflexivity].
    destruct (t_needfac c t && negb match aw (td x t) with [] => true | _ :: _ => false end); cbn [fd with_wd with_fd]; [apply asg_f2w_fold|reflexivity].
Qed.

Lemma td_cw_one x t i :
  td (cw_one c x t) i = if Nat.eqb i t && is_ready (st (td x t)) then set_st (td x t) TWorking else td x i.
Proof.
  unfold cw_one. destruct (is_ready (st (td x t))).
  - rewrite andb_true_r. destruct (t_needfac c t); cbn [td with_td with_wd with_fd]; rewrite upd_eq;
      destruct (Nat.eqb i t); reflexivity.
  - rewrite andb_false_r. destruct (is_working (st (td x t))); [|reflexivity].
    destruct (t_needfac c t && negb match aw (td x t) with [] => true | _ :: _ => false end); reflexivity.
Qed.

Lemma td_cw_one_other x a b : a <> b -> td (cw_one c x a) b = td x b.
Proof. intros H. rewrite td_cw_one. assert (E : Nat.eqb b a = false) by (apply Nat.eqb_neq; congruence). rewrite E. reflexivity. Qed.

Lemma rl_eq (x y : rlive) : rst x = rst y -> asg x = asg y -> x = y.
Proof. destruct x, y. cbn. intros -> ->. reflexivity. Qed.

(* two visits commute *)
Theorem cw_one_comm s a b : cw_one c (cw_one c s a) b = cw_one c (cw_one c s b) a.
Proof.
  destruct (Nat.eq_dec a b) as [->|Hne]; [reflexivity|].
  assert (Hba : td (cw_one c s a) b = td s b) by (apply td_cw_one_other; exact Hne).
  assert (Hab : td (cw_one c s b) a = td s a) by (apply td_cw_one_other; congruence).
  apply pstate_eq;
    try (rewrite !(pi_cw_one c _ time) by reflexivity; reflexivity);
    try (rewrite !(pi_cw_one c _ status) by reflexivity; reflexivity);
    try (rewrite !(pi_cw_one c _ cpl) by reflexivity; reflexivity);
    try (rewrite !(pi_cw_one c _ orgl) by reflexivity; reflexivity);
    try (rewrite !(pi_cw_one c _ costl) by reflexivity; reflexivity).
  - intros i. rewrite (td_cw_one (cw_one c s a) b i), (td_cw_one (cw_one c s b) a i), Hba, Hab, (td_cw_one s a i), (td_cw_one s b i).
    destruct (Nat.eqb i a) eqn:Ea; destruct (Nat.eqb i b) eqn:Eb; cbn [andb].
    + apply Nat.eqb_eq in Ea, Eb. congruence.
    + destruct (is_ready (st (td s a))); reflexivity.
    + destruct (is_ready (st (td s b))); reflexivity.
    + reflexivity.
  - intros w. apply rl_eq.
    + rewrite !rst_wd_op. unfold wop at 1 3. rewrite Hba, Hab. fold (wop s b w). fold (wop s a w). apply app_op_comm.
    + rewrite !asg_wd_cw_one. reflexivity.
  - intros f. apply rl_eq.
    + rewrite !rst_fd_op. unfold fop at 1 3. rewrite Hba, Hab. fold (fop s b f). fold (fop s a f). apply app_op_comm.
    + rewrite !asg_fd_cw_one. reflexivity.
  - intros i. rewrite !(pi_cw_one c _ (fun x => cd x i)) by reflexivity. reflexivity.
  - intros i. rewrite !(pi_cw_one c _ (fun x => wpc x i)) by reflexivity. reflexivity.
  - intros i. rewrite !(pi_cw_one c _ (fun x => tl x i)) by reflexivity. reflexivity.
  - intros i. rewrite !(pi_cw_one c _ (fun x => wl x i)) by reflexivity. reflexivity.
  - intros i. rewrite !(pi_cw_one c _ (fun x => fl x i)) by reflexivity. reflexivity.
  - intros i. rewrite !(pi_cw_one c _ (fun x => cl x i)) by reflexivity. reflexivity.
  - intros i. rewrite !(pi_cw_one c _ (fun x => wpl x i)) by reflexivity. reflexivity.
  - intros i. rewrite !(pi_cw_one c _ (fun x => teaml x i)) by reflexivity. reflexivity.
Qed.

(* the target set may be visited in any order *)
Theorem check_working_any_order s order :
  Permutation order (filter (cw_target c s) (tasks c)) -> fold_left (cw_one c) order s = check_working c s.
Proof. intros P. unfold check_working. apply fold_commute_perm; [intros x a b; apply cw_one_comm|exact P]. Qed.

End CW.

(* C18, addition: after a whole insertion pass every really inserted step
   holds a zero cost entry (list level, for the ascending duplicate-free step
   list the project editor uses). *)
From Coq Require Import List ZArith QArith Bool Arith Lia Permutation Sorted.
From PV Require Import Model.Types Model.Sim Model.LogEdit Proofs.Base Proofs.SortProof Proofs.C0708Proof Proofs.C18Proof.
Import ListNotations.
Open Scope nat_scope.

Lemma ssorted_snoc (pre : list nat) k : StronglySorted lt (pre ++ [k]) ->
  StronglySorted lt pre /\ (forall j, In j pre -> j < k).
Proof.
  induction pre as [|x pre IH]; cbn [app]; intros H; [split; [constructor|intros j []]|].
  inversion H as [|? ? Hs Hf]; subst. destruct (IH Hs) as [Hp Hlt]. split.
  - constructor; [exact Hp|]. rewrite Forall_forall in *. intros z Hz. apply Hf. apply in_or_app. left. exact Hz.
  - intros j [<-|Hj]; [|apply Hlt, Hj]. rewrite Forall_forall in Hf. apply Hf. apply in_or_app. right. left. reflexivity.
Qed.

Theorem inserted_steps_are_zero_cost steps : StronglySorted lt steps -> forall (l : list Q) j,
  In j steps -> j < length l -> nth j (ins_seq (fun _ _ => 0%Q) steps l) 1%Q = 0%Q.
Proof.
  induction steps as [|k pre IH] using rev_ind; intros Hs l j Hin Hj; [destruct Hin|].
  destruct (ssorted_snoc pre k Hs) as [Hp Hlt].
  unfold ins_seq. rewrite fold_left_app. cbn [fold_left]. fold (ins_seq (fun _ _ => 0%Q) pre l).
  set (L := ins_seq (fun _ _ => 0%Q) pre l).
  assert (HL : length l <= length L).
  { unfold L. rewrite ins_seq_length. apply len_ins_ge. }
  apply in_app_or in Hin. destruct Hin as [Hin|[<-|[]]].
  - rewrite (later_insertions_keep_earlier_entries (fun _ _ => 0%Q) L j k 1%Q (Hlt j Hin)).
    apply IH; assumption.
  - apply (inserted_step_is_dead (fun _ _ => 0%Q) k L). lia.
Qed.

Lemma ssorted_leb_nodup_lt (l : list nat) :
  StronglySorted (fun a b => Nat.leb a b = true) l -> NoDup l -> StronglySorted lt l.
Proof.
  induction 1 as [|x l Hs IH Hf]; intros Hn; [constructor|].
  inversion Hn as [|? ? Hx Hn']; subst. constructor; [apply IH, Hn'|].
  rewrite Forall_forall in *. intros z Hz. pose proof (Hf z Hz) as Hle. apply Nat.leb_le in Hle.
  assert (z <> x) by (intros ->; apply Hx, Hz). lia.
Qed.

Lemma edit_steps_strictly_ascending ab l :
  StronglySorted lt (stable_sort nat Nat.leb (new_steps ab [] l)).
Proof.
  apply ssorted_leb_nodup_lt.
  - apply (stable_sort_sorted nat Nat.leb).
    + intros a b. destruct (Nat.leb a b) eqn:E; [left; reflexivity|right]. apply Nat.leb_le. apply Nat.leb_gt in E. lia.
    + intros a b d H1 H2. apply Nat.leb_le in H1, H2. apply Nat.leb_le. lia.
  - apply stable_sort_nodup. apply new_steps_nodup. constructor.
Qed.

(* project level: every new step that lies inside the run is a zero-cost step
   of the project, the organization and every team *)
Theorem inserted_steps_cost_nothing c l ab s j : Lens c s (time s) ->
  In j (new_steps ab [] l) -> j < time s ->
  let s' := snd (insert_absence c l (ab, s)) in
  nth j (costl s') 1%Q = 0%Q /\ nth j (orgl s') 1%Q = 0%Q
  /\ (forall g, g < nTeam c -> nth j (teaml s' g) 1%Q = 0%Q).
Proof.
  intros (_ & _ & _ & _ & _ & H6 & H7 & H8) Hin Hj. cbv zeta.
  unfold insert_absence, edit_logs. cbn [snd costl orgl teaml].
  set (steps := stable_sort nat Nat.leb (new_steps ab [] l)).
  assert (Hs : StronglySorted lt steps) by apply edit_steps_strictly_ascending.
  assert (Hi : In j steps) by (apply (stable_sort_in nat Nat.leb); exact Hin).
  unfold cost_insert.
  split; [apply inserted_steps_are_zero_cost; [exact Hs|exact Hi|rewrite H8; exact Hj]|].
  split; [apply inserted_steps_are_zero_cost; [exact Hs|exact Hi|rewrite H7; exact Hj]|].
  intros g Hg. rewrite tab_spec. pose proof Hg as Hg'. apply Nat.ltb_lt in Hg'. rewrite Hg'.
  apply inserted_steps_are_zero_cost; [exact Hs|exact Hi|rewrite (H6 g Hg); exact Hj].
Qed.

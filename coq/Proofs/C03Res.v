(* C03 (d): after the allocation phase of a step a worker / facility is ABSENCE
   exactly when it is absent at that step, and otherwise WORKING exactly when it
   holds a task (FREE when it holds none). *)
From Coq Require Import List ZArith QArith Bool Arith Lia Permutation.
From PV Require Import Model.Types Model.Sim Proofs.Base Proofs.Frames Proofs.Proj Proofs.RunLemmas Proofs.C01Proof
  Proofs.AllocInv Proofs.AllocStruct Proofs.C04Proof Proofs.LogsProof.
Import ListNotations.
Open Scope nat_scope.

(* the state a resource should show at step k *)
Definition Rexp (working : bool) (k : nat) (abs : list nat) (x : rlive) : rstate :=
  if negb working || mem k abs then RAbsence else match asg x with [] => RFree | _ => RWorking end.

Lemma rst_set_rst_fold (d : nat -> rlive) l v r :
  rst (fold_left (fun d w => set_rst d w v) l d r) = if mem r l then v else rst (d r).
Proof.
  revert d. induction l as [|x l IH]; intros d; cbn [fold_left]; [reflexivity|].
  rewrite IH. unfold mem at 2. cbn [existsb]. fold (mem r l). unfold set_rst. rewrite upd_eq.
  destruct (mem r l); [rewrite orb_true_r; reflexivity|]. rewrite orb_false_r. destruct (Nat.eqb r x); reflexivity.
Qed.
Lemma rst_free_to_working_fold (d : nat -> rlive) l r :
  rst (fold_left free_to_working l d r) = if mem r l && rstate_eqb (rst (d r)) RFree then RWorking else rst (d r).
Proof.
  revert d. induction l as [|x l IH]; intros d; cbn [fold_left]; [reflexivity|].
  rewrite IH. unfold mem at 2. cbn [existsb]. fold (mem r l).
  unfold free_to_working. destruct (rstate_eqb (rst (d x)) RFree) eqn:Ex.
  - unfold set_rst. rewrite upd_eq. destruct (Nat.eqb r x) eqn:E.
    + apply Nat.eqb_eq in E. subst x. cbn [rst]. rewrite Ex. cbn [rstate_eqb orb andb]. rewrite andb_false_r. reflexivity.
    + cbn [orb]. reflexivity.
  - destruct (Nat.eqb r x) eqn:E; [|reflexivity]. apply Nat.eqb_eq in E. subst x. rewrite Ex, !andb_false_r. reflexivity.
Qed.

Section C03Res.
Variable c : cfg.
Hypothesis Hw_range : forall w, In w (all_workers c) -> w < nW c.
Hypothesis Hw_nodup : NoDup (all_workers c).
Hypothesis Hf_range : forall p f, In f (wp_facs c p) -> f < nF c.

(* --------------------------------------------------- cw_one on one resource *)
Lemma rst_wd_cw_one x t w :
  rst (wd (cw_one c x t) w) =
  if mem w (aw (td x t)) then
    (if is_ready (st (td x t)) then RWorking
     else if is_working (st (td x t)) && rstate_eqb (rst (wd x w)) RFree then RWorking else rst (wd x w))
  else rst (wd x w).
Proof.
  unfold cw_one. destruct (is_ready (st (td x t))) eqn:Er.
  - destruct (t_needfac c t); cbn [wd with_wd with_fd with_td]; rewrite rst_set_rst_fold; destruct (mem w (aw (td x t))); reflexivity.
  - destruct (is_working (st (td x t))) eqn:Ew; [|destruct (mem w (aw (td x t))); reflexivity].
    destruct (t_needfac c t && negb match aw (td x t) with [] => true | _ :: _ => false end);
      cbn [wd with_wd with_fd]; rewrite rst_free_to_working_fold; destruct (mem w (aw (td x t))); reflexivity.
Qed.

Lemma rst_fd_cw_one x t f :
  rst (fd (cw_one c x t) f) =
  if mem f (af (td x t)) && t_needfac c t then
    (if is_ready (st (td x t)) then RWorking
     else if is_working (st (td x t)) && negb (match aw (td x t) with [] => true | _ => false end)
             && rstate_eqb (rst (fd x f)) RFree then RWorking else rst (fd x f))
  else rst (fd x f).
Proof.
  unfold cw_one. destruct (is_ready (st (td x t))) eqn:Er.
  - destruct (t_needfac c t); cbn [fd with_wd with_fd with_td]; [rewrite rst_set_rst_fold|rewrite andb_false_r; reflexivity].
    destruct (mem f (af (td x t))); reflexivity.
  - destruct (is_working (st (td x t))) eqn:Ew; [|destruct (mem f (af (td x t)) && t_needfac c t); reflexivity].
    destruct (t_needfac c t) eqn:En; cbn [andb].
    + destruct (negb match aw (td x t) with [] => true | _ :: _ => false end) eqn:Ea; cbn [fd with_wd with_fd].
      * rewrite rst_free_to_working_fold, andb_true_r. destruct (mem f (af (td x t))); reflexivity.
      * rewrite andb_true_r. destruct (mem f (af (td x t))); reflexivity.
    + rewrite andb_false_r. reflexivity.
Qed.

Lemma lists_cw_one x t t' : aw (td (cw_one c x t) t') = aw (td x t') /\ af (td (cw_one c x t) t') = af (td x t').
Proof.
  unfold cw_one. destruct (is_ready (st (td x t))).
  - destruct (t_needfac c t); cbn [td with_td with_wd with_fd]; rewrite upd_eq;
      destruct (Nat.eqb t' t) eqn:E; try (split; reflexivity); apply Nat.eqb_eq in E; subst; split; reflexivity.
  - destruct (is_working (st (td x t))); [|split; reflexivity].
    destruct (t_needfac c t && negb match aw (td x t) with [] => true | _ :: _ => false end); split; reflexivity.
Qed.

(* what the fold needs to know about the states it passes through *)
Definition J (s x : pstate) : Prop :=
  AInv c x /\ (forall t, aw (td x t) = aw (td s t) /\ af (td x t) = af (td s t))
  /\ (forall r, asg (wd x r) = asg (wd s r)) /\ (forall f, asg (fd x f) = asg (fd s f)).

Lemma J_refl s : AInv c s -> J s s.
Proof. intros H. split; [exact H|]. split; [intros t; split; reflexivity|split; intros; reflexivity]. Qed.

Lemma J_cw_one s x t : J s x -> J s (cw_one c x t).
Proof.
  intros (A & L & W & F). pose proof (AInv_cw_one c x t A) as A'.
  split; [exact A'|]. split; [intros t'; destruct (lists_cw_one x t t') as [E1 E2]; destruct (L t') as [L1 L2]; split; congruence|].
  split.
  - intros r. rewrite <- W. unfold cw_one. destruct (is_ready (st (td x t))).
    + destruct (t_needfac c t); cbn [wd with_td with_wd with_fd]; apply asg_set_rst_fold.
    + destruct (is_working (st (td x t))); [|reflexivity].
      destruct (t_needfac c t && negb match aw (td x t) with [] => true | _ :: _ => false end);
        cbn [wd with_wd with_fd]; apply asg_free_to_working_fold.
  - intros f. rewrite <- F. unfold cw_one. destruct (is_ready (st (td x t))).
    + destruct (t_needfac c t); cbn [fd with_td with_wd with_fd]; [apply asg_set_rst_fold|reflexivity].
    + destruct (is_working (st (td x t))); [|reflexivity].
      destruct (t_needfac c t && negb match aw (td x t) with [] => true | _ :: _ => false end);
        cbn [fd with_wd with_fd]; [apply asg_free_to_working_fold|reflexivity].
Qed.

(* tasks other than the holder do not touch the resource *)
Lemma fold_other_w s w t0 l : (forall t, In t l -> t < nT c /\ t <> t0) ->
  (forall t, t < nT c -> In w (aw (td s t)) -> t = t0) ->
  forall x, J s x ->
  rst (wd (fold_left (cw_one c) l x) w) = rst (wd x w) /\ stof (fold_left (cw_one c) l x) t0 = stof x t0 /\ J s (fold_left (cw_one c) l x).
Proof.
  intros Hl Hown. induction l as [|t l IH]; intros x HJ; cbn [fold_left]; [split; [reflexivity|split; [reflexivity|exact HJ]]|].
  destruct (Hl t (or_introl eq_refl)) as [Ht Hne].
  destruct (IH (fun y Hy => Hl y (or_intror Hy)) (cw_one c x t) (J_cw_one s x t HJ)) as (I1 & I2 & I3).
  split; [|split; [|exact I3]].
  - rewrite I1, rst_wd_cw_one. destruct HJ as (_ & L & _). rewrite (proj1 (L t)).
    destruct (mem w (aw (td s t))) eqn:Em; [|reflexivity]. apply mem_In in Em. exfalso. apply Hne. apply (Hown t Ht Em).
  - rewrite I2, stof_cw_one. assert (E : Nat.eqb t0 t = false) by (apply Nat.eqb_neq; congruence). rewrite E. reflexivity.
Qed.

Lemma fold_other_f s f t0 l : (forall t, In t l -> t < nT c /\ t <> t0) ->
  (forall t, t < nT c -> In f (af (td s t)) -> t = t0) ->
  forall x, J s x ->
  rst (fd (fold_left (cw_one c) l x) f) = rst (fd x f) /\ stof (fold_left (cw_one c) l x) t0 = stof x t0 /\ J s (fold_left (cw_one c) l x).
Proof.
  intros Hl Hown. induction l as [|t l IH]; intros x HJ; cbn [fold_left]; [split; [reflexivity|split; [reflexivity|exact HJ]]|].
  destruct (Hl t (or_introl eq_refl)) as [Ht Hne].
  destruct (IH (fun y Hy => Hl y (or_intror Hy)) (cw_one c x t) (J_cw_one s x t HJ)) as (I1 & I2 & I3).
  split; [|split; [|exact I3]].
  - rewrite I1, rst_fd_cw_one. destruct HJ as (_ & L & _). rewrite (proj2 (L t)).
    destruct (mem f (af (td s t))) eqn:Em; [|reflexivity]. apply mem_In in Em. exfalso. apply Hne. apply (Hown t Ht Em).
  - rewrite I2, stof_cw_one. assert (E : Nat.eqb t0 t = false) by (apply Nat.eqb_neq; congruence). rewrite E. reflexivity.
Qed.

Lemma targets_range s t : In t (filter (cw_target c s) (tasks c)) -> t < nT c.
Proof. intros H. apply filter_In in H. destruct H as [H _]. unfold tasks in H. apply in_seq in H. lia. Qed.

Lemma NoDup_split_notin {A} (l1 l2 : list A) x : NoDup (l1 ++ x :: l2) -> ~ In x l1 /\ ~ In x l2.
Proof.
  intros H. apply NoDup_remove in H. destruct H as [_ H]. split; intros F; apply H; apply in_or_app; [left|right]; exact F.
Qed.

(* ---------------------------------------------------------- check_working *)
Definition NoWAdd (s : pstate) : Prop := forall t, t < nT c -> stof s t <> TWorkingAdd.

Theorem cw_worker s w : AInv c s -> NoWAdd s -> w < nW c ->
  rst (wd (check_working c s) w) =
  match asg (wd s w) with
  | [] => rst (wd s w)
  | t :: _ => if is_ready (stof s t) then RWorking
              else if is_working (stof s t) && rstate_eqb (rst (wd s w)) RFree then RWorking else rst (wd s w)
  end.
Proof.
  intros HA HN Hw. unfold check_working.
  destruct (asg (wd s w)) as [|t0 r] eqn:Easg.
  - (* nobody lists w *)
    assert (G : forall l x, (forall t, In t l -> t < nT c) -> J s x -> rst (wd (fold_left (cw_one c) l x) w) = rst (wd x w)).
    { induction l as [|t l IH]; intros x Hl HJ; cbn [fold_left]; [reflexivity|].
      rewrite IH; [|intros y Hy; apply Hl; right; exact Hy|apply J_cw_one; exact HJ].
      rewrite rst_wd_cw_one. destruct HJ as (_ & L & _). rewrite (proj1 (L t)).
      destruct (mem w (aw (td s t))) eqn:Em; [|reflexivity]. apply mem_In in Em.
      destruct (a_w1 c s HA t w (Hl t (or_introl eq_refl)) Em) as [_ Hin]. rewrite Easg in Hin. destruct Hin. }
    apply G; [intros t Ht; apply (targets_range s t Ht)|apply J_refl; exact HA].
  - assert (Hin0 : In t0 (asg (wd s w))) by (rewrite Easg; left; reflexivity).
    destruct (a_w2 c s HA w t0 Hw Hin0) as [Ht0 Hw0].
    assert (Hone : r = []).
    { pose proof (a_wx c s HA w Hw) as Hl. rewrite Easg in Hl. cbn in Hl. destruct r; [reflexivity|cbn in Hl; lia]. }
    assert (Hown : forall t, t < nT c -> In w (aw (td s t)) -> t = t0).
    { intros t Ht Hin. destruct (a_w1 c s HA t w Ht Hin) as [_ Hin']. rewrite Easg, Hone in Hin'. destruct Hin' as [E|[]]. congruence. }
    assert (Hhold : holder_ok (st (td s t0)) = true) by (apply (a_hold c s HA t0 Ht0); left; intros E; rewrite E in Hw0; destruct Hw0).
    assert (Hne : aw (td s t0) <> []) by (intros E; rewrite E in Hw0; destruct Hw0).
    assert (Htgt : In t0 (filter (cw_target c s) (tasks c))).
    { apply filter_In. split; [unfold tasks; apply in_seq; lia|]. unfold cw_target.
      destruct (aw (td s t0)) as [|a b] eqn:Ea; [congruence|]. cbn [negb andb].
      pose proof (HN t0 Ht0) as Hn0. unfold stof in Hn0.
      unfold holder_ok in Hhold. destruct (st (td s t0)); cbn in *; try discriminate; try congruence; rewrite ?orb_true_r; reflexivity. }
    destruct (in_split _ _ Htgt) as (l1 & l2 & El).
    assert (Hnd : NoDup (l1 ++ t0 :: l2)) by (rewrite <- El; apply NoDup_filter, seq_NoDup).
    destruct (NoDup_split_notin l1 l2 t0 Hnd) as [N1 N2].
    assert (R1 : forall t, In t l1 -> t < nT c /\ t <> t0).
    { intros t Ht. split; [apply (targets_range s); rewrite El; apply in_or_app; left; exact Ht|intros ->; contradiction]. }
    assert (R2 : forall t, In t l2 -> t < nT c /\ t <> t0).
    { intros t Ht. split; [apply (targets_range s); rewrite El; apply in_or_app; right; right; exact Ht|intros ->; contradiction]. }
    rewrite El, fold_left_app. cbn [fold_left].
    destruct (fold_other_w s w t0 l1 R1 Hown s (J_refl s HA)) as (A1 & A2 & A3).
    set (x1 := fold_left (cw_one c) l1 s) in *.
    destruct (fold_other_w s w t0 l2 R2 Hown (cw_one c x1 t0) (J_cw_one s x1 t0 A3)) as (B1 & _ & _).
    rewrite B1, rst_wd_cw_one. destruct A3 as (_ & L & _). rewrite (proj1 (L t0)).
    apply mem_In in Hw0. rewrite Hw0. unfold stof in *. rewrite A2, A1. reflexivity.
Qed.

Theorem cw_facility s f : AInv c s -> NoWAdd s -> SoloPair c s -> f < nF c ->
  rst (fd (check_working c s) f) =
  match asg (fd s f) with
  | [] => rst (fd s f)
  | t :: _ => if is_ready (stof s t) then RWorking
              else if is_working (stof s t) && rstate_eqb (rst (fd s f)) RFree then RWorking else rst (fd s f)
  end.
Proof.
  intros HA HN HS Hf. unfold check_working.
  destruct (asg (fd s f)) as [|t0 r] eqn:Easg.
  - assert (G : forall l x, (forall t, In t l -> t < nT c) -> J s x -> rst (fd (fold_left (cw_one c) l x) f) = rst (fd x f)).
    { induction l as [|t l IH]; intros x Hl HJ; cbn [fold_left]; [reflexivity|].
      rewrite IH; [|intros y Hy; apply Hl; right; exact Hy|apply J_cw_one; exact HJ].
      rewrite rst_fd_cw_one. destruct HJ as (_ & L & _). rewrite (proj2 (L t)).
      destruct (mem f (af (td s t))) eqn:Em; [|reflexivity]. apply mem_In in Em.
      destruct (a_f1 c s HA t f (Hl t (or_introl eq_refl)) Em) as [_ Hin]. rewrite Easg in Hin. destruct Hin. }
    apply G; [intros t Ht; apply (targets_range s t Ht)|apply J_refl; exact HA].
  - assert (Hin0 : In t0 (asg (fd s f))) by (rewrite Easg; left; reflexivity).
    destruct (a_f2 c s HA f t0 Hf Hin0) as [Ht0 Hf0].
    assert (Hone : r = []).
    { pose proof (a_fx c s HA f Hf) as Hl. rewrite Easg in Hl. cbn in Hl. destruct r; [reflexivity|cbn in Hl; lia]. }
    assert (Hown : forall t, t < nT c -> In f (af (td s t)) -> t = t0).
    { intros t Ht Hin. destruct (a_f1 c s HA t f Ht Hin) as [_ Hin']. rewrite Easg, Hone in Hin'. destruct Hin' as [E|[]]. congruence. }
    assert (Hnf : t_needfac c t0 = true).
    { destruct (t_needfac c t0) eqn:E; [reflexivity|]. rewrite (a_nofac c s HA t0 Ht0 E) in Hf0. destruct Hf0. }
    assert (Hne : aw (td s t0) <> []).
    { destruct (HS t0 Ht0) as (_ & _ & Hp). specialize (Hp Hnf). intros E. rewrite E in Hp.
      destruct (af (td s t0)) as [|a b]; [destruct Hf0|inversion Hp]. }
    assert (Hhold : holder_ok (st (td s t0)) = true) by (apply (a_hold c s HA t0 Ht0); left; exact Hne).
    assert (Htgt : In t0 (filter (cw_target c s) (tasks c))).
    { apply filter_In. split; [unfold tasks; apply in_seq; lia|]. unfold cw_target.
      destruct (aw (td s t0)) as [|a b] eqn:Ea; [congruence|]. cbn [negb andb].
      pose proof (HN t0 Ht0) as Hn0. unfold stof in Hn0.
      unfold holder_ok in Hhold. destruct (st (td s t0)); cbn in *; try discriminate; try congruence; rewrite ?orb_true_r; reflexivity. }
    destruct (in_split _ _ Htgt) as (l1 & l2 & El).
    assert (Hnd : NoDup (l1 ++ t0 :: l2)) by (rewrite <- El; apply NoDup_filter, seq_NoDup).
    destruct (NoDup_split_notin l1 l2 t0 Hnd) as [N1 N2].
    assert (R1 : forall t, In t l1 -> t < nT c /\ t <> t0).
    { intros t Ht. split; [apply (targets_range s); rewrite El; apply in_or_app; left; exact Ht|intros ->; contradiction]. }
    assert (R2 : forall t, In t l2 -> t < nT c /\ t <> t0).
    { intros t Ht. split; [apply (targets_range s); rewrite El; apply in_or_app; right; right; exact Ht|intros ->; contradiction]. }
    rewrite El, fold_left_app. cbn [fold_left].
    destruct (fold_other_f s f t0 l1 R1 Hown s (J_refl s HA)) as (A1 & A2 & A3).
    set (x1 := fold_left (cw_one c) l1 s) in *.
    destruct (fold_other_f s f t0 l2 R2 Hown (cw_one c x1 t0) (J_cw_one s x1 t0 A3)) as (B1 & _ & _).
    rewrite B1, rst_fd_cw_one. destruct A3 as (_ & L & _). rewrite (proj2 (L t0)), (proj1 (L t0)).
    apply mem_In in Hf0. rewrite Hf0, Hnf. cbn [andb]. unfold stof in *. rewrite A2, A1.
    destruct (aw (td s t0)); [congruence|]. cbn [negb]. rewrite andb_true_r. reflexivity.
Qed.


(* ------------------------------------------------------- the allocate phase *)
Definition ReadyClean (s : pstate) : Prop :=
  forall t, t < nT c -> stof s t = TReady -> aw (td s t) = [] /\ af (td s t) = [].

Section Step.
Variable o : opts.

Definition wk (s : pstate) : bool := negb (mem (time s) (o_abs o)).
Definition RInv (s : pstate) : Prop :=
  (forall w, w < nW c -> rst (wd s w) = Rexp (wk s) (time s) (w_abs c w) (wd s w))
  /\ (forall f, f < nF c -> rst (fd s f) = Rexp (wk s) (time s) (f_abs c f) (fd s f)).

(* __allocate does not change resource states, and gives tasks only to FREE resources *)
Lemma allocate_states s : exists fr,
  (forall w, rst (wd (allocate c o s) w) = rst (wd s w)) /\ (forall f, rst (fd (allocate c o s) f) = rst (fd s f))
  /\ (forall w, asg (wd (allocate c o s) w) = asg (wd s w) \/ rst (wd s w) = RFree)
  /\ (forall f, asg (fd (allocate c o s) f) = asg (fd s f) \/ rst (fd s f) = RFree)
  /\ (forall w, In w fr -> rst (wd s w) = RFree).
Proof.
  set (P := fun (x : pstate) (fr : list nat) =>
    (forall w, rst (wd x w) = rst (wd s w)) /\ (forall f, rst (fd x f) = rst (fd s f))
    /\ (forall w, asg (wd x w) = asg (wd s w) \/ rst (wd s w) = RFree)
    /\ (forall f, asg (fd x f) = asg (fd s f) \/ rst (fd s f) = RFree)
    /\ (forall w, In w fr -> rst (wd s w) = RFree)).
  apply (allocate_induction c P).
  - intros x x' fr _ E2 E3 H. unfold P in *. rewrite E2, E3. exact H.
  - intros x fr fr' Hp (A & B & C & D & E). repeat (split; [assumption|]). intros w Hw. apply E. eapply Permutation_in; [exact Hp|exact Hw].
  - intros x fr t w _ Hin _ _ _ _ _ (A & B & C & D & E). unfold P. unfold do_alloc_w. cbn [wd fd with_td with_wd].
    split; [intros w'; rewrite upd_eq; destruct (Nat.eqb w' w) eqn:Ew; [apply Nat.eqb_eq in Ew; subst; cbn [rst]|]; apply A|].
    split; [exact B|]. split.
    + intros w'. rewrite upd_eq. destruct (Nat.eqb w' w) eqn:Ew; [apply Nat.eqb_eq in Ew; subst; right; apply E; exact Hin|apply C].
    + split; [exact D|]. intros w' Hw'. apply filter_In in Hw'. apply E. apply Hw'.
  - intros x fr t w f k p _ _ _ _ Hfree _ _ Hin _ _ _ _ _ (A & B & C & D & E). unfold P. unfold do_alloc_f, do_alloc_w. cbn [wd fd with_td with_wd with_fd].
    split; [intros w'; rewrite upd_eq; destruct (Nat.eqb w' w) eqn:Ew; [apply Nat.eqb_eq in Ew; subst; cbn [rst]|]; apply A|].
    split; [intros f'; rewrite upd_eq; destruct (Nat.eqb f' f) eqn:Ef; [apply Nat.eqb_eq in Ef; subst; cbn [rst]|]; apply B|].
    split; [intros w'; rewrite upd_eq; destruct (Nat.eqb w' w) eqn:Ew; [apply Nat.eqb_eq in Ew; subst; right; apply E; exact Hin|apply C]|].
    split.
    + intros f'. rewrite upd_eq. destruct (Nat.eqb f' f) eqn:Ef; [|apply D]. apply Nat.eqb_eq in Ef. subst. right.
      rewrite <- B. destruct (rst (fd x f)); try discriminate. reflexivity.
    + intros w' Hw'. apply filter_In in Hw'. apply E. apply Hw'.
  - exact Hw_nodup.
  - unfold P. repeat (split; [intros; try reflexivity; left; reflexivity|]).
    intros w Hw. apply filter_In in Hw. destruct Hw as [_ Hw]. destruct (rst (wd s w)); try discriminate. reflexivity.
Qed.

Lemma J_check_working s : AInv c s -> J s (check_working c s).
Proof.
  intros H. unfold check_working. apply (fold_left_inv (J s)); [apply J_refl; exact H|]. intros x t Hx. apply J_cw_one. exact Hx.
Qed.

Lemma ready_target_works (s : pstate) t : forall l x, (In t l \/ stof x t <> TReady) -> stof (fold_left (cw_one c) l x) t <> TReady.
Proof.
  induction l as [|t' l IH]; intros x H; cbn [fold_left]; [destruct H as [[]|H]; exact H|].
  apply IH. destruct (Nat.eq_dec t' t) as [->|Hne].
  - right. rewrite stof_cw_one, Nat.eqb_refl. cbn [andb]. destruct (is_ready (stof x t)) eqn:E; [discriminate|].
    intros F. rewrite F in E. discriminate.
  - destruct H as [[E|H]|H]; [congruence|left; exact H|right].
    rewrite stof_cw_one. assert (E : Nat.eqb t t' = false) by (apply Nat.eqb_neq; congruence). rewrite E. exact H.
Qed.

Lemma Rexp_asg_nil b k ab x y : asg x = [] -> asg y = [] -> Rexp b k ab x = Rexp b k ab y.
Proof. intros E1 E2. unfold Rexp. rewrite E1, E2. reflexivity. Qed.

(* one resource through refresh, __allocate and check_working *)
Lemma settle k ab (r1 r2 : rlive) (final : rstate) (holder_ready holder_working : bool) :
  rst r1 = Rexp true k ab r1 ->
  rst r2 = rst r1 ->
  (asg r2 = asg r1 \/ rst r1 = RFree) ->
  (asg r2 <> [] -> holder_ready = true \/ holder_working = true) ->
  (asg r2 <> [] -> holder_ready = true -> rst r1 = RFree) ->
  final = match asg r2 with
          | [] => rst r2
          | _ :: _ => if holder_ready then RWorking
                      else if holder_working && rstate_eqb (rst r2) RFree then RWorking else rst r2
          end ->
  final = Rexp true k ab r2.
Proof.
  intros H1 H2 H3 H4 H5 ->. unfold Rexp in *. cbn [negb orb] in *.
  destruct (asg r2) as [|t l] eqn:E2.
  - rewrite H2, H1. destruct (mem k ab); [reflexivity|].
    destruct H3 as [H3|H3]; [rewrite <- H3; reflexivity|].
    rewrite H1 in H3. destruct (asg r1); [reflexivity|discriminate].
  - assert (Hne : t :: l <> []) by discriminate.
    destruct holder_ready eqn:Er.
    + pose proof (H5 Hne eq_refl) as Hf. rewrite H1 in Hf. destruct (mem k ab); [discriminate|reflexivity].
    + destruct (H4 Hne) as [F|Hw]; [discriminate|]. rewrite Hw. cbn [andb].
      rewrite H2. destruct (rstate_eqb (rst r1) RFree) eqn:Ef.
      * assert (Hf : rst r1 = RFree) by (destruct (rst r1); try discriminate; reflexivity).
        rewrite H1 in Hf. destruct (mem k ab); [discriminate|reflexivity].
      * rewrite H1 in *. destruct (mem k ab); [reflexivity|].
        destruct H3 as [H3|H3].
        -- rewrite <- H3. reflexivity.
        -- destruct (asg r1); [|discriminate]. discriminate.
Qed.

Theorem step_allocate_resources s : AInv c s -> SoloPair c s -> NoWAdd s -> ReadyClean s ->
  RInv (step_allocate c o s) /\ ReadyClean (step_allocate c o s).
Proof.
  intros HA HS HN HR.
  assert (Et : time (step_allocate c o s) = time s) by apply time_step_allocate.
  unfold RInv, wk. rewrite Et. unfold step_allocate.
  destruct (negb (mem (time s) (o_abs o))) eqn:Ew.
  - (* a working step *)
    cbn [orb].
    set (s1 := absence_update c true s).
    assert (A1 : AInv c s1) by (apply AInv_absence_update; exact HA).
    assert (Etd1 : td s1 = td s) by apply td_absence_update.
    assert (W1 : forall w, w < nW c -> rst (wd s1 w) = Rexp true (time s) (w_abs c w) (wd s1 w)).
    { intros w Hw. unfold s1, absence_update. cbn [wd with_wd with_fd]. rewrite tab_spec. apply Nat.ltb_lt in Hw. rewrite Hw.
      unfold refresh_one, Rexp. cbn [negb orb]. destruct (mem (time s) (w_abs c w)); [reflexivity|]. destruct (asg (wd s w)); reflexivity. }
    assert (F1 : forall f, f < nF c -> rst (fd s1 f) = Rexp true (time s) (f_abs c f) (fd s1 f)).
    { intros f Hf. unfold s1, absence_update. cbn [fd with_wd with_fd]. rewrite tab_spec. apply Nat.ltb_lt in Hf. rewrite Hf.
      unfold refresh_one, Rexp. cbn [negb orb]. destruct (mem (time s) (f_abs c f)); [reflexivity|]. destruct (asg (fd s f)); reflexivity. }
    destruct (allocate_states s1) as (fr & AW & AF & CW & CF & _).
    set (s2 := allocate c o s1) in *.
    assert (A2 : AInv c s2) by (apply AInv_allocate; [assumption..|exact A1|apply FreeEmpty_absence_update]).
    assert (S2 : SoloPair c s2).
    { apply (SoloPair_allocate c Hw_nodup o s1). apply (SoloPair_lists c s s1); [|exact HS]. intros t. unfold s1. rewrite td_absence_update. split; reflexivity. }
    assert (Est2 : forall t, stof s2 t = stof s t).
    { intros t. unfold stof. destruct (ksr_allocate c o s1 t) as [E _]. fold s2 in E. rewrite E, Etd1. reflexivity. }
    assert (N2 : NoWAdd s2) by (intros t Ht; rewrite Est2; apply HN; exact Ht).
    destruct (J_check_working s2 A2) as (A3 & L3 & G3 & H3).
    set (s3 := check_working c s2) in *.
    (* a READY holder got its resources in this step *)
    assert (NewW : forall w t, w < nW c -> In t (asg (wd s2 w)) -> is_ready (stof s2 t) = true -> rst (wd s1 w) = RFree).
    { intros w t Hw Hin Hrd. destruct (CW w) as [E|E]; [|exact E]. exfalso.
      rewrite E in Hin. destruct (a_w2 c s1 A1 w t Hw Hin) as [Ht Hin'].
      apply is_ready_true in Hrd. rewrite Est2 in Hrd. destruct (HR t Ht Hrd) as [Ea _]. rewrite Etd1, Ea in Hin'. destruct Hin'. }
    assert (NewF : forall f t, f < nF c -> In t (asg (fd s2 f)) -> is_ready (stof s2 t) = true -> rst (fd s1 f) = RFree).
    { intros f t Hf Hin Hrd. destruct (CF f) as [E|E]; [|exact E]. exfalso.
      rewrite E in Hin. destruct (a_f2 c s1 A1 f t Hf Hin) as [Ht Hin'].
      apply is_ready_true in Hrd. rewrite Est2 in Hrd. destruct (HR t Ht Hrd) as [_ Ea]. rewrite Etd1, Ea in Hin'. destruct Hin'. }
    assert (HoldW : forall w t, w < nW c -> In t (asg (wd s2 w)) -> is_ready (stof s2 t) = true \/ is_working (stof s2 t) = true).
    { intros w t Hw Hin. destruct (a_w2 c s2 A2 w t Hw Hin) as [Ht Hin'].
      assert (Hh : holder_ok (st (td s2 t)) = true) by (apply (a_hold c s2 A2 t Ht); left; intros E; rewrite E in Hin'; destruct Hin').
      pose proof (N2 t Ht) as Hn. unfold stof in *. unfold holder_ok in Hh. destruct (st (td s2 t)); cbn in *; try discriminate; try congruence; auto. }
    assert (HoldF : forall f t, f < nF c -> In t (asg (fd s2 f)) -> is_ready (stof s2 t) = true \/ is_working (stof s2 t) = true).
    { intros f t Hf Hin. destruct (a_f2 c s2 A2 f t Hf Hin) as [Ht Hin'].
      assert (Hh : holder_ok (st (td s2 t)) = true) by (apply (a_hold c s2 A2 t Ht); right; intros E; rewrite E in Hin'; destruct Hin').
      pose proof (N2 t Ht) as Hn. unfold stof in *. unfold holder_ok in Hh. destruct (st (td s2 t)); cbn in *; try discriminate; try congruence; auto. }
    split; [split|].
    + intros w Hw. cbn [wd product_check_state with_cd].
      assert (Easg : asg (wd s3 w) = asg (wd s2 w)) by apply G3.
      replace (Rexp true (time s) (w_abs c w) (wd s3 w)) with (Rexp true (time s) (w_abs c w) (wd s2 w)) by (unfold Rexp; rewrite Easg; reflexivity).
      pose proof (cw_worker s2 w A2 N2 Hw) as Hcw. fold s3 in Hcw.
      destruct (asg (wd s2 w)) as [|t l] eqn:E2.
      * apply (settle (time s) (w_abs c w) (wd s1 w) (wd s2 w) _ false false (W1 w Hw) (AW w) (CW w)); rewrite ?E2; try congruence.
      * apply (settle (time s) (w_abs c w) (wd s1 w) (wd s2 w) _ (is_ready (stof s2 t)) (is_working (stof s2 t)) (W1 w Hw) (AW w) (CW w)).
        -- intros _. apply (HoldW w t Hw). rewrite E2. left. reflexivity.
        -- intros _ Hrd. apply (NewW w t Hw); [rewrite E2; left; reflexivity|exact Hrd].
        -- rewrite E2. exact Hcw.
    + intros f Hf. cbn [fd product_check_state with_cd].
      assert (Easg : asg (fd s3 f) = asg (fd s2 f)) by apply H3.
      replace (Rexp true (time s) (f_abs c f) (fd s3 f)) with (Rexp true (time s) (f_abs c f) (fd s2 f)) by (unfold Rexp; rewrite Easg; reflexivity).
      pose proof (cw_facility s2 f A2 N2 S2 Hf) as Hcw. fold s3 in Hcw.
      destruct (asg (fd s2 f)) as [|t l] eqn:E2.
      * apply (settle (time s) (f_abs c f) (fd s1 f) (fd s2 f) _ false false (F1 f Hf) (AF f) (CF f)); rewrite ?E2; try congruence.
      * apply (settle (time s) (f_abs c f) (fd s1 f) (fd s2 f) _ (is_ready (stof s2 t)) (is_working (stof s2 t)) (F1 f Hf) (AF f) (CF f)).
        -- intros _. apply (HoldF f t Hf). rewrite E2. left. reflexivity.
        -- intros _ Hrd. apply (NewF f t Hf); [rewrite E2; left; reflexivity|exact Hrd].
        -- rewrite E2. exact Hcw.
    + (* READY tasks hold nothing afterwards *)
      intros t Ht Hrd. change (stof (product_check_state c s3) t) with (stof s3 t) in Hrd.
      change (td (product_check_state c s3) t) with (td s3 t). destruct (L3 t) as [La Lf]. rewrite La, Lf.
      assert (Haw : aw (td s2 t) = []).
      { destruct (aw (td s2 t)) as [|a b] eqn:Ea; [reflexivity|]. exfalso.
        assert (Hh : holder_ok (st (td s2 t)) = true) by (apply (a_hold c s2 A2 t Ht); left; rewrite Ea; discriminate).
        assert (Hs2 : stof s2 t = TReady).
        { pose proof (Step_check_working c s2) as (Adv & _). specialize (Adv t). fold s3 in Adv. rewrite Hrd in Adv.
          unfold stof in *. unfold holder_ok in Hh.
          destruct (st (td s2 t)); cbn in Adv, Hh; try contradiction; try discriminate; reflexivity. }
        apply (ready_target_works s2 t (filter (cw_target c s2) (tasks c)) s2); [|exact Hrd].
        left. apply filter_In. split; [unfold tasks; apply in_seq; lia|]. unfold cw_target. cbv zeta.
        unfold stof in Hs2. rewrite Hs2, Ea. reflexivity. }
      split; [exact Haw|].
      destruct (t_needfac c t) eqn:En; [|apply (a_nofac c s2 A2 t Ht En)].
      destruct (S2 t Ht) as (_ & _ & Hp). specialize (Hp En). rewrite Haw in Hp. inversion Hp. reflexivity.
  - (* a project-wide absence step: everybody ABSENCE *)
    cbn [orb].
    set (s1 := absence_update c false s).
    assert (Etd1 : td s1 = td s) by apply td_absence_update.
    assert (W1 : forall w, w < nW c -> rst (wd s1 w) = RAbsence).
    { intros w Hw. unfold s1, absence_update. cbn [wd with_wd with_fd]. rewrite tab_spec. apply Nat.ltb_lt in Hw. rewrite Hw. reflexivity. }
    assert (F1 : forall f, f < nF c -> rst (fd s1 f) = RAbsence).
    { intros f Hf. unfold s1, absence_update. cbn [fd with_wd with_fd]. rewrite tab_spec. apply Nat.ltb_lt in Hf. rewrite Hf. reflexivity. }
    assert (R1 : ReadyClean s1) by (intros t Ht Hr; unfold stof in Hr; rewrite Etd1 in *; apply HR; assumption).
    destruct (o_auto_abs o).
    + assert (A1 : AInv c s1) by (apply AInv_absence_update; exact HA).
      assert (S1 : SoloPair c s1) by (apply (SoloPair_lists c s s1); [intros t; unfold s1; rewrite td_absence_update; split; reflexivity|exact HS]).
      assert (N1 : NoWAdd s1) by (intros t Ht; unfold stof; rewrite Etd1; apply HN; exact Ht).
      destruct (J_check_working s1 A1) as (A3 & L3 & G3 & H3).
      set (s3 := check_working c s1) in *.
      assert (HoldNR : forall t, t < nT c -> aw (td s1 t) <> [] \/ af (td s1 t) <> [] -> is_ready (stof s1 t) = false).
      { intros t Ht Hor. destruct (is_ready (stof s1 t)) eqn:E; [|reflexivity]. apply is_ready_true in E.
        destruct (R1 t Ht E) as [Ea Ef]. destruct Hor as [F|F]; congruence. }
      split; [split|].
      * intros w Hw. cbn [wd product_check_state with_cd]. unfold Rexp. cbn [negb orb].
        pose proof (cw_worker s1 w A1 N1 Hw) as Hcw. fold s3 in Hcw. rewrite Hcw. clear Hcw. destruct (asg (wd s1 w)) as [|t l] eqn:E2; [apply W1; exact Hw|].
        destruct (a_w2 c s1 A1 w t Hw ltac:(rewrite E2; left; reflexivity)) as [Ht Hin].
        assert (Hne : aw (td s1 t) <> []) by (intros E; rewrite E in Hin; destruct Hin).
        rewrite (HoldNR t Ht (or_introl Hne)).
        rewrite (W1 w Hw). cbn [rstate_eqb]. rewrite andb_false_r. reflexivity.
      * intros f Hf. cbn [fd product_check_state with_cd]. unfold Rexp. cbn [negb orb].
        pose proof (cw_facility s1 f A1 N1 S1 Hf) as Hcw. fold s3 in Hcw. rewrite Hcw. clear Hcw. destruct (asg (fd s1 f)) as [|t l] eqn:E2; [apply F1; exact Hf|].
        destruct (a_f2 c s1 A1 f t Hf ltac:(rewrite E2; left; reflexivity)) as [Ht Hin].
        assert (Hne : af (td s1 t) <> []) by (intros E; rewrite E in Hin; destruct Hin).
        rewrite (HoldNR t Ht (or_intror Hne)).
        rewrite (F1 f Hf). cbn [rstate_eqb]. rewrite andb_false_r. reflexivity.
      * intros t Ht Hrd. change (stof (product_check_state c s3) t) with (stof s3 t) in Hrd.
        change (td (product_check_state c s3) t) with (td s3 t). destruct (L3 t) as [La Lf]. rewrite La, Lf.
        (* READY now means READY before (check_working only makes READY -> WORKING) *)
        assert (Hs1 : stof s1 t = TReady).
        { pose proof (Step_check_working c s1) as (Adv & _). specialize (Adv t). fold s3 in Adv. rewrite Hrd in Adv.
          destruct (stof s1 t) eqn:E; cbn in Adv; try contradiction; try reflexivity.
          exfalso. apply (ready_target_works s1 t (filter (cw_target c s1) (tasks c)) s1); [right; rewrite E; discriminate|exact Hrd]. }
        apply (R1 t Ht Hs1).
    + split; [split|exact R1].
      * intros w Hw. unfold Rexp. cbn [negb orb]. apply W1. exact Hw.
      * intros f Hf. unfold Rexp. cbn [negb orb]. apply F1. exact Hf.
Qed.


(* ------------------------------------------------------------- __update *)
Lemma td_finish_task_other x t0 t : t <> t0 -> td (finish_task c x t0) t = td x t.
Proof.
  intros Hne. unfold finish_task. destruct (t_needfac c t0); cbn [td with_td with_wd with_fd]; rewrite !upd_other by exact Hne; reflexivity.
Qed.

Lemma check_finished_keeps s t : stof (check_finished c s) t = TFinished \/ td (check_finished c s) t = td s t.
Proof.
  set (K := fun x => stof x t = TFinished \/ td x t = td s t).
  assert (Kpass : forall x, K x -> K (fst (finish_pass c x))).
  { intros x Hx. unfold finish_pass.
    apply (fold_left_inv (fun acc : pstate * bool => K (fst acc))); [exact Hx|].
    intros [x' ch] t0 Hx'. cbn [fst] in *. destruct (finish_gate c x' t0); cbn [fst]; [|exact Hx'].
    destruct (Nat.eq_dec t t0) as [->|Hne]; [left; rewrite stof_finish_task, Nat.eqb_refl; reflexivity|].
    destruct Hx' as [Hf|Ht]; [left; rewrite stof_finish_task; apply Nat.eqb_neq in Hne; rewrite Hne; exact Hf|].
    right. rewrite td_finish_task_other by exact Hne. exact Ht. }
  assert (Kloop : forall fuel x, K x -> K (finish_loop c fuel x)).
  { induction fuel as [|n IH]; intros x Hx; cbn [finish_loop]; [exact Hx|].
    pose proof (Kpass x Hx) as Hp. destruct (finish_pass c x) as [x' ch]. cbn [fst] in Hp. destruct ch; [apply IH|]; exact Hp. }
  apply (Kloop (S (nT c)) s). right. reflexivity.
Qed.

Lemma ReadyClean_update s : AInv c s -> ReadyClean s -> ReadyClean (update c o s).
Proof.
  intros HA HR t Ht Hrd.
  set (s1 := check_finished c s).
  assert (A1 : AInv c s1) by (apply AInv_check_finished; exact HA).
  (* state and lists of t in the result are those after check_ready *)
  set (s3 := check_removing c (o_crank o) (product_check_state c s1)).
  assert (Etd3 : td s3 = td s1) by (unfold s3; rewrite td_check_removing; reflexivity).
  destruct (keeps_update_pert c (time (product_check_state c (check_ready c s3))) (product_check_state c (check_ready c s3)) t) as (E1 & _ & E3 & E4).
  change (update c o s) with (update_pert c (time (product_check_state c (check_ready c s3))) (product_check_state c (check_ready c s3))) in *.
  unfold stof in Hrd. rewrite E1 in Hrd. rewrite E3, E4.
  cbn [td product_check_state with_cd] in *.
  fold (stof (check_ready c s3) t) in Hrd. rewrite stof_check_ready in Hrd.
  assert (Elists : aw (td (check_ready c s3) t) = aw (td s3 t) /\ af (td (check_ready c s3) t) = af (td s3 t)).
  { unfold check_ready. cbn [td with_td]. rewrite tab_spec. destruct (t <? nT c); [|split; reflexivity].
    destruct (is_none (st (td s3 t)) && ready_gate c s3 t); split; reflexivity. }
  destruct Elists as [-> ->]. rewrite Etd3.
  destruct ((t <? nT c) && is_none (stof s3 t) && ready_gate c s3 t) eqn:Eg.
  - (* NONE -> READY: a NONE task holds nothing *)
    apply andb_true_iff in Eg. destruct Eg as [Eg _]. apply andb_true_iff in Eg. destruct Eg as [_ En].
    apply is_none_true in En. unfold stof in En. rewrite Etd3 in En.
    split.
    + destruct (aw (td s1 t)) as [|a b] eqn:Ea; [reflexivity|].
      assert (Hne : aw (td s1 t) <> []) by (rewrite Ea; discriminate).
      pose proof (a_hold c s1 A1 t Ht (or_introl Hne)) as Hh. rewrite En in Hh. discriminate.
    + destruct (af (td s1 t)) as [|a b] eqn:Ea; [reflexivity|].
      assert (Hne : af (td s1 t) <> []) by (rewrite Ea; discriminate).
      pose proof (a_hold c s1 A1 t Ht (or_intror Hne)) as Hh. rewrite En in Hh. discriminate.
  - unfold stof in Hrd. rewrite Etd3 in Hrd.
    destruct (check_finished_keeps s t) as [Hf|Hk]; [fold s1 in Hf; unfold stof in Hf; congruence|].
    fold s1 in Hk. rewrite Hk in *. apply HR; [exact Ht|exact Hrd].
Qed.

Lemma NoWAdd_adv s s' : task_adv s s' -> NoWAdd s -> NoWAdd s'.
Proof.
  intros Adv H t Ht E. specialize (Adv t). rewrite E in Adv. apply (H t Ht).
  destruct (stof s t); cbn in Adv; try contradiction. reflexivity.
Qed.

(* ------------------------------------------------------------- all runs *)
Definition Q0 (s : pstate) : Prop := AInv c s /\ SoloPair c s /\ NoWAdd s /\ ReadyClean s.

Lemma Q0_update s : Q0 s -> Q0 (update c o s).
Proof.
  intros (A & B & C & D). split; [apply AInv_update; exact A|]. split; [apply SoloPair_update; assumption|].
  split; [apply (NoWAdd_adv s); [apply Step_update|exact C]|apply ReadyClean_update; assumption].
Qed.

Lemma Q0_lists s s' : (forall t, td s' t = td s t) -> wd s' = wd s -> fd s' = fd s -> Q0 s -> Q0 s'.
Proof.
  intros Et Ew Ef (A & B & C & D).
  assert (Etd : forall t, st (td s' t) = st (td s t) /\ aw (td s' t) = aw (td s t) /\ af (td s' t) = af (td s t))
    by (intros t; rewrite Et; repeat split).
  split; [apply (AInv_ext c s); try (intros; rewrite ?Ew, ?Ef; reflexivity); try exact A;
          [intros t; destruct (Etd t) as (_ & E1 & E2); split; assumption|intros t H; rewrite (proj1 (Etd t)); exact H]|].
  split; [apply (SoloPair_lists c s); [intros t; destruct (Etd t) as (_ & E1 & E2); split; assumption|exact B]|].
  split; [intros t Ht; unfold stof; rewrite (proj1 (Etd t)); apply C; exact Ht|].
  intros t Ht Hr. unfold stof in Hr. rewrite (proj1 (Etd t)) in Hr. destruct (Etd t) as (_ & E1 & E2). rewrite E1, E2. apply D; assumption.
Qed.

Lemma Q0_step_perform s : Q0 s -> Q0 (step_perform c o s).
Proof.
  intros (A & B & C & D). split; [apply AInv_step_perform; exact A|]. split; [apply SoloPair_step_perform; exact B|].
  split; [apply (NoWAdd_adv s); [apply Step_step_perform|exact C]|].
  intros t Ht Hr.
  assert (Est : stof (step_perform c o s) t = stof s t).
  { unfold step_perform, stof. destruct (negb (mem (time s) (o_abs o))); [rewrite st_perform; reflexivity|].
    destruct (o_auto_abs o); [rewrite st_perform; reflexivity|reflexivity]. }
  rewrite Est in Hr.
  assert (El : aw (td (step_perform c o s) t) = aw (td s t) /\ af (td (step_perform c o s) t) = af (td s t)).
  { unfold step_perform. assert (G : forall oa y, aw (td (perform c oa y) t) = aw (td y t) /\ af (td (perform c oa y) t) = af (td y t)).
    { intros oa y. unfold perform. cbn [td with_td]. rewrite tab_spec. destruct (t <? nT c); [|split; reflexivity].
      destruct (is_working (st (td y t)) && (negb oa || t_auto c t)); split; reflexivity. }
    destruct (negb (mem (time s) (o_abs o))); [destruct (G false (add_cost c true s)) as [G1 G2]; rewrite G1, G2; split; reflexivity|].
    destruct (o_auto_abs o); [destruct (G true (add_cost c false s)) as [G1 G2]; rewrite G1, G2; split; reflexivity|split; reflexivity]. }
  destruct El as [-> ->]. apply D; assumption.
Qed.

Lemma RInv_keep s s' : time s' = time s -> wd s' = wd s -> fd s' = fd s -> RInv s -> RInv s'.
Proof. intros Et Ew Ef [A B]. unfold RInv, wk. rewrite Et, Ew, Ef. split; assumption. Qed.

Lemma initialize_lists s t : o_init_state o = true -> t < nT c ->
  aw (td (initialize c o s) t) = [] /\ af (td (initialize c o s) t) = []
  /\ stof (initialize c o s) t <> TWorkingAdd /\ stof (initialize c o s) t <> TWorking.
Proof.
  intros Hs Ht. unfold initialize, stof. rewrite Hs. cbn [td with_cd].
  match goal with |- context [check_ready c (update_pert c 0 ?x)] => set (s1 := x) end.
  assert (E1 : forall y, aw (td (check_ready c y) t) = aw (td y t) /\ af (td (check_ready c y) t) = af (td y t)
                        /\ (st (td (check_ready c y) t) = TWorkingAdd -> st (td y t) = TWorkingAdd)
                        /\ (st (td (check_ready c y) t) = TWorking -> st (td y t) = TWorking)).
  { intros y. unfold check_ready. cbn [td with_td]. rewrite tab_spec. destruct (t <? nT c); [|repeat split; auto].
    destruct (is_none (st (td y t)) && ready_gate c y t); repeat split; auto; cbn; discriminate. }
  destruct (E1 (update_pert c 0 s1)) as (Ea & Ef & Est & Est').
  destruct (keeps_update_pert c 0 s1 t) as (K1 & _ & K3 & K4).
  rewrite Ea, Ef, K3, K4. unfold s1. cbn [td with_cpl]. rewrite tab_spec. apply Nat.ltb_lt in Ht. rewrite Ht.
  split; [destruct (o_init_log o && exempt c t); reflexivity|]. split; [destruct (o_init_log o && exempt c t); reflexivity|].
  split.
  - intros F. apply Est in F. rewrite K1 in F. unfold s1 in F. cbn [td with_cpl] in F. rewrite tab_spec, Ht in F.
    destruct (o_init_log o && exempt c t); discriminate.
  - intros F. apply Est' in F. rewrite K1 in F. unfold s1 in F. cbn [td with_cpl] in F. rewrite tab_spec, Ht in F.
    destruct (o_init_log o && exempt c t); discriminate.
Qed.

Lemma Q0_initialize s : o_init_state o = true -> Q0 (initialize c o s).
Proof.
  intros Hs. split; [apply AInv_initialize; exact Hs|]. split.
  - intros t Ht. destruct (initialize_lists s t Hs Ht) as (Ea & Ef & _). rewrite Ea, Ef.
    split; [apply solo_ok_nil|split; [apply solo_ok_nil|intros _; constructor]].
  - split; [intros t Ht; apply (initialize_lists s t Hs Ht)|]. intros t Ht _. destruct (initialize_lists s t Hs Ht) as (Ea & Ef & _). split; assumption.
Qed.

Theorem resources_all_runs s : o_init_state o = true ->
  Forall (fun ob : obs => match snd (fst ob) with PUpdated => True | _ => RInv (snd ob) end) (snd (simulate c o s)).
Proof.
  intros Hs. destruct (simulate_trace c o s) as (tr & Htr & Esnd). rewrite Esnd.
  pose proof (Q0_initialize s Hs) as H0.
  destruct (trace_invariant c o Q0 Q0 (fun x => Q0 x /\ RInv x) (fun x => Q0 x /\ RInv x) (fun x => Q0 x /\ RInv x)
              (fun x Hx => Q0_update x Hx)
              (fun x Hx => match Hx with conj A (conj B (conj C D)) =>
                 conj (conj (AInv_step_allocate c Hw_range Hw_nodup Hf_range o x A)
                            (conj (SoloPair_step_allocate c Hw_nodup o x B)
                                  (conj (NoWAdd_adv x _ (proj1 (Step_step_allocate c o x)) C)
                                        (proj2 (step_allocate_resources x A B C D)))))
                      (proj1 (step_allocate_resources x A B C D)) end)
              (fun x Hx => conj (Q0_step_perform x (proj1 Hx))
                                (RInv_keep x _ (time_step_perform c o x) (wd_step_perform c o x) (fd_step_perform c o x) (proj2 Hx)))
              (fun x Hx => conj (Q0_lists x (step_record c o x) (fun t => eq_refl) eq_refl eq_refl (proj1 Hx))
                                (RInv_keep x (step_record c o x) eq_refl eq_refl eq_refl (proj2 Hx)))
              (fun x Hx => Q0_lists x (with_time x (S (time x))) (fun t => eq_refl) eq_refl eq_refl (proj1 Hx))
              _ _ _ Htr H0) as [Hall _].
  eapply Forall_impl; [|exact Hall]. intros [[k ph] sn]. cbn. destruct ph; intros h; try exact I; apply h.
Qed.

End Step.
End C03Res.

(* C20 in the run: an automatic task that is not bound to a component and has
   no finish-side (FF / SF) predecessors, once READY with remaining work d, is
   logged WORKING at exactly steps_working d r working steps, the first one
   being the first working step at which it is READY, and is FINISHED at the
   update after the last of them (perform_auto_task_while_absence_time off). *)
From Coq Require Import List ZArith QArith Bool Arith Lia Lqa.
From PV Require Import Model.Types Model.Sim Model.Subproject Proofs.Base Proofs.Frames Proofs.Proj Proofs.RunLemmas Proofs.C01Proof
  Proofs.C02Proof Proofs.FinishComplete Proofs.C06Proof Proofs.C11Proof Proofs.C12Run Proofs.C20Proof.
Import ListNotations.
Open Scope nat_scope.

Section C20Run.
Variable c : cfg.
Variable o : opts.
Variable t : nat.
Hypothesis Ht : t < nT c.
Hypothesis Hauto : t_auto c t = true.
Hypothesis Hcomp : t_comp c t = None.
Hypothesis Hgate : forall e, In e (t_inputs c t) -> snd e = FS \/ snd e = SS.
Hypothesis Hflag : o_auto_abs o = false.

Notation r := (t_rate c t).

Lemma gate_open s : finish_gate c s t = true.
Proof.
  unfold finish_gate. apply forallb_forall. intros e He. destruct (Hgate e He) as [E|E]; rewrite E; reflexivity.
Qed.

(* steps at which the task is logged WORKING *)
Fixpoint work_count (tr : list obs) : nat :=
  match tr with
  | [] => 0
  | (k, PPerformed, s) :: rest =>
      (if negb (mem (time s) (o_abs o)) && is_working (stof s t) then 1 else 0) + work_count rest
  | _ :: rest => work_count rest
  end.

(* one iteration of the loop, seen from the task *)
Lemma one_step u :
  let sa := step_allocate c o u in let sp := step_perform c o sa in
  let wkg := negb (mem (time u) (o_abs o)) in
  (stof u t = TReady \/ stof u t = TWorking) ->
  if wkg then stof sp t = TWorking /\ rem (td sp t) = (rem (td u t) - r)%Q
  else stof sp t = stof u t /\ rem (td sp t) = rem (td u t).
Proof.
  cbv zeta. intros Hst.
  assert (Et : time (step_allocate c o u) = time u) by apply time_step_allocate.
  destruct (negb (mem (time u) (o_abs o))) eqn:Ew.
  - assert (Hw : stof (step_allocate c o u) t = TWorking).
    { destruct Hst as [H|H]; [apply C06_auto_never_waits; try assumption; rewrite Ew; reflexivity|apply working_step_allocate; exact H]. }
    split.
    + unfold stof, step_perform. rewrite Et, Ew. rewrite st_perform. exact Hw.
    + rewrite (auto_task_progress c o _ t Ht Hauto Hw) by (rewrite Et; exact Ew).
      change (rem (td (step_allocate c o u) t)) with (remof (step_allocate c o u) t). rewrite rem_step_allocate. reflexivity.
  - (* absence step without the auto flag: nothing happens to the task *)
    unfold step_allocate, step_perform. rewrite Ew, Hflag. cbn [orb].
    assert (E1 : time (absence_update c false u) = time u) by (apply (pi_absence_update c _ time); reflexivity).
    rewrite E1, Ew. cbn [td add_cost]. unfold stof. rewrite td_absence_update. split; reflexivity.
Qed.

(* the following __update: FINISHED as soon as the work is used up, otherwise unchanged *)
Lemma next_update x : stof x t = TWorking ->
  let u := update c o x in
  if Qltb (rem (td x t)) tol then stof u t = TFinished
  else stof u t = TWorking /\ rem (td u t) = rem (td x t).
Proof.
  intros Hw. cbv zeta.
  destruct (update_rem c o x t) as [[E1 E2]|(_ & Ez & E3 & _)].
  - assert (Hu : stof (update c o x) t = TWorking).
    { pose proof (proj1 (Step_update c o x) t) as A. rewrite Hw in A.
      destruct (stof (update c o x) t) eqn:E; cbn in A; try contradiction; [reflexivity|].
      assert (F : stof x t = TFinished) by (apply E2; reflexivity). congruence. }
    destruct (Qltb (rem (td x t)) tol) eqn:Ez.
    + exfalso. pose proof (update_finish_complete c o x t Ht Hu) as Hc. unfold remof in *. rewrite E1, Ez in Hc. specialize (Hc eq_refl).
      rewrite gate_open in Hc. discriminate.
    + split; [exact Hu|exact E1].
  - unfold remof in Ez. rewrite Ez. exact E3.
Qed.

Lemma ready_update x : stof x t = TReady -> stof (update c o x) t = TReady /\ rem (td (update c o x) t) = rem (td x t).
Proof.
  intros Hr. destruct (update_rem c o x t) as [[E1 E2]|(Hw & _)]; [|congruence].
  split; [|exact E1].
  pose proof (proj1 (Step_update c o x) t) as A. rewrite Hr in A.
  destruct (stof (update c o x) t) eqn:E; cbn in A; try contradiction; try reflexivity.
  - (* READY -> WORKING does not happen in __update *)
    exfalso. unfold update in E. unfold stof in E.
    destruct (keeps_update_pert c (time (product_check_state c (check_ready c (check_removing c (o_crank o) (product_check_state c (check_finished c x))))))
                (product_check_state c (check_ready c (check_removing c (o_crank o) (product_check_state c (check_finished c x))))) t) as (K & _).
    rewrite K in E. cbn [td product_check_state with_cd] in E.
    fold (stof (check_ready c (check_removing c (o_crank o) (product_check_state c (check_finished c x)))) t) in E.
    rewrite stof_check_ready in E.
    assert (E3 : stof (check_removing c (o_crank o) (product_check_state c (check_finished c x))) t = stof (check_finished c x) t)
      by (unfold stof; rewrite td_check_removing; reflexivity).
    rewrite !E3 in E.
    destruct (check_finished_FinRel c x t) as [[F1 _]|(F1 & _)]; [|congruence].
    rewrite F1, Hr in E. cbn in E. rewrite andb_false_r in E. cbn in E. discriminate.
  - assert (F : stof x t = TFinished) by (apply E2; reflexivity). congruence.
Qed.

(* the count, by induction along the run *)
Theorem working_steps_counted : forall s tr sf, trace_from c o s tr sf ->
  let u := update c o s in
  ((stof u t = TReady /\ (tol <= rem (td u t))%Q) \/ (stof u t = TWorking /\ (tol <= rem (td u t))%Q)) ->
  stof sf t = TFinished ->
  exists fuel, steps_working fuel (rem (td u t)) r = Some (work_count tr).
Proof.
  induction 1 as [s Ha|s Ha Hm|s rest sf Ha Hm s1 sa sp sr Hrest IH]; cbv zeta; intros Hst Hfin.
  - exfalso. change (stof (with_status (update c o s) StSuccess) t) with (stof (update c o s) t) in Hfin.
    destruct Hst as [[E _]|[E _]]; congruence.
  - exfalso. change (stof (with_status (update c o s) StFailure) t) with (stof (update c o s) t) in Hfin.
    destruct Hst as [[E _]|[E _]]; congruence.
  - fold s1 in Hst. change (update c o s) with s1.
    assert (Hrw : stof s1 t = TReady \/ stof s1 t = TWorking) by (destruct Hst as [[E _]|[E _]]; auto).
    assert (Hrem : (tol <= rem (td s1 t))%Q) by (destruct Hst as [[_ E]|[_ E]]; exact E).
    pose proof (one_step s1 Hrw) as Hone. cbv zeta in Hone. fold sa sp in Hone.
    assert (Etsa : time sa = time s1) by apply time_step_allocate.
    assert (Etsp : time sp = time s1) by (unfold sp; rewrite time_step_perform; exact Etsa).
    set (nx := with_time sr (S (time sr))) in *.
    assert (Enx : td nx = td sp) by reflexivity.
    cbn [work_count]. rewrite Etsp.
    destruct (negb (mem (time s1) (o_abs o))) eqn:Ew.
    + destruct Hone as [Hw Hr']. rewrite Hw. cbn [is_working andb].
      assert (Hwn : stof nx t = TWorking) by (unfold stof; rewrite Enx; exact Hw).
      pose proof (next_update nx Hwn) as Hn. cbv zeta in Hn. rewrite Enx, Hr' in Hn.
      destruct (Qltb (rem (td s1 t) - r) tol) eqn:Ez.
      * (* finished by the next update: no further WORKING entry *)
        assert (Hz : work_count rest = 0).
        { clear IH. assert (G : forall s0 tr0 sf0, trace_from c o s0 tr0 sf0 -> stof (update c o s0) t = TFinished -> work_count tr0 = 0).
          { induction 1 as [s0 Ha0|s0 Ha0 Hm0|s0 rest0 sf0 Ha0 Hm0 x1 xa xp xr Hrest0 IH0]; intros Hf; cbn [work_count]; try reflexivity.
            assert (Fa : stof xp t = TFinished).
            { assert (A1 : adv (stof x1 t) (stof xa t)) by apply (proj1 (Step_step_allocate c o x1)).
              assert (A2 : adv (stof xa t) (stof xp t)) by apply (proj1 (Step_step_perform c o xa)).
              fold x1 in Hf. rewrite Hf in A1. destruct (stof xa t); cbn in A1; try contradiction.
              destruct (stof xp t); cbn in A2; try contradiction. reflexivity. }
            rewrite Fa. cbn [is_working]. rewrite andb_false_r. cbn. apply IH0.
            assert (A3 : adv (stof xp t) (stof (update c o (with_time xr (S (time xr)))) t)).
            { assert (B : task_adv xp (update c o (with_time xr (S (time xr))))).
              { eapply task_adv_trans; [apply (proj1 (Step_step_record c o xp))|].
                eapply task_adv_trans; [apply (proj1 (Step_with_time c xr (S (time xr))))|apply (proj1 (Step_update c o _))]. }
              apply B. }
            rewrite Fa in A3. destruct (stof (update c o (with_time xr (S (time xr)))) t); cbn in A3; try contradiction. reflexivity. }
          apply (G _ _ _ Hrest). exact Hn. }
        rewrite Hz. exists 1. cbn [steps_working]. apply Qltb_false in Hrem. rewrite Hrem.
        cbn [steps_working]. rewrite Ez. reflexivity.
      * destruct Hn as [Hn1 Hn2]. apply Qltb_false in Ez.
        assert (P : (stof (update c o nx) t = TReady /\ (tol <= rem (td (update c o nx) t))%Q)
                    \/ (stof (update c o nx) t = TWorking /\ (tol <= rem (td (update c o nx) t))%Q))
          by (right; split; [exact Hn1|rewrite Hn2; exact Ez]).
        destruct (IH P Hfin) as [fuel Hf]. cbv zeta in Hf. change (with_time sr (S (time sr))) with nx in Hf.
        rewrite Hn2 in Hf. exists (S fuel). cbn [steps_working]. apply Qltb_false in Hrem. rewrite Hrem. rewrite Hf. reflexivity.
    + (* absence step: the task waits (READY or WORKING), nothing is counted *)
      destruct Hone as [Hs' Hr']. cbn [andb]. cbn [Nat.add].
      destruct Hrw as [Hr0|Hw0].
      * assert (Hrn : stof nx t = TReady) by (unfold stof; rewrite Enx; fold (stof sp t); rewrite Hs'; exact Hr0).
        destruct (ready_update nx Hrn) as [U1 U2]. rewrite Enx, Hr' in U2.
        assert (P : (stof (update c o nx) t = TReady /\ (tol <= rem (td (update c o nx) t))%Q)
                    \/ (stof (update c o nx) t = TWorking /\ (tol <= rem (td (update c o nx) t))%Q))
          by (left; split; [exact U1|rewrite U2; exact Hrem]).
        destruct (IH P Hfin) as [fuel Hf]. cbv zeta in Hf. change (with_time sr (S (time sr))) with nx in Hf.
        rewrite U2 in Hf. exists fuel. exact Hf.
      * assert (Hwn : stof nx t = TWorking) by (unfold stof; rewrite Enx; fold (stof sp t); rewrite Hs'; exact Hw0).
        pose proof (next_update nx Hwn) as Hn. cbv zeta in Hn. rewrite Enx, Hr' in Hn.
        apply Qltb_false in Hrem. rewrite Hrem in Hn. destruct Hn as [Hn1 Hn2]. apply Qltb_false in Hrem.
        assert (P : (stof (update c o nx) t = TReady /\ (tol <= rem (td (update c o nx) t))%Q)
                    \/ (stof (update c o nx) t = TWorking /\ (tol <= rem (td (update c o nx) t))%Q))
          by (right; split; [exact Hn1|rewrite Hn2; exact Hrem]).
        destruct (IH P Hfin) as [fuel Hf]. cbv zeta in Hf. change (with_time sr (S (time sr))) with nx in Hf.
        rewrite Hn2 in Hf. exists fuel. exact Hf.
Qed.

End C20Run.

(* C14: a component's state is determined by the states of its tasks. *)
From Coq Require Import List ZArith QArith Bool Arith Lia.
From PV Require Import Model.Types Model.Sim Proofs.Base Proofs.Frames Proofs.Proj Proofs.RunLemmas Proofs.C01Proof.
Import ListNotations.
Open Scope nat_scope.

Section C14.
Variable c : cfg.

Definition cstof (s : pstate) (k : nat) : cstate := cst (cd s k).
Definition sts (s : pstate) (k : nat) : list tstate := ctask_states c s k.

Definition rw (x : tstate) : bool := is_ready x || is_working x.

(* the statement of the property for one component *)
Definition CompOK (s : pstate) (k : nat) : Prop :=
  (cstof s k = CFinished <-> forallb is_fin (sts s k) = true)
  /\ (existsb is_working (sts s k) = true -> cstof s k = CWorking)
  /\ (existsb rw (sts s k) = true -> cstof s k <> CNone).
Definition COK (s : pstate) : Prop := forall k, k < nC c -> CompOK s k.

(* what is kept between two component checks *)
Definition Hist (s : pstate) : Prop :=
  forall k, k < nC c -> cstof s k = CFinished -> forallb is_fin (sts s k) = true.

Lemma COK_Hist s : COK s -> Hist s.
Proof. intros H k Hk E. apply (H k Hk). exact E. Qed.

Lemma sts_ext s s' k : (forall t, stof s' t = stof s t) -> sts s' k = sts s k.
Proof. intros E. unfold sts, ctask_states. apply map_ext. intros t. apply E. Qed.

Lemma allfin_adv s s' k : task_adv s s' -> forallb is_fin (sts s k) = true -> forallb is_fin (sts s' k) = true.
Proof.
  intros A. unfold sts, ctask_states. rewrite !forallb_forall. intros H x Hx.
  apply in_map_iff in Hx. destruct Hx as (t & <- & Ht).
  eapply adv_fin; [apply A|]. apply H. apply in_map_iff. exists t. split; [reflexivity|exact Ht].
Qed.

Lemma Hist_adv s s' : task_adv s s' -> (forall k, cstof s' k = cstof s k) -> Hist s -> Hist s'.
Proof. intros A E H k Hk Ef. rewrite E in Ef. eapply allfin_adv; [exact A|apply H; assumption]. Qed.

Lemma COK_same s s' : (forall t, stof s' t = stof s t) -> (forall k, cstof s' k = cstof s k) -> COK s -> COK s'.
Proof.
  intros Et Ek H k Hk. unfold CompOK. rewrite (sts_ext s s' k Et), Ek. apply H. exact Hk.
Qed.

(* no task is WORKING and FINISHED at once *)
Lemma working_not_allfin l : existsb is_working l = true -> forallb is_fin l = false.
Proof.
  induction l as [|x l IH]; simpl; [discriminate|].
  intros H. destruct x; simpl in *; try reflexivity; auto.
Qed.
Lemma ready_not_allfin l : existsb is_ready l = true -> forallb is_fin l = false.
Proof.
  induction l as [|x l IH]; simpl; [discriminate|].
  intros H. destruct x; simpl in *; try reflexivity; auto.
Qed.
Lemma ready_not_allworking l : existsb is_ready l = true -> forallb is_working l = false.
Proof.
  induction l as [|x l IH]; simpl; [discriminate|].
  intros H. destruct x; simpl in *; try reflexivity; auto.
Qed.
Lemma existsb_rw l : existsb rw l = true -> existsb is_working l = true \/ existsb is_ready l = true.
Proof.
  induction l as [|x l IH]; simpl; [discriminate|].
  unfold rw at 1. destruct x; simpl; intros H; auto;
    try (destruct (IH H) as [E|E]; rewrite E; [left|right]; reflexivity).
Qed.

(* BaseComponent.check_state on a state whose FINISHED components have only FINISHED tasks *)
Lemma comp_check_ok s k :
  (cstof s k = CFinished -> forallb is_fin (sts s k) = true) ->
  let r := comp_check c s k in
  (r = CFinished <-> forallb is_fin (sts s k) = true)
  /\ (existsb is_working (sts s k) = true -> r = CWorking)
  /\ (existsb rw (sts s k) = true -> r <> CNone)
  /\ (r = CNone -> cstof s k = CNone)
  /\ (cstof s k = CFinished -> r = CFinished).
Proof.
  intros H. unfold comp_check. fold (sts s k). fold (cstof s k).
  destruct (forallb is_fin (sts s k)) eqn:Ef.
  - cbn zeta. repeat split; try reflexivity; try discriminate.
    all: try (intros Hw; apply working_not_allfin in Hw; congruence).
    all: try (intros Hr; apply existsb_rw in Hr; destruct Hr as [Hr|Hr];
              [apply working_not_allfin in Hr|apply ready_not_allfin in Hr]; congruence).
  - cbn zeta. destruct (existsb is_working (sts s k)) eqn:Ew.
    + repeat split; try discriminate; try reflexivity; intros E; specialize (H E); discriminate.
    + destruct (existsb is_ready (sts s k)) eqn:Er.
      * rewrite (ready_not_allworking _ Er). cbn [negb andb].
        repeat split; try discriminate; intros E; specialize (H E); discriminate.
      * rewrite andb_false_r.
        repeat split; try discriminate; try (intros E; specialize (H E); discriminate); try exact (fun e => e).
        intros Hr. apply existsb_rw in Hr. destruct Hr; congruence.
Qed.

Lemma cstof_pcs s k : cstof (product_check_state c s) k = if k <? nC c then comp_check c s k else cstof s k.
Proof.
  unfold product_check_state, cstof. cbn [cd with_cd]. rewrite tab_spec. destruct (k <? nC c); reflexivity.
Qed.

Lemma COK_pcs s : Hist s -> COK (product_check_state c s).
Proof.
  intros H k Hk. unfold CompOK. rewrite cstof_pcs. apply Nat.ltb_lt in Hk. rewrite Hk.
  rewrite (sts_ext s (product_check_state c s) k) by reflexivity.
  apply Nat.ltb_lt in Hk. destruct (comp_check_ok s k (H k Hk)) as (A & B & D & _). auto.
Qed.

(* component states never return to NONE and never leave FINISHED *)
Definition cadv (a b : cstate) : Prop := (a <> CNone -> b <> CNone) /\ (a = CFinished -> b = CFinished).
Definition comp_adv (s s' : pstate) : Prop := forall k, k < nC c -> cadv (cstof s k) (cstof s' k).
Lemma comp_adv_refl s : comp_adv s s. Proof. intros k _. split; auto. Qed.
Lemma comp_adv_trans a b d : comp_adv a b -> comp_adv b d -> comp_adv a d.
Proof. intros H1 H2 k Hk. destruct (H1 k Hk), (H2 k Hk). split; auto. Qed.
Lemma comp_adv_same s s' : (forall k, cstof s' k = cstof s k) -> comp_adv s s'.
Proof. intros E k _. rewrite E. split; auto. Qed.

Lemma comp_adv_pcs s : Hist s -> comp_adv s (product_check_state c s).
Proof.
  intros H k Hk. rewrite cstof_pcs. pose proof Hk as Hk'. apply Nat.ltb_lt in Hk'. rewrite Hk'.
  destruct (comp_check_ok s k (H k Hk)) as (_ & _ & _ & D & E). split; [|exact E].
  intros Hn Hr. apply Hn, D, Hr.
Qed.

(* ----------------------------------------------------- placement keeps cst *)
Lemma cstof_detach_one s k k' : cstof (detach_one s k) k' = cstof s k'.
Proof.
  unfold detach_one, cstof. destruct (pw (cd s k)); [|reflexivity].
  cbn [cd with_cd with_wpc]. rewrite upd_eq. destruct (Nat.eqb k' k) eqn:E; [|reflexivity].
  apply Nat.eqb_eq in E. subst. reflexivity.
Qed.
Lemma cstof_detach_tree s k k' : cstof (detach_tree c s k) k' = cstof s k'.
Proof.
  unfold detach_tree. apply (fold_left_inv (fun x => cstof x k' = cstof s k')); [reflexivity|].
  intros x b Hx. rewrite cstof_detach_one. exact Hx.
Qed.
Lemma cstof_check_removing cr s k' : cstof (check_removing c cr s) k' = cstof s k'.
Proof.
  unfold check_removing. apply (fold_left_inv (fun x => cstof x k' = cstof s k')); [reflexivity|].
  intros x b Hx. rewrite cstof_detach_tree. exact Hx.
Qed.
Lemma cstof_attach_tree s p k k' : cstof (attach_tree c s p k) k' = cstof s k'.
Proof.
  unfold attach_tree, cstof. cbn [cd with_cd with_wpc].
  apply (fold_left_inv (fun d => cst (d k') = cst (cd s k'))); [reflexivity|].
  intros d b Hd. rewrite upd_eq. destruct (Nat.eqb k' b) eqn:E; [|exact Hd].
  apply Nat.eqb_eq in E. subst. exact Hd.
Qed.
Lemma cstof_try_place s moved t k cands k' : cstof (fst (try_place c s moved t k cands)) k' = cstof s k'.
Proof.
  induction cands as [|p r IH]; cbn [try_place]; [reflexivity|].
  match goal with |- context [if ?b then _ else _] => destruct b end.
  - cbn [fst]. rewrite cstof_attach_tree, cstof_detach_tree. reflexivity.
  - exact IH.
Qed.
Lemma cstof_place_for s moved t k' : cstof (fst (place_for c s moved t)) k' = cstof s k'.
Proof.
  unfold place_for. destruct (t_comp c t) as [k|]; [|reflexivity].
  destruct (comp_is_ready c s k && can_move c s moved k); [|reflexivity].
  apply cstof_try_place.
Qed.

Lemma cd_alloc_workers s free t : cd (fst (alloc_workers c s free t)) = cd s.
Proof. apply (pi_alloc_workers c _ cd); reflexivity. Qed.
Lemma cd_alloc_with_facility s free t : cd (fst (alloc_with_facility c s free t)) = cd s.
Proof. apply (pi_alloc_with_facility c _ cd); reflexivity. Qed.

Lemma cstof_alloc_task acc t k' : cstof (fst (fst (alloc_task c acc t))) k' = cstof (fst (fst acc)) k'.
Proof.
  destruct acc as [[s free] moved]. unfold alloc_task. cbn [fst].
  destruct (place_for c s moved t) as [s1 moved1] eqn:Ep.
  assert (H1 : cstof s1 k' = cstof s k') by (change s1 with (fst (s1, moved1)); rewrite <- Ep; apply cstof_place_for).
  destruct (t_auto c t); cbn [fst]; [exact H1|].
  destruct (t_needfac c t).
  - destruct (alloc_with_facility c s1 free t) as [s2 f2] eqn:E2. cbn [fst].
    rewrite <- H1. unfold cstof. change s2 with (fst (s2, f2)). rewrite <- E2, cd_alloc_with_facility. reflexivity.
  - destruct (alloc_workers c s1 free t) as [s2 f2] eqn:E2. cbn [fst].
    rewrite <- H1. unfold cstof. change s2 with (fst (s2, f2)). rewrite <- E2, cd_alloc_workers. reflexivity.
Qed.
Lemma cstof_allocate o s k' : cstof (allocate c o s) k' = cstof s k'.
Proof.
  unfold allocate.
  assert (G : forall l a, cstof (fst (fst (fold_left (alloc_task c) l a))) k' = cstof (fst (fst a)) k').
  { induction l as [|t l IH]; intros a; simpl; [reflexivity|]. rewrite IH. apply cstof_alloc_task. }
  rewrite G. reflexivity.
Qed.

(* ------------------------------------------------------------- the phases *)
Lemma cstof_of_cd s s' : cd s' = cd s -> forall k, cstof s' k = cstof s k.
Proof. intros E k. unfold cstof. rewrite E. reflexivity. Qed.

Lemma cd_check_finished s : cd (check_finished c s) = cd s.
Proof. apply (pi_check_finished c _ cd); reflexivity. Qed.
Lemma cd_check_working s : cd (check_working c s) = cd s.
Proof. apply (pi_check_working c _ cd); reflexivity. Qed.
Lemma cd_update_pert tm s : cd (update_pert c tm s) = cd s.
Proof. apply (pi_update_pert c _ cd); reflexivity. Qed.

Lemma stof_same_of_Step_td s s' : td s' = td s -> forall t, stof s' t = stof s t.
Proof. intros E t. unfold stof. rewrite E. reflexivity. Qed.

(* after __update *)
Lemma update_C14 o s : Hist s -> COK (update c o s) /\ comp_adv s (update c o s).
Proof.
  intros H. unfold update.
  set (s1 := check_finished c s).
  assert (H1 : Hist s1).
  { eapply Hist_adv; [apply Step_check_finished|apply cstof_of_cd, cd_check_finished|exact H]. }
  set (s2 := product_check_state c s1).
  assert (H2 : COK s2) by (apply COK_pcs; exact H1).
  assert (A2 : comp_adv s s2).
  { eapply comp_adv_trans; [apply comp_adv_same, cstof_of_cd, cd_check_finished|apply comp_adv_pcs; exact H1]. }
  set (s3 := check_removing c (o_crank o) s2).
  assert (H3 : COK s3).
  { eapply COK_same; [apply stof_same_of_Step_td, td_check_removing|apply cstof_check_removing|exact H2]. }
  set (s4 := check_ready c s3).
  assert (H4 : Hist s4).
  { eapply Hist_adv; [apply Step_check_ready|intros k; reflexivity|apply COK_Hist; exact H3]. }
  set (s5 := product_check_state c s4).
  assert (H5 : COK s5) by (apply COK_pcs; exact H4).
  split.
  - eapply COK_same; [|apply cstof_of_cd, cd_update_pert|exact H5].
    intros t. apply (keeps_update_pert c (time s5) s5 t).
  - apply comp_adv_trans with (b := s2); [exact A2|].
    apply comp_adv_trans with (b := s3); [apply comp_adv_same; intros k; apply cstof_check_removing|].
    apply comp_adv_trans with (b := s4); [apply comp_adv_same; intros k; reflexivity|].
    apply comp_adv_trans with (b := s5); [apply comp_adv_pcs; exact H4|].
    apply comp_adv_same, cstof_of_cd, cd_update_pert.
Qed.

Lemma step_allocate_C14 o s : COK s -> COK (step_allocate c o s) /\ comp_adv s (step_allocate c o s).
Proof.
  intros H. unfold step_allocate.
  set (w := negb (mem (time s) (o_abs o))).
  set (s1 := absence_update c w s).
  assert (H1 : COK s1 /\ comp_adv s s1).
  { split; [eapply COK_same; [apply stof_same_of_Step_td, td_absence_update| |exact H]|apply comp_adv_same];
      apply cstof_of_cd; apply (pi_absence_update c _ cd); reflexivity. }
  set (s2 := if w then allocate c o s1 else s1).
  assert (H2 : COK s2 /\ comp_adv s s2).
  { unfold s2. destruct w; [|exact H1]. destruct H1 as [H1 A1]. split.
    - eapply COK_same; [|apply cstof_allocate|exact H1]. intros t. apply (ksr_allocate c o s1 t).
    - eapply comp_adv_trans; [exact A1|apply comp_adv_same, cstof_allocate]. }
  destruct (w || o_auto_abs o); [|exact H2]. destruct H2 as [H2 A2].
  assert (H3 : Hist (check_working c s2)).
  { eapply Hist_adv; [apply Step_check_working|apply cstof_of_cd, cd_check_working|apply COK_Hist; exact H2]. }
  split; [apply COK_pcs; exact H3|].
  eapply comp_adv_trans; [exact A2|].
  eapply comp_adv_trans; [apply comp_adv_same, cstof_of_cd, cd_check_working|apply comp_adv_pcs; exact H3].
Qed.

Lemma step_perform_C14 o s : COK s -> COK (step_perform c o s) /\ comp_adv s (step_perform c o s).
Proof.
  intros H.
  assert (Et : forall t, stof (step_perform c o s) t = stof s t).
  { intros t. unfold step_perform, stof.
    destruct (negb (mem (time s) (o_abs o))); [rewrite st_perform; reflexivity|].
    destruct (o_auto_abs o); [rewrite st_perform; reflexivity|reflexivity]. }
  assert (Ek : forall k, cstof (step_perform c o s) k = cstof s k).
  { intros k. unfold step_perform, cstof.
    destruct (negb (mem (time s) (o_abs o))); [reflexivity|]. destruct (o_auto_abs o); reflexivity. }
  split; [eapply COK_same; eassumption|apply comp_adv_same; exact Ek].
Qed.

Lemma step_record_C14 o s : COK s -> COK (step_record c o s) /\ comp_adv s (step_record c o s).
Proof.
  intros H. split; [eapply COK_same; [| |exact H]; intros; reflexivity|apply comp_adv_same; intros; reflexivity].
Qed.

(* product.initialize *)
Lemma COK_initialize o s : o_init_state o = true -> COK (initialize c o s).
Proof.
  intros Hs. unfold initialize. rewrite Hs.
  match goal with |- COK (with_cd ?s2 _) => set (S2 := s2) end.
  intros k Hk. unfold CompOK, cstof. cbn [cd with_cd]. rewrite tab_spec.
  pose proof Hk as Hk'. apply Nat.ltb_lt in Hk'. rewrite Hk'. cbn [cst].
  assert (E : sts (with_cd S2 (tab (nC c) (fun k0 => mkCL (comp_check c S2 k0) None) (cd S2))) k = sts S2 k) by reflexivity.
  rewrite E.
  assert (Hc : cstof S2 k = CFinished -> forallb is_fin (sts S2 k) = true).
  { unfold S2, cstof.
    rewrite (pi_check_ready c _ cd) by reflexivity. rewrite (pi_update_pert c _ cd) by reflexivity.
    cbn [cd with_cpl]. rewrite tab_spec, Hk'. discriminate. }
  destruct (comp_check_ok S2 k Hc) as (A & B & D & _). auto.
Qed.

Lemma COK_initialize_resume o s : o_init_state o = false -> COK s -> COK (initialize c o s).
Proof.
  intros Hs H. unfold initialize. rewrite Hs.
  eapply COK_same; [| |exact H]; intros; reflexivity.
Qed.

Theorem C14_component_state o s :
  (o_init_state o = true \/ COK s) ->
  Forall (fun ob : obs => COK (snd ob)) (snd (simulate c o s)).
Proof.
  intros Hstart.
  destruct (simulate_trace c o s) as (tr & Htr & Esnd). rewrite Esnd.
  assert (H0 : COK (initialize c o s)).
  { destruct Hstart as [H|H]; [apply COK_initialize; exact H|].
    destruct (o_init_state o) eqn:E; [apply COK_initialize; exact E|apply COK_initialize_resume; assumption]. }
  destruct (trace_invariant c o COK COK COK COK COK
              (fun x Hx => proj1 (update_C14 o x (COK_Hist x Hx)))
              (fun x Hx => proj1 (step_allocate_C14 o x Hx))
              (fun x Hx => proj1 (step_perform_C14 o x Hx))
              (fun x Hx => proj1 (step_record_C14 o x Hx))
              (fun x Hx => COK_same x (with_time x (S (time x))) (fun t => eq_refl) (fun k => eq_refl) Hx)
              _ _ _ Htr H0) as [Hall _].
  eapply Forall_impl; [|exact Hall]. intros [[k ph] sn]. cbn. destruct ph; exact (fun h => h).
Qed.

(* (d) between consecutive snapshots (whose first satisfies the invariant) no
   component returns to NONE or leaves FINISHED *)
Theorem C14_monotone o tr : consecutive c o tr ->
  forall i a b, nth_error tr i = Some a -> nth_error tr (S i) = Some b -> COK (snd a) -> comp_adv (snd a) (snd b).
Proof.
  induction 1 as [|x|k s l H IH|k s l H IH|k s l H IH|k s l H IH]; intros i a b Ha Hb Hok.
  - destruct i; discriminate.
  - destruct i; [discriminate|destruct i; discriminate].
  - destruct i; [cbn in Ha, Hb; injection Ha as <-; injection Hb as <-; apply step_allocate_C14; exact Hok|eapply IH; eassumption].
  - destruct i; [cbn in Ha, Hb; injection Ha as <-; injection Hb as <-; apply step_perform_C14; exact Hok|eapply IH; eassumption].
  - destruct i; [cbn in Ha, Hb; injection Ha as <-; injection Hb as <-; apply step_record_C14; exact Hok|eapply IH; eassumption].
  - destruct i; [cbn in Ha, Hb; injection Ha as <-; injection Hb as <-|eapply IH; eassumption].
    cbn [snd] in *.
    apply comp_adv_trans with (b := with_time s (S k)); [apply comp_adv_same; intros; reflexivity|].
    apply (proj2 (update_C14 o (with_time s (S k))
                   (COK_Hist _ (COK_same s (with_time s (S k)) (fun t => eq_refl) (fun k0 => eq_refl) Hok)))).
Qed.

End C14.

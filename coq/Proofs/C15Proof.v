(* C15: a run paused at step k and resumed (state and log initialisation off)
   ends in the state of the uninterrupted run. *)
From Coq Require Import List ZArith QArith Bool Arith Lia.
From PV Require Import Model.Types Model.Sim Proofs.Base Proofs.RunLemmas Proofs.StatusIndep.
Import ListNotations.
Open Scope nat_scope.

Definition with_max (o : opts) (m : nat) : opts :=
  mkOpts (o_rule o) (o_abs o) (o_auto_abs o) (o_init_state o) (o_init_log o) m (o_crank o).
Definition resume_opts (o : opts) (m : nat) : opts :=
  mkOpts (o_rule o) (o_abs o) (o_auto_abs o) false false m (o_crank o).

Section C15.
Variable c : cfg.

(* the loop only looks at the rule, the absence list, the auto flag, the
   component visit order and max_time *)
Lemma trace_from_opts o1 o2 : o_rule o1 = o_rule o2 -> o_abs o1 = o_abs o2 -> o_auto_abs o1 = o_auto_abs o2 ->
  o_crank o1 = o_crank o2 -> o_max_time o1 = o_max_time o2 ->
  forall s tr sf, trace_from c o1 s tr sf -> trace_from c o2 s tr sf.
Proof.
  intros E1 E2 E3 E4 E5.
  assert (U : forall x, update c o1 x = update c o2 x) by (intros x; unfold update; rewrite E4; reflexivity).
  assert (A : forall x, step_allocate c o1 x = step_allocate c o2 x).
  { intros x. unfold step_allocate, allocate. rewrite E1, E2, E3. reflexivity. }
  assert (P : forall x, step_perform c o1 x = step_perform c o2 x).
  { intros x. unfold step_perform. rewrite E2, E3. reflexivity. }
  assert (R : forall x, step_record c o1 x = step_record c o2 x).
  { intros x. unfold step_record. rewrite E2. reflexivity. }
  induction 1 as [s Ha|s Ha Hm|s rest sf Ha Hm s1 sa sp sr Hrest IH].
  - rewrite U. apply tr_success. rewrite <- U. exact Ha.
  - rewrite U. apply tr_failure; rewrite <- U; [exact Ha|rewrite <- E5; exact Hm].
  - subst s1 sa sp sr. rewrite ?U, ?A, ?P, ?R in *. rewrite E5 in Hm.
    apply tr_step; assumption.
Qed.

Lemma initialize_off o s : o_init_state o = false -> o_init_log o = false -> initialize c o s = s.
Proof. intros H1 H2. unfold initialize. rewrite H1, H2. destruct s. reflexivity. Qed.

Section Fixed.
Variable o : opts.

Lemma trace_det s tr1 sf1 : trace_from c o s tr1 sf1 -> forall tr2 sf2, trace_from c o s tr2 sf2 -> sf1 = sf2.
Proof.
  induction 1 as [s Ha|s Ha Hm|s rest sf Ha Hm s1 sa sp sr Hrest IH]; intros tr2 sf2 H2.
  - inversion H2; subst; try reflexivity; congruence.
  - inversion H2; subst; try reflexivity; try congruence. lia.
  - inversion H2; subst; try congruence; try lia.
    match goal with H : trace_from c o (with_time _ _) _ sf2 |- _ => apply (IH _ _ H) end.
Qed.

(* the final state does not depend on the status of the state the loop starts from *)
Lemma trace_ws s tr sf : trace_from c o s tr sf -> forall z, exists tr', trace_from c o (ws s z) tr' sf.
Proof.
  induction 1 as [s Ha|s Ha Hm|s rest sf Ha Hm s1 sa sp sr Hrest IH]; intros z.
  - eexists. replace (ws (update c o s) StSuccess) with (ws (update c o (ws s z)) StSuccess) by (rewrite SC_update; reflexivity).
    apply tr_success. rewrite SC_update. exact Ha.
  - eexists. replace (ws (update c o s) StFailure) with (ws (update c o (ws s z)) StFailure) by (rewrite SC_update; reflexivity).
    apply tr_failure; rewrite SC_update; assumption.
  - destruct (IH z) as [tr' Htr'].
    eexists. apply tr_step; cbv zeta; rewrite ?SC_update, ?SC_step_allocate, ?SC_step_perform, ?SC_step_record;
      cbn [time with_status]; try assumption.
    rewrite with_time_ws. exact Htr'.
Qed.
End Fixed.

(* the pause / resume argument, for runs that share everything but max_time *)
Definition stable_heads (o : opts) (tr : list obs) : Prop :=
  Forall (fun ob : obs => snd (fst ob) = PUpdated -> update c o (snd ob) = snd ob) tr.

Theorem resume_same (o : opts) (k m : nat) : k <= m ->
  forall h trm sfm, trace_from c (with_max o m) h trm sfm -> stable_heads o trm ->
  forall trk spk, trace_from c (with_max o k) h trk spk ->
  forall trr sr, trace_from c (with_max o m) spk trr sr -> sr = sfm.
Proof.
  intros Hkm h trm sfm Hm. 
  assert (U : forall x q, update c (with_max o q) x = update c o x) by reflexivity.
  induction Hm as [s Ha|s Ha Hmx|s rest sf Ha Hmx s1 sa sp sr0 Hrest IH]; intros Hst trk spk Hk trr sr Hr.
  - (* finished at this head *)
    inversion Hst as [|ob l Hob _]; subst. cbn in Hob. specialize (Hob eq_refl). rewrite !U in *.
    inversion Hk; subst; rewrite ?U in *; try congruence.
    inversion Hr; subst; rewrite ?U, ?SC_update, ?Hob in *; cbn [all_finished] in *;
      try (rewrite all_finished_ws in *; congruence). reflexivity.
  - (* max_time reached at this head *)
    inversion Hst as [|ob l Hob _]; subst. cbn in Hob. specialize (Hob eq_refl). rewrite !U in *. cbn [o_max_time with_max] in *.
    inversion Hk; subst; rewrite ?U in *; cbn [o_max_time with_max] in *; try congruence; try lia.
    inversion Hr; subst; rewrite ?U, ?SC_update, ?Hob in *; cbn [o_max_time with_max time with_status] in *;
      try (rewrite all_finished_ws in *; congruence); try lia. reflexivity.
  - (* the uninterrupted run goes on *)
    inversion Hst as [|ob l Hob Hst']; subst. cbn in Hob. specialize (Hob eq_refl).
    unfold s1 in Hob. rewrite U in Hob.
    inversion Hst' as [|? ? _ Hst2]; subst. inversion Hst2 as [|? ? _ Hst3]; subst. inversion Hst3 as [|? ? _ Hst4]; subst.
    inversion Hk; subst.
    + rewrite !U in *. congruence.
    + (* paused here *)
      rewrite !U in *. cbn [o_max_time with_max] in *.
      inversion Hr; subst; rewrite ?U, ?SC_update, ?Hob in *; cbn [o_max_time with_max time with_status] in *;
        try (rewrite all_finished_ws in *; congruence); try lia.
      match goal with H : trace_from c (with_max o m) (with_time _ _) _ sr |- _ => rename H into Hcont end.
      repeat match goal with x := _ |- _ => subst x end.
      rewrite ?U, SC_update, Hob, SC_step_allocate, SC_step_perform, SC_step_record in Hcont.
      cbn [time with_status] in Hcont. rewrite with_time_ws in Hcont.
      destruct (trace_ws (with_max o m) _ _ _ Hrest StFailure) as [tr' Htr'].
      rewrite ?U in Htr'.
      apply (trace_det (with_max o m) _ _ _ Hcont _ _ Htr').
    + (* paused later *)
      match goal with H : trace_from c (with_max o k) (with_time _ _) _ spk |- _ => apply (IH Hst4 _ _ H _ _ Hr) end.
Qed.

(* stated for simulate *)
Theorem pause_resume (o : opts) (s : pstate) (k m : nat) : k <= m ->
  stable_heads o (snd (simulate c (with_max o m) s)) ->
  let paused := fst (simulate c (with_max o k) s) in
  fst (simulate c (resume_opts o m) paused) = fst (simulate c (with_max o m) s).
Proof.
  intros Hkm Hst. cbv zeta.
  destruct (simulate_trace c (with_max o m) s) as (trm & Hm & Em). rewrite Em in Hst.
  destruct (simulate_trace c (with_max o k) s) as (trk & Hk & _).
  destruct (simulate_trace c (resume_opts o m) (fst (simulate c (with_max o k) s))) as (trr & Hr & _).
  rewrite initialize_off in Hr by reflexivity.
  apply (trace_from_opts (resume_opts o m) (with_max o m) eq_refl eq_refl eq_refl eq_refl eq_refl) in Hr.
  change (initialize c (with_max o k) s) with (initialize c (with_max o m) s) in Hk.
  exact (resume_same o k m Hkm _ _ _ Hm Hst _ _ Hk _ _ Hr).
Qed.

End C15.

(* C17: backward_simulate leaves the dependency structure intact. *)
From Coq Require Import List ZArith QArith Bool Arith Lia Permutation.
From PV Require Import Model.Types Model.Sim Model.Backward Proofs.Base.
Import ListNotations.
Open Scope nat_scope.

(* ----------------------------------------------------------- reversal *)
Lemma reverse_tasks_involutive g t :
  g_in (reverse_tasks (reverse_tasks g)) t = g_in g t /\ g_out (reverse_tasks (reverse_tasks g)) t = g_out g t
  /\ g_list (reverse_tasks (reverse_tasks g)) = g_list g.
Proof.
  unfold reverse_tasks. cbn [g_in g_out g_list]. destruct (mem t (g_list g)); repeat split; reflexivity.
Qed.
Lemma reverse_wps_involutive n g p :
  g_wpin (reverse_wps n (reverse_wps n g)) p = g_wpin g p /\ g_wpout (reverse_wps n (reverse_wps n g)) p = g_wpout g p.
Proof. unfold reverse_wps. cbn [g_wpin g_wpout]. destruct (p <? n); split; reflexivity. Qed.

(* ----------------------------------------------------------- helpers *)
Definition add_pairs (g : gstate) (ps : list (nat * nat)) : gstate :=
  fold_left (fun x th => add_helper x (fst th) (snd th)) ps g.

Lemma add_helpers_spec due m : forall tails g h,
  let ts := filter (fun t => (due t <? m)%Z) tails in
  add_helpers due m g tails h = (add_pairs g (combine ts (seq h (length ts))), seq h (length ts)).
Proof.
  induction tails as [|t r IH]; intros g h; cbn [add_helpers filter]; [reflexivity|].
  destruct (due t <? m)%Z; [|apply IH].
  cbn [length seq combine]. rewrite IH. reflexivity.
Qed.

(* the attached pairs: distinct tails of the list, fresh helper ids *)
Record pairs_ok (g : gstate) (ps : list (nat * nat)) : Prop := {
  po_tails : NoDup (map fst ps);
  po_helpers : NoDup (map snd ps);
  po_tail_in : forall t h, In (t, h) ps -> In t (g_list g) /\ g_in g t = [];
  po_fresh : forall t h, In (t, h) ps -> ~ In h (g_list g) /\ g_out g h = [] /\ ~ In h (map fst ps)
}.

Lemma add_pairs_list g ps : g_list (add_pairs g ps) = g_list g ++ map snd ps.
Proof.
  revert g; induction ps as [|[t h] ps IH]; intros g; [cbn; rewrite app_nil_r; reflexivity|].
  change (add_pairs g ((t, h) :: ps)) with (add_pairs (add_helper g t h) ps).
  rewrite IH. cbn [add_helper g_list fst snd map]. rewrite <- app_assoc. reflexivity.
Qed.

Lemma add_pairs_in g ps x : NoDup (map fst ps) ->
  g_in (add_pairs g ps) x = g_in g x ++ map (fun th => (snd th, FS)) (filter (fun th => Nat.eqb (fst th) x) ps).
Proof.
  revert g; induction ps as [|[t h] ps IH]; intros g Hnd; [cbn; rewrite app_nil_r; reflexivity|].
  change (add_pairs g ((t, h) :: ps)) with (add_pairs (add_helper g t h) ps).
  cbn [map] in Hnd. inversion Hnd as [|a l Ha Hl]; subst.
  rewrite IH by exact Hl. cbn [add_helper g_in fst snd filter]. rewrite upd_eq.
  destruct (Nat.eqb x t) eqn:E.
  - apply Nat.eqb_eq in E. subst x. rewrite Nat.eqb_refl. cbn [map]. rewrite <- app_assoc. reflexivity.
  - rewrite Nat.eqb_sym, E. reflexivity.
Qed.

Lemma add_pairs_out g ps x : NoDup (map snd ps) ->
  g_out (add_pairs g ps) x = g_out g x ++ map (fun th => (fst th, FS)) (filter (fun th => Nat.eqb (snd th) x) ps).
Proof.
  revert g; induction ps as [|[t h] ps IH]; intros g Hnd; [cbn; rewrite app_nil_r; reflexivity|].
  change (add_pairs g ((t, h) :: ps)) with (add_pairs (add_helper g t h) ps).
  cbn [map] in Hnd. inversion Hnd as [|a l Ha Hl]; subst.
  rewrite IH by exact Hl. cbn [add_helper g_out fst snd filter]. rewrite upd_eq.
  destruct (Nat.eqb x h) eqn:E.
  - apply Nat.eqb_eq in E. subst x. rewrite Nat.eqb_refl. cbn [map]. rewrite <- app_assoc. reflexivity.
  - rewrite Nat.eqb_sym, E. reflexivity.
Qed.

Lemma add_pairs_wp g ps : g_wpin (add_pairs g ps) = g_wpin g /\ g_wpout (add_pairs g ps) = g_wpout g.
Proof.
  revert g; induction ps as [|[t h] ps IH]; intros g; [split; reflexivity|].
  change (add_pairs g ((t, h) :: ps)) with (add_pairs (add_helper g t h) ps).
  destruct (IH (add_helper g t h)) as [E1 E2]. rewrite E1, E2. split; reflexivity.
Qed.


(* ----------------------------------------------------------- removal *)
Definition remaining (ps : list (nat * nat)) (done : list nat) : list (nat * nat) :=
  filter (fun th => negb (mem (snd th) done)) ps.

Lemma remaining_cons ps h done :
  remaining ps (h :: done) = filter (fun th => negb (Nat.eqb (snd th) h)) (remaining ps done).
Proof.
  unfold remaining. induction ps as [|[a b] ps IH]; cbn [filter snd]; [reflexivity|].
  unfold mem at 1. cbn [existsb]. fold (mem b done).
  destruct (Nat.eqb b h) eqn:E; cbn [orb negb].
  - destruct (negb (mem b done)); [cbn [filter snd]; rewrite E; cbn|]; exact IH.
  - destruct (negb (mem b done)); [cbn [filter snd]; rewrite E; cbn; f_equal|]; exact IH.
Qed.

Lemma map_snd_filter_neq (l : list (nat * nat)) h :
  map snd (filter (fun th => negb (Nat.eqb (snd th) h)) l) = filter (fun y => negb (Nat.eqb y h)) (map snd l).
Proof.
  induction l as [|[a b] l IH]; cbn; [reflexivity|]. destruct (Nat.eqb b h); cbn; [|f_equal]; exact IH.
Qed.

Lemma NoDup_map_filter {A B} (f : A -> B) (p : A -> bool) l : NoDup (map f l) -> NoDup (map f (filter p l)).
Proof.
  induction l as [|x l IH]; cbn; intros H; [constructor|]. inversion H as [|a b Ha Hb]; subst.
  destruct (p x); cbn; [constructor|]; try (apply IH; exact Hb).
  intros Hin. apply Ha. apply in_map_iff in Hin. destruct Hin as (y & E & Hy). apply filter_In in Hy.
  apply in_map_iff. exists y. split; [exact E|apply Hy].
Qed.

Lemma filter_fst_unique (l : list (nat * nat)) t h :
  NoDup (map fst l) -> In (t, h) l -> filter (fun th => Nat.eqb (fst th) t) l = [(t, h)].
Proof.
  induction l as [|[a b] l IH]; intros Hnd Hin; [contradiction|].
  cbn [map] in Hnd. inversion Hnd as [|x y Ha Hl]; subst. cbn [filter fst].
  destruct Hin as [E|Hin].
  - injection E as -> ->. rewrite Nat.eqb_refl. f_equal.
    apply filter_all_false. intros [a b] Hab. cbn [fst]. destruct (Nat.eqb a t) eqn:E; [|reflexivity].
    apply Nat.eqb_eq in E. subst a. exfalso. apply Ha. apply in_map_iff. exists (t, b). split; [reflexivity|exact Hab].
  - destruct (Nat.eqb a t) eqn:E.
    + apply Nat.eqb_eq in E. subst a. exfalso. apply Ha. apply in_map_iff. exists (t, h). split; [reflexivity|exact Hin].
    + apply IH; assumption.
Qed.

Lemma NoDup_snd_inj (l : list (nat * nat)) a t h : NoDup (map snd l) -> In (a, h) l -> In (t, h) l -> a = t.
Proof.
  induction l as [|[x y] l IH]; intros Hnd H1 H2; [contradiction|].
  cbn [map snd] in Hnd. inversion Hnd as [|x' y' Ha Hl]; subst.
  destruct H1 as [E1|H1], H2 as [E2|H2].
  - congruence.
  - injection E1 as -> ->. exfalso. apply Ha. apply in_map_iff. exists (t, h). split; [reflexivity|exact H2].
  - injection E2 as -> ->. exfalso. apply Ha. apply in_map_iff. exists (a, h). split; [reflexivity|exact H1].
  - apply IH; assumption.
Qed.

Lemma filter_fst_drop (l : list (nat * nat)) t h t' :
  NoDup (map snd l) -> In (t, h) l -> t' <> t ->
  filter (fun th => Nat.eqb (fst th) t') (filter (fun th => negb (Nat.eqb (snd th) h)) l)
  = filter (fun th => Nat.eqb (fst th) t') l.
Proof.
  intros Hnd Hin Hne. induction l as [|[a b] l IH]; [reflexivity|].
  cbn [filter snd fst].
  destruct (Nat.eqb b h) eqn:Eb; cbn [negb].
  - apply Nat.eqb_eq in Eb. subst b.
    assert (a = t) by (apply (NoDup_snd_inj ((a, h) :: l) a t h Hnd); [left; reflexivity|exact Hin]). subst a.
    assert (Et : Nat.eqb t t' = false) by (apply Nat.eqb_neq; congruence). rewrite Et.
    cbn [map snd] in Hnd. inversion Hnd as [|x' y' Ha Hl]; subst.
    f_equal. apply filter_all_true. intros [a b] Hab. cbn [snd]. destruct (Nat.eqb b h) eqn:E; [|reflexivity].
    apply Nat.eqb_eq in E. subst b. exfalso. apply Ha. apply in_map_iff. exists (a, h). split; [reflexivity|exact Hab].
  - cbn [filter fst]. cbn [map snd] in Hnd. inversion Hnd as [|x' y' Ha Hl]; subst.
    destruct Hin as [E1|Hin]; [injection E1 as -> ->; rewrite Nat.eqb_refl in Eb; discriminate|].
    rewrite (IH Hl Hin). reflexivity.
Qed.

Definition removed_state (g : gstate) (ps : list (nat * nat)) (done : list nat) (x : gstate) : Prop :=
  g_list x = g_list g ++ map snd (remaining ps done)
  /\ (forall t, g_in x t = g_in g t ++ map (fun th => (snd th, FS)) (filter (fun th => Nat.eqb (fst th) t) (remaining ps done)))
  /\ (forall t, g_out x t = g_out (add_pairs g ps) t)
  /\ g_wpin x = g_wpin g /\ g_wpout x = g_wpout g.

Section Remove.
Variable g : gstate.
Variable ps : list (nat * nat).
Hypothesis Hok : pairs_ok g ps.

Lemma remove_helper_step done x t h :
  removed_state g ps done x -> In (t, h) ps -> ~ In h done ->
  removed_state g ps (h :: done) (remove_helper x h).
Proof.
  intros (HL & Hin & Hout & W1 & W2) Hp Hnd.
  destruct Hok as [Ht Hh Htin Hfr].
  assert (Eout : g_out x h = [(t, FS)]).
  { rewrite Hout, (add_pairs_out g ps h Hh). destruct (Hfr t h Hp) as (_ & E & _). rewrite E.
    assert (F : filter (fun th => Nat.eqb (snd th) h) ps = [(t, h)]).
    { clear -Hh Hp. induction ps as [|[a b] l IH]; [contradiction|].
      cbn [map] in Hh. inversion Hh as [|x y Ha Hl]; subst. cbn [filter snd].
      destruct Hp as [E|Hp].
      - injection E as -> ->. rewrite Nat.eqb_refl. f_equal.
        apply filter_all_false. intros [a b] Hab. cbn [snd]. destruct (Nat.eqb b h) eqn:E; [|reflexivity].
        apply Nat.eqb_eq in E. subst b. exfalso. apply Ha. apply in_map_iff. exists (a, h). split; [reflexivity|exact Hab].
      - destruct (Nat.eqb b h) eqn:E.
        + apply Nat.eqb_eq in E. subst b. exfalso. apply Ha. apply in_map_iff. exists (t, h). split; [reflexivity|exact Hp].
        + apply IH; assumption. }
    rewrite F. reflexivity. }
  assert (Hrem : In (t, h) (remaining ps done)).
  { unfold remaining. apply filter_In. split; [exact Hp|]. cbn [snd].
    destruct (mem h done) eqn:Em; [apply mem_In in Em; contradiction|reflexivity]. }
  assert (Hndf : NoDup (map fst (remaining ps done))) by (apply NoDup_map_filter; exact Ht).
  assert (Hnds : NoDup (map snd (remaining ps done))) by (apply NoDup_map_filter; exact Hh).
  unfold remove_helper. rewrite Eout. cbn [fold_left fst snd g_list g_in g_out g_wpin g_wpout].
  unfold removed_state. cbn [g_list g_in g_out g_wpin g_wpout].
  split; [|split; [|split; [exact Hout|split; [exact W1|exact W2]]]].
  - rewrite HL. destruct (Hfr t h Hp) as (Hnl & _).
    rewrite remove_first_app_r by exact Hnl.
    rewrite remove_first_filter by exact Hnds.
    rewrite remaining_cons, map_snd_filter_neq. reflexivity.
  - intros t'. rewrite upd_eq. destruct (Nat.eqb t' t) eqn:E.
    + apply Nat.eqb_eq in E. subst t'. rewrite Hin.
      rewrite (filter_fst_unique (remaining ps done) t h Hndf Hrem).
      destruct (Htin t h Hp) as [_ Ein]. rewrite Ein. cbn [app map snd].
      cbn [remove_pair]. unfold pair_eqb. cbn [fst snd dep_eqb]. rewrite Nat.eqb_refl. cbn [andb].
      (* no pair with first component t remains *)
      symmetry. rewrite remaining_cons.
      assert (F : filter (fun th => Nat.eqb (fst th) t) (filter (fun th => negb (Nat.eqb (snd th) h)) (remaining ps done)) = []).
      { apply filter_all_false. intros [a b] Hab. apply filter_In in Hab. destruct Hab as [Hab Hne]. cbn [fst snd] in *.
        destruct (Nat.eqb a t) eqn:Ea; [|reflexivity]. apply Nat.eqb_eq in Ea. subst a. exfalso.
        pose proof (filter_fst_unique (remaining ps done) t h Hndf Hrem) as U.
        assert (I : In (t, b) (filter (fun th => Nat.eqb (fst th) t) (remaining ps done))) by (apply filter_In; split; [exact Hab|apply Nat.eqb_refl]).
        rewrite U in I. destruct I as [I|[]]. injection I as <-. rewrite Nat.eqb_refl in Hne. discriminate. }
      rewrite F. reflexivity.
    + rewrite Hin. f_equal. f_equal. rewrite remaining_cons.
      symmetry. apply filter_fst_drop with (t := t); [exact Hnds|exact Hrem|apply Nat.eqb_neq; exact E].
Qed.

Lemma remove_all l : NoDup l -> (forall h, In h l -> In h (map snd ps)) ->
  forall done x, removed_state g ps done x -> (forall h, In h l -> ~ In h done) ->
  removed_state g ps (rev l ++ done) (fold_left remove_helper l x).
Proof.
  induction l as [|h l IH]; intros Hnd Hsub done x Hx Hdone; cbn [fold_left rev app]; [exact Hx|].
  inversion Hnd as [|a l' Ha Hl]; subst.
  assert (Hp : exists t, In (t, h) ps).
  { pose proof (Hsub h (or_introl eq_refl)) as Hm. apply in_map_iff in Hm. destruct Hm as ([t h'] & E & Hin). cbn in E. subst h'. exists t. exact Hin. }
  destruct Hp as [t Hp].
  rewrite <- app_assoc. cbn [app].
  apply IH; [exact Hl|intros h' Hh'; apply Hsub; right; exact Hh'| |].
  - apply (remove_helper_step done x t h Hx Hp). apply Hdone. left. reflexivity.
  - intros h' Hh' [->|Hin]; [contradiction|]. apply (Hdone h' (or_intror Hh')). exact Hin.
Qed.

(* removing all helpers, in ANY order (the code iterates over a set), restores
   the task list and every input list; the output lists of the original tasks
   were never touched *)
Theorem helpers_removed l : Permutation l (map snd ps) ->
  let x := fold_left remove_helper l (add_pairs g ps) in
  g_list x = g_list g /\ (forall t, g_in x t = g_in g t)
  /\ (forall t, ~ In t (map snd ps) -> g_out x t = g_out g t)
  /\ g_wpin x = g_wpin g /\ g_wpout x = g_wpout g.
Proof.
  intros P. cbv zeta.
  assert (Hh : NoDup (map snd ps)) by apply Hok.
  assert (Ht : NoDup (map fst ps)) by apply Hok.
  assert (Hnd : NoDup l) by (eapply Permutation_NoDup; [symmetry; exact P|exact Hh]).
  assert (H0 : removed_state g ps [] (add_pairs g ps)).
  { destruct (add_pairs_wp g ps) as [W1 W2].
    assert (R0 : remaining ps [] = ps) by (unfold remaining; apply filter_all_true; intros; reflexivity).
    unfold removed_state. rewrite R0. split; [apply add_pairs_list|]. split; [intros t; apply add_pairs_in; exact Ht|].
    split; [reflexivity|split; assumption]. }
  pose proof (remove_all l Hnd (fun h Hin => Permutation_in h P Hin) [] (add_pairs g ps) H0 (fun h _ F => F)) as R.
  rewrite app_nil_r in R. destruct R as (HL & Hin & Hout & W1 & W2).
  assert (Rall : remaining ps (rev l) = []).
  { unfold remaining. apply filter_all_false. intros [a b] Hab. cbn [snd].
    assert (Hb : In b (rev l)).
    { rewrite <- in_rev. eapply Permutation_in; [symmetry; exact P|]. apply in_map_iff. exists (a, b). split; [reflexivity|exact Hab]. }
    apply mem_In in Hb. rewrite Hb. reflexivity. }
  rewrite Rall in HL, Hin. cbn in HL, Hin.
  split; [rewrite HL; apply app_nil_r|]. split; [intros t; rewrite Hin; apply app_nil_r|].
  split; [|split; assumption].
  intros t Hin'. rewrite Hout, (add_pairs_out g ps t Hh).
  assert (F : filter (fun th => Nat.eqb (snd th) t) ps = []).
  { apply filter_all_false. intros [a b] Hab. cbn [snd]. destruct (Nat.eqb b t) eqn:E; [|reflexivity].
    apply Nat.eqb_eq in E. subst b. exfalso. apply Hin'. apply in_map_iff. exists (a, t). split; [reflexivity|exact Hab]. }
  rewrite F. cbn. apply app_nil_r.
Qed.
End Remove.

(* ------------------------------------------------- the whole call *)
Lemma combine_fst {A B} (l : list A) (m : list B) : length l = length m -> map fst (combine l m) = l.
Proof. revert m; induction l as [|x l IH]; intros [|y m] H; cbn in *; try reflexivity; try discriminate. f_equal. apply IH. lia. Qed.
Lemma combine_snd {A B} (l : list A) (m : list B) : length l = length m -> map snd (combine l m) = m.
Proof. revert m; induction l as [|x l IH]; intros [|y m] H; cbn in *; try reflexivity; try discriminate. f_equal. apply IH. lia. Qed.

(* well-formed object graph before the call: no task listed twice; the ids
   [fresh], [fresh]+1, ... are unused (the helper tasks are new objects) *)
Record graph_ok (g : gstate) (fresh : nat) : Prop := {
  go_nodup : NoDup (g_list g);
  go_range : forall t, In t (g_list g) -> t < fresh;
  go_fresh : forall h, fresh <= h -> g_in g h = [] /\ g_out g h = []
}.

Theorem backward_restores nwp consider_due due fresh g : graph_ok g fresh ->
  let g1 := fst (backward_prepare nwp consider_due due fresh g) in
  let hs := snd (backward_prepare nwp consider_due due fresh g) in
  forall l, Permutation l hs ->
  let g' := backward_finally nwp l g1 in
  g_list g' = g_list g
  /\ (forall t, g_in g' t = g_in g t)
  /\ (forall t, t < fresh -> g_out g' t = g_out g t)
  /\ (forall p, g_wpin g' p = g_wpin g p) /\ (forall p, g_wpout g' p = g_wpout g p).
Proof.
  intros [Hnd Hrange Hfresh]. cbv zeta.
  set (r1 := reverse_wps nwp (reverse_tasks g)).
  assert (Plain : forall l, Permutation l [] ->
    let g' := backward_finally nwp l r1 in
    g_list g' = g_list g /\ (forall t, g_in g' t = g_in g t) /\ (forall t, t < fresh -> g_out g' t = g_out g t)
    /\ (forall p, g_wpin g' p = g_wpin g p) /\ (forall p, g_wpout g' p = g_wpout g p)).
  { intros l P. apply Permutation_sym, Permutation_nil in P. subst l. cbv zeta.
    unfold backward_finally, r1. cbn [fold_left].
    split; [reflexivity|]. split; [|split; [|split]].
    - intros t. unfold reverse_wps, reverse_tasks. cbn [g_in g_out g_list]. destruct (mem t (g_list g)); reflexivity.
    - intros t _. unfold reverse_wps, reverse_tasks. cbn [g_in g_out g_list]. destruct (mem t (g_list g)); reflexivity.
    - intros p. unfold reverse_wps, reverse_tasks. cbn [g_wpin g_wpout]. destruct (p <? nwp); reflexivity.
    - intros p. unfold reverse_wps, reverse_tasks. cbn [g_wpin g_wpout]. destruct (p <? nwp); reflexivity. }
  unfold backward_prepare. fold r1.
  destruct consider_due; [|cbn [fst snd]; exact Plain].
  set (tails := filter (fun t => match g_in r1 t with [] => true | _ => false end) (g_list r1)).
  destruct tails as [|t0 tails'] eqn:Etails; [cbn [fst snd]; exact Plain|].
  rewrite <- Etails. clear Plain.
  set (m := zmax_list (map due tails) (due t0)).
  rewrite add_helpers_spec. cbv zeta. cbn [fst snd].
  set (ts := filter (fun t => (due t <? m)%Z) tails).
  set (ps := combine ts (seq fresh (length ts))).
  assert (Lts : length ts = length (seq fresh (length ts))) by (rewrite seq_length; reflexivity).
  assert (Efst : map fst ps = ts) by (apply combine_fst; exact Lts).
  assert (Esnd : map snd ps = seq fresh (length ts)) by (apply combine_snd; exact Lts).
  assert (Lr1 : g_list r1 = g_list g) by reflexivity.
  assert (Hts : forall t, In t ts -> In t (g_list g) /\ g_in r1 t = []).
  { intros t Ht. unfold ts in Ht. apply filter_In in Ht. destruct Ht as [Ht _]. unfold tails in Ht.
    apply filter_In in Ht. destruct Ht as [Ht1 Ht2]. split; [exact Ht1|]. destruct (g_in r1 t); [reflexivity|discriminate]. }
  assert (Hok : pairs_ok r1 ps).
  { constructor.
    - rewrite Efst. unfold ts, tails. apply NoDup_filter, NoDup_filter. rewrite Lr1. exact Hnd.
    - rewrite Esnd. apply seq_NoDup.
    - intros t h Hin. apply Hts. rewrite <- Efst. apply in_map_iff. exists (t, h). split; [reflexivity|exact Hin].
    - intros t h Hin.
      assert (Hh : fresh <= h).
      { assert (I : In h (map snd ps)) by (apply in_map_iff; exists (t, h); split; [reflexivity|exact Hin]).
        rewrite Esnd in I. apply in_seq in I. lia. }
      assert (Hnl : ~ In h (g_list g)) by (intros I; apply Hrange in I; lia).
      split; [rewrite Lr1; exact Hnl|]. split.
      + unfold r1, reverse_wps, reverse_tasks. cbn [g_out g_list].
        destruct (mem h (g_list g)) eqn:Em; [apply mem_In in Em; contradiction|]. apply (Hfresh h Hh).
      + rewrite Efst. intros I. apply Hts in I. destruct I as [I _]. contradiction. }
  intros l P. rewrite <- Esnd in P.
  destruct (helpers_removed r1 ps Hok l P) as (HL & Hin & Hout & W1 & W2).
  unfold backward_finally.
  set (x := fold_left remove_helper l (add_pairs r1 ps)) in *.
  split; [exact HL|]. split; [|split; [|split]].
  - intros t. unfold reverse_wps, reverse_tasks. cbn [g_in g_out g_list]. rewrite HL, Lr1.
    destruct (mem t (g_list g)) eqn:Em.
    + rewrite Hout.
      * unfold r1, reverse_wps, reverse_tasks. cbn [g_out g_list]. rewrite Em. reflexivity.
      * rewrite Esnd. intros I. apply in_seq in I. apply mem_In in Em. apply Hrange in Em. lia.
    + rewrite Hin. unfold r1, reverse_wps, reverse_tasks. cbn [g_in g_list]. rewrite Em. reflexivity.
  - intros t Ht. unfold reverse_wps, reverse_tasks. cbn [g_in g_out g_list]. rewrite HL, Lr1.
    destruct (mem t (g_list g)) eqn:Em.
    + rewrite Hin. unfold r1, reverse_wps, reverse_tasks. cbn [g_in g_list]. rewrite Em. reflexivity.
    + rewrite Hout.
      * unfold r1, reverse_wps, reverse_tasks. cbn [g_out g_list]. rewrite Em. reflexivity.
      * rewrite Esnd. intros I. apply in_seq in I. lia.
  - intros p. unfold reverse_wps at 1. cbn [g_wpin g_wpout]. unfold reverse_tasks at 1 2. cbn [g_wpin g_wpout].
    rewrite W1, W2. unfold r1, reverse_wps, reverse_tasks. cbn [g_wpin g_wpout]. destruct (p <? nwp); reflexivity.
  - intros p. unfold reverse_wps at 1. cbn [g_wpin g_wpout]. unfold reverse_tasks at 1 2. cbn [g_wpin g_wpout].
    rewrite W1, W2. unfold r1, reverse_wps, reverse_tasks. cbn [g_wpin g_wpout]. destruct (p <? nwp); reflexivity.
Qed.

(* the outcome is the same whether the inner run returned or raised *)
Theorem backward_structure_crash_irrelevant nwp cd due fresh g :
  backward_structure nwp cd due fresh true g = backward_structure nwp cd due fresh false g.
Proof. reflexivity. Qed.

(* C02: remaining work changes only by the contribution of what is allocated;
   finishing happens exactly when the work is done and the finish gate is open.
   Also the completeness halves used by C06 (a), (d). *)
From Coq Require Import List ZArith QArith Bool Arith Lia.
From PV Require Import Model.Types Model.Sim Proofs.Base Proofs.Frames Proofs.Proj Proofs.RunLemmas Proofs.C01Proof.
Import ListNotations.
Open Scope nat_scope.

Section C02.
Variable c : cfg.

Definition remof (s : pstate) (t : nat) : Q := rem (td s t).

(* ------------------------------------------------------------ (a) perform *)
Lemma rem_perform oa s t :
  remof (perform c oa s) t =
  if (t <? nT c) && is_working (stof s t) && (negb oa || t_auto c t)
  then (remof s t - progress c s t)%Q else remof s t.
Proof.
  unfold perform, remof, stof. cbn [td with_td]. rewrite tab_spec.
  destruct (t <? nT c); cbn [andb]; [|reflexivity].
  destruct (is_working (st (td s t)) && (negb oa || t_auto c t)); reflexivity.
Qed.

(* the perform phase of one step *)
Theorem rem_step_perform o s t :
  let working := negb (mem (time s) (o_abs o)) in
  remof (step_perform c o s) t =
  if (t <? nT c) && is_working (stof s t) && (working || (o_auto_abs o && t_auto c t))
  then (remof s t - progress c s t)%Q else remof s t.
Proof.
  cbv zeta. unfold step_perform.
  destruct (negb (mem (time s) (o_abs o))) eqn:Ew.
  - rewrite rem_perform. cbn [negb orb]. rewrite andb_true_r.
    change (remof (add_cost c true s) t) with (remof s t).
    change (stof (add_cost c true s) t) with (stof s t).
    destruct ((t <? nT c) && is_working (stof s t)); [|reflexivity].
    unfold progress. reflexivity.
  - destruct (o_auto_abs o) eqn:Ea.
    + rewrite rem_perform. cbn [negb orb andb].
      change (remof (add_cost c false s) t) with (remof s t).
      change (stof (add_cost c false s) t) with (stof s t).
      destruct ((t <? nT c) && is_working (stof s t) && t_auto c t); [|reflexivity].
      unfold progress. reflexivity.
    + cbn [orb andb]. rewrite andb_false_r. reflexivity.
Qed.

(* ------------------------------------------------- (b) every other phase *)
Lemma rem_step_allocate o s t : remof (step_allocate c o s) t = remof s t.
Proof.
  unfold step_allocate, remof.
  set (w := negb (mem (time s) (o_abs o))).
  assert (H1 : td (absence_update c w s) = td s) by apply td_absence_update.
  assert (H2 : rem (td (if w then allocate c o (absence_update c w s) else absence_update c w s) t) = rem (td s t)).
  { destruct w; [|rewrite H1; reflexivity].
    destruct (ksr_allocate c o (absence_update c true s) t) as [_ E]. rewrite E, H1. reflexivity. }
  destruct (w || o_auto_abs o); [|exact H2].
  rewrite <- H2. cbn [td product_check_state with_cd].
  apply (fold_left_inv (fun x => rem (td x t) = rem (td (if w then allocate c o (absence_update c w s) else absence_update c w s) t)));
    [reflexivity|].
  intros x t' Hx. rewrite <- Hx. unfold cw_one.
  destruct (is_ready (st (td x t'))).
  - destruct (t_needfac c t'); cbn [td with_td with_wd with_fd]; rewrite upd_eq;
      destruct (Nat.eqb t t') eqn:E; try reflexivity; apply Nat.eqb_eq in E; subst; reflexivity.
  - destruct (is_working (st (td x t'))); [|reflexivity].
    destruct (t_needfac c t' && negb match aw (td x t') with [] => true | _ :: _ => false end); reflexivity.
Qed.

Lemma rem_step_record o s t : remof (step_record c o s) t = remof s t.
Proof. reflexivity. Qed.

(* ---------------------------------------------------------- check_finished *)
Lemma rem_finish_task s t t' :
  remof (finish_task c s t) t' = if Nat.eqb t' t then 0%Q else remof s t'.
Proof.
  unfold finish_task, remof. destruct (t_needfac c t); cbn [td with_td with_wd with_fd];
    rewrite ?upd_eq; rewrite ?Nat.eqb_refl; destruct (Nat.eqb t' t) eqn:E; cbn; try reflexivity.
Qed.

(* relation between the state before and after (part of) check_finished *)
Definition FinRel (s s' : pstate) : Prop :=
  forall t, (stof s' t = stof s t /\ remof s' t = remof s t)
            \/ (stof s t = TWorking /\ Qltb (remof s t) tol = true /\ stof s' t = TFinished /\ remof s' t = 0%Q).

Lemma FinRel_refl s : FinRel s s.
Proof. intros t. left. split; reflexivity. Qed.

Lemma FinRel_trans a b d : FinRel a b -> FinRel b d -> FinRel a d.
Proof.
  intros H1 H2 t. destruct (H1 t) as [[E1 E2]|(E1 & E2 & E3 & E4)], (H2 t) as [[F1 F2]|(F1 & F2 & F3 & F4)].
  - left. split; congruence.
  - right. repeat split; congruence.
  - right. repeat split; congruence.
  - rewrite E3 in F1. discriminate.
Qed.

Lemma FinRel_finish_task s t :
  stof s t = TWorking -> Qltb (remof s t) tol = true -> FinRel s (finish_task c s t).
Proof.
  intros Hw Hz t'. rewrite stof_finish_task, rem_finish_task.
  destruct (Nat.eqb t' t) eqn:E; [|left; split; reflexivity].
  apply Nat.eqb_eq in E. subst t'. right. repeat split; assumption.
Qed.

Lemma finish_pass_FinRel s : FinRel s (fst (finish_pass c s)).
Proof.
  unfold finish_pass.
  set (cand := filter (zero_work s) (tasks c)).
  assert (Hc : forall t, In t cand -> stof s t = TWorking /\ Qltb (remof s t) tol = true).
  { intros t Hin. apply filter_In in Hin. destruct Hin as [_ Hz]. unfold zero_work in Hz.
    apply andb_true_iff in Hz. destruct Hz as [Hz1 Hz2]. apply is_working_true in Hz1. split; assumption. }
  assert (G : forall l (acc : pstate * bool), (forall t, In t l -> In t cand) -> FinRel s (fst acc) ->
             FinRel s (fst (fold_left (fun (acc : pstate * bool) t =>
                        let (s', ch) := acc in
                        if finish_gate c s' t then (finish_task c s' t, true) else (s', ch)) l acc))).
  { induction l as [|t l IH]; intros acc Hl H; cbn [fold_left]; [exact H|].
    apply IH; [intros x Hx; apply Hl; right; exact Hx|].
    destruct acc as [s' ch]. cbn [fst] in *.
    destruct (finish_gate c s' t) eqn:Eg; cbn [fst]; [|exact H].
    destruct (Hc t (Hl t (or_introl eq_refl))) as [Hw Hz].
    destruct (H t) as [[E1 E2]|(E1 & E2 & E3 & E4)].
    - eapply FinRel_trans; [exact H|]. apply FinRel_finish_task; [rewrite E1; exact Hw|rewrite E2; exact Hz].
    - (* already finished in this pass (cannot happen: no duplicates), harmless *)
      intros t'. destruct (Nat.eq_dec t' t) as [->|Hne].
      + right. rewrite stof_finish_task, rem_finish_task, Nat.eqb_refl. repeat split; assumption.
      + destruct (H t') as [[F1 F2]|(F1 & F2 & F3 & F4)].
        * left. rewrite stof_finish_task, rem_finish_task.
          apply Nat.eqb_neq in Hne. rewrite Hne. split; assumption.
        * right. rewrite stof_finish_task, rem_finish_task.
          apply Nat.eqb_neq in Hne. rewrite Hne. repeat split; assumption. }
  apply (G cand (s, false)); [auto|apply FinRel_refl].
Qed.

Lemma finish_loop_FinRel fuel : forall s, FinRel s (finish_loop c fuel s).
Proof.
  induction fuel as [|f IH]; intros s; cbn [finish_loop]; [apply FinRel_refl|].
  destruct (finish_pass c s) as [s' ch] eqn:E.
  assert (H : FinRel s s') by (change s' with (fst (s', ch)); rewrite <- E; apply finish_pass_FinRel).
  destruct ch; [eapply FinRel_trans; [exact H|apply IH]|exact H].
Qed.

Lemma check_finished_FinRel s : FinRel s (check_finished c s).
Proof. apply finish_loop_FinRel. Qed.

(* the rest of __update keeps st (except NONE -> READY) and rem *)
Lemma rem_check_ready s t : remof (check_ready c s) t = remof s t.
Proof.
  unfold check_ready, remof. cbn [td with_td]. rewrite tab_spec.
  destruct (t <? nT c); [|reflexivity].
  destruct (is_none (st (td s t)) && ready_gate c s t); reflexivity.
Qed.

Lemma rem_update o s t :
  remof (update c o s) t = remof (check_finished c s) t.
Proof.
  unfold update, remof.
  destruct (keeps_update_pert c (time (product_check_state c (check_ready c (check_removing c (o_crank o) (product_check_state c (check_finished c s))))))
              (product_check_state c (check_ready c (check_removing c (o_crank o) (product_check_state c (check_finished c s))))) t) as (_ & E & _).
  rewrite E. cbn [td product_check_state with_cd].
  fold (remof (check_ready c (check_removing c (o_crank o) (product_check_state c (check_finished c s)))) t).
  rewrite rem_check_ready. unfold remof. rewrite td_check_removing. reflexivity.
Qed.

Lemma stof_update_fin o s t :
  stof (update c o s) t = TFinished <-> stof (check_finished c s) t = TFinished.
Proof.
  unfold update, stof.
  destruct (keeps_update_pert c (time (product_check_state c (check_ready c (check_removing c (o_crank o) (product_check_state c (check_finished c s))))))
              (product_check_state c (check_ready c (check_removing c (o_crank o) (product_check_state c (check_finished c s))))) t) as (E & _).
  rewrite E. cbn [td product_check_state with_cd].
  fold (stof (check_ready c (check_removing c (o_crank o) (product_check_state c (check_finished c s)))) t).
  rewrite stof_check_ready.
  assert (E3 : forall y, stof (check_removing c (o_crank o) (product_check_state c (check_finished c s))) y
                         = stof (check_finished c s) y)
    by (intros y; unfold stof; rewrite td_check_removing; reflexivity).
  rewrite !E3.
  match goal with |- context [if ?b then _ else _] => destruct b eqn:Eb end.
  - apply andb_true_iff in Eb. destruct Eb as [Eb _]. apply andb_true_iff in Eb. destruct Eb as [_ Eb].
    apply is_none_true in Eb. unfold stof in *. rewrite Eb. split; discriminate.
  - reflexivity.
Qed.

(* (b),(c),(e): what __update does to remaining work *)
Theorem update_rem o s t :
  (remof (update c o s) t = remof s t /\ (stof (update c o s) t = TFinished <-> stof s t = TFinished))
  \/ (stof s t = TWorking /\ Qltb (remof s t) tol = true
      /\ stof (update c o s) t = TFinished /\ remof (update c o s) t = 0%Q).
Proof.
  rewrite rem_update.
  destruct (check_finished_FinRel s t) as [[E1 E2]|(E1 & E2 & E3 & E4)].
  - left. split; [exact E2|]. rewrite stof_update_fin, E1. reflexivity.
  - right. repeat split; try assumption. apply stof_update_fin. exact E3.
Qed.

(* ------------------------------------------------------- (e) invariant *)
Definition FinZero (s : pstate) : Prop :=
  forall t, t < nT c -> stof s t = TFinished -> remof s t = 0%Q \/ exempt c t = true.

Lemma FinZero_update o s : FinZero s -> FinZero (update c o s).
Proof.
  intros H t Ht Hf. destruct (update_rem o s t) as [[E1 E2]|(_ & _ & _ & E4)].
  - rewrite E1. apply H; [exact Ht|apply E2; exact Hf].
  - left. exact E4.
Qed.

Lemma FinZero_same s s' : (forall t, stof s' t = TFinished -> stof s t = TFinished) ->
  (forall t, stof s t = TFinished -> remof s' t = remof s t) -> FinZero s -> FinZero s'.
Proof.
  intros E1 E2 H t Ht Hf. rewrite (E2 t (E1 t Hf)). apply H; [exact Ht|apply E1; exact Hf].
Qed.

Lemma fin_step_allocate o s t : stof (step_allocate c o s) t = TFinished -> stof s t = TFinished.
Proof.
  intros H. destruct (Step_step_allocate c o s) as (_ & _ & A3).
  destruct (stof s t) eqn:E; try reflexivity; exfalso.
  all: assert (Hn : stof s t <> TFinished) by congruence.
  all: unfold step_allocate in H.
  all: revert H.
  all: set (w := negb (mem (time s) (o_abs o))).
  all: assert (E1 : forall x, stof (if w then allocate c o (absence_update c w s) else absence_update c w s) x = stof s x)
         by (intros x; unfold stof; destruct w; [destruct (ksr_allocate c o (absence_update c true s) x) as [Ea _]; rewrite Ea|];
             rewrite td_absence_update; reflexivity).
  all: destruct (w || o_auto_abs o); [|intros H; rewrite E1 in H; congruence].
  all: cbn [product_check_state]; unfold stof at 1; cbn [td with_cd];
       fold (stof (check_working c (if w then allocate c o (absence_update c w s) else absence_update c w s)) t).
  all: unfold check_working.
  all: apply (fold_left_inv (fun x => stof x t = TFinished -> False)); [rewrite E1; congruence|].
  all: intros x t' Hx; rewrite stof_cw_one; destruct (Nat.eqb t t' && is_ready (stof x t')); [discriminate|exact Hx].
Qed.

Lemma FinZero_step_allocate o s : FinZero s -> FinZero (step_allocate c o s).
Proof.
  apply FinZero_same; [intros t; apply fin_step_allocate|intros t _; apply rem_step_allocate].
Qed.

Lemma FinZero_step_perform o s : FinZero s -> FinZero (step_perform c o s).
Proof.
  apply FinZero_same.
  - intros t H. destruct (Step_step_perform c o s) as (A & _).
    unfold step_perform, stof in H.
    destruct (negb (mem (time s) (o_abs o))); [rewrite st_perform in H; exact H|].
    destruct (o_auto_abs o); [rewrite st_perform in H; exact H|exact H].
  - intros t Hf. pose proof (rem_step_perform o s t) as E. cbv zeta in E. rewrite E.
    rewrite Hf. cbn [is_working andb]. rewrite andb_false_r. reflexivity.
Qed.

Lemma FinZero_initialize o s : o_init_state o = true -> FinZero (initialize c o s).
Proof.
  intros Hs t Ht Hf. right.
  unfold initialize in Hf. rewrite Hs in Hf. unfold stof in Hf. cbn [td with_cd] in Hf.
  match type of Hf with st (td (check_ready c (update_pert c 0 (with_cpl ?x _))) t) = _ => set (s1 := x) in * end.
  fold (stof (check_ready c (update_pert c 0 (with_cpl s1 0%Q))) t) in Hf.
  rewrite stof_check_ready in Hf.
  match type of Hf with (if ?b then _ else _) = _ => destruct b; [discriminate|] end.
  unfold stof in Hf. destruct (keeps_update_pert c 0 (with_cpl s1 0%Q) t) as (E & _). rewrite E in Hf.
  unfold s1 in Hf. cbn [td with_cpl] in Hf. rewrite tab_spec in Hf.
  apply Nat.ltb_lt in Ht. rewrite Ht in Hf.
  destruct (o_init_log o && exempt c t) eqn:El; [apply andb_true_iff in El; apply El|cbn in Hf; discriminate].
Qed.

Theorem C02_finished_means_zero o s :
  (o_init_state o = true \/ FinZero s) ->
  Forall (fun ob : obs => FinZero (snd ob)) (snd (simulate c o s)).
Proof.
  intros Hstart.
  destruct (simulate_trace c o s) as (tr & Htr & Esnd). rewrite Esnd.
  assert (H0 : FinZero (initialize c o s)).
  { destruct (o_init_state o) eqn:E; [apply FinZero_initialize; exact E|].
    destruct Hstart as [H|H]; [discriminate|].
    unfold initialize. rewrite E.
    eapply FinZero_same; [intros t h; exact h|intros t _; reflexivity|exact H]. }
  destruct (trace_invariant c o FinZero FinZero FinZero FinZero FinZero
              (fun x Hx => FinZero_update o x Hx)
              (fun x Hx => FinZero_step_allocate o x Hx)
              (fun x Hx => FinZero_step_perform o x Hx)
              (fun x Hx => FinZero_same x (step_record c o x) (fun t h => h) (fun t _ => eq_refl) Hx)
              (fun x Hx => FinZero_same x (with_time x (S (time x))) (fun t h => h) (fun t _ => eq_refl) Hx)
              _ _ _ Htr H0) as [Hall _].
  eapply Forall_impl; [|exact Hall]. intros [[k ph] sn]. cbn. destruct ph; exact (fun h => h).
Qed.

(* (f) initial remaining work *)
Theorem C02_initial_rem o s t : o_init_state o = true -> t < nT c ->
  remof (initialize c o s) t = (t_work c t * (1 - t_progress c t))%Q.
Proof.
  intros Hs Ht. unfold initialize. rewrite Hs. unfold remof. cbn [td with_cd].
  match goal with |- rem (td (check_ready c (update_pert c 0 (with_cpl ?x _))) t) = _ => set (s1 := x) end.
  fold (remof (check_ready c (update_pert c 0 (with_cpl s1 0%Q))) t). rewrite rem_check_ready.
  unfold remof. destruct (keeps_update_pert c 0 (with_cpl s1 0%Q) t) as (_ & E & _). rewrite E.
  unfold s1. cbn [td with_cpl]. rewrite tab_spec. apply Nat.ltb_lt in Ht. rewrite Ht.
  destruct (o_init_log o && exempt c t); reflexivity.
Qed.

(* ------------------------------ completeness of check_ready / check_finished *)
(* used by C06 (a): after __update no task with an open ready gate is NONE *)
Lemma ready_gate_check_ready s t : ready_gate c (check_ready c s) t = ready_gate c s t.
Proof.
  unfold ready_gate. apply forallb_ext'. intros [p k]. cbn [fst snd].
  fold (stof (check_ready c s) p) (stof s p). rewrite stof_check_ready.
  destruct ((p <? nT c) && is_none (stof s p) && ready_gate c s p) eqn:E; [|reflexivity].
  apply andb_true_iff in E. destruct E as [E _]. apply andb_true_iff in E. destruct E as [_ E].
  apply is_none_true in E. rewrite E. destruct k; reflexivity.
Qed.

Theorem check_ready_complete s t : t < nT c ->
  stof (check_ready c s) t = TNone -> ready_gate c (check_ready c s) t = false.
Proof.
  intros Ht Hn. rewrite ready_gate_check_ready. rewrite stof_check_ready in Hn.
  apply Nat.ltb_lt in Ht. rewrite Ht in Hn. cbn [andb] in Hn.
  destruct (is_none (stof s t)) eqn:En; cbn [andb] in Hn.
  - destruct (ready_gate c s t); [discriminate|reflexivity].
  - apply is_none_true in Hn. congruence.
Qed.

Theorem update_ready_complete o s t : t < nT c ->
  stof (update c o s) t = TNone -> ready_gate c (update c o s) t = false.
Proof.
  intros Ht Hn. unfold update in *.
  set (s4 := check_ready c (check_removing c (o_crank o) (product_check_state c (check_finished c s)))) in *.
  assert (E : forall x, stof (update_pert c (time (product_check_state c s4)) (product_check_state c s4)) x = stof s4 x).
  { intros x. unfold stof. destruct (keeps_update_pert c (time (product_check_state c s4)) (product_check_state c s4) x) as (E & _).
    rewrite E. reflexivity. }
  rewrite (ready_gate_ext c _ s4 t E). rewrite E in Hn.
  unfold s4 in *. apply check_ready_complete; assumption.
Qed.

End C02.

(* C10: a project-wide absence step is dead time (clauses a-d). *)
From Coq Require Import List ZArith QArith Bool Arith Lia.
From PV Require Import Model.Types Model.Sim Proofs.Base Proofs.Frames Proofs.Proj Proofs.RunLemmas
  Proofs.C01Proof Proofs.C02Proof Proofs.C04Proof Proofs.C06Proof.
Import ListNotations.
Open Scope nat_scope.

Section C10.
Variable c : cfg.
Variable o : opts.

Definition absence_step (s : pstate) : Prop := mem (time s) (o_abs o) = true.

(* (b) nothing is allocated, assigned or moved in the allocation phase of a
   project-wide absence step *)
Theorem C10_nothing_allocated s : absence_step s ->
  (forall t, aw (td (step_allocate c o s) t) = aw (td s t) /\ af (td (step_allocate c o s) t) = af (td s t))
  /\ (forall w, asg (wd (step_allocate c o s) w) = asg (wd s w))
  /\ (forall f, asg (fd (step_allocate c o s) f) = asg (fd s f))
  /\ (forall k, pw (cd (step_allocate c o s) k) = pw (cd s k))
  /\ wpc (step_allocate c o s) = wpc s.
Proof.
  intros Hab. unfold absence_step in Hab. unfold step_allocate. rewrite Hab. cbn [negb orb].
  destruct (o_auto_abs o).
  - repeat split.
    + destruct (aw_check_working c (absence_update c false s) t) as [E _].
      cbn [td product_check_state with_cd]. rewrite E, td_absence_update. reflexivity.
    + destruct (aw_check_working c (absence_update c false s) t) as [_ E].
      cbn [td product_check_state with_cd]. rewrite E, td_absence_update. reflexivity.
    + intros w. cbn [wd product_check_state with_cd].
      pose proof (Proofs.AllocInv.AInv_check_working) as _.
      unfold check_working.
      apply (fold_left_inv (fun x => asg (wd x w) = asg (wd s w))).
      * unfold absence_update. cbn [wd with_wd with_fd]. rewrite tab_spec. destruct (w <? nW c); reflexivity.
      * intros x t Hx. rewrite <- Hx. unfold cw_one. destruct (is_ready (st (td x t))).
        -- destruct (t_needfac c t); cbn [wd with_td with_wd with_fd]; apply Proofs.AllocInv.asg_set_rst_fold.
        -- destruct (is_working (st (td x t))); [|reflexivity].
           destruct (t_needfac c t && negb match aw (td x t) with [] => true | _ :: _ => false end);
             cbn [wd with_wd with_fd]; apply Proofs.AllocInv.asg_free_to_working_fold.
    + intros f. cbn [fd product_check_state with_cd]. unfold check_working.
      apply (fold_left_inv (fun x => asg (fd x f) = asg (fd s f))).
      * unfold absence_update. cbn [fd with_wd with_fd]. rewrite tab_spec. destruct (f <? nF c); reflexivity.
      * intros x t Hx. rewrite <- Hx. unfold cw_one. destruct (is_ready (st (td x t))).
        -- destruct (t_needfac c t); cbn [fd with_td with_wd with_fd]; [apply Proofs.AllocInv.asg_set_rst_fold|reflexivity].
        -- destruct (is_working (st (td x t))); [|reflexivity].
           destruct (t_needfac c t && negb match aw (td x t) with [] => true | _ :: _ => false end);
             cbn [fd with_wd with_fd]; [apply Proofs.AllocInv.asg_free_to_working_fold|reflexivity].
    + intros k. cbn [cd product_check_state with_cd]. rewrite tab_spec. destruct (k <? nC c); [cbn [pw]|];
        rewrite (pi_check_working c _ cd) by reflexivity; rewrite (pi_absence_update c _ cd) by reflexivity; reflexivity.
    + cbn [wpc product_check_state with_cd]. rewrite (pi_check_working c _ wpc) by reflexivity.
      apply (pi_absence_update c _ wpc); reflexivity.
  - cbv beta iota. repeat split.
    + intros w. unfold absence_update. cbn [wd with_wd with_fd]. rewrite tab_spec. destruct (w <? nW c); reflexivity.
    + intros f. unfold absence_update. cbn [fd with_wd with_fd]. rewrite tab_spec. destruct (f <? nF c); reflexivity.
Qed.

(* (a),(d) progress during the whole absence step: non-automatic tasks none;
   automatic WORKING tasks exactly their unit rate iff the flag is set *)
Theorem C10_no_progress s t : absence_step s ->
  rem (td (step_record c o (step_perform c o (step_allocate c o s))) t) =
  if (t <? nT c) && is_working (stof (step_allocate c o s) t) && (o_auto_abs o && t_auto c t)
  then (rem (td s t) - t_rate c t)%Q else rem (td s t).
Proof.
  intros Hab. unfold absence_step in Hab.
  change (rem (td (step_record c o (step_perform c o (step_allocate c o s))) t))
    with (remof (step_perform c o (step_allocate c o s)) t).
  pose proof (rem_step_perform c o (step_allocate c o s) t) as E. cbv zeta in E. rewrite E.
  rewrite (time_step_allocate c o), Hab. cbn [negb orb].
  pose proof (rem_step_allocate c o s t) as Ea0. unfold remof in *. rewrite Ea0.
  destruct ((t <? nT c) && is_working (stof (step_allocate c o s) t) && (o_auto_abs o && t_auto c t)) eqn:Eb; [|reflexivity].
  apply andb_true_iff in Eb. destruct Eb as [_ Eb]. apply andb_true_iff in Eb. destruct Eb as [_ Ea].
  unfold progress. rewrite Ea. reflexivity.
Qed.

(* nothing starts at an absence step unless automatic tasks run in it *)
Theorem C10_nothing_starts s t : absence_step s -> o_auto_abs o = false ->
  stof (step_allocate c o s) t = stof s t.
Proof.
  intros Hab Hf. unfold absence_step in Hab. unfold step_allocate. rewrite Hab, Hf. cbn [negb orb].
  unfold stof. rewrite td_absence_update. reflexivity.
Qed.

End C10.

(* C11: the sort functions return a stable, sorted permutation for every rule. *)
From Coq Require Import List ZArith QArith Bool Arith Lia Lqa Permutation Sorted.
From PV Require Import Model.Types Model.Sim Proofs.Base Proofs.SortProof.
Import ListNotations.

(* the two comparison functions are total preorders *)
Lemma Qleb_total a b : Qleb a b = true \/ Qleb b a = true.
Proof.
  unfold Qleb. destruct (Qlt_le_dec b a) as [H|H].
  - right. apply Qle_bool_iff. lra.
  - left. apply Qle_bool_iff. exact H.
Qed.
Lemma Qleb_trans a b d : Qleb a b = true -> Qleb b d = true -> Qleb a d = true.
Proof. unfold Qleb. rewrite !Qle_bool_iff. intros; lra. Qed.

Lemma Qltb_true a b : Qltb a b = true <-> (a < b)%Q.
Proof.
  unfold Qltb. rewrite negb_true_iff. split.
  - intros H. destruct (Qlt_le_dec a b) as [L|L]; [exact L|]. apply Qle_bool_iff in L. congruence.
  - intros H. destruct (Qle_bool b a) eqn:E; [|reflexivity]. apply Qle_bool_iff in E. lra.
Qed.
Lemma Qltb_false a b : Qltb a b = false <-> (b <= a)%Q.
Proof.
  unfold Qltb. rewrite negb_false_iff. apply Qle_bool_iff.
Qed.

Lemma le3_total a b : le3 a b = true \/ le3 b a = true.
Proof.
  destruct a as [[a1 a2] a3], b as [[b1 b2] b3]. unfold le3.
  destruct (Qltb a1 b1) eqn:E1; [left; reflexivity|].
  destruct (Qltb b1 a1) eqn:E2; [right; reflexivity|].
  destruct (Qltb a2 b2) eqn:E3; [left; reflexivity|].
  destruct (Qltb b2 a2) eqn:E4; [right; reflexivity|].
  apply Qleb_total.
Qed.

Lemma le3_trans a b d : le3 a b = true -> le3 b d = true -> le3 a d = true.
Proof.
  destruct a as [[a1 a2] a3], b as [[b1 b2] b3], d as [[d1 d2] d3]. unfold le3.
  destruct (Qltb a1 b1) eqn:A1; destruct (Qltb b1 a1) eqn:A2;
  destruct (Qltb b1 d1) eqn:B1; destruct (Qltb d1 b1) eqn:B2;
  destruct (Qltb a1 d1) eqn:D1; destruct (Qltb d1 a1) eqn:D2;
  destruct (Qltb a2 b2) eqn:A3; destruct (Qltb b2 a2) eqn:A4;
  destruct (Qltb b2 d2) eqn:B3; destruct (Qltb d2 b2) eqn:B4;
  destruct (Qltb a2 d2) eqn:D3; destruct (Qltb d2 a2) eqn:D4;
  try (intros; reflexivity); try (intros; discriminate);
  rewrite ?Qltb_true, ?Qltb_false in *; unfold Qleb; rewrite ?Qle_bool_iff; intros; try lra.
Qed.

Section SortSpecs.
Variable c : cfg.

Definition sorted_by {K} (le : K -> K -> bool) (key : nat -> K) (l : list nat) : Prop :=
  StronglySorted (fun x y => le (key x) (key y) = true) l.
Definition stable_wrt {K} (le : K -> K -> bool) (key : nat -> K) (inp out : list nat) : Prop :=
  forall a, filter (fun x => le (key a) (key x) && le (key x) (key a)) out
          = filter (fun x => le (key a) (key x) && le (key x) (key a)) inp.

Lemma sort_by_spec key l :
  Permutation (sort_by key l) l /\ sorted_by Qleb key (sort_by key l) /\ stable_wrt Qleb key l (sort_by key l).
Proof.
  unfold sort_by. split; [apply stable_sort_perm|]. split.
  - apply (stable_sort_sorted nat (fun x y => Qleb (key x) (key y))).
    + intros a b. apply Qleb_total.
    + intros a b d. apply Qleb_trans.
  - intros a. apply (stable_sort_stable nat (fun x y => Qleb (key x) (key y))).
    + intros x y. apply Qleb_total.
    + intros x y z. apply Qleb_trans.
Qed.

Lemma sort_by3_spec key l :
  Permutation (sort_by3 key l) l /\ sorted_by le3 key (sort_by3 key l) /\ stable_wrt le3 key l (sort_by3 key l).
Proof.
  unfold sort_by3. split; [apply stable_sort_perm|]. split.
  - apply (stable_sort_sorted nat (fun x y => le3 (key x) (key y))).
    + intros a b. apply le3_total.
    + intros a b d. apply le3_trans.
  - intros a. apply (stable_sort_stable nat (fun x y => le3 (key x) (key y))).
    + intros x y. apply le3_total.
    + intros x y z. apply le3_trans.
Qed.

(* sort_task_list: all nine rules *)
Theorem sort_tasks_spec rule s l :
  Permutation (sort_tasks c rule s l) l
  /\ sorted_by Qleb (task_key c rule s) (sort_tasks c rule s l)
  /\ stable_wrt Qleb (task_key c rule s) l (sort_tasks c rule s l).
Proof. apply sort_by_spec. Qed.

(* sort_worker_list: MW (-1), SSP (0), VC (1), HSV (2) *)
Theorem sort_workers_spec rule t tgt l : (rule = -1 \/ rule = 0 \/ rule = 1 \/ rule = 2)%Z ->
  Permutation (sort_workers c rule t tgt l) l
  /\ sorted_by le3 (worker_key c rule t tgt) (sort_workers c rule t tgt l)
  /\ stable_wrt le3 (worker_key c rule t tgt) l (sort_workers c rule t tgt l).
Proof.
  intros [ -> | [ -> | [ -> | -> ] ] ]; apply sort_by3_spec.
Qed.

(* sort_facility_list: SSP, VC, HSV sort; MW (no key for facilities) keeps the order *)
Theorem sort_facs_spec rule t l :
  Permutation (sort_facs c rule t l) l
  /\ (rule = 0%Z -> sorted_by Qleb (fun f => skill_sum (f_skills c f)) (sort_facs c rule t l)
                    /\ stable_wrt Qleb (fun f => skill_sum (f_skills c f)) l (sort_facs c rule t l))
  /\ (rule = 1%Z -> sorted_by Qleb (f_cost c) (sort_facs c rule t l)
                    /\ stable_wrt Qleb (f_cost c) l (sort_facs c rule t l))
  /\ (rule = 2%Z ->
      let key := fun f => match f_skill c f t with Some v => (0%Q, (- v)%Q, 0%Q) | None => (1%Q, 0%Q, 0%Q) end in
      sorted_by le3 key (sort_facs c rule t l) /\ stable_wrt le3 key l (sort_facs c rule t l))
  /\ (rule = (-1)%Z -> sort_facs c rule t l = l).
Proof.
  split.
  - unfold sort_facs. destruct rule as [|p|p]; try reflexivity; try apply sort_by_spec.
    + destruct p as [p|p|]; try reflexivity; try apply sort_by_spec; try apply sort_by3_spec.
      destruct p; try reflexivity; apply sort_by3_spec.
  - split; [intros ->; cbn [sort_facs]; apply (proj2 (sort_by_spec _ l))|].
    split; [intros ->; cbn [sort_facs]; apply (proj2 (sort_by_spec _ l))|].
    split; [intros ->; cbn [sort_facs]; apply (proj2 (sort_by3_spec _ l))|].
    intros ->; reflexivity.
Qed.

(* sort_workplace_list: FSS (free space, descending), SSP (skill sum for the task, descending) *)
Theorem sort_wps_spec rule s t l :
  Permutation (sort_wps c rule s t l) l
  /\ (rule = 0%Z -> sorted_by Qleb (fun p => (- avail_space c s p)%Q) (sort_wps c rule s t l)
                    /\ stable_wrt Qleb (fun p => (- avail_space c s p)%Q) l (sort_wps c rule s t l))
  /\ (rule = 1%Z -> sorted_by Qleb (fun p => (- wp_total_skill c p t)%Q) (sort_wps c rule s t l)
                    /\ stable_wrt Qleb (fun p => (- wp_total_skill c p t)%Q) l (sort_wps c rule s t l)).
Proof.
  split.
  - unfold sort_wps. destruct rule as [|p|p]; try reflexivity; try apply sort_by_spec.
    destruct p as [p|p|]; try reflexivity; apply sort_by_spec.
  - split; intros ->; cbn [sort_wps]; apply (proj2 (sort_by_spec _ l)).
Qed.

End SortSpecs.

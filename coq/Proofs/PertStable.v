(* C15: the PERT refresh is idempotent on the state it has just produced, for
   every ranked (acyclic) network with any mix of dependency kinds, provided no
   task has negative remaining work.  Two runs of the frontier iteration are
   compared step by step (the frontier itself never depends on the state). *)
From Coq Require Import List ZArith QArith Bool Arith Lia Lqa FunctionalExtensionality.
From PV Require Import Model.Types Model.Sim Proofs.Base Proofs.Frames Proofs.Proj Proofs.Worklist Proofs.C11Proof
  Proofs.C12Proof Proofs.C15Stable.
Import ListNotations.
Open Scope nat_scope.

(* ------------------------------------------- running two states in lock step *)
Section Pair.
Variable St : Type.
Variable succs : nat -> list (nat * dep).
Variable step : St -> nat -> nat * dep -> St.
Definition step2 (ab : St * St) (u : nat) (e : nat * dep) : St * St := (step (fst ab) u e, step (snd ab) u e).

Lemma inner_pair u : forall l a b n,
  fold_left (fun (a2 : (St * St) * list nat) e => (step2 (fst a2) u e, dedup_add (fst e) (snd a2))) l ((a, b), n)
  = ((fst (fold_left (fun (a2 : St * list nat) e => (step (fst a2) u e, dedup_add (fst e) (snd a2))) l (a, n)),
      fst (fold_left (fun (a2 : St * list nat) e => (step (fst a2) u e, dedup_add (fst e) (snd a2))) l (b, n))),
     snd (fold_left (fun (a2 : St * list nat) e => (step (fst a2) u e, dedup_add (fst e) (snd a2))) l (a, n))).
Proof.
  induction l as [|e l IH]; intros a b n; cbn [fold_left fst snd]; [reflexivity|]. unfold step2 at 2. cbn [fst snd]. apply IH.
Qed.

Lemma inner_snd u : forall l (a b : St) n,
  snd (fold_left (fun (a2 : St * list nat) e => (step (fst a2) u e, dedup_add (fst e) (snd a2))) l (a, n))
  = snd (fold_left (fun (a2 : St * list nat) e => (step (fst a2) u e, dedup_add (fst e) (snd a2))) l (b, n)).
Proof. induction l as [|e l IH]; intros a b n; cbn [fold_left fst snd]; [reflexivity|]. apply IH. Qed.

Lemma round_pair : forall front a b n,
  fold_left (fun acc src => inner (St * St) succs step2 src acc) front ((a, b), n)
  = ((fst (fold_left (fun acc src => inner St succs step src acc) front (a, n)),
      fst (fold_left (fun acc src => inner St succs step src acc) front (b, n))),
     snd (fold_left (fun acc src => inner St succs step src acc) front (a, n)))
  /\ snd (fold_left (fun acc src => inner St succs step src acc) front (a, n))
     = snd (fold_left (fun acc src => inner St succs step src acc) front (b, n)).
Proof.
  induction front as [|u front IH]; intros a b n; cbn [fold_left]; [split; reflexivity|].
  assert (E : inner (St * St) succs step2 u ((a, b), n)
              = ((fst (inner St succs step u (a, n)), fst (inner St succs step u (b, n))), snd (inner St succs step u (a, n))))
    by (unfold inner; apply inner_pair).
  assert (Es : snd (inner St succs step u (a, n)) = snd (inner St succs step u (b, n))) by (unfold inner; apply inner_snd).
  rewrite E.
  destruct (inner St succs step u (a, n)) as [a' na]. destruct (inner St succs step u (b, n)) as [b' nb].
  cbn [fst snd] in *. subst nb. apply IH.
Qed.

Lemma loop_pair : forall fuel a b front,
  loop (St * St) succs step2 fuel (a, b) front = (loop St succs step fuel a front, loop St succs step fuel b front).
Proof.
  induction fuel as [|f IH]; intros a b front; cbn [loop]; [reflexivity|].
  destruct front as [|x r]; [reflexivity|].
  unfold round. destruct (round_pair (x :: r) a b []) as [E1 E2]. rewrite E1.
  destruct (fold_left (fun acc src => inner St succs step src acc) (x :: r) (a, [])) as [a' na].
  destruct (fold_left (fun acc src => inner St succs step src acc) (x :: r) (b, [])) as [b' nb].
  cbn [fst snd] in *. subst nb. apply IH.
Qed.
End Pair.


(* ------------------------------------ a ghost component next to the state *)
Section Ghost.
Variables St G : Type.
Variable succs : nat -> list (nat * dep).
Variable step : St -> nat -> nat * dep -> St.
Variable gstep : St -> G -> nat -> nat * dep -> G.
Definition stepg (sg : St * G) (u : nat) (e : nat * dep) : St * G :=
  (step (fst sg) u e, gstep (fst sg) (snd sg) u e).

Lemma inner_ghost u : forall l (acc : (St * G) * list nat) (acc' : St * list nat),
  fst (fst acc) = fst acc' -> snd acc = snd acc' ->
  let r := fold_left (fun (a2 : (St * G) * list nat) e => (stepg (fst a2) u e, dedup_add (fst e) (snd a2))) l acc in
  let r' := fold_left (fun (a2 : St * list nat) e => (step (fst a2) u e, dedup_add (fst e) (snd a2))) l acc' in
  fst (fst r) = fst r' /\ snd r = snd r'.
Proof.
  induction l as [|e l IH]; intros acc acc' H1 H2; cbv zeta; cbn [fold_left]; [split; assumption|].
  apply IH; cbn [fst snd]; [unfold stepg; cbn [fst]; rewrite H1; reflexivity|rewrite H2; reflexivity].
Qed.

Lemma round_ghost : forall front (acc : (St * G) * list nat) (acc' : St * list nat),
  fst (fst acc) = fst acc' -> snd acc = snd acc' ->
  let r := fold_left (fun a src => inner (St * G) succs stepg src a) front acc in
  let r' := fold_left (fun a src => inner St succs step src a) front acc' in
  fst (fst r) = fst r' /\ snd r = snd r'.
Proof.
  induction front as [|u front IH]; intros acc acc' H1 H2; cbv zeta; cbn [fold_left]; [split; assumption|].
  destruct (inner_ghost u (succs u) acc acc' H1 H2) as [A B]. apply IH; assumption.
Qed.

Lemma loop_ghost : forall fuel s g front,
  fst (loop (St * G) succs stepg fuel (s, g) front) = loop St succs step fuel s front.
Proof.
  induction fuel as [|f IH]; intros s g front; cbn [loop]; [reflexivity|].
  destruct front as [|x r]; [reflexivity|].
  destruct (round_ghost (x :: r) ((s, g), []) (s, []) eq_refl eq_refl) as [A B].
  unfold round. cbv zeta in A, B.
  destruct (fold_left (fun a src => inner (St * G) succs stepg src a) (x :: r) ((s, g), [])) as [[s1 g1] n1].
  destruct (fold_left (fun a src => inner St succs step src a) (x :: r) (s, [])) as [s2 n2].
  cbn [fst snd] in A, B. subst. apply IH.
Qed.
End Ghost.

(* an invariant of the frontier iteration that every step preserves *)
Lemma loop_inv {St} (succs : nat -> list (nat * dep)) (step : St -> nat -> nat * dep -> St) (P : St -> Prop) :
  (forall s u e, In e (succs u) -> P s -> P (step s u e)) -> forall fuel s front, P s -> P (loop St succs step fuel s front).
Proof.
  intros Hs.
  assert (Hin : forall u l (acc : St * list nat), incl l (succs u) -> P (fst acc) ->
            P (fst (fold_left (fun (a2 : St * list nat) e => (step (fst a2) u e, dedup_add (fst e) (snd a2))) l acc))).
  { intros u. induction l as [|e l IH]; intros acc Hi H; cbn [fold_left]; [exact H|].
    apply IH; [intros y Hy; apply Hi; right; exact Hy|]. cbn [fst]. apply Hs; [apply Hi; left; reflexivity|exact H]. }
  assert (Hr : forall front (acc : St * list nat), P (fst acc) -> P (fst (fold_left (fun acc src => inner St succs step src acc) front acc))).
  { induction front as [|u front IH]; intros acc H; cbn [fold_left]; [exact H|]. apply IH. unfold inner. apply Hin; [apply incl_refl|exact H]. }
  induction fuel as [|f IH]; intros s front H; cbn [loop]; [exact H|].
  destruct front as [|x r]; [exact H|].
  pose proof (Hr (x :: r) (s, []) H) as H'. unfold round. destruct (fold_left _ (x :: r) (s, [])) as [s' nx]. apply IH. exact H'.
Qed.

Lemma tlive_eq (x y : tlive) : st x = st y -> rem x = rem y -> aw x = aw y -> af x = af y ->
  est x = est y -> eft x = eft y -> lst x = lst y -> lft x = lft y -> x = y.
Proof. destruct x, y. cbn. intros; subst; reflexivity. Qed.

Section Stable.
Variable c : cfg.
Variable rank : nat -> nat.

(* acyclic network, any dependency kinds *)
Record dag : Prop := {
  dg_mirror : forall u v k, In (v, k) (t_outputs c u) <-> In (u, k) (t_inputs c v);
  dg_range_out : forall u e, In e (t_outputs c u) -> fst e < nT c;
  dg_range_in : forall v e, In e (t_inputs c v) -> fst e < nT c;
  dg_rank : forall u e, In e (t_outputs c u) -> rank u < rank (fst e);
  dg_rank_bound : forall v, v < nT c -> rank v < nT c
}.
Hypothesis DAG : dag.

Lemma src_lt u e : In e (t_outputs c u) -> u < nT c.
Proof. destruct e as [v k]. intros H. apply (dg_mirror DAG) in H. apply (dg_range_in DAG) in H. exact H. Qed.

(* the fields every pass leaves alone or recomputes identically *)
Definition core (x y : tlive) : Prop := st x = st y /\ rem x = rem y /\ aw x = aw y /\ af x = af y /\ est x = est y.

(* ================================================================ forward *)
Section Fwd.
Variable tm : Q.
Variable R : nat -> Q.
Hypothesis R_nonneg : forall v, v < nT c -> (0 <= R v)%Q.

Definition fwd_vals (k : dep) (xi xn : tlive) : Q * Q :=
  match k with
  | FS => let a := (est xi + rem xi)%Q in (a, (a + rem xn)%Q)
  | SS => let a := (est xi + 0)%Q in (a, (a + rem xn)%Q)
  | FF => let a := (est xi + 0)%Q in let b := (a + rem xn)%Q in (a, if Qltb b (eft xi) then eft xi else b)
  | SF => let a := (est xi + 0)%Q in let b := (a + rem xn)%Q in (a, if Qltb b (est xi) then est xi else b)
  end.

Lemma fwd_edge_eq s u v k :
  fwd_edge s u (v, k) =
  if Qleb (est (td s v)) (fst (fwd_vals k (td s u) (td s v)))
  then with_td s (upd (td s) v (set_est_eft (td s v) (fst (fwd_vals k (td s u) (td s v))) (snd (fwd_vals k (td s u) (td s v)))))
  else s.
Proof. unfold fwd_edge. cbn [fst snd]. destruct k; reflexivity. Qed.

Definition GoodP (ab : pstate * pstate) : Prop :=
  let (a, b) := ab in
  (forall v, v < nT c -> core (td a v) (td b v) /\ rem (td a v) = R v)
  /\ (forall v, v < nT c -> (tm <= est (td a v))%Q)
  /\ (forall v, v < nT c -> eft (td a v) = eft (td b v) \/ (est (td a v) == tm)%Q).
Definition ReadyP (ab : pstate * pstate) (u : nat) : Prop := u < nT c /\ eft (td (fst ab) u) = eft (td (snd ab) u).

Lemma fwd_vals_lower k xi xn : (tm <= est xi)%Q -> (0 <= rem xi)%Q -> (tm <= fst (fwd_vals k xi xn))%Q.
Proof. intros H1 H2. destruct k; cbn; lra. Qed.

Lemma step_pair ab u e : In e (t_outputs c u) -> GoodP ab -> ReadyP ab u ->
  GoodP (step2 pstate fwd_edge ab u e) /\ ReadyP (step2 pstate fwd_edge ab u e) (fst e)
  /\ (forall x, ReadyP ab x -> ReadyP (step2 pstate fwd_edge ab u e) x).
Proof.
  destruct ab as [a b]. destruct e as [v k]. intros He (G1 & G2 & G3) [Hu Ru]. cbn [fst snd] in *.
  assert (Hv : v < nT c) by (apply (dg_range_out DAG u _ He)).
  unfold step2. cbn [fst snd]. rewrite !fwd_edge_eq.
  destruct (G1 u Hu) as ((Su & Ru' & _ & _ & Eu) & RRu). destruct (G1 v Hv) as ((Sv & Rv & Awv & Afv & Ev) & RRv).
  assert (Evals : fwd_vals k (td b u) (td b v) = fwd_vals k (td a u) (td a v)).
  { unfold fwd_vals. rewrite <- Eu, <- Ru', <- Rv, <- Ru. reflexivity. }
  rewrite Evals, <- Ev.
  set (e1 := fst (fwd_vals k (td a u) (td a v))). set (f1 := snd (fwd_vals k (td a u) (td a v))).
  assert (Hlow : (tm <= e1)%Q).
  { apply fwd_vals_lower; [apply G2; exact Hu|rewrite RRu; apply R_nonneg; exact Hu]. }
  destruct (Qleb (est (td a v)) e1) eqn:Ec.
  - (* both update v with the same values *)
    assert (Gnew : GoodP (with_td a (upd (td a) v (set_est_eft (td a v) e1 f1)), with_td b (upd (td b) v (set_est_eft (td b v) e1 f1)))).
    { unfold GoodP. cbn [td with_td]. split; [|split].
      - intros w Hw. rewrite !upd_eq. destruct (Nat.eqb w v) eqn:Ew; [|apply G1; exact Hw].
        apply Nat.eqb_eq in Ew. subst w. unfold core. cbn. repeat split; assumption.
      - intros w Hw. rewrite upd_eq. destruct (Nat.eqb w v); [cbn; exact Hlow|apply G2; exact Hw].
      - intros w Hw. rewrite !upd_eq. destruct (Nat.eqb w v); [left; reflexivity|apply G3; exact Hw]. }
    split; [exact Gnew|]. split.
    + split; [exact Hv|]. cbn [fst snd td with_td]. rewrite !upd_same. reflexivity.
    + intros x [Hx Rx]. split; [exact Hx|]. cbn [fst snd td with_td] in *. rewrite !upd_eq. destruct (Nat.eqb x v); [reflexivity|exact Rx].
  - split; [split; [exact G1|split; assumption]|]. split; [|intros x Hx; exact Hx].
    split; [exact Hv|]. cbn [fst snd]. apply Qleb_false in Ec.
    destruct (G3 v Hv) as [E|E]; [exact E|lra].
Qed.

Lemma all_in_P (P : list nat) : incl (heads c) P ->
  (forall u, In u P -> forall e, In e (t_outputs c u) -> In (fst e) P) ->
  forall n v, rank v < n -> v < nT c -> In v P.
Proof.
  intros Hh Hcl. induction n as [|n IH]; intros v Hr Hv; [lia|].
  destruct (t_inputs c v) as [|[u k] r] eqn:Ein.
  - apply Hh. unfold heads. apply filter_In. split; [unfold tasks; apply in_seq; lia|]. rewrite Ein. reflexivity.
  - assert (Hin : In (u, k) (t_inputs c v)) by (rewrite Ein; left; reflexivity).
    assert (Hout : In (v, k) (t_outputs c u)) by (apply (dg_mirror DAG); exact Hin).
    assert (Hu : u < nT c) by (apply (dg_range_in DAG v _ Hin)).
    pose proof (dg_rank DAG u _ Hout) as Hrk. cbn [fst] in Hrk.
    apply (Hcl u (IH u ltac:(lia) Hu) (v, k) Hout).
Qed.

Theorem forward_pair (a0 b0 : pstate) :
  (forall v, st (td a0 v) = st (td b0 v) /\ rem (td a0 v) = rem (td b0 v) /\ aw (td a0 v) = aw (td b0 v) /\ af (td a0 v) = af (td b0 v)) ->
  (forall v, rem (td a0 v) = R v) ->
  let a := pert_forward c tm a0 in let b := pert_forward c tm b0 in
  forall v, v < nT c -> core (td a v) (td b v) /\ eft (td a v) = eft (td b v).
Proof.
  intros Hab HR. cbv zeta. rewrite !pert_forward_unfold.
  set (ia := fwd_init c tm a0). set (ib := fwd_init c tm b0).
  pose proof (loop_pair pstate (t_outputs c) fwd_edge (S (nT c)) ia ib (heads c)) as LP.
  assert (G0 : GoodP (ia, ib)).
  { unfold GoodP, ia, ib, fwd_init. cbn [td with_td]. split; [|split].
    - intros v Hv. rewrite !tab_spec. destruct (Hab v) as (A1 & A2 & A3 & A4). unfold core.
      apply Nat.ltb_lt in Hv. rewrite Hv. rewrite <- A2. destruct (t_inputs c v); cbn; repeat split; try assumption; apply HR.
    - intros v Hv. rewrite tab_spec. apply Nat.ltb_lt in Hv. rewrite Hv. destruct (t_inputs c v); cbn; lra.
    - intros v Hv. right. rewrite tab_spec. apply Nat.ltb_lt in Hv. rewrite Hv. destruct (t_inputs c v); cbn; lra. }
  destruct (loop_result (pstate * pstate) (t_outputs c) (step2 pstate fwd_edge) rank (nT c)
              (fun u e He => conj (dg_rank DAG u e He) (dg_rank_bound DAG _ (dg_range_out DAG u e He)))
              GoodP ReadyP (fun _ _ _ => True)
              (fun s0 u e He G Rd => proj1 (step_pair s0 u e He G Rd))
              (fun s0 u e He G Rd => proj1 (proj2 (step_pair s0 u e He G Rd)))
              (fun s0 u e x He G Rd Rx => proj2 (proj2 (step_pair s0 u e He G Rd)) x Rx)
              (fun _ _ _ _ _ _ => I) (fun _ _ _ _ _ _ _ _ _ _ _ => I)
              (S (nT c)) (ia, ib) (heads c) G0) as (P & Hheads & HG & HR' & HP).
  { intros x Hx. unfold heads in Hx. apply filter_In in Hx. destruct Hx as [Hx Hh]. unfold tasks in Hx. apply in_seq in Hx.
    assert (Hx' : x < nT c) by lia.
    split; [|apply (dg_rank_bound DAG); exact Hx'].
    split; [exact Hx'|]. cbn [fst snd]. unfold ia, ib, fwd_init. cbn [td with_td]. rewrite !tab_spec.
    apply Nat.ltb_lt in Hx'. rewrite Hx'. destruct (t_inputs c x); [|discriminate]. cbn. destruct (Hab x) as (_ & A2 & _). rewrite A2. reflexivity. }
  { lia. }
  fold (step2 pstate fwd_edge) in LP. rewrite LP in *.
  set (fa := loop pstate (t_outputs c) fwd_edge (S (nT c)) ia (heads c)) in *.
  set (fb := loop pstate (t_outputs c) fwd_edge (S (nT c)) ib (heads c)) in *.
  destruct HG as (G1 & _ & _).
  intros v Hv. split; [apply (G1 v Hv)|].
  assert (Hin : In v P) by (apply (all_in_P P Hheads (fun u Hu e He => proj1 (HP u Hu e He)) (S (rank v))); [lia|exact Hv]).
  destruct (HR' v Hin) as [_ E]. exact E.
Qed.
End Fwd.

(* =============================================================== backward *)
Definition bwd_vals (k : dep) (xo xp : tlive) : Q * Q :=
  match k with
  | FS => let f := lst xo in ((f - rem xp)%Q, f)
  | SS => let l := lst xo in (l, (l + rem xp)%Q)
  | FF => let l := lst xo in let f := (l + rem xp)%Q in (l, if Qltb (lft xo) f then lft xo else f)
  | SF => let l := lst xo in let f := (l + rem xp)%Q in ((if Qltb (lft xo) l then lft xo else l), f)
  end.

Lemma bwd_edge_eq s o p k :
  bwd_edge s o (p, k) =
  if Qltb (lft (td s p)) 0 || Qleb (snd (bwd_vals k (td s o) (td s p))) (lft (td s p))
  then with_td s (upd (td s) p (set_lst_lft (td s p) (fst (bwd_vals k (td s o) (td s p))) (snd (bwd_vals k (td s o) (td s p)))))
  else s.
Proof. unfold bwd_edge. cbn [fst snd]. destruct k; reflexivity. Qed.

Definition SameB (ab : pstate * pstate) : Prop := forall v, v < nT c -> td (fst ab) v = td (snd ab) v.

Lemma SameB_step ab o e : In e (t_inputs c o) -> SameB ab -> SameB (step2 pstate bwd_edge ab o e).
Proof.
  destruct ab as [a b]. destruct e as [p k]. intros He H. unfold SameB, step2 in *. cbn [fst snd] in *.
  assert (Hp : p < nT c) by (apply (dg_range_in DAG o _ He)).
  assert (Ho : o < nT c) by (apply (dg_mirror DAG) in He; apply (dg_range_out DAG p _ He)).
  rewrite !bwd_edge_eq. rewrite <- (H o Ho), <- (H p Hp).
  destruct (Qltb (lft (td a p)) 0 || Qleb (snd (bwd_vals k (td a o) (td a p))) (lft (td a p))); [|exact H].
  intros v Hv. cbn [td with_td]. rewrite !upd_eq. destruct (Nat.eqb v p); [reflexivity|apply H; exact Hv].
Qed.

Lemma max_eft_ext x y l : (forall t, In t l -> eft (td x t) = eft (td y t)) -> max_eft x l = max_eft y l.
Proof.
  intros H. unfold max_eft. destruct l as [|t0 r]; [reflexivity|].
  rewrite (H t0 (or_introl eq_refl)). generalize (eft (td y t0)). 
  assert (Hr : forall t, In t r -> eft (td x t) = eft (td y t)) by (intros t Ht; apply H; right; exact Ht).
  clear H. induction r as [|t r IH]; intros m; cbn [fold_left]; [reflexivity|].
  rewrite (Hr t (or_introl eq_refl)). apply IH. intros t' Ht'. apply Hr. right. exact Ht'.
Qed.

Theorem backward_pair (a1 b1 : pstate) :
  (forall v, v < nT c -> core (td a1 v) (td b1 v) /\ eft (td a1 v) = eft (td b1 v)) ->
  (forall v, v < nT c -> td (pert_backward c a1) v = td (pert_backward c b1) v)
  /\ cpl (pert_backward c a1) = cpl (pert_backward c b1).
Proof.
  intros H. unfold pert_backward.
  set (ra := with_td a1 (tab (nT c) (fun t => set_lst_lft (td a1 t) (-1)%Q (-1)%Q) (td a1))).
  set (rb := with_td b1 (tab (nT c) (fun t => set_lst_lft (td b1 t) (-1)%Q (-1)%Q) (td b1))).
  assert (Er : forall v, v < nT c -> td ra v = td rb v).
  { intros v Hv. unfold ra, rb. cbn [td with_td]. rewrite !tab_spec. apply Nat.ltb_lt in Hv. rewrite Hv.
    apply Nat.ltb_lt in Hv. destruct (H v Hv) as ((A1 & A2 & A3 & A4 & A5) & A6). apply tlive_eq; cbn; try assumption; reflexivity. }
  fold (tails c).
  destruct (tails c) as [|t0 r] eqn:Et.
  - split; [intros v Hv; cbn [td with_cpl]; apply Er; exact Hv|reflexivity].
  - rewrite <- Et.
    assert (Htl : forall t, In t (tails c) -> t < nT c) by (intros t Ht; apply (proj1 (tails_spec c t)) in Ht; apply Ht).
    assert (Ecp : max_eft ra (tails c) = max_eft rb (tails c)).
    { apply max_eft_ext. intros t Ht. rewrite (Er t (Htl t Ht)). reflexivity. }
    rewrite Ecp. set (cp := max_eft rb (tails c)).
    (* the states handed to the loop agree below nT *)
    set (ia := fold_left (fun s' t => with_td s' (upd (td s') t (set_lst_lft (td s' t) (cp - rem (td s' t))%Q cp))) (tails c) (with_cpl ra cp)).
    set (ib := fold_left (fun s' t => with_td s' (upd (td s') t (set_lst_lft (td s' t) (cp - rem (td s' t))%Q cp))) (tails c) (with_cpl rb cp)).
    assert (Ei : SameB (ia, ib)).
    { intros v Hv. cbn [fst snd]. unfold ia, ib. rewrite !(tails_fold_td cp). cbn [td with_cpl]. rewrite (Er v Hv). reflexivity. }
    rewrite !bwd_loop_eq.
    pose proof (loop_pair pstate (t_inputs c) bwd_edge (S (nT c)) ia ib (tails c)) as LP.
    pose proof (loop_inv (t_inputs c) (step2 pstate bwd_edge) SameB (fun s0 u e He Hs => SameB_step s0 u e He Hs) (S (nT c)) (ia, ib) (tails c) Ei) as HS.
    rewrite LP in HS. split; [exact HS|].
    rewrite <- !bwd_loop_eq. rewrite !(pi_bwd_loop c _ cpl) by reflexivity. unfold ia, ib.
    assert (Gc : forall l x, cpl (fold_left (fun s' t => with_td s' (upd (td s') t (set_lst_lft (td s' t) (cp - rem (td s' t))%Q cp))) l x) = cpl x)
      by (induction l as [|y l IH]; intros x; cbn [fold_left]; [reflexivity|rewrite IH; reflexivity]).
    rewrite !Gc. reflexivity.
Qed.

(* -------------------------------------------- nothing above nT is touched *)
Lemma td_high_fwd tm x v : nT c <= v -> td (pert_forward c tm x) v = td x v.
Proof.
  intros Hv. rewrite (pert_forward_unfold c tm x).
  assert (E0 : td (fwd_init c tm x) v = td x v).
  { unfold fwd_init. cbn [td with_td]. rewrite tab_spec. assert (E : v <? nT c = false) by (apply Nat.ltb_ge; exact Hv). rewrite E. reflexivity. }
  rewrite <- E0.
  apply (loop_inv (t_outputs c) fwd_edge (fun s0 => td s0 v = td (fwd_init c tm x) v)); [|reflexivity].
  intros s0 u [w k] He Hs. rewrite (fwd_edge_eq s0 u w k).
  destruct (Qleb _ _); [|exact Hs]. cbn [td with_td]. rewrite upd_other; [exact Hs|].
  pose proof (dg_range_out DAG u _ He) as Hw. cbn [fst] in Hw. lia.
Qed.

Lemma td_high_bwd x v : nT c <= v -> td (pert_backward c x) v = td x v.
Proof.
  intros Hv. unfold pert_backward.
  set (r := with_td x (tab (nT c) (fun t => set_lst_lft (td x t) (-1)%Q (-1)%Q) (td x))).
  assert (E0 : td r v = td x v).
  { unfold r. cbn [td with_td]. rewrite tab_spec. assert (E : v <? nT c = false) by (apply Nat.ltb_ge; exact Hv). rewrite E. reflexivity. }
  fold (tails c). destruct (tails c) as [|t0 l] eqn:Et; [exact E0|]. rewrite <- Et.
  rewrite bwd_loop_eq.
  set (cp := max_eft r (tails c)).
  assert (E1 : td (fold_left (fun s' t => with_td s' (upd (td s') t (set_lst_lft (td s' t) (cp - rem (td s' t))%Q cp))) (tails c) (with_cpl r cp)) v = td x v).
  { rewrite (tails_fold_td cp). cbn [td with_cpl].
    destruct (mem v (tails c)) eqn:Em; [|exact E0]. apply mem_In in Em. apply (proj1 (tails_spec c v)) in Em. lia. }
  rewrite <- E1.
  apply (loop_inv (t_inputs c) bwd_edge (fun s0 => td s0 v = td (fold_left _ (tails c) (with_cpl r cp)) v)); [|reflexivity].
  intros s0 o [p k] He Hs. rewrite (bwd_edge_eq s0 o p k).
  destruct (_ || _); [|exact Hs]. cbn [td with_td]. rewrite upd_other; [exact Hs|].
  pose proof (dg_range_in DAG o _ He) as Hp. cbn [fst] in Hp. lia.
Qed.


(* ============================================ forward pass, any remaining work *)
(* Without a sign condition on the remaining work a relaxation may fail against
   the initial est, and a node can be read while its eft is still the value of
   the previous update.  Both runs still take the same branches (est depends on
   est and rem only); a ghost records, for every node, which edge set its values
   last and what the source looked like then; at the end of the iteration the
   source of every such edge is unchanged since (it would have been re-queued),
   so the final eft of a node is a function of the final eft of its last source
   -- in both runs the same function. *)
Section FwdAny.
Variable tm : Q.
Variable R : nat -> Q.
Variables Ea Eb : nat -> Q.

Definition E1 (k : dep) (eu ru : Q) : Q := match k with FS => (eu + ru)%Q | _ => (eu + 0)%Q end.
Definition F1 (k : dep) (eu ru rv fu : Q) : Q :=
  match k with
  | FS => ((eu + ru) + rv)%Q
  | SS => ((eu + 0) + rv)%Q
  | FF => let b := ((eu + 0) + rv)%Q in if Qltb b fu then fu else b
  | SF => let b := ((eu + 0) + rv)%Q in if Qltb b eu then eu else b
  end.

Lemma fwd_vals_E1 k xi xn : fst (fwd_vals k xi xn) = E1 k (est xi) (rem xi).
Proof. destruct k; reflexivity. Qed.
Lemma fwd_vals_F1 k xi xn : snd (fwd_vals k xi xn) = F1 k (est xi) (rem xi) (rem xn) (eft xi).
Proof. destruct k; reflexivity. Qed.
Lemma E1_mono k eu eu' ru : (eu <= eu')%Q -> (E1 k eu ru <= E1 k eu' ru)%Q.
Proof. intros H. destruct k; cbn; lra. Qed.

Definition ghost := nat -> option (nat * dep * Q * Q * Q).
Definition gstep (ab : pstate * pstate) (g : ghost) (u : nat) (e : nat * dep) : ghost :=
  let a := fst ab in let b := snd ab in let v := fst e in let k := snd e in
  if Qleb (est (td a v)) (E1 k (est (td a u)) (rem (td a u)))
  then upd g v (Some (u, k, est (td a u), eft (td a u), eft (td b u))) else g.

Notation step3 := (stepg (pstate * pstate) ghost (step2 pstate fwd_edge) gstep).

Definition GoodG (x : (pstate * pstate) * ghost) : Prop :=
  let a := fst (fst x) in let b := snd (fst x) in let g := snd x in
  (forall v, v < nT c -> st (td a v) = st (td b v) /\ rem (td a v) = rem (td b v) /\ aw (td a v) = aw (td b v)
                         /\ af (td a v) = af (td b v) /\ est (td a v) = est (td b v) /\ rem (td a v) = R v)
  /\ (forall v, v < nT c ->
        match g v with
        | None => eft (td a v) = Ea v /\ eft (td b v) = Eb v
        | Some (u, k, eu, fa, fb) =>
            In (v, k) (t_outputs c u) /\ est (td a v) = E1 k eu (R u)
            /\ eft (td a v) = F1 k eu (R u) (R v) fa /\ eft (td b v) = F1 k eu (R u) (R v) fb
            /\ (eu <= est (td a u))%Q
        end).

Definition SatG (x : (pstate * pstate) * ghost) (u : nat) (e : nat * dep) : Prop :=
  forall eu fa fb, snd x (fst e) = Some (u, snd e, eu, fa, fb) ->
    eu = est (td (fst (fst x)) u) /\ fa = eft (td (fst (fst x)) u) /\ fb = eft (td (snd (fst x)) u).

Lemma step3_eq a b g u v k :
  step3 ((a, b), g) u (v, k) =
  ((fwd_edge a u (v, k), fwd_edge b u (v, k)),
   if Qleb (est (td a v)) (E1 k (est (td a u)) (rem (td a u)))
   then upd g v (Some (u, k, est (td a u), eft (td a u), eft (td b u))) else g).
Proof. reflexivity. Qed.

Lemma ne_of_edge u e : In e (t_outputs c u) -> fst e <> u.
Proof. intros He F. pose proof (dg_rank DAG u e He) as H. rewrite F in H. lia. Qed.

Lemma GoodG_step x u e : In e (t_outputs c u) -> GoodG x -> GoodG (step3 x u e).
Proof.
  destruct x as [[a b] g]. destruct e as [v k]. intros He (G1 & G2).
  assert (Hu : u < nT c) by (apply (src_lt u _ He)).
  assert (Hv : v < nT c) by (apply (dg_range_out DAG u _ He)).
  assert (Hne : v <> u) by (apply (ne_of_edge u _ He)).
  cbn [fst snd] in G1, G2.
  destruct (G1 u Hu) as (_ & Ru & _ & _ & Eu & RRu). destruct (G1 v Hv) as (Sv & Rv & Awv & Afv & Ev & RRv).
  rewrite step3_eq, !fwd_edge_eq, !fwd_vals_E1, !fwd_vals_F1. rewrite <- Ev, <- Eu, <- Ru, <- Rv.
  destruct (Qleb (est (td a v)) (E1 k (est (td a u)) (rem (td a u)))) eqn:Ec; [|split; assumption].
  apply Qleb_true in Ec.
  unfold GoodG. cbn [fst snd td with_td]. split.
  - intros w Hw. rewrite !upd_eq. destruct (Nat.eqb w v) eqn:Ew; [|apply G1; exact Hw].
    apply Nat.eqb_eq in Ew. subst w. cbn. repeat split; assumption.
  - intros w Hw. rewrite !upd_eq. destruct (Nat.eqb w v) eqn:Ew.
    + apply Nat.eqb_eq in Ew. subst w. cbn [est eft set_est_eft].
      assert (Euv : Nat.eqb u v = false) by (apply Nat.eqb_neq; congruence).
      rewrite upd_eq, Euv, RRu, RRv. repeat split; try reflexivity; [exact He|apply Qle_refl].
    + specialize (G2 w Hw). destruct (g w) as [[[[[u' k'] eu] fa] fb]|]; [|exact G2].
      destruct G2 as (A1 & A2 & A3 & A4 & A5). repeat split; try assumption.
      rewrite upd_eq. destruct (Nat.eqb u' v) eqn:Eu'; [|exact A5].
      apply Nat.eqb_eq in Eu'. subst u'. cbn [est set_est_eft]. lra.
Qed.

Lemma SatG_new x u e : In e (t_outputs c u) -> GoodG x -> SatG (step3 x u e) u e.
Proof.
  destruct x as [[a b] g]. destruct e as [v k]. intros He (G1 & G2).
  assert (Hu : u < nT c) by (apply (src_lt u _ He)).
  assert (Hv : v < nT c) by (apply (dg_range_out DAG u _ He)).
  assert (Hne : v <> u) by (apply (ne_of_edge u _ He)).
  cbn [fst snd] in G1, G2.
  destruct (G1 u Hu) as (_ & Ru & _ & _ & Eu & RRu). destruct (G1 v Hv) as (Sv & Rv & Awv & Afv & Ev & RRv).
  rewrite step3_eq, !fwd_edge_eq, !fwd_vals_E1. rewrite <- Ev, <- Eu, <- Ru.
  assert (Euv : Nat.eqb u v = false) by (apply Nat.eqb_neq; congruence).
  intros eu fa fb. cbn [fst snd].
  destruct (Qleb (est (td a v)) (E1 k (est (td a u)) (rem (td a u)))) eqn:Ec.
  - rewrite upd_same. intros E. injection E as <- <- <-. cbn [td with_td]. rewrite !upd_eq, Euv. repeat split.
  - intros E. exfalso. apply Qleb_false in Ec. specialize (G2 v Hv). rewrite E in G2.
    destruct G2 as (_ & A2 & _ & _ & A5). rewrite A2, RRu in Ec.
    pose proof (E1_mono k eu (est (td a u)) (R u) A5). lra.
Qed.

Lemma SatG_keep x u e u' e' : In e (t_outputs c u) -> In e' (t_outputs c u') -> GoodG x ->
  SatG x u' e' -> fst e <> u' -> SatG (step3 x u e) u' e'.
Proof.
  destruct x as [[a b] g]. destruct e as [v k]. destruct e' as [v' k']. intros He He' (G1 & G2) HS Hne'.
  assert (Hu : u < nT c) by (apply (src_lt u _ He)).
  assert (Hv : v < nT c) by (apply (dg_range_out DAG u _ He)).
  assert (Hne : v <> u) by (apply (ne_of_edge u _ He)).
  cbn [fst snd] in *.
  destruct (G1 u Hu) as (_ & Ru & _ & _ & Eu & RRu). destruct (G1 v Hv) as (Sv & Rv & Awv & Afv & Ev & RRv).
  rewrite step3_eq, !fwd_edge_eq, !fwd_vals_E1. rewrite <- Ev, <- Eu, <- Ru.
  intros eu fa fb. cbn [fst snd].
  destruct (Qleb (est (td a v)) (E1 k (est (td a u)) (rem (td a u)))) eqn:Ec; [|apply HS].
  assert (Eu'v : Nat.eqb u' v = false) by (apply Nat.eqb_neq; congruence).
  cbn [td with_td]. rewrite !upd_eq, Eu'v.
  destruct (Nat.eqb v' v) eqn:Ev'.
  - intros E. injection E as <- <- <- <- <-. repeat split.
  - intros E. apply (HS eu fa fb). exact E.
Qed.

(* the result: equal branches, and every node is explained either by its
   initial value or by the final values of the source of one incoming edge *)
Theorem forward_ghost (ia ib : pstate) :
  (forall v, v < nT c -> st (td ia v) = st (td ib v) /\ rem (td ia v) = rem (td ib v) /\ aw (td ia v) = aw (td ib v)
                         /\ af (td ia v) = af (td ib v) /\ est (td ia v) = est (td ib v) /\ rem (td ia v) = R v) ->
  (forall v, v < nT c -> eft (td ia v) = Ea v /\ eft (td ib v) = Eb v) ->
  let fa := loop pstate (t_outputs c) fwd_edge (S (nT c)) ia (heads c) in
  let fb := loop pstate (t_outputs c) fwd_edge (S (nT c)) ib (heads c) in
  (forall v, v < nT c -> st (td fa v) = st (td fb v) /\ rem (td fa v) = rem (td fb v) /\ aw (td fa v) = aw (td fb v)
                         /\ af (td fa v) = af (td fb v) /\ est (td fa v) = est (td fb v) /\ rem (td fa v) = R v)
  /\ forall v, v < nT c ->
       (eft (td fa v) = Ea v /\ eft (td fb v) = Eb v)
       \/ exists u k, In (v, k) (t_outputs c u)
            /\ eft (td fa v) = F1 k (est (td fa u)) (R u) (R v) (eft (td fa u))
            /\ eft (td fb v) = F1 k (est (td fa u)) (R u) (R v) (eft (td fb u)).
Proof.
  intros H1 H2. cbv zeta.
  set (x0 := ((ia, ib), (fun _ : nat => @None (nat * dep * Q * Q * Q)))).
  assert (G0 : GoodG x0).
  { split; [exact H1|]. intros v Hv. cbn. apply H2. exact Hv. }
  destruct (loop_result ((pstate * pstate) * ghost) (t_outputs c) step3 rank (nT c)
              (fun u e He => conj (dg_rank DAG u e He) (dg_rank_bound DAG _ (dg_range_out DAG u e He)))
              GoodG (fun _ _ => True) SatG
              (fun s0 u e He G _ => GoodG_step s0 u e He G)
              (fun _ _ _ _ _ _ => I) (fun _ _ _ _ _ _ _ _ => I)
              (fun s0 u e He G _ => SatG_new s0 u e He G)
              (fun s0 u e u' e' He He' G _ => SatG_keep s0 u e u' e' He He' G)
              (S (nT c)) x0 (heads c) G0) as (P & Hheads & HG & _ & HP).
  { intros x Hx. split; [exact I|]. unfold heads in Hx. apply filter_In in Hx. destruct Hx as [Hx _]. unfold tasks in Hx. apply in_seq in Hx.
    apply (dg_rank_bound DAG). lia. }
  { lia. }
  set (xf := loop ((pstate * pstate) * ghost) (t_outputs c) step3 (S (nT c)) x0 (heads c)) in *.
  assert (Efst : fst xf = (loop pstate (t_outputs c) fwd_edge (S (nT c)) ia (heads c),
                           loop pstate (t_outputs c) fwd_edge (S (nT c)) ib (heads c))).
  { unfold xf, x0. rewrite (loop_ghost (pstate * pstate) ghost (t_outputs c) (step2 pstate fwd_edge) gstep).
    apply loop_pair. }
  destruct HG as (G1 & G2). rewrite Efst in G1, G2. cbn [fst snd] in G1, G2.
  split; [exact G1|].
  intros v Hv. specialize (G2 v Hv).
  destruct (snd xf v) as [[[[[u k] eu] fa] fb]|] eqn:Eg; [|left; exact G2].
  right. destruct G2 as (A1 & A2 & A3 & A4 & A5).
  assert (Hu : u < nT c) by (apply (src_lt u _ A1)).
  assert (Hin : In u P) by (apply (all_in_P P Hheads (fun u0 Hu0 e He => proj1 (HP u0 Hu0 e He)) (S (rank u))); [lia|exact Hu]).
  destruct (HP u Hin (v, k) A1) as [_ HS]. unfold SatG in HS. cbn [fst snd] in HS.
  destruct (HS eu fa fb Eg) as (B1 & B2 & B3). rewrite Efst in B1, B2, B3. cbn [fst snd] in B1, B2, B3.
  exists u, k. split; [exact A1|]. subst eu fa fb. split; assumption.
Qed.
End FwdAny.

(* the backward pass writes lst / lft only *)
Definition keepsE (s s' : pstate) : Prop := forall t, est (td s' t) = est (td s t) /\ eft (td s' t) = eft (td s t).
Lemma keepsE_refl s : keepsE s s. Proof. intros t; split; reflexivity. Qed.
Lemma keepsE_trans s1 s2 s3 : keepsE s1 s2 -> keepsE s2 s3 -> keepsE s1 s3.
Proof. intros A B t. destruct (A t), (B t). split; congruence. Qed.
Lemma keepsE_bwd_edge s o e : keepsE s (bwd_edge s o e).
Proof.
  destruct e as [p k]. rewrite bwd_edge_eq. destruct (_ || _); [|apply keepsE_refl].
  intros t. cbn [td with_td]. rewrite upd_eq. destruct (Nat.eqb t p) eqn:E; [apply Nat.eqb_eq in E; subst; split; reflexivity|split; reflexivity].
Qed.
Lemma keepsE_pert_backward s : keepsE s (pert_backward c s).
Proof.
  unfold pert_backward.
  set (r := with_td s (tab (nT c) (fun t => set_lst_lft (td s t) (-1)%Q (-1)%Q) (td s))).
  assert (H0 : keepsE s r).
  { intros t. unfold r. cbn [td with_td]. rewrite tab_spec. destruct (t <? nT c); split; reflexivity. }
  fold (tails c). destruct (tails c) as [|t0 l] eqn:Et; [intros t; apply H0|]. rewrite <- Et.
  rewrite bwd_loop_eq. set (cp := max_eft r (tails c)).
  eapply keepsE_trans; [exact H0|].
  assert (H1 : keepsE r (fold_left (fun s' t => with_td s' (upd (td s') t (set_lst_lft (td s' t) (cp - rem (td s' t))%Q cp))) (tails c) (with_cpl r cp))).
  { intros t. rewrite (tails_fold_td cp). cbn [td with_cpl]. destruct (mem t (tails c)); split; reflexivity. }
  eapply keepsE_trans; [exact H1|].
  apply (loop_inv (t_inputs c) bwd_edge (fun s0 => keepsE (fold_left _ (tails c) (with_cpl r cp)) s0)); [|apply keepsE_refl].
  intros s0 o e _ Hs. eapply keepsE_trans; [exact Hs|apply keepsE_bwd_edge].
Qed.

(* ================================================================ the whole *)
Lemma pstate_ext (x y : pstate) :
  time x = time y -> status x = status y -> cpl x = cpl y -> (forall v, td x v = td y v) -> wd x = wd y -> fd x = fd y ->
  cd x = cd y -> wpc x = wpc y -> tl x = tl y -> wl x = wl y -> fl x = fl y -> cl x = cl y -> wpl x = wpl y ->
  teaml x = teaml y -> orgl x = orgl y -> costl x = costl y -> x = y.
Proof.
  intros. assert (Etd : td x = td y) by (apply functional_extensionality; assumption).
  destruct x, y. cbn in *. subst. reflexivity.
Qed.

Theorem pert_refresh_idempotent (tm : nat) (x : pstate) : (forall v, v < nT c -> (0 <= rem (td x v))%Q) ->
  let u := update_pert c tm x in update_pert c tm u = u.
Proof.
  intros Hrem u.
  set (t0 := inject_nat tm).
  assert (Hk : forall v, st (td u v) = st (td x v) /\ rem (td u v) = rem (td x v) /\ aw (td u v) = aw (td x v) /\ af (td u v) = af (td x v))
    by (intros v; apply (keeps_update_pert c tm x v)).
  set (R := fun v => rem (td u v)).
  assert (HRn : forall v, v < nT c -> (0 <= R v)%Q) by (intros v Hv; unfold R; rewrite (proj1 (proj2 (Hk v))); apply Hrem; exact Hv).
  pose proof (forward_pair t0 R HRn u x Hk (fun v => eq_refl)) as HF. cbv zeta in HF.
  destruct (backward_pair (pert_forward c t0 u) (pert_forward c t0 x) HF) as [HB Hcp].
  change (pert_backward c (pert_forward c t0 x)) with u in HB, Hcp.
  change (pert_backward c (pert_forward c t0 u)) with (update_pert c tm u) in HB, Hcp.
  apply pstate_ext; try (apply (pi_update_pert c _ _); reflexivity); try exact Hcp.
  intros v. destruct (Nat.lt_ge_cases v (nT c)) as [Hv|Hv]; [apply HB; exact Hv|].
  unfold update_pert at 1. rewrite td_high_bwd, td_high_fwd by exact Hv. reflexivity.
Qed.

(* the PERT refresh is idempotent on its own result for EVERY acyclic network
   and EVERY state: no sign condition on the remaining work (a task blocked by
   a finish-to-finish or start-to-finish link overshoots its work) *)
Theorem pert_refresh_idempotent_any (tm : nat) (x : pstate) :
  let y := update_pert c tm x in update_pert c tm y = y.
Proof.
  intros y.
  set (t0 := inject_nat tm).
  assert (Hk : forall v, st (td y v) = st (td x v) /\ rem (td y v) = rem (td x v) /\ aw (td y v) = aw (td x v) /\ af (td y v) = af (td x v))
    by (intros v; apply (keeps_update_pert c tm x v)).
  set (fa := pert_forward c t0 x). set (fb := pert_forward c t0 y).
  assert (Ey : forall v, eft (td y v) = eft (td fa v)) by (intros v; apply (keepsE_pert_backward fa v)).
  set (ia := fwd_init c t0 x). set (ib := fwd_init c t0 y).
  assert (Hin : forall v, v < nT c ->
            td ia v = (match t_inputs c v with [] => set_est_eft (td x v) t0 (t0 + rem (td x v))%Q | _ => set_est_eft (td x v) t0 (eft (td x v)) end)
            /\ td ib v = (match t_inputs c v with [] => set_est_eft (td y v) t0 (t0 + rem (td y v))%Q | _ => set_est_eft (td y v) t0 (eft (td y v)) end)).
  { intros v Hv. unfold ia, ib, fwd_init. cbn [td with_td]. rewrite !tab_spec. apply Nat.ltb_lt in Hv. rewrite Hv. split; reflexivity. }
  pose proof (forward_ghost (fun v => rem (td x v)) (fun v => eft (td ia v)) (fun v => eft (td ib v)) ia ib) as FG.
  cbv zeta in FG.
  assert (Efa : loop pstate (t_outputs c) fwd_edge (S (nT c)) ia (heads c) = fa) by (unfold fa, ia; symmetry; apply pert_forward_unfold).
  assert (Efb : loop pstate (t_outputs c) fwd_edge (S (nT c)) ib (heads c) = fb) by (unfold fb, ib; symmetry; apply pert_forward_unfold).
  rewrite Efa, Efb in FG.
  destruct FG as [G1 G2].
  { intros v Hv. destruct (Hin v Hv) as [Ea Eb]. rewrite Ea, Eb. destruct (Hk v) as (K1 & K2 & K3 & K4).
    destruct (t_inputs c v); cbn; repeat split; congruence. }
  { intros v Hv. split; reflexivity. }
  assert (Heft : forall n v, rank v < n -> v < nT c -> eft (td fa v) = eft (td fb v)).
  { induction n as [|n IH]; intros v Hr Hv; [lia|].
    destruct (G2 v Hv) as [[A B]|(u0 & k & Hout & A & B)].
    - rewrite B. destruct (Hin v Hv) as [_ Eb]. rewrite Eb.
      destruct (t_inputs c v) eqn:Ei; cbn [eft set_est_eft].
      + rewrite A. destruct (Hin v Hv) as [Ea _]. rewrite Ea, Ei. cbn [eft set_est_eft]. rewrite (proj1 (proj2 (Hk v))). reflexivity.
      + symmetry. apply Ey.
    - rewrite A, B. pose proof (dg_rank DAG u0 _ Hout) as Hrk. cbn [fst] in Hrk.
      rewrite (IH u0 ltac:(lia) (src_lt u0 _ Hout)). reflexivity. }
  assert (HF : forall v, v < nT c -> core (td fb v) (td fa v) /\ eft (td fb v) = eft (td fa v)).
  { intros v Hv. destruct (G1 v Hv) as (A1 & A2 & A3 & A4 & A5 & _). split; [unfold core; repeat split; congruence|].
    symmetry. apply (Heft (S (rank v))); [lia|exact Hv]. }
  destruct (backward_pair fb fa HF) as [HB Hcp].
  change (pert_backward c fa) with y in HB, Hcp.
  change (pert_backward c fb) with (update_pert c tm y) in HB, Hcp.
  apply pstate_ext; try (apply (pi_update_pert c _ _); reflexivity); try exact Hcp.
  intros v. destruct (Nat.lt_ge_cases v (nT c)) as [Hv|Hv]; [apply HB; exact Hv|].
  unfold update_pert at 1. rewrite td_high_bwd, td_high_fwd by exact Hv. reflexivity.
Qed.

End Stable.

(* C01: dependency gates are never violated and the lifecycle only advances. *)
From Coq Require Import List ZArith QArith Bool Arith Lia.
From PV Require Import Model.Types Model.Sim Proofs.Base Proofs.Frames Proofs.RunLemmas.
Import ListNotations.
Open Scope nat_scope.

Section C01.
Variable c : cfg.

Definition stof (s : pstate) (t : nat) : tstate := st (td s t).
Definition task_adv (s s' : pstate) : Prop := forall t, adv (stof s t) (stof s' t).

Lemma task_adv_refl s : task_adv s s. Proof. intros t; apply adv_refl. Qed.
Lemma task_adv_trans a b d : task_adv a b -> task_adv b d -> task_adv a d.
Proof. intros H1 H2 t. eapply adv_trans; [apply H1|apply H2]. Qed.

Lemma ready_gate_mono s s' t : task_adv s s' -> ready_gate c s t = true -> ready_gate c s' t = true.
Proof.
  intros Hadv. unfold ready_gate. rewrite !forallb_forall. intros H x Hx. specialize (H x Hx).
  destruct (snd x); try reflexivity.
  - eapply adv_fin; [apply Hadv|exact H].
  - eapply adv_started; [apply Hadv|exact H].
Qed.
Lemma finish_gate_mono s s' t : task_adv s s' -> finish_gate c s t = true -> finish_gate c s' t = true.
Proof.
  intros Hadv. unfold finish_gate. rewrite !forallb_forall. intros H x Hx. specialize (H x Hx).
  destruct (snd x); try reflexivity.
  - eapply adv_fin; [apply Hadv|exact H].
  - eapply adv_started; [apply Hadv|exact H].
Qed.

(* the gates only read task states *)
Lemma ready_gate_ext s s' t : (forall x, stof s x = stof s' x) -> ready_gate c s t = ready_gate c s' t.
Proof.
  intros E. unfold ready_gate. apply forallb_ext'. intros x. unfold stof in E. rewrite !E. reflexivity.
Qed.
Lemma finish_gate_ext s s' t : (forall x, stof s x = stof s' x) -> finish_gate c s t = finish_gate c s' t.
Proof.
  intros E. unfold finish_gate. apply forallb_ext'. intros x. unfold stof in E. rewrite !E. reflexivity.
Qed.

(* a legal change of the task states: states advance; a task leaves NONE only
   with an open ready gate and becomes FINISHED only with an open finish gate
   (gates evaluated in the state reached) *)
Definition Step (s s' : pstate) : Prop :=
  task_adv s s'
  /\ (forall t, stof s t = TNone -> stof s' t <> TNone -> ready_gate c s' t = true)
  /\ (forall t, stof s t <> TFinished -> stof s' t = TFinished -> finish_gate c s' t = true).

Lemma Step_refl s : Step s s.
Proof.
  split; [apply task_adv_refl|]. split; intros t H1 H2; congruence.
Qed.

Lemma Step_trans a b d : Step a b -> Step b d -> Step a d.
Proof.
  intros (A1 & A2 & A3) (B1 & B2 & B3). split; [eapply task_adv_trans; eassumption|]. split.
  - intros t Ha Hd. destruct (stof b t) eqn:Eb; try (eapply ready_gate_mono; [exact B1|apply A2; [exact Ha|congruence]]).
    apply B2; [exact Eb|exact Hd].
  - intros t Ha Hd. destruct (stof b t) eqn:Eb; try (apply B3; [congruence|exact Hd]).
    eapply finish_gate_mono; [exact B1|apply A3; [exact Ha|exact Eb]].
Qed.

Lemma Step_same s s' : (forall t, stof s' t = stof s t) -> Step s s'.
Proof.
  intros E. split; [intros t; rewrite E; apply adv_refl|]. split; intros t H1 H2; rewrite E in H2; congruence.
Qed.

(* ------------------------------------------------------------ invariant *)
Definition InvT (s : pstate) (t : nat) : Prop :=
  (exempt c t = true /\ stof s t = TFinished)
  \/ ((stof s t <> TNone -> ready_gate c s t = true) /\ (stof s t = TFinished -> finish_gate c s t = true)).
Definition Inv (s : pstate) : Prop := forall t, t < nT c -> InvT s t.

Lemma Inv_Step s s' : Step s s' -> Inv s -> Inv s'.
Proof.
  intros (A1 & A2 & A3) H t Ht. destruct (H t Ht) as [[He Hf]|[Ha Hb]].
  - left. split; [exact He|]. eapply adv_fin_eq; [apply A1|exact Hf].
  - right. split.
    + intros Hn. destruct (stof s t) eqn:Es; try (eapply ready_gate_mono; [exact A1|apply Ha; congruence]).
      apply A2; [exact Es|exact Hn].
    + intros Hf. destruct (stof s t) eqn:Es; try (apply A3; [congruence|exact Hf]).
      eapply finish_gate_mono; [exact A1|apply Hb; reflexivity].
Qed.

(* ------------------------------------------------------------- phases *)
Lemma stof_finish_task s t t' :
  stof (finish_task c s t) t' = if Nat.eqb t' t then TFinished else stof s t'.
Proof.
  unfold finish_task, stof. destruct (t_needfac c t); cbn [td with_td with_wd with_fd];
    rewrite ?upd_eq; rewrite ?Nat.eqb_refl; destruct (Nat.eqb t' t) eqn:E; cbn; try reflexivity.
Qed.

Lemma Step_finish_task s t :
  stof s t <> TNone -> finish_gate c s t = true -> Step s (finish_task c s t).
Proof.
  intros Hn Hg.
  assert (Hadv : task_adv s (finish_task c s t)).
  { intros t'. rewrite stof_finish_task. destruct (Nat.eqb t' t); [|apply adv_refl].
    destruct (stof s t'); exact I. }
  split; [exact Hadv|]. split.
  - intros t' H1 H2. rewrite stof_finish_task in H2.
    destruct (Nat.eqb t' t) eqn:E; [apply Nat.eqb_eq in E; subst; congruence|congruence].
  - intros t' H1 H2. rewrite stof_finish_task in H2.
    destruct (Nat.eqb t' t) eqn:E; [|congruence]. apply Nat.eqb_eq in E; subst t'.
    eapply finish_gate_mono; [exact Hadv|exact Hg].
Qed.

(* tasks that were WORKING stay WORKING or FINISHED *)
Definition keepsW (s0 s : pstate) : Prop :=
  forall t, stof s0 t = TWorking -> stof s t = TWorking \/ stof s t = TFinished.

Lemma finish_pass_Step s :
  Step s (fst (finish_pass c s)).
Proof.
  unfold finish_pass.
  set (cand := filter (zero_work s) (tasks c)).
  assert (Hc : forall t, In t cand -> stof s t = TWorking).
  { intros t Hin. apply filter_In in Hin. destruct Hin as [_ Hz]. unfold zero_work in Hz.
    apply andb_true_iff in Hz. destruct Hz as [Hz _]. apply is_working_true in Hz. exact Hz. }
  assert (G : forall l (acc : pstate * bool), (forall t, In t l -> In t cand) ->
             Step s (fst acc) /\ keepsW s (fst acc) ->
             let r := fold_left (fun (acc : pstate * bool) t =>
                        let (s', ch) := acc in
                        if finish_gate c s' t then (finish_task c s' t, true) else (s', ch)) l acc in
             Step s (fst r) /\ keepsW s (fst r)).
  { induction l as [|t l IH]; intros acc Hl [H1 H2]; cbn [fold_left]; [split; assumption|].
    apply IH; [intros x Hx; apply Hl; right; exact Hx|].
    destruct acc as [s' ch]. cbn [fst] in *.
    destruct (finish_gate c s' t) eqn:Eg; cbn [fst]; [|split; assumption].
    assert (Hw : stof s' t = TWorking \/ stof s' t = TFinished) by (apply H2, Hc, Hl; left; reflexivity).
    split.
    - eapply Step_trans; [exact H1|]. apply Step_finish_task; [destruct Hw as [E|E]; rewrite E; discriminate|exact Eg].
    - intros x Hx. rewrite stof_finish_task. destruct (Nat.eqb x t); [right; reflexivity|apply H2; exact Hx]. }
  apply (G cand (s, false)); [auto|]. split; [apply Step_refl|]. intros t Ht; left; exact Ht.
Qed.

Lemma finish_loop_Step fuel : forall s, Step s (finish_loop c fuel s).
Proof.
  induction fuel as [|f IH]; intros s; cbn [finish_loop]; [apply Step_refl|].
  destruct (finish_pass c s) as [s' ch] eqn:E.
  assert (H : Step s s') by (change s' with (fst (s', ch)); rewrite <- E; apply finish_pass_Step).
  destruct ch; [eapply Step_trans; [exact H|apply IH]|exact H].
Qed.

Lemma Step_check_finished s : Step s (check_finished c s).
Proof. apply finish_loop_Step. Qed.

Lemma stof_check_ready s t :
  stof (check_ready c s) t =
  if (t <? nT c) && is_none (stof s t) && ready_gate c s t then TReady else stof s t.
Proof.
  unfold check_ready, stof. cbn [td with_td]. rewrite tab_spec.
  destruct (t <? nT c); cbn [andb]; [|reflexivity].
  destruct (is_none (st (td s t)) && ready_gate c s t); reflexivity.
Qed.

Lemma Step_check_ready s : Step s (check_ready c s).
Proof.
  assert (Hadv : task_adv s (check_ready c s)).
  { intros t. rewrite stof_check_ready.
    destruct ((t <? nT c) && is_none (stof s t) && ready_gate c s t) eqn:E; [|apply adv_refl].
    apply andb_true_iff in E. destruct E as [E _]. apply andb_true_iff in E. destruct E as [_ E].
    apply is_none_true in E. rewrite E. exact I. }
  split; [exact Hadv|]. split.
  - intros t H1 H2. rewrite stof_check_ready in H2.
    destruct ((t <? nT c) && is_none (stof s t) && ready_gate c s t) eqn:E; [|congruence].
    apply andb_true_iff in E. destruct E as [_ E].
    eapply ready_gate_mono; [exact Hadv|exact E].
  - intros t H1 H2. rewrite stof_check_ready in H2.
    destruct ((t <? nT c) && is_none (stof s t) && ready_gate c s t); congruence.
Qed.

Lemma stof_cw_one s t t' :
  stof (cw_one c s t) t' = if Nat.eqb t' t && is_ready (stof s t) then TWorking else stof s t'.
Proof.
  unfold cw_one, stof.
  destruct (is_ready (st (td s t))) eqn:Er.
  - destruct (t_needfac c t); cbn [td with_td with_wd with_fd]; rewrite upd_eq;
      destruct (Nat.eqb t' t); cbn; reflexivity.
  - rewrite andb_false_r.
    destruct (is_working (st (td s t))); [|reflexivity].
    destruct (t_needfac c t && negb match aw (td s t) with [] => true | _ :: _ => false end); reflexivity.
Qed.

Lemma Step_cw_one s t : Step s (cw_one c s t).
Proof.
  assert (Hadv : task_adv s (cw_one c s t)).
  { intros t'. rewrite stof_cw_one. destruct (Nat.eqb t' t && is_ready (stof s t)) eqn:E; [|apply adv_refl].
    apply andb_true_iff in E. destruct E as [E1 E2]. apply Nat.eqb_eq in E1. subst t'.
    apply is_ready_true in E2. rewrite E2. exact I. }
  split; [exact Hadv|]. split.
  - intros t' H1 H2. rewrite stof_cw_one in H2.
    destruct (Nat.eqb t' t && is_ready (stof s t)) eqn:E; [|congruence].
    apply andb_true_iff in E. destruct E as [E1 E2]. apply Nat.eqb_eq in E1. subst t'.
    apply is_ready_true in E2. congruence.
  - intros t' H1 H2. rewrite stof_cw_one in H2.
    destruct (Nat.eqb t' t && is_ready (stof s t)); congruence.
Qed.

Lemma Step_check_working s : Step s (check_working c s).
Proof.
  unfold check_working. apply (fold_left_inv (fun x => Step s x)); [apply Step_refl|].
  intros x t H. eapply Step_trans; [exact H|apply Step_cw_one].
Qed.

Lemma Step_keeps s s' : keeps s s' -> Step s s'.
Proof. intros H. apply Step_same. intros t. apply H. Qed.
Lemma Step_ksr s s' : keeps_st_rem s s' -> Step s s'.
Proof. intros H. apply Step_same. intros t. apply H. Qed.
Lemma Step_td s s' : td s' = td s -> Step s s'.
Proof. intros E. apply Step_same. intros t. unfold stof. rewrite E. reflexivity. Qed.

Lemma Step_update o s : Step s (update c o s).
Proof.
  unfold update.
  eapply Step_trans; [apply Step_check_finished|].
  eapply Step_trans; [apply Step_td, td_product_check_state|].
  eapply Step_trans; [apply Step_td, td_check_removing|].
  eapply Step_trans; [apply Step_check_ready|].
  eapply Step_trans; [apply Step_td, td_product_check_state|].
  apply Step_keeps, keeps_update_pert.
Qed.

Lemma Step_step_allocate o s : Step s (step_allocate c o s).
Proof.
  unfold step_allocate.
  set (w := negb (mem (time s) (o_abs o))).
  assert (H1 : Step s (absence_update c w s)) by (apply Step_td, td_absence_update).
  assert (H2 : Step s (if w then allocate c o (absence_update c w s) else absence_update c w s)).
  { destruct w; [|exact H1]. eapply Step_trans; [exact H1|apply Step_ksr, ksr_allocate]. }
  destruct (w || o_auto_abs o); [|exact H2].
  eapply Step_trans; [exact H2|]. eapply Step_trans; [apply Step_check_working|].
  apply Step_td, td_product_check_state.
Qed.

Lemma Step_step_perform o s : Step s (step_perform c o s).
Proof.
  unfold step_perform. apply Step_same. intros t. unfold stof.
  destruct (negb (mem (time s) (o_abs o))); [rewrite st_perform; reflexivity|].
  destruct (o_auto_abs o); [rewrite st_perform; reflexivity|reflexivity].
Qed.

Lemma Step_step_record o s : Step s (step_record c o s).
Proof. apply Step_td. reflexivity. Qed.

Lemma Step_with_time s n : Step s (with_time s n).
Proof. apply Step_td. reflexivity. Qed.

(* ----------------------------------------------------------- initialize *)
Lemma Inv_initialize o s : o_init_state o = true -> Inv (initialize c o s).
Proof.
  intros Hs. unfold initialize. rewrite Hs.
  match goal with |- Inv (with_cd ?s2 _) => set (S2 := s2) end.
  assert (H2 : Inv S2).
  { unfold S2.
    match goal with |- Inv (check_ready c (update_pert c 0 (with_cpl ?s1 _))) => set (S1 := s1) end.
    assert (H1 : Inv (update_pert c 0 (with_cpl S1 0%Q))).
    { intros t Ht.
      assert (E : stof (update_pert c 0 (with_cpl S1 0%Q)) t = stof S1 t).
      { unfold stof. destruct (keeps_update_pert c 0 (with_cpl S1 0%Q) t) as [E _]. exact E. }
      unfold InvT. rewrite E.
      unfold S1, stof. cbn [td]. rewrite tab_spec.
      apply Nat.ltb_lt in Ht. rewrite Ht.
      destruct (o_init_log o && exempt c t) eqn:El.
      - left. apply andb_true_iff in El. split; [apply El|reflexivity].
      - right. split; intros H; cbn in H; congruence. }
    eapply Inv_Step; [apply Step_check_ready|exact H1]. }
  eapply Inv_Step; [|exact H2]. apply Step_td. reflexivity.
Qed.

Lemma Inv_initialize_resume o s : o_init_state o = false -> Inv s -> Inv (initialize c o s).
Proof.
  intros Hs H. unfold initialize. rewrite Hs.
  eapply Inv_Step; [|exact H]. apply Step_td. reflexivity.
Qed.

(* -------------------------------------------------------------- theorem *)
Theorem C01_dependencies o s :
  (o_init_state o = true \/ Inv s) ->
  Forall (fun ob : obs => Inv (snd ob)) (snd (simulate c o s)) /\ Inv (fst (simulate c o s)).
Proof.
  intros Hstart.
  destruct (simulate_trace c o s) as (tr & Htr & Esnd). rewrite Esnd.
  assert (H0 : Inv (initialize c o s)).
  { destruct Hstart as [H|H]; [apply Inv_initialize; exact H|].
    destruct (o_init_state o) eqn:E; [apply Inv_initialize; exact E|apply Inv_initialize_resume; assumption]. }
  destruct (trace_invariant c o Inv Inv Inv Inv Inv
              (fun x Hx => Inv_Step _ _ (Step_update o x) Hx)
              (fun x Hx => Inv_Step _ _ (Step_step_allocate o x) Hx)
              (fun x Hx => Inv_Step _ _ (Step_step_perform o x) Hx)
              (fun x Hx => Inv_Step _ _ (Step_step_record o x) Hx)
              (fun x Hx => Inv_Step _ _ (Step_with_time x (S (time x))) Hx)
              _ _ _ Htr H0) as [Hall (su & Hsu & x & Ex)].
  split.
  - eapply Forall_impl; [|exact Hall]. intros [[k ph] sn]. cbn. destruct ph; exact (fun h => h).
  - rewrite Ex. eapply Inv_Step; [|exact Hsu]. apply Step_td. reflexivity.
Qed.

(* the lifecycle only advances between any two consecutive snapshots *)
Theorem C01_monotone o tr : consecutive c o tr ->
  forall i a b, nth_error tr i = Some a -> nth_error tr (S i) = Some b -> task_adv (snd a) (snd b).
Proof.
  induction 1 as [|x|k s l H IH|k s l H IH|k s l H IH|k s l H IH]; intros i a b Ha Hb.
  - destruct i; discriminate.
  - destruct i; [discriminate|destruct i; discriminate].
  - destruct i; [cbn in Ha, Hb; injection Ha as <-; injection Hb as <-; apply Step_step_allocate|eapply IH; eassumption].
  - destruct i; [cbn in Ha, Hb; injection Ha as <-; injection Hb as <-; apply Step_step_perform|eapply IH; eassumption].
  - destruct i; [cbn in Ha, Hb; injection Ha as <-; injection Hb as <-; apply Step_step_record|eapply IH; eassumption].
  - destruct i; [cbn in Ha, Hb; injection Ha as <-; injection Hb as <-|eapply IH; eassumption].
    cbn [snd]. eapply task_adv_trans; [apply Step_with_time|apply Step_update].
Qed.

(* (d) the logged state is the displayed live state *)
Theorem C01_log o s t : t < nT c ->
  l_st (tl (step_record c o s) t) =
  l_st (tl s t) ++ [disp_t (negb (mem (time s) (o_abs o))) (stof s t)].
Proof.
  intros Ht. unfold step_record, record. cbn [tl]. rewrite tab_spec.
  apply Nat.ltb_lt in Ht. rewrite Ht. reflexivity.
Qed.

(* (e) exempt tasks of a fresh run are FINISHED from the start and stay so *)
Definition ExemptFin (s : pstate) : Prop := forall t, t < nT c -> exempt c t = true -> stof s t = TFinished.

Lemma ExemptFin_Step s s' : Step s s' -> ExemptFin s -> ExemptFin s'.
Proof. intros (A & _) H t Ht He. eapply adv_fin_eq; [apply A|apply H; assumption]. Qed.

Lemma ExemptFin_initialize o s : o_init_state o = true -> o_init_log o = true -> ExemptFin (initialize c o s).
Proof.
  intros Hs Hl. unfold initialize. rewrite Hs, Hl.
  match goal with |- ExemptFin (with_cd ?s2 _) => set (S2 := s2) end.
  assert (H2 : ExemptFin S2).
  { unfold S2. eapply ExemptFin_Step; [apply Step_check_ready|].
    eapply ExemptFin_Step; [apply Step_keeps, keeps_update_pert|].
    intros t Ht He. unfold stof. cbn [td with_cpl]. rewrite tab_spec.
    apply Nat.ltb_lt in Ht. rewrite Ht. cbn [andb]. rewrite He. reflexivity. }
  eapply ExemptFin_Step; [|exact H2]. apply Step_td. reflexivity.
Qed.

Theorem C01_exempt o s : o_init_state o = true -> o_init_log o = true ->
  Forall (fun ob : obs => ExemptFin (snd ob)) (snd (simulate c o s)).
Proof.
  intros Hs Hl.
  destruct (simulate_trace c o s) as (tr & Htr & Esnd). rewrite Esnd.
  destruct (trace_invariant c o ExemptFin ExemptFin ExemptFin ExemptFin ExemptFin
              (fun x Hx => ExemptFin_Step _ _ (Step_update o x) Hx)
              (fun x Hx => ExemptFin_Step _ _ (Step_step_allocate o x) Hx)
              (fun x Hx => ExemptFin_Step _ _ (Step_step_perform o x) Hx)
              (fun x Hx => ExemptFin_Step _ _ (Step_step_record o x) Hx)
              (fun x Hx => ExemptFin_Step _ _ (Step_with_time x (S (time x))) Hx)
              _ _ _ Htr (ExemptFin_initialize o s Hs Hl)) as [Hall _].
  eapply Forall_impl; [|exact Hall]. intros [[k ph] sn]. cbn. destruct ph; exact (fun h => h).
Qed.

End C01.

(* C20: duration of a sub-project task. *)
From Coq Require Import List ZArith QArith Qround Bool Arith Lia Lqa.
From PV Require Import Model.Types Model.Sim Model.Subproject Proofs.Base Proofs.C11Proof Proofs.C01Proof Proofs.C02Proof.
Import ListNotations.

(* ------------------------------------------------ configuration *)
Theorem configure_success remove r t : r_status r = StSuccess ->
  let t' := fst (configure remove r t) in
  s_work t' = inject_Z (Z.of_nat (r_time r - (if remove then simulated_absences r else 0)))
  /\ s_unit t' = r_unit r /\ s_read t' = true /\ s_remove t' = remove /\ snd (configure remove r t) = false.
Proof. intros H. unfold configure. rewrite H. cbn. repeat split. Qed.

Theorem configure_refused remove r t : r_status r <> StSuccess ->
  configure remove r t = (t, true).
Proof. intros H. unfold configure. destruct (r_status r); try reflexivity. contradiction. Qed.

Theorem rate_is_unit_ratio pu t : s_rate (set_rate pu t) = (pu / s_unit t)%Q.
Proof. reflexivity. Qed.

(* ------------------------------------------------ number of working steps *)
Open Scope Q_scope.

(* the k-th remaining work *)
Lemma steps_working_spec fuel : forall rem r n,
  steps_working fuel rem r = Some n ->
  (rem - inject_Z (Z.of_nat n) * r < tol) /\
  (forall m, (m < n)%nat -> tol <= rem - inject_Z (Z.of_nat m) * r).
Proof.
  induction fuel as [|f IH]; intros rem r n H; cbn [steps_working] in H.
  - destruct (Qltb rem tol) eqn:E; [|discriminate]. injection H as <-.
    apply Qltb_true in E. split; [change (inject_Z (Z.of_nat 0)) with 0; lra|intros m Hm; lia].
  - destruct (Qltb rem tol) eqn:E.
    + injection H as <-. apply Qltb_true in E. split; [change (inject_Z (Z.of_nat 0)) with 0; lra|intros m Hm; lia].
    + destruct (steps_working f (rem - r) r) as [k|] eqn:Ek; [|discriminate]. injection H as <-.
      destruct (IH _ _ _ Ek) as [A B]. apply Qltb_false in E.
      assert (ES : forall j : nat, inject_Z (Z.of_nat (S j)) * r == inject_Z (Z.of_nat j) * r + r).
      { intros j. rewrite Nat2Z.inj_succ. unfold Z.succ. rewrite inject_Z_plus. change (inject_Z 1) with 1. ring. }
      split.
      * rewrite ES. lra.
      * intros m Hm. destruct m as [|m]; [change (inject_Z (Z.of_nat 0)) with 0; lra|].
        specialize (B m ltac:(lia)). rewrite ES. lra.
Qed.

(* on a grid where no positive remainder is below the tolerance, the number of
   working steps is the least n with n * r >= d, i.e. ceil(d / r) *)
Definition on_grid (d r : Q) : Prop := forall n : nat, 0 < d - inject_Z (Z.of_nat n) * r -> tol <= d - inject_Z (Z.of_nat n) * r.

Theorem steps_working_is_ceiling fuel d r n : 0 < r -> 0 <= d -> on_grid d r ->
  steps_working fuel d r = Some n ->
  (d <= inject_Z (Z.of_nat n) * r) /\ (forall m, (m < n)%nat -> inject_Z (Z.of_nat m) * r < d).
Proof.
  intros Hr Hd Hg H. destruct (steps_working_spec fuel d r n H) as [A B]. split.
  - destruct (Qlt_le_dec (inject_Z (Z.of_nat n) * r) d) as [L|L]; [|exact L].
    specialize (Hg n ltac:(lra)). lra.
  - intros m Hm. specialize (B m Hm). unfold tol in B.
    assert (0 < 1 # 10000000000) by reflexivity. unfold tol in *. lra.
Qed.

Lemma least_is_ceiling d r (n : nat) : 0 < r ->
  d <= inject_Z (Z.of_nat n) * r -> (forall m, (m < n)%nat -> inject_Z (Z.of_nat m) * r < d) ->
  Z.of_nat n = Z.max 0 (Qceiling (d / r)).
Proof.
  intros Hr Hle Hlt.
  assert (Hdr : d / r <= inject_Z (Z.of_nat n)).
  { apply Qle_shift_div_r; [exact Hr|]. exact Hle. }
  assert (Hc : (Qceiling (d / r) <= Z.of_nat n)%Z).
  { apply Qceiling_resp_le in Hdr. rewrite Qceiling_Z in Hdr. exact Hdr. }
  destruct n as [|n].
  - cbn in *. lia.
  - specialize (Hlt n ltac:(lia)).
    assert (Hgt : inject_Z (Z.of_nat n) < d / r).
    { apply Qlt_shift_div_l; [exact Hr|]. exact Hlt. }
    assert (Hc2 : (Z.of_nat n < Qceiling (d / r))%Z).
    { destruct (Z_lt_le_dec (Z.of_nat n) (Qceiling (d / r))) as [L|L]; [exact L|exfalso].
      pose proof (Qle_ceiling (d / r)) as Hce.
      assert (inject_Z (Qceiling (d / r)) <= inject_Z (Z.of_nat n)) by (rewrite <- Zle_Qle; exact L).
      lra. }
    lia.
Qed.

Theorem C20_working_steps fuel d r n : 0 < r -> 0 <= d -> on_grid d r ->
  steps_working fuel d r = Some n -> Z.of_nat n = Z.max 0 (Qceiling (d / r)).
Proof.
  intros Hr Hd Hg H. destruct (steps_working_is_ceiling fuel d r n Hr Hd Hg H) as [A B].
  apply least_is_ceiling; assumption.
Qed.

(* the grid hypothesis holds for whole-step durations and unit ratios pu/su
   with denominators far below 1/tolerance *)
Lemma on_grid_integral (d : nat) (pu su : positive) : (Zpos su <= 10000000000)%Z ->
  on_grid (inject_Z (Z.of_nat d)) (Zpos pu # su).
Proof.
  intros Hsu n Hpos. unfold tol.
  set (x := inject_Z (Z.of_nat d) - inject_Z (Z.of_nat n) * (Zpos pu # su)) in *.
  assert (Ex : x == ((Z.of_nat d * Zpos su - Z.of_nat n * Zpos pu) # su)).
  { unfold x, Qeq, Qminus, Qplus, Qopp, Qmult, inject_Z. cbn. ring. }
  rewrite Ex in *. unfold Qlt, Qle in *. cbn in *.
  assert (1 <= Z.of_nat d * Z.pos su - Z.of_nat n * Z.pos pu)%Z by lia.
  nia.
Qed.
Close Scope Q_scope.

(* ------------------------------------------------ in the simulation *)
Section InRun.
Variable c : cfg.
Open Scope nat_scope.

(* an automatic task takes its unit rate off in every step in which it is
   performed, whatever is allocated (nothing is) *)
Theorem auto_task_progress o s t : t < nT c -> t_auto c t = true -> stof s t = TWorking ->
  negb (mem (time s) (o_abs o)) = true ->
  rem (td (step_perform c o s) t) = (rem (td s t) - t_rate c t)%Q.
Proof.
  intros Ht Ha Hw Hk. pose proof (rem_step_perform c o s t) as E. cbv zeta in E. unfold remof in E. rewrite E.
  apply Nat.ltb_lt in Ht. rewrite Ht, Hw, Hk. cbn [is_working andb orb]. unfold progress. rewrite Ha. reflexivity.
Qed.

(* automatic tasks are never given workers or facilities *)
Theorem auto_task_never_allocated acc t : t_auto c t = true ->
  let '(s, free, moved) := acc in
  aw (td (fst (fst (alloc_task c acc t))) t) = aw (td s t) /\ af (td (fst (fst (alloc_task c acc t))) t) = af (td s t).
Proof.
  intros Ha. destruct acc as [[s free] moved]. unfold alloc_task.
  destruct (place_for c s moved t) as [s1 m1] eqn:E. rewrite Ha. cbn [fst].
  assert (Et : td s1 = td s) by (change s1 with (fst (s1, m1)); rewrite <- E; apply Proofs.Frames.td_place_for).
  rewrite Et. split; reflexivity.
Qed.

End InRun.

(* The model's stable insertion sort: permutation, sortedness, stability. *)
From Coq Require Import List Bool Arith Lia Permutation Sorted.
From PV Require Import Model.Types Model.Sim.
Import ListNotations.

Section Sort.
Variable A : Type.
Variable le : A -> A -> bool.

Notation insert := (insert_sorted A le).
Notation sort := (stable_sort A le).

Lemma insert_perm x l : Permutation (insert x l) (x :: l).
Proof.
  induction l as [|y l IH]; cbn; [reflexivity|].
  destruct (le y x); [|reflexivity].
  rewrite IH. apply perm_swap.
Qed.

Lemma fold_insert_perm l : forall acc, Permutation (fold_left (fun a x => insert x a) l acc) (l ++ acc).
Proof.
  induction l as [|x l IH]; intros acc; cbn; [reflexivity|].
  rewrite IH. rewrite insert_perm. symmetry. apply Permutation_middle.
Qed.

Theorem stable_sort_perm l : Permutation (sort l) l.
Proof. unfold stable_sort. rewrite fold_insert_perm. rewrite app_nil_r. reflexivity. Qed.

Lemma stable_sort_in l x : In x (sort l) <-> In x l.
Proof. split; apply Permutation_in; [|symmetry]; apply stable_sort_perm. Qed.

Lemma stable_sort_nodup l : NoDup l -> NoDup (sort l).
Proof. intros H. eapply Permutation_NoDup; [symmetry; apply stable_sort_perm|exact H]. Qed.

Lemma stable_sort_length l : length (sort l) = length l.
Proof. apply Permutation_length, stable_sort_perm. Qed.

(* ---- sortedness and stability for a total preorder *)
Hypothesis le_total : forall a b, le a b = true \/ le b a = true.
Hypothesis le_trans : forall a b d, le a b = true -> le b d = true -> le a d = true.

Definition leP (a b : A) : Prop := le a b = true.

Lemma insert_sorted_sorted x l : StronglySorted leP l -> StronglySorted leP (insert x l).
Proof.
  induction 1 as [|y l Hs IH Hy]; cbn; [repeat constructor|].
  destruct (le y x) eqn:E.
  - constructor; [exact IH|].
    rewrite Forall_forall. intros z Hz. apply (Permutation_in _ (insert_perm x l)) in Hz.
    destruct Hz as [<-|Hz]; [exact E|]. rewrite Forall_forall in Hy. apply Hy. exact Hz.
  - assert (Hxy : leP x y) by (destruct (le_total x y) as [H|H]; [exact H|congruence]).
    constructor; [constructor; assumption|].
    constructor; [exact Hxy|].
    rewrite Forall_forall in *. intros z Hz. eapply le_trans; [exact Hxy|apply Hy; exact Hz].
Qed.

Lemma fold_insert_sorted l : forall acc, StronglySorted leP acc ->
  StronglySorted leP (fold_left (fun a x => insert x a) l acc).
Proof.
  induction l as [|x l IH]; intros acc H; cbn; [exact H|]. apply IH, insert_sorted_sorted, H.
Qed.

Theorem stable_sort_sorted l : StronglySorted leP (sort l).
Proof. apply fold_insert_sorted. constructor. Qed.

(* stability: for every key class the subsequence of its members is unchanged *)
Definition equiv (a b : A) : bool := le a b && le b a.

Lemma filter_insert a x l : StronglySorted leP l ->
  filter (equiv a) (insert x l) = if equiv a x then filter (equiv a) l ++ [x] else filter (equiv a) l.
Proof.
  induction 1 as [|y l Hs IH Hy]; cbn.
  - destruct (equiv a x); reflexivity.
  - destruct (le y x) eqn:E; cbn.
    + rewrite IH. destruct (equiv a y), (equiv a x); reflexivity.
    + (* x is smaller than y and everything after it: no member of x's class follows *)
      assert (Hxy : leP x y) by (destruct (le_total x y) as [H|H]; [exact H|congruence]).
      destruct (equiv a x) eqn:Eax; [|reflexivity].
      assert (Hnone : forall z, In z (y :: l) -> equiv a z = false).
      { intros z Hz. destruct (equiv a z) eqn:Eaz; [|reflexivity]. exfalso.
        unfold equiv in Eax, Eaz. apply andb_true_iff in Eax, Eaz. destruct Eax as [E1 E2], Eaz as [E3 E4].
        (* z <= a <= x, and y <= z, hence y <= x *)
        assert (Hyz : leP y z).
        { destruct Hz as [<-|Hz]; [destruct (le_total y y); assumption|].
          rewrite Forall_forall in Hy. apply Hy. exact Hz. }
        assert (le y x = true) by (eapply le_trans; [exact Hyz|eapply le_trans; eassumption]).
        congruence. }
      rewrite (Hnone y (or_introl eq_refl)).
      assert (F : filter (equiv a) l = []).
      { clear -Hnone. induction l as [|z l IH]; cbn; [reflexivity|].
        rewrite (Hnone z (or_intror (or_introl eq_refl))). apply IH.
        intros w [<-|Hw]; apply Hnone; [left; reflexivity|right; right; exact Hw]. }
      rewrite F. reflexivity.
Qed.

Lemma fold_insert_stable a l : forall acc, StronglySorted leP acc ->
  filter (equiv a) (fold_left (fun ac x => insert x ac) l acc) = filter (equiv a) acc ++ filter (equiv a) l.
Proof.
  induction l as [|x l IH]; intros acc H; cbn [fold_left filter]; [rewrite app_nil_r; reflexivity|].
  rewrite IH by (apply insert_sorted_sorted; exact H).
  rewrite filter_insert by exact H.
  destruct (equiv a x); [rewrite <- app_assoc; reflexivity|reflexivity].
Qed.

Theorem stable_sort_stable a l : filter (equiv a) (sort l) = filter (equiv a) l.
Proof. unfold stable_sort. rewrite fold_insert_stable by constructor. reflexivity. Qed.

End Sort.

(* C12 at run level: the critical-path recurrences hold in every `updated`
   snapshot of every run on a finish-to-start DAG (and after the PERT update
   inside initialize). *)
From Coq Require Import List ZArith QArith Bool Arith Lia Lqa.
From PV Require Import Model.Types Model.Sim Proofs.Base Proofs.Frames Proofs.Proj Proofs.RunLemmas Proofs.C01Proof
  Proofs.C02Proof Proofs.FinishComplete Proofs.C11Proof Proofs.C12Proof.
Import ListNotations.
Open Scope nat_scope.

Definition PertOK (c : cfg) (t0 : Q) (s' : pstate) : Prop :=
  let ES v := est (td s' v) in let EF v := eft (td s' v) in
  let LS v := lst (td s' v) in let LF v := lft (td s' v) in
  let W v := rem (td s' v) in
  (forall v, v < nT c -> (EF v == ES v + W v)%Q /\ (t0 <= ES v)%Q)
  /\ (forall v, v < nT c -> t_inputs c v = [] -> (ES v == t0)%Q)
  /\ (forall v u, v < nT c -> In (u, FS) (t_inputs c v) -> (EF u <= ES v)%Q)
  /\ (forall v, v < nT c -> t_inputs c v <> [] -> exists u, In (u, FS) (t_inputs c v) /\ (ES v == EF u)%Q)
  /\ (forall v, v < nT c -> (EF v <= cpl s')%Q)
  /\ (exists t, t < nT c /\ t_outputs c t = [] /\ (cpl s' == EF t)%Q)
  /\ (forall v, v < nT c -> (LS v == LF v - W v)%Q /\ (ES v <= LS v)%Q)
  /\ (forall v, v < nT c -> t_outputs c v = [] -> (LF v == cpl s')%Q)
  /\ (forall v o, v < nT c -> In (o, FS) (t_outputs c v) -> (LF v <= LS o)%Q)
  /\ (forall v, v < nT c -> t_outputs c v <> [] -> exists o, In (o, FS) (t_outputs c v) /\ (LF v == LS o)%Q).

Section Run.
Variable c : cfg.
Variable rank : nat -> nat.
Hypothesis DAG : fs_dag c rank.
Hypothesis Hn : 0 < nT c.

Lemma update_pert_PertOK tm s : (forall v, v < nT c -> (0 <= rem (td s v))%Q) ->
  PertOK c (inject_nat tm) (update_pert c tm s).
Proof. intros H. apply (update_pert_correct c rank DAG tm s Hn H). Qed.

(* remaining work is non-negative except, transiently, for a WORKING task
   between `performed` and the next update *)
Definition NN (s : pstate) : Prop := forall t, t < nT c -> (0 <= remof s t)%Q \/ stof s t = TWorking.

Lemma finish_gate_open s t : finish_gate c s t = true.
Proof.
  unfold finish_gate. apply forallb_forall. intros e He. rewrite (fs_in c rank DAG t e He). reflexivity.
Qed.

Lemma tol_pos : (0 < tol)%Q.
Proof. unfold tol. reflexivity. Qed.

Lemma NN_update o s : NN s -> forall t, t < nT c -> (0 <= remof (update c o s) t)%Q.
Proof.
  intros H t Ht.
  destruct (update_rem c o s t) as [[E1 E2]|(_ & _ & _ & E4)]; [|rewrite E4; lra].
  destruct (H t Ht) as [Hr|Hw]; [rewrite E1; exact Hr|].
  assert (Es : stof (update c o s) t = TWorking).
  { pose proof (proj1 (Step_update c o s) t) as A. rewrite Hw in A.
    destruct (stof (update c o s) t) eqn:E; cbn in A; try contradiction; [reflexivity|].
    assert (stof s t = TFinished) by (apply E2; reflexivity). congruence. }
  destruct (Qltb (remof (update c o s) t) tol) eqn:Ez.
  - pose proof (update_finish_complete c o s t Ht Es Ez) as Hg. rewrite finish_gate_open in Hg. discriminate.
  - apply Qltb_false in Ez. pose proof tol_pos. lra.
Qed.

Lemma update_as_pert o s : exists s5, update c o s = update_pert c (time s5) s5 /\ time s5 = time s
  /\ forall t, remof s5 t = remof (update c o s) t.
Proof.
  unfold update.
  set (s5 := product_check_state c (check_ready c (check_removing c (o_crank o) (product_check_state c (check_finished c s))))).
  exists s5. split; [reflexivity|]. split.
  - unfold s5. rewrite (pi_product_check_state c _ time), (pi_check_ready c _ time), (pi_check_removing c _ time),
      (pi_product_check_state c _ time), (pi_check_finished c _ time); reflexivity.
  - intros t. destruct (keeps_update_pert c (time s5) s5 t) as (_ & E & _). unfold remof. rewrite E. reflexivity.
Qed.

Lemma update_PertOK o s : NN s -> PertOK c (inject_nat (time s)) (update c o s).
Proof.
  intros H. destruct (update_as_pert o s) as (s5 & E & Et & Er).
  rewrite E, <- Et. apply update_pert_PertOK. intros v Hv.
  change (rem (td s5 v)) with (remof s5 v). rewrite Er. apply NN_update; assumption.
Qed.

Lemma NN_after_update o s : NN s -> NN (update c o s).
Proof. intros H t Ht. left. apply NN_update; assumption. Qed.

Lemma working_check_working s t : stof s t = TWorking -> stof (check_working c s) t = TWorking.
Proof.
  intros H. unfold check_working.
  apply (fold_left_inv (fun x => stof x t = TWorking)); [exact H|].
  intros x t' Hx. rewrite stof_cw_one. destruct (Nat.eqb t t' && is_ready (stof x t')); [reflexivity|exact Hx].
Qed.

Lemma working_step_allocate o s t : stof s t = TWorking -> stof (step_allocate c o s) t = TWorking.
Proof.
  intros H. unfold step_allocate.
  set (w := negb (mem (time s) (o_abs o))).
  assert (H1 : stof (absence_update c w s) t = TWorking) by (unfold stof; rewrite td_absence_update; exact H).
  assert (H2 : stof (if w then allocate c o (absence_update c w s) else absence_update c w s) t = TWorking).
  { destruct w; [|exact H1]. destruct (ksr_allocate c o (absence_update c true s) t) as [E _]. unfold stof. rewrite E. exact H1. }
  destruct (w || o_auto_abs o); [|exact H2].
  unfold stof. rewrite td_product_check_state. apply working_check_working. exact H2.
Qed.

Lemma NN_step_allocate o s : NN s -> NN (step_allocate c o s).
Proof.
  intros H t Ht. rewrite rem_step_allocate. destruct (H t Ht) as [Hr|Hw]; [left; exact Hr|right].
  apply working_step_allocate. exact Hw.
Qed.

Lemma NN_step_perform o s : NN s -> NN (step_perform c o s).
Proof.
  intros H t Ht. pose proof (rem_step_perform c o s t) as E. cbv zeta in E.
  assert (Est : stof (step_perform c o s) t = stof s t).
  { unfold step_perform, stof. destruct (negb (mem (time s) (o_abs o))); [rewrite st_perform; reflexivity|].
    destruct (o_auto_abs o); [rewrite st_perform; reflexivity|reflexivity]. }
  rewrite Est. destruct (is_working (stof s t)) eqn:Ew.
  - right. apply is_working_true. exact Ew.
  - rewrite andb_false_r in E. cbn [andb] in E. rewrite E. destruct (H t Ht) as [Hr|Hw]; [left; exact Hr|].
    rewrite Hw in Ew. discriminate.
Qed.

Lemma NN_td s s' : td s' = td s -> NN s -> NN s'.
Proof. intros E H t Ht. unfold remof, stof. rewrite E. apply H. exact Ht. Qed.

Hypothesis work_nonneg : forall t, t < nT c -> (0 <= t_work c t)%Q /\ (0 <= t_progress c t <= 1)%Q.

Lemma NN_initialize o s : o_init_state o = true -> NN (initialize c o s).
Proof.
  intros Hs t Ht. left. rewrite (C02_initial_rem c o s t Hs Ht).
  destruct (work_nonneg t Ht) as [A [B D]]. apply Qmult_le_0_compat; lra.
Qed.

(* every `updated` snapshot of a freshly initialised run, with the time of the snapshot *)
Theorem pert_in_every_update o s : o_init_state o = true ->
  Forall (fun ob : obs => snd (fst ob) = PUpdated -> PertOK c (inject_nat (time (snd ob))) (snd ob))
         (snd (simulate c o s)).
Proof.
  intros Hs. destruct (simulate_trace c o s) as (tr & Htr & Esnd). rewrite Esnd.
  destruct (trace_invariant c o NN (fun x => NN x /\ PertOK c (inject_nat (time x)) x) NN NN NN
              (fun x Hx => conj (NN_after_update o x Hx)
                                (eq_ind_r (fun n => PertOK c (inject_nat n) (update c o x)) (update_PertOK o x Hx) (time_update c o x)))
              (fun x Hx => NN_step_allocate o x (proj1 Hx))
              (fun x Hx => NN_step_perform o x Hx)
              (fun x Hx => NN_td x _ eq_refl Hx)
              (fun x Hx => NN_td x _ eq_refl Hx)
              _ _ _ Htr (NN_initialize o s Hs)) as [Hall _].
  eapply Forall_impl; [|exact Hall]. intros [[k ph] sn]. cbn. destruct ph; intros H E; try discriminate. apply H.
Qed.

(* the PERT update inside initialize (time 0, nothing simulated yet) *)
Theorem pert_at_time_zero s : (forall v, v < nT c -> (0 <= rem (td s v))%Q) -> PertOK c 0%Q (update_pert c 0 s).
Proof. intros H. apply (update_pert_PertOK 0 s H). Qed.

End Run.

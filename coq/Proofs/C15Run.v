(* C15: pause / resume for acyclic networks -- the side condition discharged. *)
From Coq Require Import List ZArith QArith Bool Arith Lia.
From PV Require Import Model.Types Model.Sim Proofs.Base Proofs.Frames Proofs.Proj Proofs.RunLemmas Proofs.C01Proof
  Proofs.C02Proof Proofs.C12Proof Proofs.C12Run Proofs.C13Proof Proofs.C13Run Proofs.C15Proof Proofs.C15Stable Proofs.PertStable.
Import ListNotations.
Open Scope nat_scope.

Section C15Run.
Variable c : cfg.
Variable rank : nat -> nat.

Lemma fs_dag_dag : fs_dag c rank -> dag c rank.
Proof.
  intros [A B C D E F]. constructor; assumption.
Qed.

(* __update is idempotent on its own result when no task has negative remaining work *)
Theorem update_idempotent o s : dag c rank -> PInv s ->
  (forall v, v < nT c -> (0 <= rem (td (update c o s) v))%Q) ->
  update c o (update c o s) = update c o s.
Proof.
  intros HD HP Hrem. rewrite (update_stable c o s HP).
  set (s5 := pre_pert c o s).
  assert (Eu : update c o s = update_pert c (time s5) s5) by reflexivity.
  assert (Et : time (update c o s) = time s5) by (rewrite Eu; apply (pi_update_pert c _ time); reflexivity).
  rewrite Et. rewrite Eu.
  apply (pert_refresh_idempotent c rank HD (time s5) s5).
  intros v Hv. destruct (keeps_update_pert c (time s5) s5 v) as (_ & E & _). rewrite <- E. rewrite <- Eu. apply Hrem. exact Hv.
Qed.

Theorem pause_resume_dag (o : opts) (s : pstate) (k m : nat) : k <= m -> dag c rank -> Forest c ->
  (o_init_state o = true \/ PInv s) ->
  Forall (fun ob : obs => snd (fst ob) = PUpdated -> forall v, v < nT c -> (0 <= rem (td (snd ob) v))%Q)
         (snd (simulate c (with_max o m) s)) ->
  let paused := fst (simulate c (with_max o k) s) in
  fst (simulate c (resume_opts o m) paused) = fst (simulate c (with_max o m) s).
Proof.
  intros Hkm HD HF Hstart Hrem. apply pause_resume; [exact Hkm|].
  destruct (simulate_trace c (with_max o m) s) as (tr & Htr & Esnd). rewrite Esnd in *.
  assert (H0 : PInv (initialize c (with_max o m) s)).
  { destruct (o_init_state o) eqn:E; [apply PInv_initialize; exact E|].
    destruct Hstart as [H|H]; [discriminate|]. unfold initialize. cbn [o_init_state with_max]. rewrite E. exact H. }
  destruct (trace_invariant c (with_max o m) PInv
              (fun u => PInv u /\ ((forall v, v < nT c -> (0 <= rem (td u v))%Q) -> update c o u = u)) PInv PInv PInv
              (fun x Hx => conj (PInv_update c (with_max o m) x Hx) (fun Hr => update_idempotent o x HD Hx Hr))
              (fun x Hx => PInv_step_allocate c HF (with_max o m) x (proj1 Hx))
              (fun x Hx => PInv_ext x (step_perform c (with_max o m) x)
                             ltac:(intros j; unfold step_perform; destruct (negb (mem (time x) (o_abs (with_max o m)))); [reflexivity|destruct (o_auto_abs (with_max o m)); reflexivity])
                             ltac:(unfold step_perform; destruct (negb (mem (time x) (o_abs (with_max o m)))); [reflexivity|destruct (o_auto_abs (with_max o m)); reflexivity]) Hx)
              (fun x Hx => PInv_ext x (step_record c (with_max o m) x) (fun j => eq_refl) eq_refl Hx)
              (fun x Hx => PInv_ext x (with_time x (S (time x))) (fun j => eq_refl) eq_refl Hx)
              _ _ _ Htr H0) as [Hall _].
  unfold stable_heads. rewrite Forall_forall in *. intros ob Hin Hph.
  specialize (Hall ob Hin). specialize (Hrem ob Hin Hph). destruct ob as [[j ph] sn]. cbn in *. subst ph. cbn in Hall.
  apply Hall. exact Hrem.
Qed.

(* finish-to-start networks: unconditional *)
Theorem pause_resume_fs (o : opts) (s : pstate) (k m : nat) : k <= m -> fs_dag c rank -> 0 < nT c -> Forest c ->
  (forall t, t < nT c -> (0 <= t_work c t)%Q /\ (0 <= t_progress c t <= 1)%Q) ->
  o_init_state o = true ->
  let paused := fst (simulate c (with_max o k) s) in
  fst (simulate c (resume_opts o m) paused) = fst (simulate c (with_max o m) s).
Proof.
  intros Hkm HD Hn HF Hw Hs. apply (pause_resume_dag o s k m Hkm (fs_dag_dag HD) HF (or_introl Hs)).
  destruct (simulate_trace c (with_max o m) s) as (tr & Htr & Esnd). rewrite Esnd.
  destruct (trace_invariant c (with_max o m) (NN c) (fun u => forall v, v < nT c -> (0 <= rem (td u v))%Q) (NN c) (NN c) (NN c)
              (fun x Hx v Hv => NN_update c rank HD (with_max o m) x Hx v Hv)
              (fun x Hx => NN_step_allocate c (with_max o m) x (fun t Ht => or_introl (Hx t Ht)))
              (fun x Hx => NN_step_perform c (with_max o m) x Hx)
              (fun x Hx => NN_td c x _ eq_refl Hx)
              (fun x Hx => NN_td c x _ eq_refl Hx)
              _ _ _ Htr (NN_initialize c Hw (with_max o m) s Hs)) as [Hall _].
  eapply Forall_impl; [|exact Hall]. intros [[j ph] sn]. cbn. destruct ph; intros H E; try discriminate. exact H.
Qed.

(* ... and without any condition on the remaining work: the PERT refresh is
   idempotent on its own result for every state (PertStable.pert_refresh_idempotent_any) *)
Theorem update_idempotent_any o s : dag c rank -> PInv s -> update c o (update c o s) = update c o s.
Proof.
  intros HD HP. rewrite (update_stable c o s HP).
  set (s5 := pre_pert c o s).
  assert (Eu : update c o s = update_pert c (time s5) s5) by reflexivity.
  assert (Et : time (update c o s) = time s5) by (rewrite Eu; apply (pi_update_pert c _ time); reflexivity).
  rewrite Et. rewrite Eu.
  apply (pert_refresh_idempotent_any c rank HD (time s5) s5).
Qed.

(* every acyclic network, any mix of dependency kinds: the resumed run is the
   uninterrupted run *)
Theorem pause_resume_any (o : opts) (s : pstate) (k m : nat) : k <= m -> dag c rank -> Forest c ->
  (o_init_state o = true \/ PInv s) ->
  let paused := fst (simulate c (with_max o k) s) in
  fst (simulate c (resume_opts o m) paused) = fst (simulate c (with_max o m) s).
Proof.
  intros Hkm HD HF Hstart. apply pause_resume; [exact Hkm|].
  destruct (simulate_trace c (with_max o m) s) as (tr & Htr & Esnd). rewrite Esnd in *.
  assert (H0 : PInv (initialize c (with_max o m) s)).
  { destruct (o_init_state o) eqn:E; [apply PInv_initialize; exact E|].
    destruct Hstart as [H|H]; [discriminate|]. unfold initialize. cbn [o_init_state with_max]. rewrite E. exact H. }
  destruct (trace_invariant c (with_max o m) PInv
              (fun u => PInv u /\ update c o u = u) PInv PInv PInv
              (fun x Hx => conj (PInv_update c (with_max o m) x Hx) (update_idempotent_any o x HD Hx))
              (fun x Hx => PInv_step_allocate c HF (with_max o m) x (proj1 Hx))
              (fun x Hx => PInv_ext x (step_perform c (with_max o m) x)
                             ltac:(intros j; unfold step_perform; destruct (negb (mem (time x) (o_abs (with_max o m)))); [reflexivity|destruct (o_auto_abs (with_max o m)); reflexivity])
                             ltac:(unfold step_perform; destruct (negb (mem (time x) (o_abs (with_max o m)))); [reflexivity|destruct (o_auto_abs (with_max o m)); reflexivity]) Hx)
              (fun x Hx => PInv_ext x (step_record c (with_max o m) x) (fun j => eq_refl) eq_refl Hx)
              (fun x Hx => PInv_ext x (with_time x (S (time x))) (fun j => eq_refl) eq_refl Hx)
              _ _ _ Htr H0) as [Hall _].
  unfold stable_heads. rewrite Forall_forall in *. intros ob Hin Hph.
  specialize (Hall ob Hin). destruct ob as [[j ph] sn]. cbn in *. subst ph. cbn in Hall.
  apply Hall.
Qed.

End C15Run.

(* Finite sums over Q (fold_left Qplus), up to Qeq. *)
From Coq Require Import List ZArith QArith Bool Arith Lia Lqa.
From PV Require Import Model.Types.
Import ListNotations.
Open Scope Q_scope.

Lemma fold_plus_acc l a : fold_left Qplus l a == a + qsum l.
Proof.
  unfold qsum. revert a. induction l as [|x l IH]; intros a; cbn.
  - ring.
  - rewrite IH. rewrite (IH (0 + x)). ring.
Qed.

Lemma qsum_cons x l : qsum (x :: l) == x + qsum l.
Proof. unfold qsum at 1. cbn. rewrite fold_plus_acc. ring. Qed.

Lemma qsum_app l1 l2 : qsum (l1 ++ l2) == qsum l1 + qsum l2.
Proof.
  induction l1 as [|x l IH]; cbn [app].
  - unfold qsum at 2. cbn. ring.
  - rewrite !qsum_cons, IH. ring.
Qed.

Lemma qsum_map_ext {A} (f g : A -> Q) l : (forall x, In x l -> f x == g x) -> qsum (map f l) == qsum (map g l).
Proof.
  induction l as [|x l IH]; intros H; cbn [map]; [reflexivity|].
  rewrite !qsum_cons. rewrite (H x (or_introl eq_refl)). rewrite IH; [reflexivity|].
  intros y Hy. apply H. right. exact Hy.
Qed.

Lemma qsum_map_plus {A} (f g : A -> Q) l : qsum (map (fun x => f x + g x) l) == qsum (map f l) + qsum (map g l).
Proof.
  induction l as [|x l IH]; cbn [map].
  - unfold qsum. cbn. ring.
  - rewrite !qsum_cons, IH. ring.
Qed.

Lemma qsum_map_zero {A} (l : list A) : qsum (map (fun _ => 0) l) == 0.
Proof. induction l as [|x l IH]; cbn [map]; [reflexivity|]. rewrite qsum_cons, IH. ring. Qed.

(* exchange of two finite sums *)
Lemma qsum_swap {A B} (f : A -> B -> Q) (la : list A) (lb : list B) :
  qsum (map (fun a => qsum (map (f a) lb)) la) == qsum (map (fun b => qsum (map (fun a => f a b) la)) lb).
Proof.
  induction la as [|a la IH]; cbn [map].
  - unfold qsum at 1. cbn. symmetry. apply qsum_map_zero.
  - rewrite qsum_cons, IH.
    rewrite <- qsum_map_plus. apply qsum_map_ext. intros b _. rewrite qsum_cons. reflexivity.
Qed.

Lemma qsum_map_scale {A} (k : Q) (f : A -> Q) l : qsum (map (fun x => k * f x) l) == k * qsum (map f l).
Proof.
  induction l as [|x l IH]; cbn [map].
  - unfold qsum. cbn. ring.
  - rewrite !qsum_cons, IH. ring.
Qed.

(* sum of an indicator = count *)
Lemma qsum_indicator {A} (p : A -> bool) (k : Q) l :
  qsum (map (fun x => if p x then k else 0) l) == k * inject_Z (Z.of_nat (length (filter p l))).
Proof.
  induction l as [|x l IH]; cbn [map filter].
  - unfold qsum. cbn. ring.
  - rewrite qsum_cons, IH. destruct (p x); cbn [length].
    + rewrite Nat2Z.inj_succ. unfold Z.succ. rewrite inject_Z_plus. ring.
    + ring.
Qed.

Lemma qsum_flat_map {A B} (F : B -> Q) (tw : A -> list B) (l : list A) :
  qsum (map F (flat_map tw l)) == qsum (map (fun g => qsum (map F (tw g))) l).
Proof.
  induction l as [|g l IH]; cbn [flat_map map]; [reflexivity|].
  rewrite map_app, qsum_app, qsum_cons, IH. reflexivity.
Qed.

Lemma filter_map_length {A B} (q : B -> bool) (f : A -> B) l :
  length (filter q (map f l)) = length (filter (fun x => q (f x)) l).
Proof.
  induction l as [|x l IH]; cbn [map filter]; [reflexivity|].
  destruct (q (f x)); cbn [length]; rewrite IH; reflexivity.
Qed.

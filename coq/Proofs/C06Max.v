(* C06 (c) / C11 "no inversion": __allocate is greedy in priority order.
   When a task is handed to the allocation block, every task processed before
   it (not automatic, needing no facility) is sated: no worker of the current
   free list that is eligible for it can still be added to it.  So a free
   worker a later task receives could not have been taken by any earlier task,
   and at the end no eligible free worker is left that a candidate task could
   still accept. *)
From Coq Require Import List ZArith QArith Bool Arith Lia Permutation.
From PV Require Import Model.Types Model.Sim Proofs.Base Proofs.Frames Proofs.Proj Proofs.SortProof Proofs.AllocInv.
Import ListNotations.
Open Scope nat_scope.

Lemma NoDup_app_l {A} (l1 l2 : list A) : NoDup (l1 ++ l2) -> NoDup l1.
Proof.
  induction l1 as [|x l1 IH]; cbn; intros H; [constructor|]. inversion H as [|y l Hy Hn]; subst.
  constructor; [intros F; apply Hy; apply in_or_app; left; exact F|apply IH; exact Hn].
Qed.

Section Max.
Variable c : cfg.

(* can_add without a facility reads only the task's own record *)
Lemma can_add_none_td s s' t w : td s' t = td s t -> can_add c s' t w None = can_add c s t w None.
Proof. intros E. unfold can_add. rewrite E. reflexivity. Qed.

(* once refused, refused for good while the task's worker list only grows *)
Lemma can_add_none_mono s t w w2 : can_add c s t w None = false -> can_add c (do_alloc_w s t w2) t w None = false.
Proof.
  unfold can_add, do_alloc_w. cbn [td with_td with_wd]. rewrite upd_same. cbn [st aw af set_aw].
  destruct (is_none (st (td s t)) || is_fin (st (td s t))); [reflexivity|].
  rewrite existsb_app. cbn [existsb]. rewrite orb_false_r.
  destruct (existsb (w_solo c) (aw (td s t))) eqn:E1; cbn [orb]; [reflexivity|].
  destruct (existsb (f_solo c) (af (td s t))) eqn:E2; [rewrite orb_true_r; reflexivity|].
  rewrite orb_false_r. destruct (w_solo c w2); [reflexivity|].
  assert (Hne : negb (match aw (td s t) ++ [w2] with [] => true | _ :: _ => false end) = true)
    by (destruct (aw (td s t)); reflexivity).
  rewrite Hne. destruct (w_solo c w); cbn [andb]; [reflexivity|]. exact (fun H => H).
Qed.

Definition eligible (w t : nat) : bool := has_wskill c w t && w_targets c w t.

(* t cannot take any eligible worker of the free list *)
Definition Sated (s : pstate) (fr : list nat) (t : nat) : Prop :=
  forall w, In w fr -> eligible w t = true -> can_add c s t w None = false.

Lemma Sated_frame s s' fr fr' t : td s' t = td s t -> incl fr' fr -> Sated s fr t -> Sated s' fr' t.
Proof. intros E Hi H w Hw He. rewrite (can_add_none_td s s' t w E). apply H; [apply Hi; exact Hw|exact He]. Qed.

Lemma sort_workers_incl rule t tgt l : incl (sort_workers c rule t tgt l) l /\ incl l (sort_workers c rule t tgt l).
Proof.
  pose proof (sort_workers_perm c rule t tgt l) as P. split; intros x Hx.
  - eapply Permutation_in; [exact P|exact Hx].
  - eapply Permutation_in; [apply Permutation_sym; exact P|exact Hx].
Qed.

(* the allocation block of a task without facility leaves it sated *)
Lemma alloc_workers_sated s free t :
  let r := alloc_workers c s free t in
  Sated (fst r) (snd r) t /\ incl (snd r) free
  /\ (forall t', t' <> t -> td (fst r) t' = td s t').
Proof.
  cbv zeta. unfold alloc_workers.
  set (free1 := sort_workers c (t_wrule c t) t None free).
  set (cands := filter (fun w => has_wskill c w t && w_targets c w t) free1).
  set (f := fun (acc : pstate * list nat) w =>
              let (s', fr) := acc in
              if can_add c s' t w None then (do_alloc_w s' t w, filter (fun w' => negb (Nat.eqb w' w)) fr) else acc).
  (* invariant: workers already looked at and still free are refused; the free list only shrinks; other tasks untouched *)
  assert (G : forall l (acc : pstate * list nat) (seen : list nat),
            (forall w, In w seen -> In w (snd acc) -> can_add c (fst acc) t w None = false) ->
            incl (snd acc) free1 -> (forall t', t' <> t -> td (fst acc) t' = td s t') ->
            let r := fold_left f l acc in
            (forall w, (In w seen \/ In w l) -> In w (snd r) -> can_add c (fst r) t w None = false)
            /\ incl (snd r) free1 /\ (forall t', t' <> t -> td (fst r) t' = td s t')).
  { induction l as [|w l IH]; intros [s' fr] seen Hseen Hincl Hother; cbv zeta; cbn [fold_left fst snd] in *.
    - split; [intros x [Hx|[]] Hin; apply Hseen; assumption|split; assumption].
    - assert (Ef : f (s', fr) w = if can_add c s' t w None then (do_alloc_w s' t w, filter (fun w' => negb (Nat.eqb w' w)) fr) else (s', fr)) by reflexivity.
      rewrite Ef. clear Ef. destruct (can_add c s' t w None) eqn:Eca.
      + specialize (IH (do_alloc_w s' t w, filter (fun w' => negb (Nat.eqb w' w)) fr) (w :: seen)). cbv zeta in IH. cbn [fst snd] in IH.
        destruct IH as (I1 & I2 & I3).
        * intros x [<-|Hx] Hin.
          -- apply filter_In in Hin. destruct Hin as [_ Hne]. rewrite Nat.eqb_refl in Hne. discriminate.
          -- apply filter_In in Hin. destruct Hin as [Hin _]. apply can_add_none_mono. apply Hseen; assumption.
        * intros x Hx. apply filter_In in Hx. apply Hincl. apply Hx.
        * intros t' Hne. unfold do_alloc_w. cbn [td with_td with_wd]. rewrite upd_other by exact Hne. apply Hother. exact Hne.
        * split; [|split; assumption]. intros x Hx Hin. apply I1; [|exact Hin]. destruct Hx as [Hx|[<-|Hx]]; [left; right; exact Hx|left; left; reflexivity|right; exact Hx].
      + specialize (IH (s', fr) (w :: seen)). cbv zeta in IH. cbn [fst snd] in IH.
        destruct IH as (I1 & I2 & I3).
        * intros x [<-|Hx] Hin; [exact Eca|apply Hseen; assumption].
        * exact Hincl.
        * exact Hother.
        * split; [|split; assumption]. intros x Hx Hin. apply I1; [|exact Hin]. destruct Hx as [Hx|[<-|Hx]]; [left; right; exact Hx|left; left; reflexivity|right; exact Hx]. }
  destruct (G cands (s, free1) [] (fun w F => match F with end) (incl_refl _) (fun t' _ => eq_refl)) as (G1 & G2 & G3).
  cbv zeta in *. cbn [fst snd] in *. fold f.
  split; [|split; [|exact G3]].
  - intros w Hw He. apply G1; [|exact Hw]. right. unfold cands. apply filter_In. split; [apply G2; exact Hw|exact He].
  - intros x Hx. apply (proj1 (sort_workers_incl (t_wrule c t) t None free)). apply G2. exact Hx.
Qed.

(* a task that needs a facility touches only its own record among the tasks *)
Lemma alloc_with_facility_other s free t :
  incl (snd (alloc_with_facility c s free t)) free
  /\ (forall t', t' <> t -> td (fst (alloc_with_facility c s free t)) t' = td s t').
Proof.
  unfold alloc_with_facility. destruct (t_comp c t) as [k|]; [|split; [apply incl_refl|reflexivity]].
  destruct (pw (cd s k)) as [p|]; [|split; [apply incl_refl|reflexivity]].
  match goal with |- incl (snd (fold_left ?f ?l ?a)) free /\ _ =>
    assert (G : forall l' (acc : pstate * list nat), incl (snd acc) free -> (forall t', t' <> t -> td (fst acc) t' = td s t') ->
              incl (snd (fold_left f l' acc)) free /\ (forall t', t' <> t -> td (fst (fold_left f l' acc)) t' = td s t')) end.
  { induction l' as [|fa l' IH]; intros [s' fr] H1 H2; cbn [fold_left]; [split; assumption|].
    apply IH; cbn [fst snd] in *;
      destruct (sort_workers c (t_wrule c t) t (Some p) _) as [|w r]; cbn [fst snd]; try assumption.
    - intros x Hx. apply filter_In in Hx. apply H1. apply Hx.
    - intros t' Hne. unfold do_alloc_f, do_alloc_w. cbn [td with_td with_wd with_fd]. rewrite !upd_other by exact Hne. apply H2. exact Hne. }
  apply G; [apply incl_refl|reflexivity].
Qed.

Definition plain (t : nat) : Prop := t_auto c t = false /\ t_needfac c t = false.

(* -------------------------------------------------------- the whole fold *)
Definition AllSated (s : pstate) (fr : list nat) (done : list nat) : Prop :=
  forall t, In t done -> plain t -> Sated s fr t.

Lemma alloc_task_sated acc t done : ~ In t done ->
  AllSated (fst (fst acc)) (snd (fst acc)) done ->
  let r := alloc_task c acc t in
  AllSated (fst (fst r)) (snd (fst r)) (done ++ [t]) /\ incl (snd (fst r)) (snd (fst acc)).
Proof.
  destruct acc as [[s free] moved]. cbn [fst snd]. intros Hnd H. cbv zeta. unfold alloc_task.
  destruct (place_for c s moved t) as [s1 m1] eqn:Ep.
  assert (E1 : td s1 = td s) by (change s1 with (fst (s1, m1)); rewrite <- Ep; apply td_place_for).
  assert (H1 : AllSated s1 free done).
  { intros t' Ht' Hp. apply (Sated_frame s s1 free free t'); [rewrite E1; reflexivity|apply incl_refl|apply H; assumption]. }
  destruct (t_auto c t) eqn:Ea; cbn [fst snd].
  - split; [|apply incl_refl]. intros t' Ht' Hp. apply in_app_iff in Ht'. destruct Ht' as [Ht'|[<-|[]]]; [apply H1; assumption|].
    destruct Hp as [F _]. congruence.
  - destruct (t_needfac c t) eqn:En.
    + destruct (alloc_with_facility_other s1 free t) as [I1 I2].
      destruct (alloc_with_facility c s1 free t) as [s2 f2]. cbn [fst snd] in *.
      split; [|exact I1]. intros t' Ht' Hp. apply in_app_iff in Ht'. destruct Ht' as [Ht'|[<-|[]]]; [|destruct Hp as [_ F]; congruence].
      apply (Sated_frame s1 s2 free f2 t'); [apply I2; intros ->; contradiction|exact I1|apply H1; assumption].
    + pose proof (alloc_workers_sated s1 free t) as R. cbv zeta in R.
      destruct (alloc_workers c s1 free t) as [s2 f2]. cbn [fst snd] in *. destruct R as (R1 & R2 & R3).
      split; [|exact R2]. intros t' Ht' Hp. apply in_app_iff in Ht'. destruct Ht' as [Ht'|[<-|[]]]; [|exact R1].
      apply (Sated_frame s1 s2 free f2 t'); [apply R3; intros ->; contradiction|exact R2|apply H1; assumption].
Qed.

(* C11 "no inversion": at the moment a task is handed to the allocation block,
   every task before it in priority order is sated with respect to the free
   list it will choose from *)
Theorem greedy_prefix l : NoDup l -> forall l1 t l2, l = l1 ++ t :: l2 ->
  forall s free,
  let acc := fold_left (alloc_task c) l1 (s, free, []) in
  AllSated (fst (fst acc)) (snd (fst acc)) l1.
Proof.
  intros Hnd l1 t l2 El s free. cbv zeta.
  assert (Hnd1 : NoDup l1) by (rewrite El in Hnd; apply NoDup_app_l in Hnd; exact Hnd).
  assert (G : forall l' done acc, NoDup (done ++ l') -> AllSated (fst (fst acc)) (snd (fst acc)) done ->
            AllSated (fst (fst (fold_left (alloc_task c) l' acc))) (snd (fst (fold_left (alloc_task c) l' acc))) (done ++ l')).
  { induction l' as [|x l' IH]; intros done acc Hn Ha; cbn [fold_left]; [rewrite app_nil_r; exact Ha|].
    replace (done ++ x :: l') with ((done ++ [x]) ++ l') by (rewrite <- app_assoc; reflexivity).
    apply IH; [rewrite <- app_assoc; exact Hn|].
    apply alloc_task_sated; [|exact Ha]. apply NoDup_remove_2 in Hn. intros F. apply Hn. apply in_or_app. left. exact F. }
  apply (G l1 [] (s, free, [])); [exact Hnd1|intros x []].
Qed.

(* C06 (c): after __allocate no candidate task (not automatic, no facility) can
   still take an eligible worker that is left in the free list *)
Theorem allocate_maximal o s :
  let cand := sort_tasks c (o_rule o) s (filter (fun t => is_ready (st (td s t)) || is_working (st (td s t))) (tasks c)) in
  let r := fold_left (alloc_task c) cand (s, filter (fun w => rstate_eqb (rst (wd s w)) RFree) (all_workers c), []) in
  allocate c o s = fst (fst r)
  /\ forall t, In t cand -> plain t -> forall w, In w (snd (fst r)) -> eligible w t = true ->
       can_add c (allocate c o s) t w None = false.
Proof.
  cbv zeta. split; [reflexivity|].
  set (cand := sort_tasks c (o_rule o) s (filter (fun t => is_ready (st (td s t)) || is_working (st (td s t))) (tasks c))).
  assert (Hnd : NoDup cand).
  { unfold cand, sort_tasks, sort_by. eapply Permutation_NoDup; [apply Permutation_sym; apply stable_sort_perm|].
    apply NoDup_filter. apply seq_NoDup. }
  assert (G : forall l' done acc, NoDup (done ++ l') -> AllSated (fst (fst acc)) (snd (fst acc)) done ->
            AllSated (fst (fst (fold_left (alloc_task c) l' acc))) (snd (fst (fold_left (alloc_task c) l' acc))) (done ++ l')).
  { induction l' as [|x l' IH]; intros done acc Hn Ha; cbn [fold_left]; [rewrite app_nil_r; exact Ha|].
    replace (done ++ x :: l') with ((done ++ [x]) ++ l') by (rewrite <- app_assoc; reflexivity).
    apply IH; [rewrite <- app_assoc; exact Hn|].
    apply alloc_task_sated; [|exact Ha]. apply NoDup_remove_2 in Hn. intros F. apply Hn. apply in_or_app. left. exact F. }
  intros t Ht Hp w Hw He.
  apply (G cand [] (s, filter (fun w => rstate_eqb (rst (wd s w)) RFree) (all_workers c), []) Hnd (fun x F => match F with end) t Ht Hp w Hw He).
Qed.

(* the free list at the end contains every worker that was FREE and received nothing *)
Lemma free_list_complete o s w :
  let cand := sort_tasks c (o_rule o) s (filter (fun t => is_ready (st (td s t)) || is_working (st (td s t))) (tasks c)) in
  let r := fold_left (alloc_task c) cand (s, filter (fun w => rstate_eqb (rst (wd s w)) RFree) (all_workers c), []) in
  In w (all_workers c) -> rst (wd s w) = RFree -> asg (wd (allocate c o s) w) = asg (wd s w) -> In w (snd (fst r)).
Proof.
  cbv zeta. intros Hin Hfree Hasg.
  set (cand := sort_tasks c (o_rule o) s (filter (fun t => is_ready (st (td s t)) || is_working (st (td s t))) (tasks c))) in *.
  set (free0 := filter (fun w => rstate_eqb (rst (wd s w)) RFree) (all_workers c)).
  assert (H0 : In w free0) by (apply filter_In; split; [exact Hin|rewrite Hfree; reflexivity]).
  (* a worker leaves the free list only when a task is appended to its assignment *)
  set (K := fun (acc : pstate * list nat * list nat) => In w (snd (fst acc)) \/ length (asg (wd s w)) < length (asg (wd (fst (fst acc)) w))).
  assert (Kmono : forall x t w', length (asg (wd s w)) < length (asg (wd x w)) ->
                    length (asg (wd s w)) < length (asg (wd (do_alloc_w x t w') w))).
  { intros x t w' H. unfold do_alloc_w. cbn [wd with_td with_wd]. rewrite upd_eq. destruct (Nat.eqb w w') eqn:E; [|exact H].
    apply Nat.eqb_eq in E. subst w'. cbn [asg]. rewrite app_length. lia. }
  assert (Kw : forall (acc : pstate * list nat) t, (In w (snd acc) \/ length (asg (wd s w)) < length (asg (wd (fst acc) w))) ->
               (length (asg (wd s w)) <= length (asg (wd (fst acc) w))) ->
               let r := alloc_workers c (fst acc) (snd acc) t in
               (In w (snd r) \/ length (asg (wd s w)) < length (asg (wd (fst r) w))) /\ length (asg (wd s w)) <= length (asg (wd (fst r) w))).
  { intros [x fr] t Hk Hle. cbv zeta. unfold alloc_workers. cbn [fst snd] in *.
    set (free1 := sort_workers c (t_wrule c t) t None fr).
    assert (Hk1 : In w free1 \/ length (asg (wd s w)) < length (asg (wd x w))).
    { destruct Hk as [Hk|Hk]; [left; apply (proj2 (sort_workers_incl (t_wrule c t) t None fr)); exact Hk|right; exact Hk]. }
    match goal with |- (In w (snd (fold_left ?f ?l ?a)) \/ _) /\ _ =>
      assert (G : forall l' (a' : pstate * list nat),
                (In w (snd a') \/ length (asg (wd s w)) < length (asg (wd (fst a') w))) -> length (asg (wd s w)) <= length (asg (wd (fst a') w)) ->
                (In w (snd (fold_left f l' a')) \/ length (asg (wd s w)) < length (asg (wd (fst (fold_left f l' a')) w)))
                /\ length (asg (wd s w)) <= length (asg (wd (fst (fold_left f l' a')) w))) end.
    { induction l' as [|w' l' IH]; intros [x' fr'] Hk' Hle'; cbn [fold_left]; [split; assumption|].
      apply IH; cbn [fst snd] in *; destruct (can_add c x' t w' None); cbn [fst snd]; try assumption.
      - destruct Hk' as [Hk'|Hk']; [|right; apply Kmono; exact Hk'].
        destruct (Nat.eq_dec w w') as [<-|Hne].
        + right. unfold do_alloc_w. cbn [wd with_td with_wd]. rewrite upd_same. cbn [asg]. rewrite app_length. cbn. lia.
        + left. apply filter_In. split; [exact Hk'|]. apply Nat.eqb_neq in Hne. rewrite Hne. reflexivity.
      - unfold do_alloc_w. cbn [wd with_td with_wd]. rewrite upd_eq. destruct (Nat.eqb w w') eqn:E; [|exact Hle'].
        apply Nat.eqb_eq in E. subst w'. cbn [asg]. rewrite app_length. lia. }
    apply G; assumption. }
  assert (Kf : forall (acc : pstate * list nat) t, (In w (snd acc) \/ length (asg (wd s w)) < length (asg (wd (fst acc) w))) ->
               (length (asg (wd s w)) <= length (asg (wd (fst acc) w))) ->
               let r := alloc_with_facility c (fst acc) (snd acc) t in
               (In w (snd r) \/ length (asg (wd s w)) < length (asg (wd (fst r) w))) /\ length (asg (wd s w)) <= length (asg (wd (fst r) w))).
  { intros [x fr] t Hk Hle. cbv zeta. unfold alloc_with_facility. cbn [fst snd] in *.
    destruct (t_comp c t) as [k|]; [|split; assumption]. destruct (pw (cd x k)) as [p|]; [|split; assumption].
    match goal with |- (In w (snd (fold_left ?f ?l ?a)) \/ _) /\ _ =>
      assert (G : forall l' (a' : pstate * list nat),
                (In w (snd a') \/ length (asg (wd s w)) < length (asg (wd (fst a') w))) -> length (asg (wd s w)) <= length (asg (wd (fst a') w)) ->
                (In w (snd (fold_left f l' a')) \/ length (asg (wd s w)) < length (asg (wd (fst (fold_left f l' a')) w)))
                /\ length (asg (wd s w)) <= length (asg (wd (fst (fold_left f l' a')) w))) end.
    { induction l' as [|fa l' IH]; intros [x' fr'] Hk' Hle'; cbn [fold_left]; [split; assumption|].
      apply IH; cbn [fst snd] in *; destruct (sort_workers c (t_wrule c t) t (Some p) _) as [|w' r']; cbn [fst snd]; try assumption.
      - assert (Ew : forall y, asg (wd (do_alloc_f (do_alloc_w x' t w') t fa) y) = asg (wd (do_alloc_w x' t w') y)) by reflexivity.
        rewrite Ew. destruct Hk' as [Hk'|Hk']; [|right; apply Kmono; exact Hk'].
        destruct (Nat.eq_dec w w') as [<-|Hne].
        + right. unfold do_alloc_w. cbn [wd with_td with_wd]. rewrite upd_same. cbn [asg]. rewrite app_length. cbn. lia.
        + left. apply filter_In. split; [exact Hk'|]. apply Nat.eqb_neq in Hne. rewrite Hne. reflexivity.
      - change (asg (wd (do_alloc_f (do_alloc_w x' t w') t fa) w)) with (asg (wd (do_alloc_w x' t w') w)).
        unfold do_alloc_w. cbn [wd with_td with_wd]. rewrite upd_eq. destruct (Nat.eqb w w') eqn:E; [|exact Hle'].
        apply Nat.eqb_eq in E. subst w'. cbn [asg]. rewrite app_length. lia. }
    apply G; assumption. }
  assert (Kt : forall acc t, (In w (snd (fst acc)) \/ length (asg (wd s w)) < length (asg (wd (fst (fst acc)) w))) ->
               length (asg (wd s w)) <= length (asg (wd (fst (fst acc)) w)) ->
               (In w (snd (fst (alloc_task c acc t))) \/ length (asg (wd s w)) < length (asg (wd (fst (fst (alloc_task c acc t))) w)))
               /\ length (asg (wd s w)) <= length (asg (wd (fst (fst (alloc_task c acc t))) w))).
  { intros [[x fr] mv] t Hk Hle. cbn [fst snd] in *. unfold alloc_task.
    destruct (place_for c x mv t) as [x1 m1] eqn:Ep.
    assert (Ewd : wd x1 = wd x) by (change x1 with (fst (x1, m1)); rewrite <- Ep; apply (pi_place_for c _ wd); reflexivity).
    destruct (t_auto c t); cbn [fst snd]; [rewrite Ewd; split; assumption|].
    destruct (t_needfac c t).
    - pose proof (Kf (x1, fr) t) as R. cbv zeta in R. cbn [fst snd] in R. rewrite Ewd in R. specialize (R Hk Hle).
      destruct (alloc_with_facility c x1 fr t). exact R.
    - pose proof (Kw (x1, fr) t) as R. cbv zeta in R. cbn [fst snd] in R. rewrite Ewd in R. specialize (R Hk Hle).
      destruct (alloc_workers c x1 fr t). exact R. }
  assert (G : forall l acc, (In w (snd (fst acc)) \/ length (asg (wd s w)) < length (asg (wd (fst (fst acc)) w))) ->
            length (asg (wd s w)) <= length (asg (wd (fst (fst acc)) w)) ->
            In w (snd (fst (fold_left (alloc_task c) l acc))) \/ length (asg (wd s w)) < length (asg (wd (fst (fst (fold_left (alloc_task c) l acc))) w))).
  { induction l as [|t l IH]; intros acc Hk Hle; cbn [fold_left]; [exact Hk|]. destruct (Kt acc t Hk Hle) as [A B]. apply IH; assumption. }
  destruct (G cand (s, free0, [])) as [R|R]; cbn [fst snd]; [left; exact H0|lia|exact R|].
  exfalso. change (fst (fst (fold_left (alloc_task c) cand (s, free0, [])))) with (allocate c o s) in R. rewrite Hasg in R. lia.
Qed.

End Max.

Theorem no_idle_eligible_worker (c : cfg) o s t w :
  In t (filter (fun t => is_ready (st (td s t)) || is_working (st (td s t))) (tasks c)) ->
  t_auto c t = false -> t_needfac c t = false ->
  In w (all_workers c) -> rst (wd s w) = RFree -> asg (wd (allocate c o s) w) = asg (wd s w) ->
  has_wskill c w t = true -> w_targets c w t = true ->
  can_add c (allocate c o s) t w None = false.
Proof.
  intros Ht Ha Hn Hw Hf Hasg Hs Htg.
  destruct (allocate_maximal c o s) as [_ H]. cbv zeta in H.
  apply H.
  - unfold sort_tasks, sort_by. eapply Permutation_in; [apply Permutation_sym; apply stable_sort_perm|exact Ht].
  - split; assumption.
  - apply (free_list_complete c o s w Hw Hf Hasg).
  - unfold eligible. rewrite Hs, Htg. reflexivity.
Qed.
